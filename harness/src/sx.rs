// S-expressions for the line protocol (shared shape with lean/SdModel/Model/Sx.lean)
#[derive(Clone, Debug, PartialEq, Eq)]
pub enum Sx {
    Atom(String),
    List(Vec<Sx>),
}

impl std::fmt::Display for Sx {
    fn fmt(&self, f: &mut std::fmt::Formatter<'_>) -> std::fmt::Result {
        match self {
            Sx::Atom(s) => write!(f, "{}", s),
            Sx::List(l) => {
                write!(f, "(")?;
                for (i, x) in l.iter().enumerate() {
                    if i > 0 {
                        write!(f, " ")?;
                    }
                    write!(f, "{}", x)?;
                }
                write!(f, ")")
            }
        }
    }
}

pub fn parse(s: &str) -> Option<Sx> {
    let mut toks: Vec<String> = Vec::new();
    let mut cur = String::new();
    for c in s.chars() {
        if c == '(' || c == ')' {
            if !cur.is_empty() {
                toks.push(std::mem::take(&mut cur));
            }
            toks.push(c.to_string());
        } else if c.is_whitespace() {
            if !cur.is_empty() {
                toks.push(std::mem::take(&mut cur));
            }
        } else {
            cur.push(c);
        }
    }
    if !cur.is_empty() {
        toks.push(cur);
    }
    let mut pos = 0;
    let r = parse_toks(&toks, &mut pos)?;
    if pos == toks.len() {
        Some(r)
    } else {
        None
    }
}

fn parse_toks(toks: &[String], pos: &mut usize) -> Option<Sx> {
    let t = toks.get(*pos)?;
    *pos += 1;
    if t == "(" {
        let mut items = Vec::new();
        loop {
            let n = toks.get(*pos)?;
            if n == ")" {
                *pos += 1;
                return Some(Sx::List(items));
            }
            items.push(parse_toks(toks, pos)?);
        }
    } else if t == ")" {
        None
    } else {
        Some(Sx::Atom(t.clone()))
    }
}

impl Sx {
    pub fn nat(&self) -> Option<usize> {
        match self {
            Sx::Atom(s) => s.parse().ok(),
            _ => None,
        }
    }
    pub fn nats(&self) -> Option<Vec<u32>> {
        match self {
            Sx::List(l) => l.iter().map(|x| x.nat().map(|v| v as u32)).collect(),
            _ => None,
        }
    }
    pub fn list(&self) -> Option<&[Sx]> {
        match self {
            Sx::List(l) => Some(l),
            _ => None,
        }
    }
    pub fn head(&self) -> Option<&str> {
        match self {
            Sx::List(l) => match l.first() {
                Some(Sx::Atom(s)) => Some(s.as_str()),
                _ => None,
            },
            _ => None,
        }
    }
    pub fn atom(&self) -> Option<&str> {
        match self {
            Sx::Atom(s) => Some(s.as_str()),
            _ => None,
        }
    }
}

pub fn a(s: &str) -> Sx {
    Sx::Atom(s.to_string())
}
pub fn n(v: usize) -> Sx {
    Sx::Atom(v.to_string())
}
pub fn l(v: Vec<Sx>) -> Sx {
    Sx::List(v)
}
pub fn tag(t: &str, mut v: Vec<Sx>) -> Sx {
    let mut r = vec![a(t)];
    r.append(&mut v);
    Sx::List(r)
}
pub fn nats(v: &[u32]) -> Sx {
    Sx::List(v.iter().map(|x| n(*x as usize)).collect())
}
