// Generic reader for `Debug` renderings (derive(Debug) output) into S-expressions:
//   Name(a, b)        -> (Name a b)
//   Name { f: a }     -> (Name (f a))
//   [a, b] / {a, b}   -> (list a b)      (sets/maps print with braces: `{1, 2}`, `{k: v}` -> (list (kv k v)))
//   (a, b)            -> (tuple a b)
//   atoms: identifiers, numbers, strings (quotes stripped, spaces -> _)
use crate::sx::*;

struct P<'a> {
    s: &'a [u8],
    i: usize,
}

impl<'a> P<'a> {
    fn ws(&mut self) {
        while self.i < self.s.len() && (self.s[self.i] as char).is_whitespace() {
            self.i += 1;
        }
    }
    fn peek(&mut self) -> Option<u8> {
        self.ws();
        self.s.get(self.i).copied()
    }
    fn eat(&mut self, c: u8) -> bool {
        if self.peek() == Some(c) {
            self.i += 1;
            true
        } else {
            false
        }
    }
    fn items(&mut self, close: u8) -> Vec<Sx> {
        let mut v = Vec::new();
        loop {
            if self.eat(close) {
                break;
            }
            let x = self.value();
            // `k: v` inside braces (map entry or struct field)
            if self.eat(b':') {
                let val = self.value();
                v.push(l(vec![a("kv"), x, val]));
            } else {
                v.push(x);
            }
            self.eat(b',');
            if self.i >= self.s.len() {
                break;
            }
        }
        v
    }
    fn value(&mut self) -> Sx {
        match self.peek() {
            None => a("?"),
            Some(b'[') => {
                self.i += 1;
                tag("list", self.items(b']'))
            }
            Some(b'{') => {
                self.i += 1;
                tag("list", self.items(b'}'))
            }
            Some(b'(') => {
                self.i += 1;
                tag("tuple", self.items(b')'))
            }
            Some(b'"') => {
                self.i += 1;
                let st = self.i;
                while self.i < self.s.len() && self.s[self.i] != b'"' {
                    self.i += 1;
                }
                let t = String::from_utf8_lossy(&self.s[st..self.i]).replace(' ', "_");
                self.i += 1;
                a(&format!("\"{}\"", t))
            }
            Some(_) => {
                let st = self.i;
                while self.i < self.s.len() {
                    let c = self.s[self.i] as char;
                    if c.is_alphanumeric() || c == '_' || c == '.' || c == '-' || c == '+' {
                        self.i += 1;
                    } else {
                        break;
                    }
                }
                if st == self.i {
                    self.i += 1;
                    return a("?");
                }
                let name = String::from_utf8_lossy(&self.s[st..self.i]).to_string();
                match self.peek() {
                    Some(b'(') => {
                        self.i += 1;
                        tag(&name, self.items(b')'))
                    }
                    Some(b'{') => {
                        self.i += 1;
                        tag(&name, self.items(b'}'))
                    }
                    _ => a(&name),
                }
            }
        }
    }
}

pub fn parse_debug(s: &str) -> Sx {
    let mut p = P { s: s.as_bytes(), i: 0 };
    p.value()
}

pub fn dbg<T: std::fmt::Debug>(t: &T) -> Sx {
    parse_debug(&format!("{:?}", t))
}
