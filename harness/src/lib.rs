pub mod sx;
#[allow(dead_code, unused, clippy::all)]
pub mod gen_rope;
pub mod h_slots;
pub mod h_rope;
pub mod dbg;
pub mod h_ordered;
pub mod h_unord;
pub mod wire;
pub mod h_derive;
pub mod h_wire;
#[allow(non_camel_case_types, dead_code, unused_imports, clippy::all)]
pub mod gen_shapes;

/// run `f`, mapping a panic to `None`
pub fn guarded<R>(f: impl FnOnce() -> R) -> Option<R> {
    std::panic::catch_unwind(std::panic::AssertUnwindSafe(f)).ok()
}
