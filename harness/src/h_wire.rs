// C14 oracle: serialize diff (owned) and diff_ref (borrowed) with both codecs, decode the bytes as the owned
// diff type, apply, and report the effects next to the in-memory effect.
use crate::guarded;
use crate::sx::*;
use crate::wire::Wire;
use structdiff::StructDiff;

#[cfg(all(feature = "nanoserde", feature = "serde"))]
mod bounds {
    pub trait Own: nanoserde::SerBin + nanoserde::DeBin + serde::Serialize + serde::de::DeserializeOwned {}
    impl<T: nanoserde::SerBin + nanoserde::DeBin + serde::Serialize + serde::de::DeserializeOwned> Own for T {}
    pub trait Ref: nanoserde::SerBin + serde::Serialize {}
    impl<T: nanoserde::SerBin + serde::Serialize> Ref for T {}
}
#[cfg(all(feature = "nanoserde", not(feature = "serde")))]
mod bounds {
    pub trait Own: nanoserde::SerBin + nanoserde::DeBin {}
    impl<T: nanoserde::SerBin + nanoserde::DeBin> Own for T {}
    pub trait Ref: nanoserde::SerBin {}
    impl<T: nanoserde::SerBin> Ref for T {}
}
#[cfg(all(not(feature = "nanoserde"), feature = "serde"))]
mod bounds {
    pub trait Own: serde::Serialize + serde::de::DeserializeOwned {}
    impl<T: serde::Serialize + serde::de::DeserializeOwned> Own for T {}
    pub trait Ref: serde::Serialize {}
    impl<T: serde::Serialize> Ref for T {}
}
#[cfg(all(not(feature = "nanoserde"), not(feature = "serde")))]
mod bounds {
    pub trait Own {}
    impl<T> Own for T {}
    pub trait Ref {}
    impl<T> Ref for T {}
}
pub use bounds::{Own, Ref};

fn bytes_sx(b: &[u8]) -> Sx {
    l(b.iter().map(|x| n(*x as usize)).collect())
}

fn res<T: Wire>(r: Option<T>) -> Sx {
    match r {
        Some(v) => v.to_sx(),
        None => a("panic"),
    }
}

#[allow(unused_variables, unused_mut)]
pub fn wire<T>(args: &[Sx]) -> Sx
where
    T: StructDiff + Wire + Clone + PartialEq,
    T::Diff: Clone + Own,
    for<'x> T::DiffRef<'x>: Ref,
{
    let (Some(av), Some(bv), Some(fv)) = (T::from_sx(&args[0]), T::from_sx(&args[1]), T::from_sx(&args[2])) else {
        return tag("bad-value", vec![]);
    };
    let Some(d) = guarded(|| av.diff(&bv)) else { return tag("panic", vec![]) };
    let mut out = Vec::new();
    let d0 = d.clone();
    let ac = av.clone();
    out.push(tag("mem-apply", vec![res(guarded(move || ac.apply(d0)))]));
    let d1 = d.clone();
    let fc = fv.clone();
    out.push(tag("mem-follow", vec![res(guarded(move || fc.apply(d1)))]));
    #[cfg(feature = "nanoserde")]
    {
        let bo = nanoserde::SerBin::serialize_bin(&d);
        let br = {
            let dr = av.diff_ref(&bv);
            nanoserde::SerBin::serialize_bin(&dr)
        };
        let deco: Option<Vec<T::Diff>> = guarded(|| nanoserde::DeBin::deserialize_bin(&bo).ok()).flatten();
        let decr: Option<Vec<T::Diff>> = guarded(|| nanoserde::DeBin::deserialize_bin(&br).ok()).flatten();
        let mut v = vec![tag("owned-len", vec![n(bo.len())]), tag("ref-len", vec![n(br.len())]), tag("same-bytes", vec![a(if bo == br { "true" } else { "false" })]),
            tag("owned-bytes", vec![bytes_sx(&bo)]), tag("ref-bytes", vec![bytes_sx(&br)])];
        for (name, dec) in [("owned", deco), ("ref", decr)] {
            match dec {
                None => v.push(tag(&format!("{}-decode", name), vec![a("reject")])),
                Some(dd) => {
                    let reenc = nanoserde::SerBin::serialize_bin(&dd);
                    v.push(tag(&format!("{}-reenc-len", name), vec![n(reenc.len())]));
                    let d2 = dd.clone();
                    let ac = av.clone();
                    v.push(tag(&format!("{}-apply", name), vec![res(guarded(move || ac.apply(d2)))]));
                    let fc = fv.clone();
                    v.push(tag(&format!("{}-follow", name), vec![res(guarded(move || fc.apply(dd)))]));
                }
            }
        }
        out.push(tag("nano", v));
    }
    #[cfg(feature = "serde")]
    {
        let bo = bincode::serialize(&d).unwrap();
        let br = {
            let dr = av.diff_ref(&bv);
            bincode::serialize(&dr).unwrap()
        };
        let deco: Option<Vec<T::Diff>> = guarded(|| bincode::deserialize(&bo).ok()).flatten();
        let decr: Option<Vec<T::Diff>> = guarded(|| bincode::deserialize(&br).ok()).flatten();
        let mut v = vec![tag("owned-len", vec![n(bo.len())]), tag("ref-len", vec![n(br.len())]), tag("same-bytes", vec![a(if bo == br { "true" } else { "false" })]),
            tag("owned-bytes", vec![bytes_sx(&bo)]), tag("ref-bytes", vec![bytes_sx(&br)])];
        for (name, dec) in [("owned", deco), ("ref", decr)] {
            match dec {
                None => v.push(tag(&format!("{}-decode", name), vec![a("reject")])),
                Some(dd) => {
                    let reenc = bincode::serialize(&dd).unwrap();
                    v.push(tag(&format!("{}-reenc-len", name), vec![n(reenc.len())]));
                    let d2 = dd.clone();
                    let ac = av.clone();
                    v.push(tag(&format!("{}-apply", name), vec![res(guarded(move || ac.apply(d2)))]));
                    let fc = fv.clone();
                    v.push(tag(&format!("{}-follow", name), vec![res(guarded(move || fc.apply(dd)))]));
                }
            }
        }
        out.push(tag("bincode", v));
    }
    tag("ok", out)
}

/// `(derive <id> wiredec <fmt> (bytes) <base>)`: decode arbitrary bytes as the OWNED diff list of the type, re-encode,
/// apply to the base (C14: the byte-level tie of the generated diff enums with the Lean framing model)
#[allow(unused_variables)]
pub fn wire_dec<T>(args: &[Sx]) -> Sx
where
    T: StructDiff + Wire + Clone + PartialEq,
    T::Diff: Clone + Own,
{
    let (Some(fmt), Some(bs), Some(base)) = (args.get(0), args.get(1).and_then(|b| b.list()), args.get(2).and_then(T::from_sx)) else {
        return tag("bad-value", vec![]);
    };
    let Some(bytes) = bs.iter().map(|x| x.nat().map(|v| v as u8)).collect::<Option<Vec<u8>>>() else {
        return tag("bad-value", vec![]);
    };
    #[cfg(feature = "nanoserde")]
    if *fmt == a("nano") {
        let dec: Option<Vec<T::Diff>> = guarded(|| nanoserde::DeBin::deserialize_bin(&bytes).ok()).flatten();
        return match dec {
            None => tag("reject", vec![]),
            Some(dd) => {
                let reenc = nanoserde::SerBin::serialize_bin(&dd);
                tag("ok", vec![tag("entries", vec![n(dd.len())]), tag("reenc", vec![bytes_sx(&reenc)]), tag("applied", vec![res(guarded(move || base.apply(dd)))])])
            }
        };
    }
    #[cfg(feature = "serde")]
    if *fmt == a("bincode") {
        let dec: Option<Vec<T::Diff>> = guarded(|| bincode::deserialize(&bytes).ok()).flatten();
        return match dec {
            None => tag("reject", vec![]),
            Some(dd) => {
                let reenc = bincode::serialize(&dd).unwrap();
                tag("ok", vec![tag("entries", vec![n(dd.len())]), tag("reenc", vec![bytes_sx(&reenc)]), tag("applied", vec![res(guarded(move || base.apply(dd)))])])
            }
        };
    }
    tag("codec-missing", vec![])
}
