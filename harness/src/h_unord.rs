// C11 / C12 / C19 / C20 oracle: the real unordered array-like and flat map-like back ends, called directly.
use crate::dbg::dbg;
use crate::guarded;
use crate::sx::*;
use std::collections::LinkedList;
use structdiff::collections::unordered_array_like as ual;
use structdiff::collections::unordered_map_like as uml;

fn hex(b: &[u8]) -> Sx {
    l(b.iter().map(|x| n(*x as usize)).collect())
}

/// bytes of the borrowed diff (as computed) and of its owned conversion, in every codec compiled in
#[allow(unused_variables, unused_mut)]
fn uarr_wire(out: &mut Vec<Sx>, r: &ual::UnorderedArrayLikeDiff<&u32>, owned: &ual::UnorderedArrayLikeDiff<u32>) {
    #[cfg(feature = "nanoserde")]
    {
        use nanoserde::SerBin;
        out.push(tag("nano-owned", vec![hex(&SerBin::serialize_bin(owned))]));
        out.push(tag("nano-ref", vec![hex(&SerBin::serialize_bin(&r))]));
    }
    #[cfg(feature = "serde")]
    {
        out.push(tag("bincode-owned", vec![hex(&bincode::serialize(owned).unwrap())]));
        out.push(tag("bincode-ref", vec![hex(&bincode::serialize(r).unwrap())]));
    }
}

#[allow(unused_variables, unused_mut)]
fn umap_wire(out: &mut Vec<Sx>, r: &uml::UnorderedMapLikeDiff<&u32, &u32>, owned: &uml::UnorderedMapLikeDiff<u32, u32>) {
    #[cfg(feature = "nanoserde")]
    {
        use nanoserde::SerBin;
        out.push(tag("nano-owned", vec![hex(&SerBin::serialize_bin(owned))]));
        out.push(tag("nano-ref", vec![hex(&SerBin::serialize_bin(&r))]));
    }
    #[cfg(feature = "serde")]
    {
        out.push(tag("bincode-owned", vec![hex(&bincode::serialize(owned).unwrap())]));
        out.push(tag("bincode-ref", vec![hex(&bincode::serialize(r).unwrap())]));
    }
}

/// `(uarr-dec nano|bincode (bytes))`, `(umap-dec nano|bincode (bytes))` : the REAL decoder on given bytes:
/// `(ok <Debug of the decoded owned diff> (reenc (bytes)))` or `(reject)`
#[allow(unused_variables)]
pub fn wire_dec(which: &str, rest: &[Sx]) -> Sx {
    let fmt = rest[0].atom().unwrap_or("").to_string();
    let bytes: Vec<u8> = rest[1].nats().unwrap().into_iter().map(|x| x as u8).collect();
    if which == "uarr-dec" {
        let d: Option<ual::UnorderedArrayLikeDiff<u32>> = match fmt.as_str() {
            #[cfg(feature = "nanoserde")]
            "nano" => guarded(|| nanoserde::DeBin::deserialize_bin(&bytes).ok()).flatten(),
            #[cfg(feature = "serde")]
            "bincode" => guarded(|| bincode::deserialize(&bytes).ok()).flatten(),
            _ => return tag("codec-missing", vec![]),
        };
        match d {
            None => tag("reject", vec![]),
            Some(d) => {
                let re: Vec<u8> = match fmt.as_str() {
                    #[cfg(feature = "nanoserde")]
                    "nano" => nanoserde::SerBin::serialize_bin(&d),
                    #[cfg(feature = "serde")]
                    "bincode" => bincode::serialize(&d).unwrap(),
                    _ => vec![],
                };
                tag("ok", vec![dbg(&d), tag("reenc", vec![hex(&re)])])
            }
        }
    } else {
        let d: Option<uml::UnorderedMapLikeDiff<u32, u32>> = match fmt.as_str() {
            #[cfg(feature = "nanoserde")]
            "nano" => guarded(|| nanoserde::DeBin::deserialize_bin(&bytes).ok()).flatten(),
            #[cfg(feature = "serde")]
            "bincode" => guarded(|| bincode::deserialize(&bytes).ok()).flatten(),
            _ => return tag("codec-missing", vec![]),
        };
        match d {
            None => tag("reject", vec![]),
            Some(d) => {
                let re: Vec<u8> = match fmt.as_str() {
                    #[cfg(feature = "nanoserde")]
                    "nano" => nanoserde::SerBin::serialize_bin(&d),
                    #[cfg(feature = "serde")]
                    "bincode" => bincode::serialize(&d).unwrap(),
                    _ => vec![],
                };
                tag("ok", vec![dbg(&d), tag("reenc", vec![hex(&re)])])
            }
        }
    }
}

fn pairs(x: &Sx) -> Option<Vec<(u32, u32)>> {
    x.list()?
        .iter()
        .map(|p| {
            let l = p.list()?;
            Some((l[0].nat()? as u32, l[1].nat()? as u32))
        })
        .collect()
}

fn pairs_sx(v: &[(u32, u32)]) -> Sx {
    l(v.iter().map(|(k, w)| l(vec![n(*k as usize), n(*w as usize)])).collect())
}

/// `(uarr-cmp prev cur)` : diff + the diff applied to prev (Vec and LinkedList)
/// `(uarr-apply3 p c b)` : diff(p, c) applied to an unrelated base b
pub fn uarr(which: &str, rest: &[Sx]) -> Sx {
    let p = rest[0].nats().unwrap();
    let c = rest[1].nats().unwrap();
    let base = if which == "uarr-apply3" { rest[2].nats().unwrap() } else { p.clone() };
    guarded(move || {
        let d = ual::unordered_hashcmp(p.iter(), c.iter());
        match d {
            None => tag("none", vec![]),
            Some(d) => {
                let shown = dbg(&d);
                let mut wire: Vec<Sx> = vec![];
                let owned: ual::UnorderedArrayLikeDiff<u32> = d.clone().into();
                uarr_wire(&mut wire, &d, &owned);
                let o2 = owned.clone();
                let b2 = base.clone();
                let applied = guarded(move || ual::apply_unordered_hashdiffs(b2, o2).collect::<Vec<u32>>());
                let bl: LinkedList<u32> = base.iter().cloned().collect();
                let applied_ll = guarded(move || ual::apply_unordered_hashdiffs(bl, owned).collect::<LinkedList<u32>>());
                tag(
                    "some",
                    vec![
                        shown,
                        match applied {
                            Some(mut v) => {
                                v.sort();
                                tag("applied", vec![nats(&v)])
                            }
                            None => tag("applied-panic", vec![]),
                        },
                        match applied_ll {
                            Some(v) => {
                                let mut v: Vec<u32> = v.into_iter().collect();
                                v.sort();
                                tag("applied-ll", vec![nats(&v)])
                            }
                            None => tag("applied-ll-panic", vec![]),
                        },
                        tag("wire", wire),
                    ],
                )
            }
        }
    })
    .unwrap_or_else(|| tag("panic", vec![]))
}

/// `(umap-cmp ko|kv prev cur)`, `(umap-apply3 ko|kv p c b)` ; maps are given as lists of (k v) pairs
pub fn umap(which: &str, rest: &[Sx]) -> Sx {
    let key_only = rest[0].atom() == Some("ko");
    let p = pairs(&rest[1]).unwrap();
    let c = pairs(&rest[2]).unwrap();
    let base = if which == "umap-apply3" { pairs(&rest[3]).unwrap() } else { p.clone() };
    guarded(move || {
        fn pr(t: &(u32, u32)) -> (&u32, &u32) {
            (&t.0, &t.1)
        }
        let f: fn(&(u32, u32)) -> (&u32, &u32) = pr;
        let d = uml::unordered_hashcmp(p.iter().map(f), c.iter().map(f), key_only);
        match d {
            None => tag("none", vec![]),
            Some(d) => {
                let shown = dbg(&d);
                let mut wire: Vec<Sx> = vec![];
                let owned: uml::UnorderedMapLikeDiff<u32, u32> = d.clone().into();
                umap_wire(&mut wire, &d, &owned);
                let o3 = owned.clone();
                let owned = o3;
                let applied = guarded(move || uml::apply_unordered_hashdiffs(base, owned).collect::<Vec<(u32, u32)>>());
                tag(
                    "some",
                    vec![
                        shown,
                        match applied {
                            Some(mut v) => {
                                v.sort();
                                tag("applied", vec![pairs_sx(&v)])
                            }
                            None => tag("applied-panic", vec![]),
                        },
                        tag("wire", wire),
                    ],
                )
            }
        }
    })
    .unwrap_or_else(|| tag("panic", vec![]))
}
