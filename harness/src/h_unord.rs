// C11 / C12 / C19 / C20 oracle: the real unordered array-like and flat map-like back ends, called directly.
use crate::dbg::dbg;
use crate::guarded;
use crate::sx::*;
use std::collections::LinkedList;
use structdiff::collections::unordered_array_like as ual;
use structdiff::collections::unordered_map_like as uml;

fn pairs(x: &Sx) -> Option<Vec<(u32, u32)>> {
    x.list()?
        .iter()
        .map(|p| {
            let l = p.list()?;
            Some((l[0].nat()? as u32, l[1].nat()? as u32))
        })
        .collect()
}

fn pairs_sx(v: &[(u32, u32)]) -> Sx {
    l(v.iter().map(|(k, w)| l(vec![n(*k as usize), n(*w as usize)])).collect())
}

/// `(uarr-cmp prev cur)` : diff + the diff applied to prev (Vec and LinkedList)
/// `(uarr-apply3 p c b)` : diff(p, c) applied to an unrelated base b
pub fn uarr(which: &str, rest: &[Sx]) -> Sx {
    let p = rest[0].nats().unwrap();
    let c = rest[1].nats().unwrap();
    let base = if which == "uarr-apply3" { rest[2].nats().unwrap() } else { p.clone() };
    guarded(move || {
        let d = ual::unordered_hashcmp(p.iter(), c.iter());
        match d {
            None => tag("none", vec![]),
            Some(d) => {
                let shown = dbg(&d);
                let owned: ual::UnorderedArrayLikeDiff<u32> = d.into();
                let o2 = owned.clone();
                let b2 = base.clone();
                let applied = guarded(move || ual::apply_unordered_hashdiffs(b2, o2).collect::<Vec<u32>>());
                let bl: LinkedList<u32> = base.iter().cloned().collect();
                let applied_ll = guarded(move || ual::apply_unordered_hashdiffs(bl, owned).collect::<LinkedList<u32>>());
                tag(
                    "some",
                    vec![
                        shown,
                        match applied {
                            Some(mut v) => {
                                v.sort();
                                tag("applied", vec![nats(&v)])
                            }
                            None => tag("applied-panic", vec![]),
                        },
                        match applied_ll {
                            Some(v) => {
                                let mut v: Vec<u32> = v.into_iter().collect();
                                v.sort();
                                tag("applied-ll", vec![nats(&v)])
                            }
                            None => tag("applied-ll-panic", vec![]),
                        },
                    ],
                )
            }
        }
    })
    .unwrap_or_else(|| tag("panic", vec![]))
}

/// `(umap-cmp ko|kv prev cur)`, `(umap-apply3 ko|kv p c b)` ; maps are given as lists of (k v) pairs
pub fn umap(which: &str, rest: &[Sx]) -> Sx {
    let key_only = rest[0].atom() == Some("ko");
    let p = pairs(&rest[1]).unwrap();
    let c = pairs(&rest[2]).unwrap();
    let base = if which == "umap-apply3" { pairs(&rest[3]).unwrap() } else { p.clone() };
    guarded(move || {
        fn pr(t: &(u32, u32)) -> (&u32, &u32) {
            (&t.0, &t.1)
        }
        let f: fn(&(u32, u32)) -> (&u32, &u32) = pr;
        let d = uml::unordered_hashcmp(p.iter().map(f), c.iter().map(f), key_only);
        match d {
            None => tag("none", vec![]),
            Some(d) => {
                let shown = dbg(&d);
                let owned: uml::UnorderedMapLikeDiff<u32, u32> = d.into();
                let applied = guarded(move || uml::apply_unordered_hashdiffs(base, owned).collect::<Vec<(u32, u32)>>());
                tag(
                    "some",
                    vec![
                        shown,
                        match applied {
                            Some(mut v) => {
                                v.sort();
                                tag("applied", vec![pairs_sx(&v)])
                            }
                            None => tag("applied-panic", vec![]),
                        },
                    ],
                )
            }
        }
    })
    .unwrap_or_else(|| tag("panic", vec![]))
}
