// protocol values <-> Rust values of the generated shapes
use crate::sx::*;
use std::collections::{BTreeMap, BTreeSet, HashMap, HashSet, LinkedList, VecDeque};

pub trait Wire: Sized {
    const MAP_TAG: &'static str = "m";
    fn from_sx(x: &Sx) -> Option<Self>;
    fn to_sx(&self) -> Sx;
}

impl Wire for u32 {
    const MAP_TAG: &'static str = "p";
    fn from_sx(x: &Sx) -> Option<Self> {
        x.nat().map(|v| v as u32)
    }
    fn to_sx(&self) -> Sx {
        n(*self as usize)
    }
}

/// map values wider than their protocol range (the in-memory `(u32, u64)` pair is padded to 16 bytes, its encoding takes 12)
impl Wire for u64 {
    const MAP_TAG: &'static str = "p";
    fn from_sx(x: &Sx) -> Option<Self> {
        x.nat().map(|v| v as u64)
    }
    fn to_sx(&self) -> Sx {
        n(*self as usize)
    }
}

/// `f64` atoms: protocol code 999999 = NaN, 1000001 = -0.0, any other n = n as f64 (the model's `nanCode` / `negZero`)
impl Wire for f64 {
    fn from_sx(x: &Sx) -> Option<Self> {
        let v = x.nat()?;
        Some(match v {
            999_999 => f64::NAN,
            1_000_001 => -0.0_f64,
            n => n as f64,
        })
    }
    fn to_sx(&self) -> Sx {
        if self.is_nan() {
            n(999_999)
        } else if *self == 0.0 && self.is_sign_negative() {
            n(1_000_001)
        } else {
            n(*self as usize)
        }
    }
}

impl<T: Wire> Wire for Option<T> {
    fn from_sx(x: &Sx) -> Option<Self> {
        match x {
            Sx::Atom(s) if s == "none" => Some(None),
            Sx::List(l) if l.len() == 2 && l[0].atom() == Some("some") => Some(Some(T::from_sx(&l[1])?)),
            _ => None,
        }
    }
    fn to_sx(&self) -> Sx {
        match self {
            None => a("none"),
            Some(v) => tag("some", vec![v.to_sx()]),
        }
    }
}

fn seq_from<T: Wire, C: FromIterator<T>>(x: &Sx) -> Option<C> {
    let l = x.list()?;
    l[1..].iter().map(|e| T::from_sx(e)).collect()
}

macro_rules! seq_impl {
    ($c:ident, $sorted:expr) => {
        impl Wire for $c<u32> {
            fn from_sx(x: &Sx) -> Option<Self> {
                seq_from::<u32, $c<u32>>(x)
            }
            fn to_sx(&self) -> Sx {
                let mut v: Vec<u32> = self.iter().cloned().collect();
                if $sorted {
                    v.sort();
                }
                tag("l", v.iter().map(|e| e.to_sx()).collect())
            }
        }
    };
}
seq_impl!(Vec, false);
seq_impl!(VecDeque, false);
seq_impl!(LinkedList, false);
seq_impl!(HashSet, true);
seq_impl!(BTreeSet, true);

macro_rules! map_impl {
    ($c:ident) => {
        impl<V: Wire> Wire for $c<u32, V> {
            fn from_sx(x: &Sx) -> Option<Self> {
                let l = x.list()?;
                l[1..]
                    .iter()
                    .map(|e| {
                        let kv = e.list()?;
                        Some((kv[0].nat()? as u32, V::from_sx(&kv[1])?))
                    })
                    .collect()
            }
            fn to_sx(&self) -> Sx {
                let mut v: Vec<(&u32, &V)> = self.iter().collect();
                v.sort_by_key(|e| *e.0);
                tag(V::MAP_TAG, v.iter().map(|(k, w)| l(vec![k.to_sx(), w.to_sx()])).collect())
            }
        }
    };
}
map_impl!(HashMap);
map_impl!(BTreeMap);
