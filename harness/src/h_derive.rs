// C01-C06 / C13 / C15 oracle: generic runner over the generated shapes (real derive output)
use crate::dbg::dbg;
use crate::guarded;
use crate::sx::*;
use crate::wire::Wire;
use std::fmt::Debug;
use structdiff::StructDiff;

#[cfg(feature = "debug_diffs")]
pub trait DiffShow: Debug {}
#[cfg(feature = "debug_diffs")]
impl<T: Debug> DiffShow for T {}
#[cfg(feature = "debug_diffs")]
fn show<D: DiffShow>(d: &D) -> Sx {
    dbg(d)
}
#[cfg(not(feature = "debug_diffs"))]
pub trait DiffShow {}
#[cfg(not(feature = "debug_diffs"))]
impl<T> DiffShow for T {}
#[cfg(not(feature = "debug_diffs"))]
fn show<D: DiffShow>(_d: &D) -> Sx {
    a("opaque")
}

fn res<T: Wire>(r: Option<T>) -> Sx {
    match r {
        Some(v) => v.to_sx(),
        None => a("panic"),
    }
}

pub fn ret_sx<D: DiffShow>(r: Option<D>) -> Sx {
    match r {
        None => a("none"),
        Some(d) => tag("some", vec![show(&vec![d])]),
    }
}

pub fn run<T>(op: &str, args: &[Sx]) -> Sx
where
    T: StructDiff + Wire + Clone + PartialEq + Debug,
    T::Diff: DiffShow + Clone,
{
    match op {
        "pair" => {
            let (Some(av), Some(bv), Some(fv)) = (T::from_sx(&args[0]), T::from_sx(&args[1]), T::from_sx(&args[2])) else {
                return tag("bad-value", vec![]);
            };
            let (a0, b0) = (av.clone(), bv.clone());
            let Some(d) = guarded(|| av.diff(&bv)) else { return tag("panic", vec![]) };
            // renderings, not ==: a NaN field is != itself without having been modified
            let pure_diff = av.to_sx() == a0.to_sx() && bv.to_sx() == b0.to_sx();
            let Some(dr) = guarded(|| av.diff_ref(&bv).into_iter().map(Into::into).collect::<Vec<T::Diff>>()) else {
                return tag("panic", vec![]);
            };
            let pure_diff_ref = av.to_sx() == a0.to_sx() && bv.to_sx() == b0.to_sx();
            let d1 = d.clone();
            let ac = av.clone();
            let apply = guarded(move || ac.apply(d1));
            let d2 = d.clone();
            let applyref = guarded(|| av.apply_ref(d2));
            let pure_apply_ref = av.to_sx() == a0.to_sx();
            let d3 = d.clone();
            let mut am = av.clone();
            let applymut = guarded(move || {
                am.apply_mut(d3);
                am
            });
            let d4 = d.clone();
            let mut asg = av.clone();
            let single = guarded(move || {
                for e in d4 {
                    asg.apply_single(e);
                }
                asg
            });
            let dr1 = dr.clone();
            let ac2 = av.clone();
            let applyrefd = guarded(move || ac2.apply(dr1));
            let d5 = d.clone();
            let fc = fv.clone();
            let follow = guarded(move || fc.apply(d5));
            let dr2 = dr.clone();
            let fc2 = fv.clone();
            let followref = guarded(move || fc2.apply(dr2));
            // the four entry points on a base the diff was NOT computed from
            let d6 = d.clone();
            let fapplyref = guarded(|| fv.apply_ref(d6));
            let d7 = d.clone();
            let mut fm = fv.clone();
            let fapplymut = guarded(move || {
                fm.apply_mut(d7);
                fm
            });
            let d8 = d.clone();
            let mut fs = fv.clone();
            let fsingle = guarded(move || {
                for e in d8 {
                    fs.apply_single(e);
                }
                fs
            });
            // a diff with MORE THAN ONE entry per field: diff(a, b) followed by diff(b, f), applied to a through the four
            // entry points (C06 quantifies over every entry list of the type, not only over single diffs)
            let cat: Option<Vec<T::Diff>> = guarded(|| {
                let mut c = av.diff(&bv);
                c.extend(bv.diff(&fv));
                c
            });
            let (cat_apply, cat_ref, cat_mut, cat_single) = match cat {
                None => (None, None, None, None),
                Some(c) => {
                    let (c1, c2, c3, c4) = (c.clone(), c.clone(), c.clone(), c);
                    let x1 = av.clone();
                    let r1 = guarded(move || x1.apply(c1));
                    let r2 = guarded(|| av.apply_ref(c2));
                    let mut x3 = av.clone();
                    let r3 = guarded(move || {
                        x3.apply_mut(c3);
                        x3
                    });
                    let mut x4 = av.clone();
                    let r4 = guarded(move || {
                        for e in c4 {
                            x4.apply_single(e);
                        }
                        x4
                    });
                    (r1, r2, r3, r4)
                }
            };
            tag(
                "ok",
                vec![
                    tag("diff", vec![show(&d)]),
                    tag("diffref", vec![show(&dr)]),
                    tag("apply", vec![res(apply)]),
                    tag("applyref", vec![res(applyref)]),
                    tag("applymut", vec![res(applymut)]),
                    tag("single", vec![res(single)]),
                    tag("applyrefd", vec![res(applyrefd)]),
                    tag("follow", vec![res(follow)]),
                    tag("followref", vec![res(followref)]),
                    tag("fapplyref", vec![res(fapplyref)]),
                    tag("fapplymut", vec![res(fapplymut)]),
                    tag("fsingle", vec![res(fsingle)]),
                    tag("cat", vec![res(cat_apply)]),
                    tag("catref", vec![res(cat_ref)]),
                    tag("catmut", vec![res(cat_mut)]),
                    tag("catsingle", vec![res(cat_single)]),
                    tag("pure", vec![a(if pure_diff && pure_diff_ref && pure_apply_ref { "true" } else { "false" })]),
                ],
            )
        }
        "subset" => {
            let (Some(av), Some(bv)) = (T::from_sx(&args[0]), T::from_sx(&args[1])) else {
                return tag("bad-value", vec![]);
            };
            let idx: Vec<usize> = args[2].list().unwrap().iter().map(|x| x.nat().unwrap()).collect();
            let Some(d) = guarded(|| av.diff(&bv)) else { return tag("panic", vec![]) };
            let sel: Vec<T::Diff> = idx.iter().filter_map(|i| d.get(*i).cloned()).collect();
            let ac = av.clone();
            tag("ok", vec![tag("apply", vec![res(guarded(move || ac.apply(sel)))])])
        }
        "history" => {
            let Some(f0) = T::from_sx(&args[0]) else { return tag("bad-value", vec![]) };
            let states: Option<Vec<T>> = args[1].list().unwrap().iter().map(|s| T::from_sx(s)).collect();
            let Some(states) = states else { return tag("bad-value", vec![]) };
            let mut out = Vec::new();
            let mut f = Some(f0);
            for w in states.windows(2) {
                let (p, c) = (&w[0], &w[1]);
                f = match f {
                    None => None,
                    Some(fv) => {
                        let d = guarded(|| p.diff(c));
                        match d {
                            None => None,
                            Some(d) => guarded(move || fv.apply(d)),
                        }
                    }
                };
                out.push(match &f {
                    Some(v) => v.to_sx(),
                    None => a("panic"),
                });
            }
            tag("ok", vec![tag("followers", out)])
        }
        _ => tag("bad-op", vec![]),
    }
}

/// `(derive <shape-id> <op> args...)`, `(derive <shape-id> setters x ((i v) ...))`
pub fn handle(rest: &[Sx]) -> Sx {
    let id = rest[0].nat().unwrap_or(usize::MAX);
    let op = rest[1].atom().unwrap_or("");
    if op == "setters" {
        let calls = rest[3].list().unwrap();
        let xs = rest[2].clone();
        let calls = calls.to_vec();
        return match guarded(move || crate::gen_shapes::set_shape(id, &xs, &calls)) {
            Some(Some((rets, fin))) => tag("ok", vec![tag("rets", rets), tag("final", vec![fin])]),
            Some(None) => tag("unsupported", vec![]),
            None => tag("panic", vec![]),
        };
    }
    if op == "wire" {
        return crate::gen_shapes::wire_shape(id, &rest[2..]);
    }
    if op == "wiredec" {
        return crate::gen_shapes::wiredec_shape(id, &rest[2..]);
    }
    crate::gen_shapes::run_shape(id, op, &rest[2..])
}
