// C10 oracle: drives the REAL `ArrayMap` (textually included from /repo) from explicit layouts.
use crate::gen_rope::rope_prod::slots::ArrayMap;
use crate::guarded;
use crate::sx::*;

fn cells_of(x: &Sx) -> Option<Vec<Option<(u8, u32)>>> {
    x.list()?
        .iter()
        .map(|c| match c {
            Sx::Atom(s) if s == "_" => Some(None),
            Sx::List(p) if p.len() == 2 => Some(Some((p[0].nat()? as u8, p[1].nat()? as u32))),
            _ => None,
        })
        .collect()
}

fn state_sx<const N: usize>(m: &ArrayMap<u32, N>) -> Vec<Sx> {
    let (cells, cnt) = m.vf_layout();
    vec![
        tag(
            "cells",
            cells
                .iter()
                .map(|c| match c {
                    None => a("_"),
                    Some((i, v)) => l(vec![n(*i as usize), n(*v as usize)]),
                })
                .collect(),
        ),
        tag("cnt", vec![n(cnt)]),
    ]
}

fn opt_sx(o: Option<u32>) -> Sx {
    match o {
        None => a("none"),
        Some(v) => n(v as usize),
    }
}

fn run<const N: usize>(mut m: ArrayMap<u32, N>, op: &Sx) -> Sx {
    let items = match op.list() {
        Some(i) => i,
        None => return tag("bad-op", vec![]),
    };
    let name = op.head().unwrap_or("");
    let arg = |k: usize| items.get(k).and_then(|x| x.nat());
    let r: Option<Sx> = match name {
        "insert" => {
            let (p, v) = (arg(1).unwrap(), arg(2).unwrap() as u32);
            guarded(move || {
                m.insert(p, v);
                tag("ok", state_sx(&m))
            })
        }
        "remove" => {
            let p = arg(1).unwrap();
            guarded(move || {
                let v = m.remove(p);
                let mut s = vec![tag("ret", vec![n(v as usize)])];
                s.extend(state_sx(&m));
                tag("ok", s)
            })
        }
        "swap" => {
            let (x, y) = (arg(1).unwrap(), arg(2).unwrap());
            guarded(move || {
                m.swap(x, y);
                tag("ok", state_sx(&m))
            })
        }
        "drain" => {
            let lo = arg(1).unwrap();
            let hi = items.get(2).and_then(|x| x.nat());
            guarded(move || {
                let vals: Vec<u32> = match hi {
                    Some(h) => m.drain(lo..h).collect(),
                    None => m.drain(lo..).collect(),
                };
                let mut s = vec![tag("ret", vec![nats(&vals)])];
                s.extend(state_sx(&m));
                tag("ok", s)
            })
        }
        "drainrev" => {
            let lo = arg(1).unwrap();
            let hi = items.get(2).and_then(|x| x.nat());
            guarded(move || {
                let vals: Vec<u32> = match hi {
                    Some(h) => m.drain(lo..h).rev().collect(),
                    None => m.drain(lo..).rev().collect(),
                };
                let mut s = vec![tag("ret", vec![nats(&vals)])];
                s.extend(state_sx(&m));
                tag("ok", s)
            })
        }
        "extend" => {
            let vs = items[1].nats().unwrap();
            guarded(move || {
                m.extend(vs.into_iter());
                tag("ok", state_sx(&m))
            })
        }
        "index" => {
            let i = arg(1).unwrap();
            guarded(move || tag("ok", vec![tag("ret", vec![n(m[i] as usize)])]))
        }
        "set" => {
            let (i, v) = (arg(1).unwrap(), arg(2).unwrap() as u32);
            guarded(move || {
                m[i] = v;
                tag("ok", state_sx(&m))
            })
        }
        "len" => guarded(move || tag("ok", vec![tag("ret", vec![n(m.len())])])),
        "iter" => guarded(move || {
            let v: Vec<u32> = (&m).into_iter().cloned().collect();
            tag("ok", vec![tag("ret", vec![nats(&v)])])
        }),
        "into" => guarded(move || {
            let v: Vec<u32> = m.into_iter().collect();
            tag("ok", vec![tag("ret", vec![nats(&v)])])
        }),
        "rev" => guarded(move || {
            let v: Vec<u32> = m.into_iter().rev().collect();
            tag("ok", vec![tag("ret", vec![nats(&v)])])
        }),
        "deque" => {
            let pat: Vec<bool> = items[1]
                .list()
                .unwrap()
                .iter()
                .map(|x| x.atom() == Some("b"))
                .collect();
            guarded(move || {
                let mut it = m.into_iter();
                let out: Vec<Sx> = pat
                    .iter()
                    .map(|b| opt_sx(if *b { it.next_back() } else { it.next() }))
                    .collect();
                tag("ok", vec![tag("ret", vec![l(out)])])
            })
        }
        "judge" => guarded(move || tag("ok", state_sx(&m))),
        _ => Some(tag("bad-op", vec![])),
    };
    r.unwrap_or_else(|| tag("panic", vec![]))
}

fn with_n<const N: usize>(rest: &[Sx]) -> Sx {
    if rest.len() == 1 && rest[0].head() == Some("fromiter") {
        let vs = rest[0].list().unwrap()[1].nats().unwrap();
        return guarded(move || {
            let m: ArrayMap<u32, N> = vs.into_iter().collect();
            tag("ok", state_sx(&m))
        })
        .unwrap_or_else(|| tag("panic", vec![]));
    }
    if rest.len() != 3 {
        return tag("bad-req", vec![]);
    }
    let cells = match cells_of(&rest[0]) {
        Some(c) if c.len() == N => c,
        _ => return tag("bad-req", vec![]),
    };
    let cnt = rest[1].nat().unwrap();
    let m = ArrayMap::<u32, N>::vf_from_layout(cells, cnt);
    run(m, &rest[2])
}

/// `(slots N cells cnt op)` or `(slots N (fromiter vs))`
pub fn handle(rest: &[Sx]) -> Sx {
    let nn = rest.first().and_then(|x| x.nat()).unwrap_or(0);
    let rest = &rest[1..];
    match nn {
        1 => with_n::<1>(rest),
        2 => with_n::<2>(rest),
        3 => with_n::<3>(rest),
        4 => with_n::<4>(rest),
        5 => with_n::<5>(rest),
        6 => with_n::<6>(rest),
        8 => with_n::<8>(rest),
        16 => with_n::<16>(rest),
        _ => tag("bad-req", vec![]),
    }
}

/// history: `(slots-hist N (op ...))` from `new()`; emits one self-contained request per step with its response
pub fn history(rest: &[Sx], out: &mut Vec<(Sx, Sx)>) {
    fn go<const N: usize>(ops: &[Sx], out: &mut Vec<(Sx, Sx)>) {
        let mut m: ArrayMap<u32, N> = ArrayMap::new();
        for op in ops {
            let pre = state_sx(&m);
            let req = l(vec![
                a("slots"),
                n(N),
                l(pre[0].list().unwrap()[1..].to_vec()),
                pre[1].list().unwrap()[1].clone(),
                op.clone(),
            ]);
            let resp = run(m.clone(), op);
            // advance the real state when the op mutates and did not panic
            if resp.head() == Some("ok") {
                let items = resp.list().unwrap();
                let cells = items.iter().find(|x| x.head() == Some("cells"));
                let cnt = items.iter().find(|x| x.head() == Some("cnt"));
                if let (Some(c), Some(k)) = (cells, cnt) {
                    let cv = cells_of(&l(c.list().unwrap()[1..].to_vec())).unwrap();
                    m = ArrayMap::<u32, N>::vf_from_layout(cv, k.list().unwrap()[1].nat().unwrap());
                }
            }
            out.push((req, resp));
        }
    }
    let nn = rest[0].nat().unwrap_or(0);
    let ops = rest[1].list().unwrap();
    match nn {
        4 => go::<4>(ops, out),
        8 => go::<8>(ops, out),
        16 => go::<16>(ops, out),
        _ => {}
    }
}
