// Line-protocol server calling the REAL structdiff code in-process.
// Input: one request per line.  Output: one line per (sub)request:
//   <request>\t<response>[\t<reference>]
use sdharness::sx::*;
use std::alloc::{GlobalAlloc, Layout, System};
use std::io::{BufRead, Write};
use std::sync::atomic::{AtomicUsize, Ordering};

// counting allocator: current and peak live heap bytes (used by the C18 measurements)
struct Counting;
static CUR: AtomicUsize = AtomicUsize::new(0);
static PEAK: AtomicUsize = AtomicUsize::new(0);
unsafe impl GlobalAlloc for Counting {
    unsafe fn alloc(&self, l: Layout) -> *mut u8 {
        let p = System.alloc(l);
        if !p.is_null() {
            let c = CUR.fetch_add(l.size(), Ordering::Relaxed) + l.size();
            PEAK.fetch_max(c, Ordering::Relaxed);
        }
        p
    }
    unsafe fn dealloc(&self, p: *mut u8, l: Layout) {
        CUR.fetch_sub(l.size(), Ordering::Relaxed);
        System.dealloc(p, l)
    }
    unsafe fn realloc(&self, p: *mut u8, l: Layout, new: usize) -> *mut u8 {
        let q = System.realloc(p, l, new);
        if !q.is_null() {
            if new >= l.size() {
                let c = CUR.fetch_add(new - l.size(), Ordering::Relaxed) + (new - l.size());
                PEAK.fetch_max(c, Ordering::Relaxed);
            } else {
                CUR.fetch_sub(l.size() - new, Ordering::Relaxed);
            }
        }
        q
    }
}
#[global_allocator]
static GLOBAL: Counting = Counting;

fn measure(f: &mut dyn FnMut()) -> usize {
    let base = CUR.load(Ordering::Relaxed);
    PEAK.store(base, Ordering::Relaxed);
    f();
    PEAK.load(Ordering::Relaxed).saturating_sub(base)
}

fn main() {
    std::panic::set_hook(Box::new(|_| {}));
    let stdin = std::io::stdin();
    let stdout = std::io::stdout();
    let mut out = std::io::BufWriter::new(stdout.lock());
    for line in stdin.lock().lines() {
        let line = line.unwrap();
        let t = line.trim();
        if t.is_empty() {
            continue;
        }
        let req = match parse(t) {
            Some(r) => r,
            None => {
                writeln!(out, "{}\t(bad-parse)", t).unwrap();
                continue;
            }
        };
        let items = req.list().map(|x| x.to_vec()).unwrap_or_default();
        match req.head() {
            Some("slots") => {
                let resp = sdharness::h_slots::handle(&items[1..]);
                writeln!(out, "{}\t{}", req, resp).unwrap();
            }
            Some("slots-hist") => {
                let mut steps = Vec::new();
                sdharness::h_slots::history(&items[1..], &mut steps);
                for (rq, rs) in steps {
                    writeln!(out, "{}\t{}", rq, rs).unwrap();
                }
            }
            Some("rope") => {
                let resp = sdharness::h_rope::handle(&items[1..]);
                writeln!(out, "{}\t{}", req, resp).unwrap();
            }
            Some("rope-hist") => {
                let mut steps = Vec::new();
                sdharness::h_rope::history(&items[1..], &mut steps);
                for (rq, rs, vr) in steps {
                    writeln!(out, "{}\t{}\t{}", rq, rs, vr).unwrap();
                }
            }
            Some(w @ ("lev" | "hirsch" | "lev-nan" | "hirsch-nan")) => {
                let resp = sdharness::h_ordered::diff(w, &items[1..]);
                writeln!(out, "{}\t{}", req, resp).unwrap();
            }
            Some(w @ ("uarr-cmp" | "uarr-apply3")) => {
                let resp = sdharness::h_unord::uarr(w, &items[1..]);
                writeln!(out, "{}\t{}", req, resp).unwrap();
            }
            Some(w @ ("uarr-dec" | "umap-dec")) => {
                let resp = sdharness::h_unord::wire_dec(w, &items[1..]);
                writeln!(out, "{}\t{}", req, resp).unwrap();
            }
            Some(w @ ("umap-cmp" | "umap-apply3")) => {
                let resp = sdharness::h_unord::umap(w, &items[1..]);
                writeln!(out, "{}\t{}", req, resp).unwrap();
            }
            Some("derive") => {
                let resp = sdharness::h_derive::handle(&items[1..]);
                writeln!(out, "{}\t{}", req, resp).unwrap();
            }
            Some("mem") => {
                // (mem hirsch|lev|derive (t...) (s...)) : peak heap growth while computing the diff
                let which = items[1].atom().unwrap_or("").to_string();
                let t = items[2].nats().unwrap();
                let s = items[3].nats().unwrap();
                let resp = sdharness::guarded(|| {
                    let (peak, len) = sdharness::h_ordered::diff_measured(&which, &t, &s, &measure);
                    tag("ok", vec![tag("peak", vec![n(peak)]), tag("script", vec![n(len)])])
                })
                .unwrap_or_else(|| tag("panic", vec![]));
                writeln!(out, "(mem {} {} {})\t{}", which, t.len(), s.len(), resp).unwrap();
            }
            Some("apply-bytes") => {
                let resp = sdharness::h_ordered::apply_bytes(&items[1..]);
                writeln!(out, "{}\t{}", req, resp).unwrap();
            }
            _ => {
                writeln!(out, "{}\t(bad-req)", req).unwrap();
            }
        }
    }
}
