// Line-protocol server calling the REAL structdiff code in-process.
// Input: one request per line.  Output: one line per (sub)request:
//   <request>\t<response>[\t<reference>]
use sdharness::sx::*;
use std::io::{BufRead, Write};

fn main() {
    std::panic::set_hook(Box::new(|_| {}));
    let stdin = std::io::stdin();
    let stdout = std::io::stdout();
    let mut out = std::io::BufWriter::new(stdout.lock());
    for line in stdin.lock().lines() {
        let line = line.unwrap();
        let t = line.trim();
        if t.is_empty() {
            continue;
        }
        let req = match parse(t) {
            Some(r) => r,
            None => {
                writeln!(out, "{}\t(bad-parse)", t).unwrap();
                continue;
            }
        };
        let items = req.list().map(|x| x.to_vec()).unwrap_or_default();
        match req.head() {
            Some("slots") => {
                let resp = sdharness::h_slots::handle(&items[1..]);
                writeln!(out, "{}\t{}", req, resp).unwrap();
            }
            Some("slots-hist") => {
                let mut steps = Vec::new();
                sdharness::h_slots::history(&items[1..], &mut steps);
                for (rq, rs) in steps {
                    writeln!(out, "{}\t{}", rq, rs).unwrap();
                }
            }
            Some("rope") => {
                let resp = sdharness::h_rope::handle(&items[1..]);
                writeln!(out, "{}\t{}", req, resp).unwrap();
            }
            Some("rope-hist") => {
                let mut steps = Vec::new();
                sdharness::h_rope::history(&items[1..], &mut steps);
                for (rq, rs, vr) in steps {
                    writeln!(out, "{}\t{}\t{}", rq, rs, vr).unwrap();
                }
            }
            Some(w @ ("lev" | "hirsch" | "lev-nan" | "hirsch-nan")) => {
                let resp = sdharness::h_ordered::diff(w, &items[1..]);
                writeln!(out, "{}\t{}", req, resp).unwrap();
            }
            Some(w @ ("uarr-cmp" | "uarr-apply3")) => {
                let resp = sdharness::h_unord::uarr(w, &items[1..]);
                writeln!(out, "{}\t{}", req, resp).unwrap();
            }
            Some(w @ ("umap-cmp" | "umap-apply3")) => {
                let resp = sdharness::h_unord::umap(w, &items[1..]);
                writeln!(out, "{}\t{}", req, resp).unwrap();
            }
            Some("derive") => {
                let resp = sdharness::h_derive::handle(&items[1..]);
                writeln!(out, "{}\t{}", req, resp).unwrap();
            }
            Some("apply-bytes") => {
                let resp = sdharness::h_ordered::apply_bytes(&items[1..]);
                writeln!(out, "{}\t{}", req, resp).unwrap();
            }
            _ => {
                writeln!(out, "{}\t(bad-req)", req).unwrap();
            }
        }
    }
}
