// C09 oracle: drives the REAL `Rope` (textually included from /repo, production constants, and a
// scaled-down twin with the constants substituted) and a plain `Vec` side by side.
use crate::guarded;
use crate::sx::*;

fn chunks_of(x: &Sx) -> Option<Vec<Vec<u32>>> {
    x.list()?.iter().map(|c| c.nats()).collect()
}

fn chunks_sx(c: &[Vec<u32>]) -> Sx {
    l(c.iter().map(|v| nats(v)).collect())
}

/// reference semantics on a plain growable array; `None` = out of range (would panic)
pub fn vec_apply(v: &mut Vec<u32>, op: &Sx) -> Option<Option<u32>> {
    let items = op.list()?;
    let arg = |k: usize| items.get(k).and_then(|x| x.nat());
    match op.head()? {
        "insert" => {
            let (i, x) = (arg(1)?, arg(2)? as u32);
            if i > v.len() {
                return None;
            }
            v.insert(i, x);
            Some(None)
        }
        "remove" => {
            let i = arg(1)?;
            if i >= v.len() {
                return None;
            }
            v.remove(i);
            Some(None)
        }
        "drain" => {
            let (lo, hi) = (arg(1)?, arg(2)?);
            if lo > hi || hi >= v.len() {
                return None;
            }
            v.drain(lo..=hi);
            Some(None)
        }
        "swap" => {
            let (x, y) = (arg(1)?, arg(2)?);
            if x >= v.len() || y >= v.len() {
                return None;
            }
            v.swap(x, y);
            Some(None)
        }
        "set" => {
            let (i, x) = (arg(1)?, arg(2)? as u32);
            if i >= v.len() {
                return None;
            }
            v[i] = x;
            Some(None)
        }
        "index" => {
            let i = arg(1)?;
            v.get(i).map(|x| Some(*x))
        }
        "judge" => Some(None),
        _ => None,
    }
}

macro_rules! rope_impl {
    ($modname:ident, $ropemod:path) => {
        pub mod $modname {
            use super::*;
            use $ropemod as rp;
            type R = rp::Rope<u32>;

            pub fn obs(r: &R) -> Vec<Sx> {
                let chunks = r.vf_chunks();
                let flat: Vec<u32> = chunks.iter().flatten().cloned().collect();
                let it = guarded(|| r.iter().cloned().collect::<Vec<u32>>());
                let rc = r.vf_clone();
                let into = guarded(move || rc.into_iter().collect::<Vec<u32>>());
                let len = guarded(|| r.len());
                // every indexed read, and the read at `len` must panic
                let n_el = flat.len();
                let reads_ok = (0..n_el).all(|i| guarded(|| r[i]) == Some(flat[i]));
                let past_end_panics = guarded(|| r[n_el]).is_none();
                vec![
                    tag("chunks", vec![chunks_sx(&chunks)]),
                    tag("flat", vec![nats(&flat)]),
                    tag("len", vec![len.map(n).unwrap_or(a("panic"))]),
                    tag("iter", vec![it.map(|v| nats(&v)).unwrap_or(a("panic"))]),
                    tag("into", vec![into.map(|v| nats(&v)).unwrap_or(a("panic"))]),
                    tag("reads", vec![a(if reads_ok { "true" } else { "false" })]),
                    tag("pastend", vec![a(if past_end_panics { "panic" } else { "noPanic" })]),
                ]
            }

            pub fn apply(r: &mut R, op: &Sx) -> Option<Option<u32>> {
                let items = op.list()?;
                let arg = |k: usize| items.get(k).and_then(|x| x.nat());
                match op.head()? {
                    "insert" => {
                        r.insert(arg(1)?, arg(2)? as u32);
                        Some(None)
                    }
                    "remove" => {
                        r.remove(arg(1)?);
                        Some(None)
                    }
                    "drain" => {
                        r.drain(arg(1)?..=arg(2)?);
                        Some(None)
                    }
                    "swap" => {
                        r.swap(arg(1)?, arg(2)?);
                        Some(None)
                    }
                    "set" => {
                        r[arg(1)?] = arg(2)? as u32;
                        Some(None)
                    }
                    "index" => Some(Some(r[arg(1)?])),
                    "judge" => Some(None),
                    _ => None,
                }
            }

            pub fn run(r: R, op: &Sx) -> (Sx, Option<R>) {
                let opc = op.clone();
                let res = guarded(move || {
                    let mut r = r;
                    let ret = apply(&mut r, &opc);
                    (ret, r)
                });
                match res {
                    None => (tag("panic", vec![]), None),
                    Some((None, _)) => (tag("bad-op", vec![]), None),
                    Some((Some(Some(v)), r)) => (tag("ok", vec![tag("ret", vec![n(v as usize)])]), Some(r)),
                    Some((Some(None), r)) => (tag("ok", obs(&r)), Some(r)),
                }
            }

            pub fn construct(c: &Sx) -> Option<R> {
                match c.head()? {
                    "new" => Some(R::new()),
                    "fromiter" => Some(c.list()?[1].nats()?.into_iter().collect()),
                    _ => None,
                }
            }

            /// `(rope P (new))`, `(rope P (fromiter vs))`, `(rope P chunks op)`
            pub fn handle(pname: &Sx, rest: &[Sx]) -> Sx {
                if rest.len() == 1 {
                    return match construct(&rest[0]) {
                        Some(r) => tag("ok", obs(&r)),
                        None => tag("bad-req", vec![]),
                    };
                }
                let _ = pname;
                let chunks = match chunks_of(&rest[0]) {
                    Some(c) => c,
                    None => return tag("bad-req", vec![]),
                };
                match guarded(|| R::vf_from_chunks(chunks)) {
                    Some(r) => run(r, &rest[1]).0,
                    None => tag("bad-req", vec![]),
                }
            }

            /// `(rope-hist P ctor (op ...))` : per step, a self-contained request built from the REAL
            /// pre-state, the real response, and what a plain Vec says
            pub fn history(pname: &Sx, rest: &[Sx], out: &mut Vec<(Sx, Sx, Sx)>) {
                let ctor = &rest[0];
                let mut r = match construct(ctor) {
                    Some(r) => r,
                    None => return,
                };
                let mut v: Vec<u32> = match ctor.head() {
                    Some("fromiter") => ctor.list().unwrap()[1].nats().unwrap(),
                    _ => vec![],
                };
                out.push((
                    l(vec![a("rope"), pname.clone(), ctor.clone()]),
                    tag("ok", obs(&r)),
                    tag("ok", vec![nats(&v)]),
                ));
                for op in rest[1].list().unwrap() {
                    let pre = r.vf_chunks();
                    let req = l(vec![a("rope"), pname.clone(), chunks_sx(&pre), op.clone()]);
                    let (resp, newr) = run(r.vf_clone(), op);
                    let vres = match vec_apply(&mut v, op) {
                        None => tag("panic", vec![]),
                        Some(Some(x)) => tag("ok", vec![tag("ret", vec![n(x as usize)])]),
                        Some(None) => tag("ok", vec![nats(&v)]),
                    };
                    if let Some(nr) = newr {
                        r = nr;
                    }
                    out.push((req, resp, vres));
                }
            }
        }
    };
}

rope_impl!(prod, crate::gen_rope::rope_prod);
rope_impl!(small, crate::gen_rope::rope_small);

pub fn handle(rest: &[Sx]) -> Sx {
    match rest[0].atom() {
        Some("prod") => prod::handle(&rest[0], &rest[1..]),
        Some("small") => small::handle(&rest[0], &rest[1..]),
        _ => tag("bad-req", vec![]),
    }
}

pub fn history(rest: &[Sx], out: &mut Vec<(Sx, Sx, Sx)>) {
    match rest[0].atom() {
        Some("prod") => prod::history(&rest[0], &rest[1..], out),
        Some("small") => small::history(&rest[0], &rest[1..], out),
        _ => {}
    }
}
