// C07 / C08 / C18 oracle: the real ordered-list diff algorithms, `apply`, and both wire formats.
use crate::dbg::dbg;
use crate::guarded;
use crate::sx::*;
use std::collections::LinkedList;
use structdiff::collections::ordered_array_like as oal;
use structdiff::StructDiff;
#[cfg(feature = "nanoserde")]
use nanoserde::{DeBin, SerBin};

fn hex(b: &[u8]) -> Sx {
    l(b.iter().map(|x| n(*x as usize)).collect())
}

const NAN_CODE: u32 = 999_999;
fn to_f(v: &[u32]) -> Vec<f64> {
    v.iter().map(|x| if *x == NAN_CODE { f64::NAN } else { *x as f64 }).collect()
}
fn from_f(v: &[f64]) -> Vec<u32> {
    v.iter().map(|x| if x.is_nan() { NAN_CODE } else { *x as u32 }).collect()
}

#[allow(unused_variables, unused_mut)]
fn wire(out: &mut Vec<Sx>, owned: &oal::OrderedArrayLikeDiffOwned<u32>, r: &oal::OrderedArrayLikeDiffRef<'_, u32>) {
    #[cfg(feature = "nanoserde")]
    {
        use nanoserde::SerBin;
        out.push(tag("nano-owned", vec![hex(&SerBin::serialize_bin(owned))]));
        out.push(tag("nano-ref", vec![hex(&SerBin::serialize_bin(r))]));
    }
    #[cfg(feature = "serde")]
    {
        out.push(tag("bincode-owned", vec![hex(&bincode::serialize(owned).unwrap())]));
        out.push(tag("bincode-ref", vec![hex(&bincode::serialize(r).unwrap())]));
    }
}

/// `(lev t s)` `(hirsch t s)` (+ `-nan` variants over f64 with NaN)
pub fn diff(which: &str, rest: &[Sx]) -> Sx {
    let t = rest[0].nats().unwrap();
    let s = rest[1].nats().unwrap();
    let nan = which.ends_with("-nan");
    let hirsch = which.starts_with("hirsch");
    guarded(move || {
        if nan {
            let (tf, sf) = (to_f(&t), to_f(&s));
            let d = if hirsch { oal::hirschberg(&tf, &sf) } else { oal::levenshtein(&tf, &sf) };
            match d {
                None => tag("none", vec![]),
                Some(d) => {
                    let script = dbg(&d);
                    let owned: oal::OrderedArrayLikeDiffOwned<f64> = d.into();
                    let applied = guarded(|| oal::apply(owned, sf.clone()).collect::<Vec<f64>>());
                    tag(
                        "some",
                        vec![
                            script,
                            match applied {
                                Some(v) => tag("applied", vec![nats(&from_f(&v))]),
                                None => tag("applied-panic", vec![]),
                            },
                        ],
                    )
                }
            }
        } else {
            let d = if hirsch { oal::hirschberg(&t, &s) } else { oal::levenshtein(&t, &s) };
            match d {
                None => tag("none", vec![]),
                Some(d) => {
                    let script = dbg(&d);
                    let owned: oal::OrderedArrayLikeDiffOwned<u32> = d.clone().into();
                    let mut out = vec![script];
                    wire(&mut out, &owned, &d);
                    let o2 = owned.clone();
                    let s2 = s.clone();
                    let applied = guarded(move || oal::apply(o2, s2).collect::<Vec<u32>>());
                    let s3: LinkedList<u32> = s.iter().cloned().collect();
                    let applied_ll = guarded(move || oal::apply(owned, s3).collect::<LinkedList<u32>>());
                    out.push(match applied {
                        Some(v) => tag("applied", vec![nats(&v)]),
                        None => tag("applied-panic", vec![]),
                    });
                    out.push(match applied_ll {
                        Some(v) => tag("applied-ll", vec![nats(&v.into_iter().collect::<Vec<_>>())]),
                        None => tag("applied-ll-panic", vec![]),
                    });
                    tag("some", out)
                }
            }
        }
    })
    .unwrap_or_else(|| tag("panic", vec![]))
}

/// `(apply-bytes nano|bincode (bytes) (list))` : decode a received script, apply it, re-encode it
#[allow(unused_variables)]
pub fn apply_bytes(rest: &[Sx]) -> Sx {
    let fmt = rest[0].atom().unwrap_or("").to_string();
    let bytes: Vec<u8> = rest[1].nats().unwrap().into_iter().map(|x| x as u8).collect();
    let list = rest[2].nats().unwrap();
    let decoded: Option<oal::OrderedArrayLikeDiffOwned<u32>> = match fmt.as_str() {
        #[cfg(feature = "nanoserde")]
        "nano" => guarded(|| nanoserde::DeBin::deserialize_bin(&bytes).ok()).flatten(),
        #[cfg(feature = "serde")]
        "bincode" => guarded(|| bincode::deserialize(&bytes).ok()).flatten(),
        _ => return tag("unsupported", vec![]),
    };
    let d = match decoded {
        None => return tag("reject", vec![]),
        Some(d) => d,
    };
    let mut out = vec![tag("decoded", vec![dbg(&d)])];
    let reenc: Vec<u8> = match fmt.as_str() {
        #[cfg(feature = "nanoserde")]
        "nano" => nanoserde::SerBin::serialize_bin(&d),
        #[cfg(feature = "serde")]
        "bincode" => bincode::serialize(&d).unwrap(),
        _ => vec![],
    };
    out.push(tag("reenc", vec![hex(&reenc)]));
    let d2 = d.clone();
    let l2 = list.clone();
    match guarded(move || oal::apply(d2, l2).collect::<Vec<u32>>()) {
        Some(v) => out.push(tag("vec", vec![nats(&v)])),
        None => out.push(tag("vec-panic", vec![])),
    }
    let l3: LinkedList<u32> = list.iter().cloned().collect();
    match guarded(move || oal::apply(d, l3).collect::<LinkedList<u32>>()) {
        Some(v) => out.push(tag("ll", vec![nats(&v.into_iter().collect::<Vec<_>>())])),
        None => out.push(tag("ll-panic", vec![])),
    }
    tag("ok", out)
}

#[derive(Debug, Clone, PartialEq, structdiff::Difference)]
#[cfg_attr(feature = "serde", derive(serde::Serialize, serde::Deserialize))]
#[cfg_attr(feature = "nanoserde", derive(nanoserde::SerBin, nanoserde::DeBin))]
pub struct OrdHolder {
    #[difference(collection_strategy = "ordered_array_like")]
    pub l: Vec<u32>,
}

/// runs the chosen entry point under `measure` and reports (peak heap growth, number of script entries);
/// the script length is computed OUTSIDE the measured region
pub fn diff_measured(which: &str, t: &[u32], s: &[u32], measure: &dyn Fn(&mut dyn FnMut()) -> usize) -> (usize, usize) {
    match which {
        "hirsch" => {
            let mut out = None;
            let peak = measure(&mut || out = Some(oal::hirschberg(t, s)));
            let len = out.flatten().map(|d| format!("{:?}", d).matches("e(").count() + format!("{:?}", d).matches("t(").count()).unwrap_or(0);
            (peak, len)
        }
        "lev" => {
            let mut out = None;
            let peak = measure(&mut || out = Some(oal::levenshtein(t, s)));
            let len = out.flatten().map(|d| format!("{:?}", d).matches("e(").count() + format!("{:?}", d).matches("t(").count()).unwrap_or(0);
            (peak, len)
        }
        _ => {
            let a = OrdHolder { l: s.to_vec() };
            let b = OrdHolder { l: t.to_vec() };
            let mut out = None;
            let peak = measure(&mut || out = Some(a.diff(&b)));
            // the script itself is opaque without `debug_diffs`: report what hirschberg would report
            let len = oal::hirschberg(t, s).map(|d| format!("{:?}", d).matches("e(").count() + format!("{:?}", d).matches("t(").count()).unwrap_or(0);
            drop(out);
            (peak, len)
        }
    }
}
