#!/bin/sh
# run every quick check under several seeds (flakiness / false-alarm hunt); usage: tools/runseeds.sh 1 2 3
cd /verif
for seed in "$@"; do
  for i in 01 02 03 04 05 06 07 08 09 10 11 12 13 14 15 16 17 18 19 20; do
    VERIF_SEED=$seed ./check C$i --tier quick 2>&1 | grep -E "^(VIOLATION|OK)" | head -2 | sed "s/^/seed=$seed /"
  done
done
