"""Orchestrator core: translate -> prove -> audit -> correspond -> decide -> evidence."""
import os, sys, re, json, time, subprocess, hashlib, random, shutil

VERIF = os.path.dirname(os.path.dirname(os.path.abspath(__file__)))
REPO = os.environ.get('SDV_REPO', '/repo')
LEAN = os.path.join(VERIF, 'lean')
WORK = os.path.join(VERIF, '.work')
ALLOWED_AXIOMS = {'propext', 'Classical.choice', 'Quot.sound'}
ENV = dict(os.environ, CARGO_NET_OFFLINE='true')

sys.path.insert(0, os.path.dirname(os.path.abspath(__file__)))
import sx, params  # noqa


def sh(cmd, cwd=None, timeout=None, env=None, input=None):
    t0 = time.time()
    p = subprocess.run(cmd, cwd=cwd, shell=isinstance(cmd, str), stdout=subprocess.PIPE, stderr=subprocess.STDOUT,
                       text=True, timeout=timeout, env=env or ENV, input=input)
    return p.returncode, p.stdout, time.time() - t0


class Result:
    def __init__(self, prop, tier, seed):
        self.prop, self.tier, self.seed = prop, tier, seed
        self.t0 = time.time()
        self.notes = []
        self.proof = dict(obligations=0, discharged=0, theorems=[], broken=[], axioms={})
        self.corr = dict(evaluations=0, model_disagreements=[], impl_failures=[], samples=[], hist={})
        self.distinct = set()
        self.extra = {}

    def note(self, s):
        self.notes.append(s)
        print('note:', s, flush=True)


# ---------------------------------------------------------------- Lean side

def prop_theorems(prop):
    """names of the property theorems = every `theorem` in Props/<prop>.lean (fully qualified)"""
    path = os.path.join(LEAN, 'SdModel', 'Props', prop + '.lean')
    if not os.path.exists(path):
        return []
    src = open(path).read()
    src = re.sub(r'/-.*?-/', '', src, flags=re.S)
    src = re.sub(r'--[^\n]*', '', src)
    names = []
    ns = []
    for m in re.finditer(r'^\s*(namespace|end|theorem)\s+([\w\.]+)', src, re.M):
        kw, name = m.group(1), m.group(2)
        if kw == 'namespace':
            ns.append(name)
        elif kw == 'end':
            if ns and ns[-1] == name:
                ns.pop()
        else:
            names.append('.'.join(ns + [name]))
    return names


def scan_forbidden(files):
    bad = []
    pat = re.compile(r'\bsorry\b|\badmit\b|^\s*axiom\s|native_decide|bv_decide|implemented_by|\bunsafe\s|maxHeartbeats\s+0')
    for f in files:
        src = open(f).read()
        src = re.sub(r'/-.*?-/', lambda m: '\n' * m.group(0).count('\n'), src, flags=re.S)
        for i, line in enumerate(src.split('\n'), 1):
            line = re.sub(r'--.*', '', line)
            if pat.search(line):
                bad.append(f'{os.path.relpath(f, VERIF)}:{i}: {line.strip()}')
    return bad


def lean_files():
    out = []
    for root, _, fs in os.walk(os.path.join(LEAN, 'SdModel')):
        for f in fs:
            if f.endswith('.lean'):
                out.append(os.path.join(root, f))
    for root, _, fs in os.walk(os.path.join(LEAN, 'Driver')):
        for f in fs:
            if f.endswith('.lean'):
                out.append(os.path.join(root, f))
    return sorted(out)


def prove(res, prop, thorough=False):
    """build the property's theorem module + the driver; audit axioms"""
    thms = prop_theorems(prop)
    res.proof['theorems'] = thms
    res.proof['obligations'] = len(thms)
    target = f'SdModel.Props.{prop}'
    rc, out, dt = sh(['lake', 'build', target, 'sddriver'], cwd=LEAN, timeout=3600)
    res.extra['lake_build_s'] = round(dt, 1)
    if rc != 0:
        errs = re.findall(r'error: ([^\n]*\n(?:[^\n]*\n){0,6})', out)
        files = sorted(set(re.findall(r'error: (\S+\.lean):\d+', out)))
        res.proof['broken'].append({'what': 'lake build failed', 'files': files, 'log': out[-3000:]})
        res.note('lake build FAILED for ' + target + ' (' + ', '.join(files) + ')')
        # try to keep the driver alive for the search
        rc2, out2, _ = sh(['lake', 'build', 'sddriver'], cwd=LEAN, timeout=3600)
        res.extra['driver_ok'] = rc2 == 0
        return False
    res.extra['driver_ok'] = True
    bad = scan_forbidden(lean_files())
    if bad:
        res.proof['broken'].append({'what': 'forbidden construct', 'where': bad})
        res.note('forbidden constructs: ' + '; '.join(bad[:5]))
        return False
    if not thms:
        res.proof['broken'].append({'what': 'no property theorems found'})
        return False
    audit = f'import SdModel.Props.{prop}\n' + ''.join(f'#print axioms {t}\n' for t in thms)
    apath = os.path.join(WORK, f'Audit_{prop}.lean')
    os.makedirs(WORK, exist_ok=True)
    open(apath, 'w').write(audit)
    rc, out, dt = sh(['lake', 'env', 'lean', apath], cwd=LEAN, timeout=1800)
    if rc != 0:
        res.proof['broken'].append({'what': '#print axioms failed', 'log': out[-2000:]})
        return False
    ok = 0
    text = out.replace('\n  ', ' ').replace('\n ', ' ')
    for t in thms:
        m = re.search(r"'" + re.escape(t) + r"' (does not depend on any axioms|depends on axioms: \[([^\]]*)\])", text)
        if not m:
            res.proof['broken'].append({'what': 'no axiom report', 'theorem': t})
            continue
        axs = set(a.strip() for a in (m.group(2) or '').split(',') if a.strip())
        res.proof['axioms'][t] = sorted(axs)
        if axs <= ALLOWED_AXIOMS:
            ok += 1
        else:
            res.proof['broken'].append({'what': 'disallowed axioms', 'theorem': t, 'axioms': sorted(axs - ALLOWED_AXIOMS)})
    res.proof['discharged'] = ok
    if thorough:
        rc, out, dt = sh(['lake', 'env', 'leanchecker', target], cwd=LEAN, timeout=3600)
        res.extra['leanchecker'] = {'rc': rc, 'wall_s': round(dt, 1), 'out': out[-500:]}
        if rc != 0:
            res.proof['broken'].append({'what': 'leanchecker rejected', 'log': out[-1500:]})
            return False
    return ok == len(thms)


# ---------------------------------------------------------------- Rust side

def feature_key(features):
    return '-'.join(sorted(features)) or 'default'


STUB_SHAPES = '''// GENERATED stub (no derive shapes needed by this check)
use crate::sx::*;
pub fn run_shape(_id: usize, _op: &str, _args: &[Sx]) -> Sx {
    tag("bad-shape", vec![])
}
pub fn wire_shape(_id: usize, _args: &[Sx]) -> Sx {
    tag("bad-shape", vec![])
}
pub fn wiredec_shape(_id: usize, _args: &[Sx]) -> Sx {
    tag("bad-shape", vec![])
}
pub fn set_shape(_id: usize, _xs: &Sx, _calls: &[Sx]) -> Option<(Vec<Sx>, Sx)> {
    None
}
'''


def build_harness(res, features=(), profile='release', bin='oracle', extra_env=None, shapes_written=False):
    """(re)build the harness against /repo's working tree; returns path of the binary or None"""
    if not shapes_written:
        params.write_if_changed(os.path.join(VERIF, 'harness', 'src', 'gen_shapes.rs'), STUB_SHAPES)
    cov = os.environ.get('VERIF_COVERAGE') == '1'
    tdir = os.path.join(WORK, 'target-cov' if cov else 'target')
    cmd = ['cargo'] + (['+nightly'] if cov else []) + ['build', '--offline', '--bin', bin]
    if profile == 'release':
        cmd.append('--release')
    if features:
        cmd += ['--features', ','.join(sorted(features))]
    env = dict(ENV, CARGO_TARGET_DIR=tdir)
    if cov:
        # coverage run (tools/coverage.sh): same sources, instrumented with the nightly toolchain's llvm tools
        env['RUSTFLAGS'] = (env.get('RUSTFLAGS', '') + ' -C instrument-coverage').strip()
    if extra_env:
        env.update(extra_env)
    rc, out, dt = sh(cmd, cwd=os.path.join(VERIF, 'harness'), timeout=3600, env=env)
    res.extra.setdefault('cargo_build_s', []).append(round(dt, 1))
    if rc != 0:
        res.extra['cargo_error'] = out[-4000:]
        res.cargo_full = out
        return None
    built = os.path.join(tdir, 'release' if profile == 'release' else 'debug', bin)
    if cov:
        # keep one instrumented binary per (features, profile, shapes): llvm-cov needs every object that wrote a profile
        import shutil
        tag = hashlib.sha1((','.join(sorted(features)) + profile + open(os.path.join(VERIF, 'harness', 'src', 'gen_shapes.rs')).read()).encode()).hexdigest()[:10]
        os.makedirs(os.path.join(WORK, 'cov', 'bins'), exist_ok=True)
        kept = os.path.join(WORK, 'cov', 'bins', f'{bin}-{tag}')
        shutil.copy2(built, kept)
        return kept
    return built


def run_oracle(binpath, lines, timeout=3600):
    env = None
    if os.environ.get('VERIF_COVERAGE') == '1':
        os.makedirs(os.path.join(WORK, 'cov'), exist_ok=True)
        env = dict(os.environ, LLVM_PROFILE_FILE=os.path.join(WORK, 'cov', 'oracle-%p-%8m.profraw'))
    p = subprocess.run([binpath], input='\n'.join(lines) + '\n', stdout=subprocess.PIPE, stderr=subprocess.DEVNULL,
                       text=True, timeout=timeout, env=env)
    rows = []
    for ln in p.stdout.split('\n'):
        if not ln.strip():
            continue
        rows.append(ln.split('\t'))
    return p.returncode, rows


def run_driver(lines, legacy=False, timeout=3600):
    exe = os.path.join(LEAN, '.lake', 'build', 'bin', 'sddriver')
    p = subprocess.run([exe] + (['--legacy'] if legacy else []), input='\n'.join(lines) + '\n', stdout=subprocess.PIPE,
                       stderr=subprocess.DEVNULL, text=True, timeout=timeout)
    out = p.stdout.split('\n')
    if out and out[-1] == '':
        out.pop()
    return p.returncode, out


# ---------------------------------------------------------------- decision + evidence

def load_known():
    p = os.path.join(VERIF, 'known_findings.json')
    if not os.path.exists(p):
        return []
    return json.load(open(p)).get('findings', [])


def matches_known(prop, failure, known):
    """an OPEN finding matches a failure when every key of its `match` object equals / is contained in the failure"""
    for k in known:
        if k.get('property') != prop or k.get('status') != 'open':
            continue
        m = k.get('match', {})
        okay = True
        for key, val in m.items():
            fv = failure.get(key)
            if fv is None:
                okay = False; break
            if isinstance(val, str) and isinstance(fv, str):
                if val not in fv:
                    okay = False; break
            elif fv != val:
                okay = False; break
        if okay:
            return k
    return None


def write_replay(prop, seed, payload):
    d = os.path.join(VERIF, 'replay')
    os.makedirs(d, exist_ok=True)
    path = os.path.join(d, f'{prop}-{seed}.json')
    json.dump(payload, open(path, 'w'), indent=1)
    return os.path.relpath(path, VERIF)


def finish(res, level, coverage_extra, assumptions, proof_ok, search_fn=None):
    """decide, write evidence, print verdict, return exit code"""
    prop = res.prop
    known = load_known()
    violations = 0
    exit_code = 0
    impl_fail = res.corr['impl_failures']
    model_dis = res.corr['model_disagreements']
    unknown_impl = []
    announced = set()

    def announce(k):
        if k.get('id') not in announced:
            announced.add(k.get('id'))
            print(f"KNOWN-FINDING: property={prop} {k.get('what', k.get('id'))}", flush=True)
    for f in impl_fail:
        k = matches_known(prop, f, known)
        if k:
            announce(k)
        else:
            unknown_impl.append(f)
    broken_tie = (not proof_ok) or bool(model_dis)
    found = None
    if unknown_impl:
        found = unknown_impl[0]
    elif broken_tie and search_fn is not None:
        res.note('proof obligation or correspondence broken: searching for a concrete failing input on the implementation')
        try:
            cands = search_fn() or []
        except Exception as ex:  # the search must never mask the verdict
            res.note(f'search failed: {ex!r}')
            cands = []
        for f in cands:
            k = matches_known(prop, f, known)
            if k:
                announce(k)
            elif found is None:
                found = f
    if found is not None:
        path = write_replay(prop, res.seed, {'property': prop, 'kind': 'failing-input', 'failure': found,
                                              'proof_broken': res.proof['broken'], 'model_disagreements': model_dis[:5]})
        print(f'VIOLATION property={prop} replay={path}', flush=True)
        violations = 1; exit_code = 1
    elif broken_tie:
        path = write_replay(prop, res.seed, {'property': prop, 'kind': 'tie-broken',
                                              'proof_broken': res.proof['broken'],
                                              'theorems': res.proof['theorems'],
                                              'model_disagreements': model_dis[:20],
                                              'explanation': 'the property is no longer shown to hold: the named theorem(s) or correspondence no longer check; no failing input was found within the search budget'})
        print(f'VIOLATION property={prop} replay={path} no-failing-input-found', flush=True)
        violations = 1; exit_code = 1
    else:
        stale = os.path.join(VERIF, 'replay', f'{prop}-{res.seed}.json')
        if os.path.exists(stale):
            os.remove(stale)      # a replay left by an earlier failing run of this check and seed no longer describes anything
    cov = {
        'obligations': max(res.proof['obligations'], 0),
        'discharged': res.proof['discharged'],
        'checker_cmd': f'cd lean && lake build SdModel.Props.{prop} && lake env lean .work/Audit_{prop}.lean  (#print axioms ⊆ {{propext, Classical.choice, Quot.sound}}; forbidden-construct scan)',
        'trusted_base': ['Lean 4.33.0 kernel', 'axioms: propext, Classical.choice, Quot.sound',
                         'tools/params.py (constant/table translator)', 'correspondence harness (oracle, driver, comparator)'],
        'theorems': res.proof['theorems'],
        'axioms': res.proof['axioms'],
        'proof_broken': res.proof['broken'],
        'evaluations': res.corr['evaluations'],
        'distinct_nontrivial': len(res.distinct),
        'traces_validated_against_impl': res.corr['evaluations'],
        'disagreements_checked': len(model_dis),
        'model_disagreements': model_dis[:10],
        'impl_failures': impl_fail[:10],
        'samples': res.corr['samples'][:8],
        'input_distribution': res.corr['hist'],
        'notes': res.notes,
    }
    cov.update(coverage_extra or {})
    cov.update(res.extra)
    ev = {
        'property_id': prop, 'tier': res.tier, 'seed': res.seed, 'level': level,
        'coverage': cov, 'assumptions': assumptions,
        'wall_s': round(time.time() - res.t0, 2), 'violations': violations,
    }
    os.makedirs(os.path.join(VERIF, 'evidence'), exist_ok=True)
    json.dump(ev, open(os.path.join(VERIF, 'evidence', prop + '.json'), 'w'), indent=1)
    if exit_code == 0:
        print(f'OK property={prop} tier={res.tier} theorems={res.proof["discharged"]}/{res.proof["obligations"]} '
              f'evaluations={res.corr["evaluations"]} wall={ev["wall_s"]}s', flush=True)
    return exit_code


def summarize(res, cap=60):
    """what a worker process sends back: small, picklable"""
    return {'evaluations': res.corr['evaluations'], 'model_disagreements': res.corr['model_disagreements'][:cap],
            'impl_failures': res.corr['impl_failures'][:cap], 'samples': res.corr['samples'][:6], 'hist': res.corr['hist'],
            'distinct': res.distinct, 'extra': res.extra, 'notes': res.notes}


def merge_summary(res, s):
    res.corr['evaluations'] += s['evaluations']
    res.corr['model_disagreements'] += s['model_disagreements']
    res.corr['impl_failures'] += s['impl_failures']
    if len(res.corr['samples']) < 8:
        res.corr['samples'] += s['samples'][:2]
    for k, v in s['hist'].items():
        res.corr['hist'][k] = res.corr['hist'].get(k, 0) + v
    res.distinct |= s['distinct']
    for k, v in s['extra'].items():
        if isinstance(v, (int, float)) and not isinstance(v, bool):
            res.extra[k] = res.extra.get(k, 0) + v
        else:
            res.extra.setdefault(k, v)


def parallel(res, worker, jobs, nproc=None):
    """run worker(job) -> summary for every job in a process pool (bounded memory: jobs are small, every process is
    recycled) and merge the summaries into res in job order. A worker that dies (e.g. out of memory) is detected
    (BrokenProcessPool) and the remaining jobs are run sequentially, so the check never hangs."""
    import concurrent.futures as cf, multiprocessing as mp
    nproc = nproc or max(1, min(14, (os.cpu_count() or 2) - 2))
    if len(jobs) <= 1 or nproc == 1:
        for j in jobs:
            merge_summary(res, worker(j))
        return
    done = 0
    try:
        with cf.ProcessPoolExecutor(max_workers=nproc, mp_context=mp.get_context('fork')) as ex:
            for s in ex.map(worker, jobs, timeout=3 * 3600):
                merge_summary(res, s); done += 1
    except Exception as exn:   # BrokenProcessPool, TimeoutError
        res.note(f'worker pool failed after {done} of {len(jobs)} jobs ({exn!r}); finishing sequentially')
        for j in jobs[done:]:
            merge_summary(res, worker(j))


def cut_jobs(items, weight, limit):
    """consecutive groups of items whose total weight stays near `limit`"""
    out, cur, w = [], [], 0
    for it in items:
        wi = weight(it)
        if cur and w + wi > limit:
            out.append(cur); cur, w = [], 0
        cur.append(it); w += wi
    if cur:
        out.append(cur)
    return out


def hbump(res, key, n=1):
    res.corr['hist'][key] = res.corr['hist'].get(key, 0) + n


def digest(s):
    return hashlib.sha1(s.encode()).hexdigest()[:12]
