#!/bin/sh
# Which lines of /repo/src do the correspondence workloads of ALL quick checks execute?  (generator-quality measure:
# code the oracle never runs is code whose agreement with the model is not validated.)  Builds an instrumented oracle
# with the nightly toolchain (separate target dir), runs every quick check with VERIF_COVERAGE=1, merges the profiles
# and writes .work/cov/report.txt (per file) + .work/cov/uncovered.txt (uncovered lines of /repo/src).
# The evidence of the unchanged tree is preserved.  usage: tools/coverage.sh [Cxx ...]
cd /verif
TOOLS=$(dirname $(find $HOME/.rustup/toolchains/nightly-x86_64-unknown-linux-gnu -name llvm-profdata | head -1))
rm -rf .work/cov .work/evidence_backup; mkdir -p .work/cov; cp -r evidence .work/evidence_backup
props="$@"; [ -z "$props" ] && props="C01 C02 C03 C04 C05 C06 C07 C08 C09 C10 C11 C12 C13 C14 C15 C17 C18 C19 C20"
# instrumented proc-macro / build scripts write profiles too: keep them out of /repo
export LLVM_PROFILE_FILE=/verif/.work/cov/build-%p-%8m.profraw
for p in $props; do VERIF_COVERAGE=1 ./check $p --tier quick 2>&1 | grep -E "^(OK|VIOLATION)" | head -1; done
rm -rf evidence; cp -r .work/evidence_backup evidence
rm -f .work/cov/build-*.profraw /repo/default_*.profraw
$TOOLS/llvm-profdata merge -sparse .work/cov/oracle-*.profraw -o .work/cov/all.profdata || exit 2
OBJS=$(ls .work/cov/bins/* | sed 's/^/-object /' | tr '\n' ' ')
BIN=$(ls .work/cov/bins/* | head -1)
$TOOLS/llvm-cov report $BIN $OBJS -instr-profile=.work/cov/all.profdata --ignore-filename-regex='(\.cargo|rustc|/verif/)' > .work/cov/report.txt 2>&1
$TOOLS/llvm-cov show $BIN $OBJS -instr-profile=.work/cov/all.profdata --ignore-filename-regex='(\.cargo|rustc|/verif/)' --show-line-counts-or-regions > .work/cov/show.txt 2>&1
python3 - <<'PY'
import re
cur=None; out=[]
for ln in open('/verif/.work/cov/show.txt'):
    m=re.match(r'^(/repo/[^:]+):$', ln.strip())
    if m: cur=m.group(1); continue
    m=re.match(r'^\s*(\d+)\|\s*0\|(.*)$', ln)
    if m and cur: out.append(f'{cur}:{m.group(1)}:{m.group(2)[:140]}')
open('/verif/.work/cov/uncovered.txt','w').write('\n'.join(out)+'\n')
print('uncovered lines in /repo/src:', len(out))
PY
cat .work/cov/report.txt | tail -25
