#!/bin/sh
# usage: tools/try_seed.sh <patch.diff> <prop> [<prop> ...]   -- applies the patch to /repo, runs the quick checks, undoes it
patch="$1"; shift
cd /repo || exit 2
git apply "$patch" || { echo "patch does not apply"; exit 2; }
cd /verif
# evidence written while a seeded change is applied must not replace the evidence of the unchanged tree
rm -rf .work/evidence_backup; mkdir -p .work; cp -r evidence .work/evidence_backup
restore_evidence() { rm -rf /verif/evidence; cp -r /verif/.work/evidence_backup /verif/evidence; }
trap restore_evidence EXIT
for p in "$@"; do
  ./check "$p" --tier quick 2>&1 | grep -E "^(VIOLATION|OK|KNOWN-FINDING)" | head -3
done
git -C /repo checkout -- . 
git -C /repo status --short | head -3
