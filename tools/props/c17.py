"""C17 - the derive accepts every supported declaration and the result obeys C01."""
import os, re, json, random
import core, sx, shapes, decls
from core import hbump
from props import dcommon, dgeneric

LEVEL = 'translation_validation'
PROP = 'C17'
DECL_FEATURES = ('debug_diffs', 'generated_setters')
ASSUMPTIONS = dgeneric.ASSUMPTIONS + [
    'acceptance by rustc of the macro output is SAMPLED over an unbounded declaration language (each grammar feature alone, pairs, seeded mixes), not proved: no Lean model of the Rust type checker',
    'the semantic half (round trip, frame) is a theorem for every type shape (Props/C01, C03) once a declaration is accepted and the template semantics correspond',
    'declarations are compiled without the codec features: with serde / nanoserde the THIRD-PARTY derives applied to user types and to the generated enums reject part of the grammar themselves',
]
E3_PROBE = '''#![allow(dead_code)]
use structdiff::{Difference, StructDiff};
#[derive(Debug, Clone, PartialEq, Difference)]
pub struct P<const C: usize> {
    f: [u8; C],
}
'''


def cargo_check(res, src, features):
    path = os.path.join(core.VERIF, 'harness_decl', 'src', 'lib.rs')
    open(path, 'w').write(src)
    env = dict(core.ENV, CARGO_TARGET_DIR=os.path.join(core.WORK, 'target-decl'))
    cmd = ['cargo', 'check', '--offline', '--lib']
    if features:
        cmd += ['--features', ','.join(features)]
    rc, out, dt = core.sh(cmd, cwd=os.path.join(core.VERIF, 'harness_decl'), timeout=3600, env=env)
    res.extra.setdefault('cargo_check_s', []).append(round(dt, 1))
    return rc, out


def failures_of(out, ranges, plan):
    blocks = re.split(r'\n(?=error)', out)
    byk = {}
    unplaced = []
    for b in blocks:
        if not b.startswith('error'):
            continue
        m = re.search(r'--> src/lib.rs:(\d+)', b)
        if not m:
            if 'could not compile' not in b and 'aborting due to' not in b:
                unplaced.append(b[:300])
            continue
        ln = int(m.group(1))
        for a, bb, k in ranges:
            if a <= ln < bb:
                byk.setdefault(k, []).append(b); break
    return byk, unplaced


def run(res, ctx):
    tier, seed = res.tier, res.seed
    proof_ok = core.prove(res, PROP, thorough=(tier == 'thorough'))
    # ---------------- (b) compile half
    pl = decls.plan(tier, seed)
    src, ranges = decls.render(pl, seed)
    rc, out = cargo_check(res, src, DECL_FEATURES)
    byk, unplaced = failures_of(out, ranges, pl)
    res.extra['declarations'] = len(pl)
    for fs in pl:
        for x in fs:
            hbump(res, 'axis:' + x)
    res.corr['evaluations'] += len(pl)
    for k, fs in enumerate(pl):
        if len(fs) >= 2:
            res.distinct.add('decl:' + ' '.join(fs))
    if rc != 0 and not byk:
        res.corr['impl_failures'].append({'request': 'cargo check (generated declarations)', 'what': 'the declaration crate does not compile and the error could not be attributed to a declaration', 'log': out[-3000:]})
    for k, blocks in sorted(byk.items()):
        first = blocks[0]
        code = (re.match(r'error(\[E\d+\])?', first).group(1) or 'panic').strip('[]')
        text = decls.decl(k, pl[k], random.Random(seed))
        res.corr['impl_failures'].append({
            'request': 'declaration:\n' + text, 'axes': ' '.join(pl[k]), 'error_kind': code,
            'all_skipped': 'all_skipped' in pl[k],
            'what': f'a declaration in the supported grammar (features: {" ".join(pl[k])}) is rejected: ' + first.split('\n')[0][:200],
            'log': first[:1200]})
    # E3 probe: const generics with a codec feature
    rc3, out3 = cargo_check(res, E3_PROBE, ('nanoserde',))
    if rc3 != 0:
        res.corr['impl_failures'].append({'request': 'declaration (features nanoserde):\n' + E3_PROBE, 'axes': 'const_param + codec feature', 'error_kind': 'E0404-const-generic-codec',
                                          'what': 'a struct with a const generic parameter does not compile when nanoserde (or serde) is enabled: ' + (re.search(r'error[^\n]*', out3) or ['?'])[0][:160] if re.search(r'error[^\n]*', out3) else 'compile error',
                                          'log': out3[-1200:]})
    res.corr['samples'].append({'declaration': decls.decl(len(pl) - 1, pl[-1], random.Random(seed))[:1500], 'axes': pl[-1]})
    # ---------------- (a) semantic half on constructible shapes
    shs, binp = dcommon.build(res, tier, seed, ('debug_diffs',))
    res.extra['shapes'] = len(shs)
    if binp is None:
        res.corr['impl_failures'].append({'request': 'cargo build (shape catalogue)', 'what': 'the shape catalogue does not compile', 'log': res.extra.get('cargo_error', '')[-2500:]})
    else:
        pr = dcommon.pair_requests(shs, tier, seed, per_shape=(8 if tier == 'quick' else 60))
        sub = core.Result(PROP, tier, seed)
        dcommon.run_pairs(sub, shs, binp, pr, {'C01'})
        sr = dgeneric.subset_requests(shs, 'quick', seed)[: (600 if tier == 'quick' else 6000)]
        ol, dl = dcommon.to_lines(shs, [x[:4] for x in sr])
        rc, rows = core.run_oracle(binp, ol); rc, mo = core.run_driver(dl)
        dgeneric.evaluate_subsets(sub, shs, sr, rows, mo)
        res.corr['evaluations'] += sub.corr['evaluations']
        res.corr['model_disagreements'] += sub.corr['model_disagreements']
        res.corr['impl_failures'] += sub.corr['impl_failures']
        res.distinct |= sub.distinct
        res.corr['samples'] += sub.corr['samples'][:2]
    cov = {'programs': len(pl) + len(shs), 'disagreements_checked': len(res.corr['model_disagreements']),
           'rule': 'declarations generated from a grammar of %d features (item / field visibility, lifetime / type / const parameters with bounds and defaults, where clauses incl. array and dyn bounds, field types: unit, tuples, arrays with literal / cast / const lengths, nested generics, references, paths, associated types, skipped Box<dyn Fn> / fn pointers / `!`, raw identifiers, doc comments and foreign attributes on items / fields / variants, every documented difference attribute in both spellings, swapped order, trailing comma, setters attributes, expose; enums with unit / tuple / struct variants): each feature alone, pairs (quick: a seeded sample, thorough: all), seeded mixes; each is compiled against the real macro; the round-trip and frame oracles run on the constructible shape catalogue' % len(decls.FEATURES),
           'explanation': 'compile acceptance is validated on generated programs; semantics of accepted declarations is covered by the C01/C03 theorems'}
    return core.finish(res, LEVEL, cov, ASSUMPTIONS, proof_ok, None)
