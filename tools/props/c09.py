"""C09 - the rope behaves exactly like a growable array under every operation history."""
import random, itertools
import core, sx
from core import hbump

LEVEL = 'proof'
FEATURES = ()
ASSUMPTIONS = [
    'chunks are modelled as bounded lists; that an ArrayMap chunk behaves like one is exactly C10 (Props/C10.lean)',
    'Vec / VecDeque / mem::swap / retain are modelled as list functions',
    'usize arithmetic is modelled in Nat (no wrap-around below 2^64 elements)',
]


def compositions(total, maxpart):
    if total == 0:
        yield []
        return
    for p in range(1, min(maxpart, total) + 1):
        for rest in compositions(total - p, maxpart):
            yield [p] + rest


def chunks_from_lens(lens, base=0):
    out = []; k = base
    for n in lens:
        out.append(list(range(k, k + n))); k += n
    return out


def all_ops(n, rnd=None, cap=None):
    ops = []
    for i in range(n + 1):
        ops.append(['insert', i, 900 + i])
    for i in range(n):
        ops.append(['remove', i])
        ops.append(['set', i, 800 + i])
    for lo in range(n):
        for hi in range(lo, n):
            ops.append(['drain', lo, hi])
    for a in range(n):
        for b in range(n):
            ops.append(['swap', a, b])
    ops.append(['index', n]); ops.append(['index', n + 3])
    for i in range(n):
        ops.append(['index', i])
    ops.append(['judge'])
    if cap and len(ops) > cap:
        ops = rnd.sample(ops, cap)
    return ops


def rand_op(n, rnd, val):
    r = rnd.random()
    if n == 0 or r < 0.34:
        return ['insert', rnd.randrange(0, n + 1), val], n + 1
    if r < 0.55:
        return ['remove', rnd.randrange(0, n)], n - 1
    if r < 0.72:
        lo = rnd.randrange(0, n); hi = min(n - 1, lo + int(rnd.expovariate(1 / 6.0)))
        return ['drain', lo, hi], n - (hi - lo + 1)
    if r < 0.82:
        return ['swap', rnd.randrange(0, n), rnd.randrange(0, n)], n
    if r < 0.92:
        return ['set', rnd.randrange(0, n), val], n
    return ['index', rnd.randrange(0, n + 2)], n


def history(rnd, steps, start, profile):
    n = start; ops = []; val = 1000
    for s in range(steps):
        if profile == 'mixed':
            op, n = rand_op(n, rnd, val)
        elif profile == 'append':      # repeated appends create size-1 chunks, then mid inserts fill chunks to MAX
            r = rnd.random()
            if r < 0.45:
                op, n = ['insert', n, val], n + 1
            elif r < 0.8 and n > 0:
                pos = rnd.randrange(0, n + 1)
                op, n = ['insert', pos, val], n + 1
            else:
                op, n = rand_op(n, rnd, val)
        elif profile == 'fill':        # hammer one position so a chunk reaches MAX and carries run through many chunks
            r = rnd.random()
            pos = min(n, 3)
            if r < 0.7:
                op, n = ['insert', pos, val], n + 1
            else:
                op, n = rand_op(n, rnd, val)
        elif profile == 'drainy':      # long drains across several chunks, drains down to 0/1 leftovers
            r = rnd.random()
            if n > 20 and r < 0.4:
                lo = rnd.randrange(0, n); hi = min(n - 1, lo + rnd.randrange(8, 40))
                op, n = ['drain', lo, hi], n - (hi - lo + 1)
            elif r < 0.8:
                op, n = ['insert', rnd.randrange(0, n + 1), val], n + 1
            else:
                op, n = rand_op(n, rnd, val)
        else:                          # shrink: remove from the front so chunks drop to UNDERSIZED
            r = rnd.random()
            if n > 0 and r < 0.6:
                op, n = ['remove', rnd.randrange(0, min(n, 4))], n - 1
            else:
                op, n = rand_op(n, rnd, val)
        val += 1
        ops.append(op)
    return ops


def requests(tier, seed, P):
    rnd = random.Random(seed)
    reqs = []
    S = P['SMALL']
    # (1) scaled-down twin: EVERY invariant-satisfying chunk vector up to a total length x every in-range op
    tot = 7 if tier == 'quick' else 11
    for t in range(tot + 1):
        for lens in compositions(t, S['MAX'] - 1):
            ch = chunks_from_lens(lens)
            for op in all_ops(t):
                reqs.append(sx.show(['rope', 'small', ch, op]))
    # constructions
    for k in list(range(0, 20)) + [31, 32, 33, 64, 100]:
        reqs.append(sx.show(['rope', 'prod', ['fromiter', list(range(k))]]))
        reqs.append(sx.show(['rope', 'small', ['fromiter', list(range(k))]]))
    reqs.append(sx.show(['rope', 'prod', ['new']]))
    reqs.append(sx.show(['rope', 'small', ['new']]))
    # (2) production constants: random invariant-satisfying chunk vectors x random ops (single steps from ANY RInv state)
    nvec = 300 if tier == 'quick' else 6000
    M = P['MAX']
    pool = [1, 1, 2, M - 1, M - 1, M - 2, P['BASE'], P['BASE'] - 1, P['BASE'] + 1, P['LOW'], P['HIGH'], P['LOW'] - 1, P['HIGH'] + 1]
    pool = [x for x in pool if 1 <= x <= M - 1]
    for _ in range(nvec):
        k = rnd.randrange(1, 9)
        lens = [rnd.choice(pool) if rnd.random() < 0.8 else rnd.randrange(1, M) for _ in range(k)]
        ch = chunks_from_lens(lens)
        n = sum(lens)
        for op in all_ops(n, rnd, cap=40):
            reqs.append(sx.show(['rope', 'prod', ch, op]))
    # (3) histories from `new` and from `from_iter`
    nh, steps = (24, 400) if tier == 'quick' else (240, 1500)
    profiles = ['mixed', 'append', 'fill', 'drainy', 'shrink']
    for h in range(nh):
        prof = profiles[h % len(profiles)]
        which = 'prod' if h % 4 else 'small'
        if h % 3 == 0:
            ctor = ['new']; start = 0
        else:
            start = rnd.choice([0, 1, 7, 8, 9, 16, 17, 40, 100, 257])
            ctor = ['fromiter', list(range(start))]
        reqs.append(sx.show(['rope-hist', which, ctor, history(rnd, steps, start, prof)]))
    return reqs


def vec_ref(flat, op):
    """plain growable array; returns ('panic',) | ('ok', ret, newlist) | None (out of range mutation: unspecified)"""
    v = list(flat); k = op[0]; n = len(v)
    if k == 'insert':
        i = int(op[1])
        if i > n: return None
        v.insert(i, int(op[2])); return ('ok', None, v)
    if k == 'remove':
        i = int(op[1])
        if i >= n: return None
        del v[i]; return ('ok', None, v)
    if k == 'drain':
        lo, hi = int(op[1]), int(op[2])
        if lo > hi or hi >= n: return None
        del v[lo:hi + 1]; return ('ok', None, v)
    if k == 'swap':
        a, b = int(op[1]), int(op[2])
        if a >= n or b >= n: return None
        v[a], v[b] = v[b], v[a]; return ('ok', None, v)
    if k == 'set':
        i = int(op[1])
        if i >= n: return None
        v[i] = int(op[2]); return ('ok', None, v)
    if k == 'index':
        i = int(op[1])
        return ('ok', v[i], None) if i < n else ('panic',)
    if k == 'judge':
        return ('ok', None, v)
    return None


def evaluate(res, rows, P, legacy=False):
    lines = []
    for row in rows:
        req, resp = row[0], row[1]
        lines.append(req)
        r = sx.parse(resp); q = sx.parse(req)
        ch = sx.field(r, 'chunks') if r[0] == 'ok' else None
        lines.append(sx.show(['rope', q[1], ch[0], ['judge']]) if ch is not None else '')
    rc, out = core.run_driver(lines, legacy=legacy)
    if len(out) != len(lines):
        res.corr['model_disagreements'].append({'what': 'driver produced %d lines for %d requests' % (len(out), len(lines))})
        return
    layout_equal = 0; layout_total = 0
    for idx, row in enumerate(rows):
        req, resp = row[0], row[1]
        m = sx.parse(out[2 * idx]); j = sx.parse(out[2 * idx + 1]) if out[2 * idx + 1] else None
        r = sx.parse(resp); q = sx.parse(req)
        res.corr['evaluations'] += 1
        ctor = len(q) == 3
        op = q[2] if ctor else q[3]
        hbump(res, 'op:' + op[0]); hbump(res, 'consts:' + q[1])
        # ---- model vs implementation
        dis = None
        if m[0] != r[0]:
            dis = 'panic/no-panic differs'
        elif r[0] == 'ok':
            for key in ('ret', 'flat', 'len', 'iter', 'into'):
                a, b = sx.field(r, key), sx.field(m, key)
                if a is not None and sx.show(a) != sx.show(b):
                    dis = key + ' differs'; break
            if dis is None and sx.field(r, 'chunks') is not None:
                layout_total += 1
                if sx.show(sx.field(r, 'chunks')) == sx.show(sx.field(m, 'chunks')):
                    layout_equal += 1
                else:
                    hbump(res, 'layout_only_difference')
                    if len(res.corr['samples']) < 6:
                        res.corr['samples'].append({'layout_only_difference': req, 'impl': resp, 'model': out[2 * idx]})
        if dis:
            res.corr['model_disagreements'].append({'request': req, 'impl': resp, 'model': out[2 * idx], 'what': dis})
        # ---- implementation vs plain growable array (the property)
        if ctor:
            pre = None
            exp = [] if op[0] == 'new' else [int(x) for x in op[1]]
            ref = ('ok', None, exp)
            pre_inv = True
        else:
            prech = q[2]
            pre = [int(x) for c in prech for x in c]
            pre_inv = all(1 <= len(c) <= (P['MAX'] if q[1] == 'prod' else P['SMALL']['MAX']) - 1 for c in prech)
            ref = vec_ref(pre, op)
            lens = tuple(len(c) for c in prech)
            if len(lens) >= 2 or (lens and lens[0] > 1):
                res.distinct.add(core.digest(req))
            hbump(res, 'chunks_in_state:' + (str(len(lens)) if len(lens) < 8 else '8+'))
        fail = None
        if len(row) > 2 and not ctor:
            # history rows carry what the in-process Vec said
            vr = sx.parse(row[2])
            if ref is not None and vr[0] == 'ok' and ref[0] == 'ok' and ref[2] is not None and len(vr) > 1 and isinstance(vr[1], list) and sx.show(vr[1]) != sx.show(ref[2]):
                # history state is the real rope's; if the rope already diverged the Vec is the authority
                ref = ('ok', None, [int(x) for x in vr[1]])
        if ref is not None and (pre_inv or ctor or True):
            if ref[0] == 'panic':
                if r[0] != 'panic':
                    fail = 'read at or past the length did not panic: ' + resp
            elif r[0] != 'ok':
                fail = 'in-range operation panicked'
            else:
                if ref[1] is not None:
                    got = sx.field(r, 'ret')
                    if got is None or sx.show(got[0]) != sx.show(ref[1]):
                        fail = f'indexed read returned {sx.show(got)} but a growable array holds {ref[1]}'
                if ref[2] is not None and sx.field(r, 'flat') is not None:
                    exp = sx.show(ref[2])
                    if sx.show(sx.field(r, 'flat')[0]) != exp:
                        fail = 'contents differ from a growable array: ' + sx.show(sx.field(r, 'flat')[0]) + ' vs ' + exp
                    elif sx.show(sx.field(r, 'iter')[0]) != exp:
                        fail = 'borrowed iteration yields ' + sx.show(sx.field(r, 'iter')[0]) + ' but the contents are ' + exp
                    elif sx.show(sx.field(r, 'into')[0]) != exp:
                        fail = 'consuming iteration yields ' + sx.show(sx.field(r, 'into')[0]) + ' but the contents are ' + exp
                    elif sx.field(r, 'len') != [str(len(ref[2]))]:
                        fail = 'len() = ' + sx.show(sx.field(r, 'len')) + ' but holds %d elements' % len(ref[2])
                    elif sx.field(r, 'reads') != ['true']:
                        fail = 'an indexed read returned a wrong element'
                    elif sx.field(r, 'pastend') != ['panic']:
                        fail = 'reading at the length did not panic'
                    elif j is not None and sx.field(j, 'inv') != ['true'] and pre_inv:
                        fail = 'chunk-size invariant (1..MAX-1) broken in ' + sx.show(sx.field(r, 'chunks')[0])
        if fail:
            res.corr['impl_failures'].append({'request': req, 'impl': resp, 'what': fail, 'op': op[0],
                                              'construction': 'history' if len(row) > 2 else 'state'})
    res.extra['layout_equal'] = res.extra.get('layout_equal', 0) + layout_equal
    res.extra['layout_total'] = res.extra.get('layout_total', 0) + layout_total
    if rows:
        for k in (1, len(rows) // 2, len(rows) - 1):
            if k < len(rows):
                res.corr['samples'].append({'request': rows[k][0][:400], 'impl': rows[k][1][:400], 'model': out[2 * k][:400]})


def _work(job):
    binp, chunk, P, tier, seed = job
    r = core.Result('C09', tier, seed)
    rc, rows = core.run_oracle(binp, chunk)
    evaluate(r, rows, P)
    return core.summarize(r)


def run(res, ctx):
    P = ctx['params']
    proof_ok = core.prove(res, 'C09', thorough=(res.tier == 'thorough'))
    binp = core.build_harness(res, FEATURES)
    if binp is None:
        res.corr['model_disagreements'].append({'what': 'harness does not build against /repo (white-box inclusion of rope sources)',
                                                'log': res.extra.get('cargo_error', '')[-1500:]})
        return core.finish(res, LEVEL, {}, ASSUMPTIONS, proof_ok)
    reqs = ctx.get('replay_requests') or requests(res.tier, res.seed, P)
    # bounded memory + all cores: the request stream is cut into jobs (history requests expand to thousands of rows)
    # a history request expands to one row per step, each carrying the whole state: weigh it by its step count
    weight = lambda r: (r.count('(') // 2 + 1) if r.startswith('(rope-hist') else 1
    jobs = [(binp, grp, P, res.tier, res.seed) for grp in core.cut_jobs(reqs, weight, 5000)]
    core.parallel(res, _work, jobs)
    lt = res.extra.get('layout_total', 0)
    res.extra['layout_equal_fraction'] = round(res.extra.get('layout_equal', 0) / lt, 6) if lt else None

    def search():
        extra = requests('thorough', res.seed + 1, P)
        rc, rows2 = core.run_oracle(binp, extra[:200000])
        r2 = core.Result('C09', res.tier, res.seed)
        evaluate(r2, rows2, P)
        return r2.corr['impl_failures']

    cov = {'exhaustive': True,
           'rule': 'scaled-down twin of the real source (MAX=4, BASE=2): every invariant-satisfying chunk vector up to total length 7 (quick) / 11 (thorough) x every in-range operation; '
                   'production constants: random invariant-satisfying chunk vectors x operations, and seeded histories (profiles mixed/append/fill/drainy/shrink) from new() and from_iter; '
                   'each step runs the Lean model FROM THE REAL PRE-STATE and lets Lean judge the invariant of the real post-state; '
                   'distinct_nontrivial = distinct requests whose state has >= 2 chunks or a chunk with > 1 element',
           'whitebox': P.get('whitebox', False)}
    return core.finish(res, LEVEL, cov, ASSUMPTIONS, proof_ok, search)
