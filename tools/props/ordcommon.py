"""shared helpers for the ordered-list properties (C07, C08, C18)"""
import random
import sx

NAN = 999999


def norm_script(x):
    """oracle: (OrderedArrayLikeDiffRef|Owned (list c...)) ; driver: (c...) -> canonical string"""
    if isinstance(x, list) and x and x[0] in ('OrderedArrayLikeDiffRef', 'OrderedArrayLikeDiffOwned'):
        x = x[1]
    if isinstance(x, list) and x and x[0] == 'list':
        x = x[1:]
    out = []
    for c in x:
        c = list(c)
        c = ['999999' if a == 'NaN' else a for a in c]
        # floats print as `3.0`
        c = [a[:-2] if isinstance(a, str) and a.endswith('.0') else a for a in c]
        out.append(c)
    return sx.show(out)


def ref_apply(script, L):
    """plain growable-array semantics; returns list or None (index out of range at the moment it is used)"""
    L = list(L)
    for c in script:
        k = c[0]
        if k == 'Replace':
            v, i = int(c[1]), int(c[2])
            if i >= len(L): return None
            L[i] = v
        elif k == 'Insert':
            v, i = int(c[1]), int(c[2])
            if i > len(L): return None
            L.insert(i, v)
        elif k == 'Delete':
            i = int(c[1])
            if c[2] == 'None':
                if i >= len(L): return None
                del L[i]
            else:
                r = int(c[2][1])
                if i > r or r >= len(L): return None
                del L[i:r + 1]
        elif k == 'Swap':
            a, b = int(c[1]), int(c[2])
            if a >= len(L) or b >= len(L): return None
            L[a], L[b] = L[b], L[a]
    return L


def rand_list(rnd, n, alpha):
    return [rnd.randrange(alpha) for _ in range(n)]


def mutate(rnd, base, edits, alpha):
    L = list(base)
    for _ in range(edits):
        r = rnd.random()
        if r < 0.34 and L:
            del L[rnd.randrange(len(L))]
        elif r < 0.67:
            L.insert(rnd.randrange(len(L) + 1), rnd.randrange(alpha))
        elif L:
            L[rnd.randrange(len(L))] = rnd.randrange(alpha)
    return L
