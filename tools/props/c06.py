"""C06 - derive-level property (see DESIGN.md §5); shared machinery in props/dcommon.py"""
from props import dgeneric
def run(res, ctx):
    return dgeneric.run(res, ctx, 'C06')
