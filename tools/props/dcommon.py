"""shared machinery for the derive-level properties (C01-C06, C13, C15-C17): shape catalogue + seeded random
shapes compiled against the REAL macro, request generation, evaluation against the model and against the
properties themselves (oracles that do not involve the model)."""
import random, collections, json, re
import core, sx, shapes
from core import hbump


def make_shapes(tier, seed, features=(), extra_random=None, extra=()):
    rnd = random.Random(seed * 7919 + 13)
    cat = shapes.catalogue(features)
    nrand = extra_random if extra_random is not None else (12 if tier == 'quick' else 60)
    rs = [shapes.random_shape(rnd, 0, features) for _ in range(nrand)]
    return shapes.name_shapes(cat + rs + list(extra))


def build(res, tier, seed, features, with_setters=False, shapes_list=None, profile='release'):
    sh = shapes_list if shapes_list is not None else make_shapes(tier, seed, features)
    binp = None
    for attempt in range(4):
        shapes.write_shapes(sh, with_setters)
        binp = core.build_harness(res, features, profile=profile, shapes_written=True)
        if binp is not None:
            break
        # isolate the shapes whose derive output no longer compiles: each is a concrete failing declaration; the
        # remaining shapes are still built and explored (a semantic failure may hide behind the compile failure)
        bad = shapes.blame(getattr(res, 'cargo_full', ''))
        if not bad:
            break
        first_err = re.search(r'^(error(\[E\d+\])?: [^\n]*)', getattr(res, 'cargo_full', ''), re.M)
        for i in bad:
            res.corr['impl_failures'].append({'request': 'declaration (a shape of the generated catalogue):\n' + shapes.shape_text(sh[i])[-2500:],
                                              'shape': json.dumps(shapes.lean_ty(sh[i]))[:600],
                                              'what': 'a derivable type of the shape catalogue is rejected (the derive output does not compile): ' + (first_err.group(1) if first_err else 'see log'),
                                              'error_kind': 'shape-rejected', 'log': getattr(res, 'cargo_full', '')[-1500:]})
        res.note(f'{len(bad)} shape(s) no longer compile; continuing with the remaining {len(sh) - len(bad)}')
        sh = [x for i, x in enumerate(sh) if i not in bad]
    return sh, binp


# ------------------------------------------------------------------ requests

COUNTS = [0, 1, 2, 3, 254, 255, 256, 257, 300, 511, 512, 600]


def pair_classes(sh, rnd):
    a = shapes.gen_value(sh, rnd)
    # multiplicity class: one item of a duplicate-capable unordered collection changes its count across the
    # Single / Few (2..=255) / Many (>= 256) boundaries in either direction (every change variant, also on the wire)
    if sh['t'] == 'struct':
        cands = [i for i, f in enumerate(sh['fields']) if f['k'] == 'unord' and f['cont'] not in ('HashSet', 'BTreeSet')]
        if cands and rnd.random() < 0.12:
            i = rnd.choice(cands)
            others = [x for x in a[i + 1][1:] if x != 5]
            ca, cb = rnd.choice(COUNTS), rnd.choice(COUNTS)
            a = list(a); a[i + 1] = ['l'] + others + [5] * ca
            b = shapes.mutate_value(sh, a, rnd, 0.15); b = list(b)
            ob = list(others)
            if rnd.random() < 0.3 and ob: ob.pop()
            b[i + 1] = ['l'] + [5] * cb + ob
            f = shapes.follower_of(sh, a, rnd) if rnd.random() < 0.7 else a
            return a, b, f, 'multiplicity'
    if shapes.plain_only(sh) and shapes.has_float(sh) and rnd.random() < 0.2:
        # ==-twin class (types whose == is coarser than identity): the diff of (a, b) is ALSO applied to a base that is == to
        # the target b but rendered differently (every float zero of the other sign); a is anything that is != b
        b = shapes.gen_zeroish(sh, rnd)
        f = shapes.flip_zeros(sh, b)
        for _ in range(20):
            a = shapes.gen_value(sh, rnd)
            if not peq_value(sh, a, b): break
        if f != b:
            return a, b, f, 'eq-twin-base'
    if sh['t'] == 'struct':
        # shrink class: a map-like / array-like collection loses more than half of its keys / items but not all of them:
        # the NON-EMPTY full replacement of the unordered strategies (its payload, its codec, its apply arm)
        cands = [i for i, f in enumerate(sh['fields']) if f['k'] in ('map', 'recmap', 'unord')]
        if cands and rnd.random() < 0.1:
            i = rnd.choice(cands); f = sh['fields'][i]
            a = list(a)
            for _ in range(20):
                if len(a[i + 1]) - 1 >= 4: break
                a[i + 1] = shapes.gen_field(f, rnd)
            if len(a[i + 1]) - 1 >= 4:
                b = list(shapes.mutate_value(sh, a, rnd, 0.15))
                keep = rnd.sample(a[i + 1][1:], rnd.choice([1, 1, 2]) if len(a[i + 1]) - 1 >= 6 else 1)
                if f['k'] == 'map':
                    keep = [[kv[0], (int(kv[1]) + 1) % 3] if rnd.random() < 0.3 else kv for kv in keep]
                b[i + 1] = [a[i + 1][0]] + sorted(keep, key=lambda x: int(x[0]) if isinstance(x, list) else int(x))
                return a, b, (shapes.follower_of(sh, a, rnd) if rnd.random() < 0.7 else a), 'shrink'
    if sh['t'] == 'enum' and rnd.random() < 0.3:
        # same variant, another payload: a derived `==` has to look inside the variant
        for _ in range(30):
            b = shapes.enum_same_variant(sh, a, rnd)
            if b is not None: break
            a = shapes.gen_value(sh, rnd)
        if b is not None:
            return a, b, foreign_or_follower(sh, a, b, rnd), 'same-variant'
    r = rnd.random()
    if r < 0.30:
        b = shapes.gen_value(sh, rnd); cls = 'random'
    elif r < 0.55:
        b = shapes.mutate_value(sh, a, rnd, 0.3); cls = 'mutated'
    elif r < 0.65 and sh['t'] == 'struct':
        # exactly one field differs
        b = list(a); i = rnd.randrange(len(sh['fields'])); b[i + 1] = shapes.mutate_field(sh['fields'][i], a[i + 1], rnd); cls = 'one-field'
    elif r < 0.75:
        b = shapes.mutate_value(sh, a, rnd, only_skipped=True); cls = 'only-skipped'
    elif r < 0.85:
        b = shapes.shuffle_unordered(sh, a, rnd); cls = 'only-order'
    elif r < 0.92:
        b = a; cls = 'identical'
    else:
        b = shapes.mutate_value(sh, a, rnd, 0.8); cls = 'heavy'
    return a, b, foreign_or_follower(sh, a, b, rnd), cls


def foreign_or_follower(sh, a, b, rnd):
    """the third value of a request: the base the diff(a, b) is ALSO applied to. Usually a follower of a (equivalent, not
    identical: C02); for types made of plain / nested-plain fields, where a diff may be applied to any value (C06), also
    a base that is `==` to the TARGET but rendered differently (float zeros of the other sign) or an unrelated value"""
    if shapes.plain_only(sh) and rnd.random() < 0.3:
        f = shapes.flip_zeros(sh, b)
        if f != b and rnd.random() < 0.8:
            return f
        return shapes.gen_value(sh, rnd)
    return shapes.follower_of(sh, a, rnd) if rnd.random() < 0.7 else a


def directed_shrink(sh, i, rnd):
    """a pair in which collection field i loses more than half of its entries but keeps one or two (non-empty replacement)"""
    f = sh['fields'][i]
    a = list(shapes.gen_value(sh, rnd))
    for _ in range(40):
        if len(a[i + 1]) - 1 >= 4: break
        a[i + 1] = shapes.gen_field(f, rnd)
    if len(a[i + 1]) - 1 < 4:
        return None
    b = list(a) if rnd.random() < 0.5 else list(shapes.mutate_value(sh, a, rnd, 0.3))
    keep = rnd.sample(a[i + 1][1:], 1 if len(a[i + 1]) - 1 < 6 else rnd.choice([1, 2]))
    b[i + 1] = [a[i + 1][0]] + sorted(keep, key=lambda x: int(x[0]) if isinstance(x, list) else int(x))
    return a, b, (shapes.follower_of(sh, a, rnd) if rnd.random() < 0.5 else a), 'shrink-directed'


def pair_requests(shs, tier, seed, per_shape=None):
    rnd = random.Random(seed)
    n = per_shape or (25 if tier == 'quick' else 400)
    out = []
    for i, sh in enumerate(shs):
        for _ in range(n):
            a, b, f, cls = pair_classes(sh, rnd)
            out.append((i, 'pair', [a, b, f], cls))
    # directed requests, appended with their OWN random stream (so that adding one never shifts the streams above):
    # a map whose (K, V) pair is padded in memory must see a non-empty replacement in every run
    rnd2 = random.Random(seed * 31 + 7)
    for i, sh in enumerate(shs):
        if sh['t'] != 'struct':
            continue
        for j, f in enumerate(sh['fields']):
            if f['k'] == 'map' and f.get('vty', 'u32') != 'u32' and not f['skip']:
                for _ in range(4):
                    r = directed_shrink(sh, j, rnd2)
                    if r is not None:
                        out.append((i, 'pair', [r[0], r[1], r[2]], r[3]))
    return out


def to_lines(shs, reqs):
    """(oracle line, driver line) for each request"""
    ol, dl = [], []
    for (i, op, args, _cls) in reqs:
        ol.append(sx.show(['derive', i, op] + args))
        dl.append(sx.show(['derive', shapes.lean_ty(shs[i]), op] + args))
    return ol, dl


# ------------------------------------------------------------------ the properties as oracles on canonical values

def raw(v):
    return sx.show(v)


def peq_value(sh, x, y):
    """the derived `PartialEq` of the shape's type (looks at skipped fields too; f64: -0.0 == 0.0, NaN != NaN)"""
    if sh['t'] == 'enum':
        if int(x[1]) != int(y[1]):
            return False
        v = sh['variants'][int(x[1])]
        if v[0] == 'ftuple':
            return all(shapes.eqf(p, q) for p, q in zip(x[2:], y[2:]))
        return [int(t) for t in x[2:]] == [int(t) for t in y[2:]]
    return all(peq_field(f, x[i + 1], y[i + 1]) for i, f in enumerate(sh['fields']))


def peq_field(f, x, y):
    k = f['k']
    if k == 'plain':
        r = f.get('rty', 'u32')
        if r == 'f64': return shapes.eqf(x, y)
        if r == 'struct': return peq_value(f['inner'], x, y)
        if r == 'enum': return peq_value(f['en'], x, y)
        return raw(x) == raw(y)
    if k == 'recurse': return peq_value(f['inner'], x, y)
    if k == 'ropt':
        return (x == 'none') == (y == 'none') and (x == 'none' or peq_value(f['inner'], x[1], y[1]))
    if k == 'ordered': return raw(x) == raw(y)
    if k == 'unord':
        if f['cont'] in ('HashSet', 'BTreeSet'): return sorted(map(int, x[1:])) == sorted(map(int, y[1:]))
        return raw(x) == raw(y)
    if k == 'map':
        return {int(a[0]): int(a[1]) for a in x[1:]} == {int(a[0]): int(a[1]) for a in y[1:]}
    if k == 'recmap':
        dx = {int(a[0]): a[1] for a in x[1:]}; dy = {int(a[0]): a[1] for a in y[1:]}
        return set(dx) == set(dy) and all(peq_value(f['inner'], dx[q], dy[q]) for q in dx)
    raise ValueError(k)


def field_same(f, x, y):
    """equality in the sense of the field's strategy (C04): the type's own `==` for plain / nested fields"""
    k = f['k']
    if k in ('plain', 'recurse', 'ropt'):
        return peq_field(f, x, y)
    if k == 'ordered':
        return raw(x) == raw(y)
    if k == 'unord':
        return sorted(map(int, x[1:])) == sorted(map(int, y[1:]))
    if k == 'map':
        return {int(a[0]): int(a[1]) for a in x[1:]} == {int(a[0]): int(a[1]) for a in y[1:]}
    if k == 'recmap':
        dx = {int(a[0]): a[1] for a in x[1:]}; dy = {int(a[0]): a[1] for a in y[1:]}
        if set(dx) != set(dy): return False
        return f['mode'] != 'kv' or all(peq_value(f['inner'], dx[q], dy[q]) for q in dx)
    raise ValueError(k)


def match_field(f, a, b, r, nested):
    """C01: r is b in the sense of the strategy; returns None or a failure text"""
    k = f['k']
    cf = lambda v: shapes.canon_field(f, v)
    if k == 'plain':
        # b's value -- or still the base's value when that is `==` to b's (nothing is sent then)
        if cf(r) == cf(b) or (cf(r) == cf(a) and peq_field(f, a, b)):
            return None
        return f'field is {raw(r)} but b holds {raw(b)}'
    if k in ('ordered', 'unord', 'map'):
        return None if cf(r) == cf(b) else f'field is {raw(r)} but b holds {raw(b)}'
    if k == 'recurse':
        if peq_field(f, a, b):
            return None if raw(r) == raw(a) else f'nested values are == but the field changed from {raw(a)} to {raw(r)}'
        return match_value(f['inner'], a, b, r, True)
    if k == 'ropt':
        if (r == 'none') != (b == 'none'):
            return f'Option constructor differs: {raw(r)} vs {raw(b)}'
        if b == 'none':
            return None
        if a == 'none':
            return None if shapes.canon_value(f['inner'], r[1]) == shapes.canon_value(f['inner'], b[1]) else 'None -> Some did not take b\'s value'
        if peq_value(f['inner'], a[1], b[1]):
            return None if raw(r) == raw(a) else f'nested values are == but the field changed from {raw(a)} to {raw(r)}'
        return match_value(f['inner'], a[1], b[1], r[1], True)
    if k == 'recmap':
        da = {int(t[0]): t[1] for t in a[1:]}; db = {int(t[0]): t[1] for t in b[1:]}; dr = {int(t[0]): t[1] for t in r[1:]}
        if set(dr) != set(db):
            return f'keys {sorted(dr)} but current has {sorted(db)}'
        if len(r[1:]) != len(dr):
            return 'duplicate key in result'
        for key in db:
            cr = shapes.canon_value(f['inner'], dr[key]); cb = shapes.canon_value(f['inner'], db[key])
            if key not in da:
                if cr != cb: return f'new key {key} does not carry current\'s value'
            elif f['mode'] == 'kv':
                if peq_value(f['inner'], da[key], db[key]):
                    m = None if cr == shapes.canon_value(f['inner'], da[key]) else 'retained key with == values was changed'
                else:
                    m = match_value(f['inner'], da[key], db[key], dr[key], True)
                if m: return f'key {key}: ' + m
            else:
                ca = shapes.canon_value(f['inner'], da[key])
                if cr != ca and cr != cb: return f'retained key {key} holds neither its old nor current\'s value'
        return None
    raise ValueError(k)


def match_value(sh, a, b, r, nested=False):
    if isinstance(r, str) and r == 'panic':
        return 'panicked'
    if sh['t'] == 'enum':
        cr = shapes.canon_value(sh, r)
        if cr == shapes.canon_value(sh, b) or (cr == shapes.canon_value(sh, a) and peq_value(sh, a, b)):
            return None
        return 'enum value is not b'
    for i, f in enumerate(sh['fields']):
        x, y, z = a[i + 1], b[i + 1], r[i + 1]
        if f['skip']:
            ca = shapes.canon_field(f, x); cz = shapes.canon_field(f, z)
            if raw(z) != raw(x) and not (nested and raw(z) == raw(y)):
                return f'skipped field f{i} changed: {raw(z)} (was {raw(x)})'
            continue
        m = match_field(f, x, y, z, nested)
        if m:
            return f'f{i}: ' + m
    return None


def equiv_value(sh, x, y):
    """C02 follower relation: equal on unskipped fields in the sense of each strategy; None or failure text"""
    if isinstance(y, str) and y == 'panic':
        return 'panicked'
    if sh['t'] == 'enum':
        return None if (raw(x) == raw(y) or peq_value(sh, x, y)) else 'enum values differ'
    for i, f in enumerate(sh['fields']):
        if f['skip']:
            continue
        a, b = x[i + 1], y[i + 1]
        k = f['k']
        if k == 'recurse':
            m = equiv_value(f['inner'], a, b)
        elif k == 'ropt':
            if (a == 'none') != (b == 'none'): m = 'Option constructor differs'
            elif a == 'none': m = None
            else: m = equiv_value(f['inner'], a[1], b[1])
        elif k == 'recmap':
            da = {int(t[0]): t[1] for t in a[1:]}; db = {int(t[0]): t[1] for t in b[1:]}
            if set(da) != set(db): m = f'keys differ {sorted(da)} vs {sorted(db)}'
            elif f['mode'] == 'ko': m = None
            else:
                m = None
                for key in da:
                    m = equiv_value(f['inner'], da[key], db[key])
                    if m: m = f'key {key}: ' + m; break
        elif k == 'plain':
            m = None if (shapes.canon_field(f, a) == shapes.canon_field(f, b) or peq_field(f, a, b)) else f'{raw(a)} vs {raw(b)}'
        else:
            m = None if shapes.canon_field(f, a) == shapes.canon_field(f, b) else f'{raw(a)} vs {raw(b)}'
        if m:
            return f'f{i}: ' + m
    return None


def skipped_of(sh, v):
    if sh['t'] == 'enum':
        return ()
    return tuple(raw(v[i + 1]) for i, f in enumerate(sh['fields']) if f['skip'])


def expected_fields(sh, a, b):
    if sh['t'] == 'enum':
        return [] if peq_value(sh, a, b) else [0]
    return [i for i, f in enumerate(sh['fields']) if not f['skip'] and not field_same(f, a[i + 1], b[i + 1])]


# ------------------------------------------------------------------ evaluation of `pair` rows

RES_KEYS = ('apply', 'applyref', 'applymut', 'single', 'applyrefd', 'follow', 'followref', 'fapplyref', 'fapplymut', 'fsingle',
            'cat', 'catref', 'catmut', 'catsingle')


def evaluate_pairs(res, shs, reqs, rows, model_out, want):
    """want: set of property ids whose implementation-vs-property oracle is to be applied; model-vs-impl always"""
    for (i, op, args, cls), row, mo in zip(reqs, rows, model_out):
        sh = shs[i]
        req, resp = row[0], row[1]
        r = sx.parse(resp); m = sx.parse(mo)
        res.corr['evaluations'] += 1
        hbump(res, 'class:' + cls)
        a, b, f = args
        if r[0] != 'ok':
            res.corr['impl_failures'].append({'request': req[:3000], 'impl': resp[:300], 'what': 'diff computation panicked or value rejected: ' + r[0],
                                              'shape': json.dumps(shapes.lean_ty(sh))[:600]})
            continue
        opaque = sx.field(r, 'diff')[0] == 'opaque'
        try:
            cd = () if opaque else shapes.canon_entries_impl(sh, sx.field(r, 'diff')[0])
            cdr = () if opaque else shapes.canon_entries_impl(sh, sx.field(r, 'diffref')[0])
        except Exception as ex:
            res.corr['model_disagreements'].append({'request': req[:1500], 'impl': resp[:400], 'what': f'cannot read the Debug rendering of the real diff: {ex!r}'})
            continue
        md = shapes.canon_entries_model(sh, sx.field(m, 'diff')[0]) if m[0] == 'ok' else None
        mdr = shapes.canon_entries_model(sh, sx.field(m, 'diffref')[0]) if m[0] == 'ok' else None
        for e in cd:
            hbump(res, 'entry:' + e[1])
        if len(cd) >= 2 or any(e[1] in ('nested', 'optsome', 'rmap') for e in cd):
            res.distinct.add(core.digest(req))
        # ---------------- model vs implementation
        dis = None
        if m[0] != 'ok':
            dis = 'model rejected the request'
        elif not opaque and cd != md:
            dis = 'diff entries differ'
        elif not opaque and cdr != mdr:
            dis = 'diff_ref entries differ'
        else:
            for key in RES_KEYS:
                rv = sx.field(r, key)[0]; mv = sx.field(m, key)[0]
                crv = 'panic' if rv == 'panic' else shapes.canon_value(sh, rv)
                cmv = 'panic' if mv == 'panic' else shapes.canon_value(sh, mv)
                if crv != cmv:
                    dis = f'result of `{key}` differs'; break
        if dis:
            res.corr['model_disagreements'].append({'request': req[:2500], 'shape': json.dumps(shapes.lean_ty(sh))[:600],
                                                    'impl': resp[:700], 'model': mo[:700], 'what': dis})
        # ---------------- implementation vs the properties
        fails = []
        ap = sx.field(r, 'apply')[0]
        if 'C01' in want:
            mm = match_value(sh, a, b, ap)
            if mm: fails.append(('C01', 'a.apply(a.diff(&b)): ' + mm))
        if 'C04' in want and not opaque:
            exp = expected_fields(sh, a, b)
            got = [e[0] for e in cd]
            if got != exp:
                fails.append(('C04', f'diff has entries for fields {got} but the fields that differ (in the sense of their strategy) are {exp}'))
            gotr = [e[0] for e in cdr]
            if gotr != got:
                fails.append(('C04', f'diff_ref reports fields {gotr}, diff reports {got}'))
        if 'C05' in want:
            if opaque:
                pass
            elif [(e[0], e[1]) for e in cdr] != [(e[0], e[1]) for e in cd]:
                fails.append(('C05', 'diff_ref converted to owned has different entries (fields/kinds) than diff'))
            elif cdr != cd:
                fails.append(('C05', 'diff_ref converted to owned carries different payloads than diff'))
            for k1, k2 in (('apply', 'applyrefd'), ('follow', 'followref')):
                v1, v2 = sx.field(r, k1)[0], sx.field(r, k2)[0]
                c1 = 'panic' if v1 == 'panic' else shapes.canon_value(sh, v1)
                c2 = 'panic' if v2 == 'panic' else shapes.canon_value(sh, v2)
                if c1 != c2:
                    fails.append(('C05', f'effect differs: `{k1}` (diff) gives {raw(v1)[:200]} but via diff_ref {raw(v2)[:200]}'))
        if 'C06' in want:
            vals = [('panic' if sx.field(r, k)[0] == 'panic' else repr(shapes.canon_value(sh, sx.field(r, k)[0]))) for k in ('apply', 'applyref', 'applymut', 'single')]
            if len(set(vals)) != 1:
                fails.append(('C06', 'apply / apply_ref / apply_mut / repeated apply_single disagree: ' + ' | '.join(v[:120] for v in vals)))
            # the same on a base the diff was NOT computed from (the third value of the request)
            fvals = [('panic' if sx.field(r, k)[0] == 'panic' else repr(shapes.canon_value(sh, sx.field(r, k)[0]))) for k in ('follow', 'fapplyref', 'fapplymut', 'fsingle')]
            if len(set(fvals)) != 1:
                fails.append(('C06', 'on a base the diff was not computed from, apply / apply_ref / apply_mut / repeated apply_single disagree: ' + ' | '.join(v[:120] for v in fvals)))
            # ... and for an entry list with more than one entry per field: diff(a, b) followed by diff(b, f)
            cvals = [('panic' if sx.field(r, k)[0] == 'panic' else repr(shapes.canon_value(sh, sx.field(r, k)[0]))) for k in ('cat', 'catref', 'catmut', 'catsingle')]
            if len(set(cvals)) != 1:
                fails.append(('C06', 'for the entry list diff(a, b) ++ diff(b, f), apply / apply_ref / apply_mut / repeated apply_single disagree: ' + ' | '.join(v[:120] for v in cvals)))
            if sx.field(r, 'pure') != ['true']:
                fails.append(('C06', 'an argument was modified by diff / diff_ref / apply_ref'))
        if 'C13' in want and sh['t'] == 'struct':
            got = [e[0] for e in cd]
            for j, fld in enumerate(sh['fields']):
                if fld['k'] != 'recmap' or fld['skip']:
                    continue
                hbump(res, 'recmap-mode:' + fld['mode'])
                same = field_same(fld, a[j + 1], b[j + 1])
                if same == (j in got):
                    fails.append(('C13', f'recursive map field f{j} ({fld["mode"]}): diff ' + ('present although the maps are equal in the sense of the mode' if same else 'absent although the maps differ')))
                if ap != 'panic':
                    mm = match_field(fld, a[j + 1], b[j + 1], ap[j + 1], False)
                    if mm: fails.append(('C13', f'recursive map field f{j} ({fld["mode"]}): ' + mm))
                else:
                    fails.append(('C13', 'apply panicked'))
                # the borrowed comparison (diff_ref) is the same function called by separately generated code
                if not opaque and same == (j in [e[0] for e in cdr]):
                    fails.append(('C13', f'recursive map field f{j} ({fld["mode"]}), diff_ref: diff ' + ('present although the maps are equal in the sense of the mode' if same else 'absent although the maps differ')))
                apr = sx.field(r, 'applyrefd')[0]
                if apr != 'panic':
                    mm = match_field(fld, a[j + 1], b[j + 1], apr[j + 1], False)
                    if mm: fails.append(('C13', f'recursive map field f{j} ({fld["mode"]}), diff_ref converted and applied: ' + mm))
                else:
                    fails.append(('C13', 'apply of the converted diff_ref panicked'))
                ent = [e for e in cd if e[0] == j]
                if ent:
                    hbump(res, 'recmap-repr:' + ent[0][2][0])
                    if ent[0][2][0] == 'Modify':
                        for c in ent[0][2][1]:
                            hbump(res, 'recmap-change:' + c[0] + ('-empty' if (c[0] == 'Change' and len(c[2]) == 0) else ''))
        if 'C02' in want:
            fo = sx.field(r, 'follow')[0]
            if equiv_value(sh, a, f) is None:
                mm = equiv_value(sh, b, fo)
                if mm: fails.append(('C02', 'follower diverged after one step: ' + mm))
                elif fo != 'panic' and skipped_of(sh, fo) != skipped_of(sh, f):
                    fails.append(('C02', 'a skipped field of the follower changed'))
        for pid, what in fails:
            res.corr['impl_failures'].append({'request': req[:3000], 'shape': json.dumps(shapes.lean_ty(sh))[:800], 'impl': resp[:500], 'what': what, 'property': pid, 'class': cls})
    for k in (0, len(rows) // 2, len(rows) - 1):
        if rows:
            res.corr['samples'].append({'request': rows[k][0][:400], 'impl': rows[k][1][:400], 'model': model_out[k][:400]})


def run_pairs(res, shs, binp, reqs, want):
    ol, dl = to_lines(shs, reqs)
    rc, rows = core.run_oracle(binp, ol)
    rc, mo = core.run_driver(dl)
    if len(rows) != len(reqs) or len(mo) != len(reqs):
        res.corr['model_disagreements'].append({'what': f'oracle produced {len(rows)} and driver {len(mo)} lines for {len(reqs)} requests'})
        return
    evaluate_pairs(res, shs, reqs, rows, mo, want)
