"""C08 - ordered patch scripts received over the wire execute with exact list semantics."""
import random
import core, sx
from core import hbump
from props.ordcommon import *

LEVEL = 'proof'
FEATURES = ('serde', 'nanoserde')
ASSUMPTIONS = [
    'nanoserde / bincode primitive encodings are modelled from their source (fixed-width LE integers, usize as u64, Vec = u64 length + items, Option tag byte) and validated byte-for-byte',
    'the code serde_derive generates for the change enums is modelled as: u32 LE variant index in declaration order + fields in order',
    'element type u32 in the correspondence; the list-semantics theorem is for any element type',
]


PROFILES = {  # cumulative thresholds: insert, replace, delete, ranged delete (rest: swap)
    'mixed': (0.25, 0.45, 0.62, 0.82),
    'insert-heavy': (0.72, 0.80, 0.87, 0.93),      # chunks grow to capacity, carries travel through grown chunks
    'delete-heavy': (0.10, 0.18, 0.60, 0.92),      # chunks empty out, merges
}


def rand_script(rnd, n0, maxlen, malformed=False, profile='mixed'):
    n = n0; script = []
    k = rnd.randrange(0, maxlen + 1)
    bad_at = rnd.randrange(0, k) if (malformed and k > 0) else None
    t_ins, t_rep, t_del, t_rng = PROFILES[profile]
    anchors = [rnd.randrange(0, n0 + 1) for _ in range(rnd.randrange(1, 4))]   # insertions cluster around a few positions
    for j in range(k):
        r = rnd.random()
        bad = (j == bad_at)
        if n == 0 and not bad:
            script.append(['Insert', rnd.randrange(1000), 0]); n += 1; continue
        if r < t_ins:
            if profile != 'mixed' and rnd.random() < 0.75:
                i = max(0, min(n, rnd.choice(anchors) + rnd.randrange(-2, 3)))
            else:
                i = rnd.randrange(0, n + 1)
            i = i if not bad else None
            if bad:
                script.append(['Replace', 5, n + rnd.randrange(0, 3)]); break
            script.append(['Insert', rnd.randrange(1000), i]); n += 1
        elif r < t_rep:
            if bad:
                script.append(['Replace', 5, n + rnd.randrange(0, 3)]); break
            script.append(['Replace', rnd.randrange(1000), rnd.randrange(0, n)])
        elif r < t_del:
            if bad:
                script.append(['Delete', n + rnd.randrange(0, 3), 'None']); break
            script.append(['Delete', rnd.randrange(0, n), 'None']); n -= 1
        elif r < t_rng:
            if bad:
                lo = rnd.randrange(0, n + 1); script.append(['Delete', lo, ['Some', n + rnd.randrange(0, 3)]]); break
            lo = rnd.randrange(0, n); hi = min(n - 1, lo + int(rnd.expovariate(1 / 10.0)))
            script.append(['Delete', lo, ['Some', hi]]); n -= hi - lo + 1
        else:
            if bad:
                script.append(['Swap', rnd.randrange(0, n + 1), n + rnd.randrange(0, 3)]); break
            script.append(['Swap', rnd.randrange(0, n), rnd.randrange(0, n)])
    return script


def cases(tier, seed):
    rnd = random.Random(seed)
    n = 1500 if tier == 'quick' else 30000
    out = []
    for k in range(n):
        n0 = rnd.choice([0, 1, 2, 5, 8, 9, 15, 16, 17, 40, 100, 200])
        L = [1000 + i for i in range(n0)]
        bad = (k % 10 == 9)
        profile = ('mixed', 'mixed', 'insert-heavy', 'delete-heavy', 'insert-heavy')[k % 5]
        maxlen = rnd.choice([1, 3, 8, 30]) if profile == 'mixed' else rnd.choice([12, 30, 60])
        out.append((L, rand_script(rnd, n0, maxlen, malformed=bad, profile=profile), bad))
    return out


def run(res, ctx):
    P = ctx['params']
    proof_ok = core.prove(res, 'C08', thorough=(res.tier == 'thorough'))
    binp = core.build_harness(res, FEATURES)
    if binp is None:
        res.corr['model_disagreements'].append({'what': 'harness does not build against /repo', 'log': res.extra.get('cargo_error', '')[-1500:]})
        return core.finish(res, LEVEL, {}, ASSUMPTIONS, proof_ok)

    def explore(tier, seed, r_out):
        if ctx.get('replay_requests') and r_out is res:
            reqs2 = ctx['replay_requests']
            meta = [None] * len(reqs2)
        else:
            cs = cases(tier, seed)
            # pass 1: the Lean model encodes each script in both formats
            enc_lines = []
            for L, script, bad in cs:
                for fmt in ('nano', 'bincode'):
                    enc_lines.append(sx.show(['enc', fmt, script]))
            rc, enc_out = core.run_driver(enc_lines)
            reqs2 = []; meta = []
            rnd = random.Random(seed + 1)
            i = 0
            for L, script, bad in cs:
                for fmt in ('nano', 'bincode'):
                    b = sx.parse(enc_out[i]); i += 1
                    by = b[1]
                    reqs2.append(sx.show(['apply-bytes', fmt, by, L])); meta.append((L, script, bad, fmt, 'full'))
                    if rnd.random() < 0.1 and len(by) > 8:
                        cutat = rnd.randrange(8, len(by))
                        reqs2.append(sx.show(['apply-bytes', fmt, by[:cutat], L])); meta.append((L, script, bad, fmt, 'truncated'))
                    if rnd.random() < 0.06 and len(script) >= 1:
                        # an unknown discriminant in the first entry (the script's first byte after the u64 length)
                        by2 = list(by); by2[8] = str(rnd.choice([4, 9, 200]))
                        reqs2.append(sx.show(['apply-bytes', fmt, by2, L])); meta.append((L, script, bad, fmt, 'bad-discriminant'))
        rc, rows = core.run_oracle(binp, reqs2)
        rc, out = core.run_driver([r[0] for r in rows])
        for idx, row in enumerate(rows):
            req, resp = row[0], row[1]
            r = sx.parse(resp); m = sx.parse(out[idx]); q = sx.parse(req)
            r_out.corr['evaluations'] += 1
            fmt = q[1]; by = q[2]; L = q[3]
            hbump(r_out, 'fmt:' + fmt)
            md = meta[idx]
            kind = md[4] if md else 'replay'
            hbump(r_out, 'kind:' + kind + ('/malformed' if (md and md[2]) else ''))
            # model vs impl
            dis = None
            if r[0] != m[0]:
                dis = 'accept/reject differs'
            elif r[0] == 'ok':
                if norm_script(sx.field(r, 'decoded')[0]) != norm_script(sx.field(m, 'decoded')[0]):
                    dis = 'decoded script differs'
                elif sx.show(sx.field(r, 'reenc')) != sx.show(sx.field(m, 'reenc')):
                    dis = 're-encoded bytes differ'
                else:
                    rv = sx.field(r, 'vec'); mv = sx.field(m, 'rope')
                    rp = 'panic' if rv is None else sx.show(rv[0])
                    mp = sx.show(mv[0])
                    if rp != mp:
                        dis = 'applied result differs (impl %s, model %s)' % (rp[:80], mp[:80])
            if dis:
                r_out.corr['model_disagreements'].append({'request': req[:1500], 'impl': resp[:600], 'model': out[idx][:600], 'what': dis})
            # impl vs the property
            fail = None
            if r[0] == 'ok':
                dec = sx.field(r, 'decoded')[0]
                script = [c for c in (dec[1][1:] if dec[0].startswith('Ordered') else dec)]
                script = sx.parse(norm_script(dec))
                exp = ref_apply(script, [int(x) for x in L])
                if exp is not None:
                    for c in script:
                        hbump(r_out, 'change:' + c[0] + ('-range' if (c[0] == 'Delete' and c[2] != 'None') else ''))
                    if len(script) >= 2:
                        r_out.distinct.add(core.digest(req))
                    v = sx.field(r, 'vec'); ll = sx.field(r, 'll')
                    if v is None or ll is None:
                        fail = 'a well-formed script panicked while being applied'
                    elif sx.show(v[0]) != sx.show(exp):
                        fail = 'applied to a Vec gives ' + sx.show(v[0])[:300] + ' but a plain growable array gives ' + sx.show(exp)[:300]
                    elif sx.show(ll[0]) != sx.show(exp):
                        fail = 'applied to a LinkedList gives ' + sx.show(ll[0])[:300] + ' but a plain growable array gives ' + sx.show(exp)[:300]
                    elif kind == 'full' and sx.show(sx.field(r, 'reenc')[0]) != sx.show(by):
                        fail = 're-encoding the decoded script does not reproduce the received bytes'
                    elif md and kind == 'full' and norm_script(md[1]) != norm_script(dec):
                        fail = 'the decoded script is not the script that was encoded'
            elif r[0] == 'reject' and kind == 'full':
                fail = 'a conforming encoding of a script was rejected by the decoder'
            if fail:
                r_out.corr['impl_failures'].append({'request': req[:3000], 'impl': resp[:600], 'what': fail, 'fmt': fmt})
        for k in (0, len(rows) // 2):
            if rows:
                r_out.corr['samples'].append({'request': rows[k][0][:300], 'impl': rows[k][1][:300], 'model': out[k][:300]})

    explore(res.tier, res.seed, res)

    def search():
        r2 = core.Result('C08', res.tier, res.seed)
        explore('thorough', res.seed + 1, r2)
        return r2.corr['impl_failures']

    cov = {'rule': 'seeded well-formed scripts (replace / insert / delete / inclusive ranged delete / swap, any index order, lists of 0-200 elements spanning many rope chunks), '
                   'encoded by the Lean model in both wire formats, decoded + applied (Vec and LinkedList) + re-encoded by the real code; 10% malformed (one index out of range) and truncated encodings as a separate stream; '
                   'distinct_nontrivial = distinct well-formed requests with >= 2 changes'}
    return core.finish(res, LEVEL, cov, ASSUMPTIONS, proof_ok, search)
