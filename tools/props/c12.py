"""C12 - map-like diff round trip for maps, in both equality modes."""
import core, sx
from core import hbump
from props import unord, c20

LEVEL = 'proof'
FEATURES = ()
PROP = 'C12'
ASSUMPTIONS = [
    'HashMap modelled as an association list with distinct keys (any order); PartialEq of values lawful',
    'key_only selects the collector only (the value comparison is unconditional in the code): for unique keys both modes coincide, as C12 states',
]


def evaluate(res, rows):
    rc, out = core.run_driver([r[0] for r in rows])
    for idx, (req, resp) in enumerate(rows):
        q = sx.parse(req); r = sx.parse(resp); m = sx.parse(out[idx])
        res.corr['evaluations'] += 1
        mode = q[1]; p, c = dict(unord.pairs_of(q[2])), dict(unord.pairs_of(q[3]))
        hbump(res, 'mode:' + mode)
        for k in set(p) | set(c):
            cls = 'added' if k not in p else 'removed' if k not in c else 'retained-equal' if p[k] == c[k] else 'retained-changed'
            hbump(res, 'key:' + cls)
        if r[0] == 'panic':
            res.corr['impl_failures'].append({'request': req[:2000], 'impl': resp, 'what': 'map diff computation panicked'}); continue
        cd = unord.canon_mdiff(r); md = unord.canon_mdiff(m)
        hbump(res, 'repr:' + ('none' if cd is None else cd[0]))
        dis = None
        if cd != md:
            dis = 'map diff differs'
        elif cd is not None and sorted(unord.pairs_of(sx.field(r, 'applied')[0])) != sorted(unord.pairs_of(sx.field(m, 'applied')[0])):
            dis = 'applied result differs'
        if dis:
            res.corr['model_disagreements'].append({'request': req[:1500], 'impl': resp[:500], 'model': out[idx][:500], 'what': dis})
        fail = None
        if cd is None:
            if p != c: fail = 'no diff although the maps differ'
        else:
            if p == c: fail = 'a diff was produced although the maps are equal'
            a = sx.field(r, 'applied')
            if a is None:
                fail = 'applying the map diff panicked'
            else:
                got = unord.pairs_of(a[0])
                keys = [k for k, _ in got]
                if len(keys) != len(set(keys)):
                    fail = 'the result holds a key twice: ' + str(sorted(got))
                elif dict(got) != c:
                    fail = 'previous patched with the diff is %s but current is %s' % (sorted(got), sorted(c.items()))
            res.distinct.add(core.digest(req))
        if fail:
            res.corr['impl_failures'].append({'request': req[:3000], 'impl': resp[:500], 'what': fail})
    for k in (0, len(rows) // 2):
        if rows:
            res.corr['samples'].append({'request': rows[k][0][:300], 'impl': rows[k][1][:300], 'model': out[k][:300]})


def run(res, ctx):
    proof_ok = core.prove(res, PROP, thorough=(res.tier == 'thorough'))
    binp = core.build_harness(res, FEATURES)
    if binp is None:
        res.corr['model_disagreements'].append({'what': 'harness does not build against /repo', 'log': res.extra.get('cargo_error', '')[-1500:]})
        return core.finish(res, LEVEL, {}, ASSUMPTIONS, proof_ok)
    reqs = ctx.get('replay_requests') or c20.map_requests(res.tier, res.seed)
    rc, rows = core.run_oracle(binp, reqs)
    evaluate(res, [r[:2] for r in rows])
    if not ctx.get('replay_requests'):
        unord.evaluate_umap_multi(res, binp)     # the count-carrying (repeated-key) paths: model vs implementation only

    def search():
        r2 = core.Result(PROP, res.tier, res.seed)
        rc, b = core.run_oracle(binp, c20.map_requests('thorough', res.seed + 1))
        evaluate(r2, [r[:2] for r in b])
        return r2.corr['impl_failures']

    cov = {'rule': 'seeded pairs of maps with unique keys (key alphabets <= 10, value alphabets <= 3 so that retained-with-changed-value is common; added / removed / retained-equal / retained-changed counted in input_distribution; sizes on both sides of the replacement boundary), both equality modes; distinct_nontrivial = distinct requests with a non-empty diff'}
    return core.finish(res, LEVEL, cov, ASSUMPTIONS, proof_ok, search)
