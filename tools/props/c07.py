"""C07 - ordered list diff round trip: source patched with diff(target, source) = target."""
import random, itertools
import core, sx
from core import hbump
from props.ordcommon import *

LEVEL = 'proof'
FEATURES = ('serde', 'nanoserde')
ASSUMPTIONS = [
    'only the forward-index paths of the algorithms are modelled (the reversed-index branches are unreachable from both public entry points)',
    'element equality is an arbitrary Boolean relation in the theorems; the correspondence uses u32 and f64-with-NaN',
    'the rope that `apply` builds is the C09 model (Props/C09.lean)',
]


def pairs(tier, seed, P):
    rnd = random.Random(seed)
    cut = P['CUTOFF']
    out = []
    # exhaustive over a 2-letter alphabet up to length 5+5 (quick: 4+4)
    m = 4 if tier == 'quick' else 5
    for a in range(m + 1):
        for b in range(m + 1):
            for t in itertools.product((0, 1), repeat=a):
                for s in itertools.product((0, 1), repeat=b):
                    out.append(('exh', list(t), list(s)))
    n = 1500 if tier == 'quick' else 40000
    for k in range(n):
        cls = k % 8
        alpha = rnd.choice([1, 2, 3, 5, 50])
        if cls == 0:      # both below the cutoff
            t = rand_list(rnd, rnd.randrange(0, cut + 1), alpha); s = rand_list(rnd, rnd.randrange(0, cut + 1), alpha)
        elif cls == 1:    # straddling
            t = rand_list(rnd, rnd.randrange(cut + 1, 5 * cut), alpha); s = rand_list(rnd, rnd.randrange(0, cut + 1), alpha)
            if rnd.random() < 0.5: t, s = s, t
        elif cls == 2:    # both above
            t = rand_list(rnd, rnd.randrange(cut + 1, 60), alpha); s = rand_list(rnd, rnd.randrange(cut + 1, 60), alpha)
        elif cls == 3:    # one side empty
            t = rand_list(rnd, rnd.randrange(0, 40), alpha); s = []
            if rnd.random() < 0.5: t, s = s, t
        elif cls == 4:    # near-identical long lists
            t = rand_list(rnd, rnd.randrange(30, 200 if tier == 'quick' else 400), max(alpha, 3)); s = mutate(rnd, t, rnd.randrange(0, 4), max(alpha, 3))
        elif cls == 5:    # highly repetitive
            t = [rnd.randrange(2) for _ in range(rnd.randrange(0, 80))]; s = [rnd.randrange(2) for _ in range(rnd.randrange(0, 80))]
        elif cls == 6:    # disjoint
            t = [rnd.randrange(10) for _ in range(rnd.randrange(0, 50))]; s = [10 + rnd.randrange(10) for _ in range(rnd.randrange(0, 50))]
        else:             # shifted / rotated
            t = rand_list(rnd, rnd.randrange(10, 100), 20); k2 = rnd.randrange(0, 6); s = t[k2:] + t[:k2]
        out.append(('c%d' % cls, t, s))
    return out


def requests(tier, seed, P):
    reqs = []
    rnd = random.Random(seed + 7)
    for cls, t, s in pairs(tier, seed, P):
        for algo in ('hirsch', 'lev'):
            if algo == 'lev' and len(t) * len(s) > 40000:
                continue
            reqs.append(sx.show([algo, t, s]))
        if cls != 'exh' and rnd.random() < 0.25:
            # NaN elements: equality is not reflexive
            tn = [NAN if rnd.random() < 0.15 else x for x in t]
            sn = [NAN if rnd.random() < 0.15 else x for x in s]
            reqs.append(sx.show([rnd.choice(['hirsch-nan', 'lev-nan']), tn, sn]))
    return reqs


def evaluate(res, rows):
    lines = [r[0] for r in rows]
    rc, out = core.run_driver(lines)
    if len(out) != len(lines):
        res.corr['model_disagreements'].append({'what': 'driver produced %d lines for %d requests' % (len(out), len(lines))})
        return
    for idx, (req, resp) in enumerate(rows):
        q = sx.parse(req); r = sx.parse(resp); m = sx.parse(out[idx])
        res.corr['evaluations'] += 1
        algo = q[0]; t = q[1]; s = q[2]
        hbump(res, 'algo:' + algo)
        hbump(res, 'lens:%s' % ('both<=cut' if max(len(t), len(s)) <= 8 else 'one<=cut' if min(len(t), len(s)) <= 8 else 'both>cut'))
        nan = algo.endswith('-nan')
        # ---- model vs implementation (the algorithm is deterministic: exact script and exact bytes)
        dis = None
        if r[0] != m[0]:
            dis = 'presence of a diff differs'
        elif r[0] == 'some':
            if norm_script(r[1]) != norm_script(sx.field(m, 'script')[0]):
                dis = 'script differs'
            else:
                for key in ('nano-owned', 'nano-ref', 'bincode-owned', 'bincode-ref'):
                    a, b = sx.field(r, key), sx.field(m, key)
                    if a is not None and b is not None and sx.show(a) != sx.show(b):
                        dis = key + ' bytes differ'
                a = sx.field(r, 'applied'); b = sx.field(m, 'rope')
                if dis is None and a is not None and sx.show(a) != sx.show(b):
                    dis = 'applied result differs'
        if dis:
            res.corr['model_disagreements'].append({'request': req[:600], 'impl': resp[:600], 'model': out[idx][:600], 'what': dis})
        # ---- implementation vs the property
        fail = None
        eq_pairs = len(t) == len(s) and all(a == b and not (nan and a == str(NAN)) for a, b in zip(t, s))
        if r[0] == 'panic':
            fail = 'the diff computation panicked'
        elif r[0] == 'none':
            if not eq_pairs:
                fail = 'no diff although the sequences differ'
        else:
            if eq_pairs:
                fail = 'a diff was produced for element-wise equal sequences: ' + norm_script(r[1])
            ap = sx.field(r, 'applied')
            if ap is None:
                fail = 'applying the diff to the source panicked (index out of range)'
            elif sx.show(ap[0]) != sx.show(t):
                fail = 'source patched with the diff is ' + sx.show(ap[0]) + ' but the target is ' + sx.show(t)
            if not nan:
                ll = sx.field(r, 'applied-ll')
                if ll is None or sx.show(ll[0]) != sx.show(t):
                    fail = 'applying into a LinkedList gives ' + sx.show(ll) + ' but the target is ' + sx.show(t)
            if r[0] == 'some' and len(norm_script(r[1])) > 4:
                res.distinct.add(core.digest(req))
        if fail:
            res.corr['impl_failures'].append({'request': req[:2000], 'impl': resp[:600], 'what': fail, 'algo': algo})
    for k in (0, len(rows) // 2, len(rows) - 1):
        if rows:
            res.corr['samples'].append({'request': rows[k][0][:300], 'impl': rows[k][1][:300], 'model': out[k][:300]})


def run(res, ctx):
    P = ctx['params']
    proof_ok = core.prove(res, 'C07', thorough=(res.tier == 'thorough'))
    binp = core.build_harness(res, FEATURES)
    if binp is None:
        res.corr['model_disagreements'].append({'what': 'harness does not build against /repo', 'log': res.extra.get('cargo_error', '')[-1500:]})
        return core.finish(res, LEVEL, {}, ASSUMPTIONS, proof_ok)
    reqs = ctx.get('replay_requests') or requests(res.tier, res.seed, P)
    rc, rows = core.run_oracle(binp, reqs)
    evaluate(res, [r[:2] for r in rows])

    def search():
        extra = requests('thorough', res.seed + 1, P)
        rc, rows2 = core.run_oracle(binp, extra[:60000])
        r2 = core.Result('C07', res.tier, res.seed)
        evaluate(r2, [r[:2] for r in rows2])
        return r2.corr['impl_failures']

    cov = {'exhaustive': True,
           'rule': 'all pairs over a 2-letter alphabet up to length 4+4 (quick) / 5+5 (thorough), plus seeded pairs in 8 classes (below / straddling / above the cutoff, empty side, near-identical long, repetitive, disjoint, rotated), both public algorithms, u32 and f64-with-NaN elements, applied into Vec and LinkedList; '
                   'distinct_nontrivial = distinct requests whose diff is non-empty'}
    return core.finish(res, LEVEL, cov, ASSUMPTIONS, proof_ok, search)
