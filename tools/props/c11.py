"""C11 - unordered array-like diff round trip as multisets, for any multiplicities."""
import collections
import core, sx
from core import hbump
from props import unord

LEVEL = 'proof'
FEATURES = ()
ASSUMPTIONS = [
    'HashMap is modelled as an association list with distinct keys iterated in some order; the theorems are stated on counts, hence hold for every order / hasher',
    'Hash + Eq + Clone of the item type are lawful; usize counts are modelled in Nat (no overflow)',
]
PROP = 'C11'


def requests(tier, seed, P):
    return [sx.show(['uarr-cmp', p, c]) for p, c in unord.uarr_pairs(tier, seed)]


def evaluate(res, rows, prop):
    rc, out = core.run_driver([r[0] for r in rows])
    for idx, (req, resp) in enumerate(rows):
        q = sx.parse(req); r = sx.parse(resp); m = sx.parse(out[idx])
        res.corr['evaluations'] += 1
        p, c = unord.ints(q[1]), unord.ints(q[2])
        if r[0] == 'panic':
            hbump(res, 'repr:panic')
            res.corr['impl_failures'].append({'request': req[:3000], 'impl': resp, 'what': 'the array-like comparison (or applying its diff to previous) panicked'}); continue
        cd = unord.canon_udiff(r); md = unord.canon_udiff(m)
        hbump(res, 'repr:' + ('none' if cd is None else cd[0]))
        if cd and cd[0] == 'Modify':
            for ch in cd[1]:
                hbump(res, 'change:' + ch[0])
        # model vs impl (hash order is canonicalised away)
        dis = None
        if cd != md:
            dis = 'diff differs'
        elif cd is not None and sorted(unord.ints(sx.field(r, 'applied')[0])) != sorted(unord.ints(sx.field(m, 'applied')[0])):
            dis = 'applied result differs'
        if dis:
            res.corr['model_disagreements'].append({'request': req[:1500], 'impl': resp[:500], 'model': out[idx][:500], 'what': dis})
        # impl vs property
        fail = None
        same = collections.Counter(p) == collections.Counter(c)
        if r[0] == 'panic':
            fail = 'diff computation panicked'
        elif cd is None:
            if not same: fail = 'no diff although the collections differ as multisets'
        else:
            if same: fail = 'a diff was produced although the collections are equal as multisets'
            for key in ('applied', 'applied-ll'):
                a = sx.field(r, key)
                if a is None:
                    fail = 'applying the diff panicked'
                elif collections.Counter(unord.ints(a[0])) != collections.Counter(c):
                    fail = 'previous patched with the diff is not the current collection as a multiset (%s)' % key
            if prop == 'C20' and fail is None:
                fail = unord.uarr_minimal(p, c, cd)
            res.distinct.add(core.digest(req))
        if fail:
            res.corr['impl_failures'].append({'request': req[:3000], 'impl': resp[:500], 'what': fail})
    for k in (0, len(rows) // 2):
        if rows:
            res.corr['samples'].append({'request': rows[k][0][:300], 'impl': rows[k][1][:300], 'model': out[k][:300]})


def run(res, ctx):
    P = ctx['params']
    proof_ok = core.prove(res, PROP, thorough=(res.tier == 'thorough'))
    binp = core.build_harness(res, FEATURES)
    if binp is None:
        res.corr['model_disagreements'].append({'what': 'harness does not build against /repo', 'log': res.extra.get('cargo_error', '')[-1500:]})
        return core.finish(res, LEVEL, {}, ASSUMPTIONS, proof_ok)
    reqs = ctx.get('replay_requests') or requests(res.tier, res.seed, P)
    rc, rows = core.run_oracle(binp, reqs)
    evaluate(res, [r[:2] for r in rows], PROP)

    def search():
        rc, rows2 = core.run_oracle(binp, requests('thorough', res.seed + 1, P))
        r2 = core.Result(PROP, res.tier, res.seed)
        evaluate(r2, [r[:2] for r in rows2], PROP)
        return r2.corr['impl_failures']

    cov = {'rule': 'seeded pairs of multisets (alphabets 1-12, multiplicities from {0,1,2,3,254,255,256,257,300} crossing the Few/Many split both ways, sizes on both sides of the replacement boundary, equal multisets in different order, empty sides), Vec and LinkedList containers; diffs compared as canonical multisets of entries; distinct_nontrivial = distinct requests with a non-empty diff'}
    return core.finish(res, LEVEL, cov, ASSUMPTIONS, proof_ok, search)
