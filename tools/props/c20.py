"""C20 - unordered diffs carry only what changed; no replacement unless it shrinks."""
import core, sx
from core import hbump
from props import unord, c11

LEVEL = 'proof'
FEATURES = ()
PROP = 'C20'
ASSUMPTIONS = c11.ASSUMPTIONS


def map_requests(tier, seed):
    return [sx.show(['umap-cmp', mode, p, c]) for p, c, mode in unord.umap_pairs(tier, seed)]


def evaluate_maps(res, rows):
    rc, out = core.run_driver([r[0] for r in rows])
    for idx, (req, resp) in enumerate(rows):
        q = sx.parse(req); r = sx.parse(resp); m = sx.parse(out[idx])
        res.corr['evaluations'] += 1
        p, c = unord.pairs_of(q[2]), unord.pairs_of(q[3])
        if r[0] == 'panic':
            res.corr['impl_failures'].append({'request': req[:2000], 'impl': resp, 'what': 'map diff computation panicked'}); continue
        if r[0] == 'panic':
            res.corr['impl_failures'].append({'request': req[:3000], 'impl': resp, 'what': 'map diff computation panicked'}); continue
        cd = unord.canon_mdiff(r); md = unord.canon_mdiff(m)
        hbump(res, 'map-repr:' + ('none' if cd is None else cd[0]))
        if cd != md:
            res.corr['model_disagreements'].append({'request': req[:1500], 'impl': resp[:500], 'model': out[idx][:500], 'what': 'map diff differs'})
        fail = unord.umap_minimal(p, c, cd)
        if cd is not None:
            res.distinct.add(core.digest(req))
        if fail:
            res.corr['impl_failures'].append({'request': req[:3000], 'impl': resp[:500], 'what': fail})
    if rows:
        res.corr['samples'].append({'request': rows[0][0][:300], 'impl': rows[0][1][:300], 'model': out[0][:300]})


def run(res, ctx):
    P = ctx['params']
    proof_ok = core.prove(res, PROP, thorough=(res.tier == 'thorough'))
    binp = core.build_harness(res, FEATURES)
    if binp is None:
        res.corr['model_disagreements'].append({'what': 'harness does not build against /repo', 'log': res.extra.get('cargo_error', '')[-1500:]})
        return core.finish(res, LEVEL, {}, ASSUMPTIONS, proof_ok)
    if ctx.get('replay_requests'):
        rc, rows = core.run_oracle(binp, ctx['replay_requests'])
        ra = [r[:2] for r in rows if r[0].startswith('(uarr')]
        rm = [r[:2] for r in rows if r[0].startswith('(umap')]
    else:
        rc, ra = core.run_oracle(binp, c11.requests(res.tier, res.seed, P)); ra = [r[:2] for r in ra]
        rc, rm = core.run_oracle(binp, map_requests(res.tier, res.seed)); rm = [r[:2] for r in rm]
    c11.evaluate(res, ra, PROP)
    evaluate_maps(res, rm)
    if not ctx.get('replay_requests'):
        # pair lists with repeated keys (a Vec<(K, V)> as map-like collection): per key exactly the multiplicity delta
        unord.evaluate_umap_multi(res, binp, minimal=True)

    def search():
        r2 = core.Result(PROP, res.tier, res.seed)
        rc, a = core.run_oracle(binp, c11.requests('thorough', res.seed + 1, P))
        c11.evaluate(r2, [r[:2] for r in a], PROP)
        rc, b = core.run_oracle(binp, map_requests('thorough', res.seed + 1))
        evaluate_maps(r2, [r[:2] for r in b])
        return r2.corr['impl_failures']

    cov = {'rule': 'the C11 and C12 pair streams; the REAL diff (canonicalised) is checked entry by entry for minimality (each item/key at most once per direction, exact multiplicity delta, remove-old + insert-new for a changed value, nothing identical mentioned, replacement only when it shrinks) and compared with the model diff as a multiset'}
    return core.finish(res, LEVEL, cov, ASSUMPTIONS, proof_ok, search)
