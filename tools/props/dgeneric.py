"""runner shared by C01-C06"""
import random, json
import core, sx, shapes
from core import hbump
from props import dcommon

LEVEL = 'proof'
FEATURES = ('debug_diffs',)
ASSUMPTIONS = [
    'the generated code is modelled per template (Model/Derive.lean); rustc type-checks it; PartialEq/Clone/Hash of user types are lawful',
    'the generated Diff values are observed through their derived Debug rendering (feature debug_diffs), parsed type-directed',
    'collection elements / keys / atoms are u32 in the correspondence (the code touches them only through ==, Hash, Clone)',
]
RULES = {
    'C01': 'catalogue of shapes (every strategy alone, pairs, nesting to depth 3, every accepted container, generic structs, enums) + seeded random shapes, compiled against the real macro; value pairs in classes random / mutated / one-field / only-skipped / only-order / identical / heavy; a.apply(a.diff(&b)) checked against b field by field in the sense of each strategy, skipped fields against a; distinct_nontrivial = distinct requests whose diff has >= 2 entries or a nested / recursive-map entry',
}


def subset_requests(shs, tier, seed):
    rnd = random.Random(seed + 5)
    n = 12 if tier == 'quick' else 150
    out = []
    for i, sh in enumerate(shs):
        if sh['t'] != 'struct':
            continue
        nf = len([f for f in sh['fields'] if not f['skip']])
        for _ in range(n):
            a = shapes.gen_value(sh, rnd)
            b = shapes.mutate_value(sh, a, rnd, 0.7) if rnd.random() < 0.7 else shapes.gen_value(sh, rnd)
            exp = dcommon.expected_fields(sh, a, b)
            k = len(exp)
            if k == 0:
                continue
            if k <= 4:
                subsets = [[j for j in range(k) if (mask >> j) & 1] for mask in range(1 << k)]
            else:
                subsets = [sorted(rnd.sample(range(k), rnd.randrange(0, k + 1))) for _ in range(8)]
            for s in subsets:
                order = list(s); rnd.shuffle(order)
                out.append((i, 'subset', [a, b, order], 'subset', exp))
    return out


def evaluate_subsets(res, shs, reqs, rows, mo):
    for (i, op, args, cls, exp), row, m in zip(reqs, rows, mo):
        sh = shs[i]
        req, resp = row[0], row[1]
        r = sx.parse(resp); mm = sx.parse(m)
        res.corr['evaluations'] += 1
        hbump(res, 'subset-size:%d' % len(args[2]))
        a, b, order = args
        if r[0] != 'ok':
            res.corr['impl_failures'].append({'request': req[:3000], 'impl': resp[:300], 'what': 'panicked', 'property': 'C03'}); continue
        rv = sx.field(r, 'apply')[0]; mv = sx.field(mm, 'apply')[0] if mm[0] == 'ok' else 'bad'
        cr = 'panic' if rv == 'panic' else shapes.canon_value(sh, rv)
        cm = 'panic' if mv in ('panic', 'bad') else shapes.canon_value(sh, mv)
        if cr != cm:
            res.corr['model_disagreements'].append({'request': req[:2500], 'impl': resp[:500], 'model': m[:500], 'what': 'subset application differs'})
        if rv == 'panic':
            res.corr['impl_failures'].append({'request': req[:3000], 'impl': resp[:300], 'what': 'applying a subset of the entries panicked', 'property': 'C03'}); continue
        sel = {exp[j] for j in order}
        if len(order) >= 1:
            res.distinct.add(core.digest(req))
        fail = None
        for j, f in enumerate(sh['fields']):
            x, y, z = a[j + 1], b[j + 1], rv[j + 1]
            if j in sel:
                mmsg = dcommon.match_field(f, x, y, z, False)
                if mmsg: fail = f'selected field f{j}: ' + mmsg; break
            else:
                if shapes.canon_field(f, z) != shapes.canon_field(f, x) or (f['k'] in ('plain', 'ordered', 'recurse', 'ropt') and sx.show(z) != sx.show(x)):
                    fail = f'field f{j} was not selected but changed from {sx.show(x)[:150]} to {sx.show(z)[:150]}'; break
        if fail:
            res.corr['impl_failures'].append({'request': req[:3000], 'shape': json.dumps(shapes.lean_ty(sh))[:800], 'impl': resp[:400], 'what': fail, 'property': 'C03'})


def history_requests(shs, tier, seed):
    rnd = random.Random(seed + 11)
    n = 4 if tier == 'quick' else 40
    out = []
    for i, sh in enumerate(shs):
        for _ in range(n):
            steps = rnd.choice([5, 10, 25]) if tier == 'quick' else rnd.choice([5, 20, 60, 200])
            s = shapes.gen_value(sh, rnd)
            states = [s]
            for _ in range(steps):
                s = shapes.mutate_value(sh, s, rnd, rnd.choice([0.0, 0.15, 0.3, 0.5]))
                states.append(s)
            f0 = shapes.follower_of(sh, states[0], rnd)
            out.append((i, 'history', [f0, states], 'history'))
    return out


def evaluate_histories(res, shs, reqs, rows, mo):
    for (i, op, args, cls), row, m in zip(reqs, rows, mo):
        sh = shs[i]
        req, resp = row[0], row[1]
        r = sx.parse(resp); mm = sx.parse(m)
        res.corr['evaluations'] += 1
        f0, states = args
        hbump(res, 'history-len:%d' % (len(states) - 1))
        if r[0] != 'ok' or mm[0] != 'ok':
            res.corr['model_disagreements'].append({'request': req[:1500], 'impl': resp[:300], 'model': m[:300], 'what': 'history request rejected'}); continue
        fr = sx.field(r, 'followers'); fm = sx.field(mm, 'followers')
        sk0 = dcommon.skipped_of(sh, f0)
        res.distinct.add(core.digest(req))
        for step, (x, y) in enumerate(zip(fr, fm)):
            cx = 'panic' if x == 'panic' else shapes.canon_value(sh, x)
            cy = 'panic' if y == 'panic' else shapes.canon_value(sh, y)
            if cx != cy:
                res.corr['model_disagreements'].append({'request': req[:2500], 'impl': sx.show(x)[:400], 'model': sx.show(y)[:400], 'what': f'follower differs at step {step + 1}'}); break
            msg = dcommon.equiv_value(sh, states[step + 1], x)
            if msg is None and dcommon.skipped_of(sh, x) != sk0:
                msg = 'a skipped field of the follower changed'
            if msg:
                res.corr['impl_failures'].append({'request': sx.show(['derive', i, 'history', f0, states[:step + 2]])[:6000], 'shape': json.dumps(shapes.lean_ty(sh))[:800],
                                                  'what': f'follower diverged from the leader at step {step + 1}: ' + msg, 'property': 'C02'}); break


def run(res, ctx, prop):
    tier, seed = res.tier, res.seed
    proof_ok = core.prove(res, prop, thorough=(tier == 'thorough'))
    shs, binp = dcommon.build(res, tier, seed, FEATURES)
    res.extra['shapes'] = len(shs)
    res.extra['sample_shapes'] = [json.dumps(shapes.lean_ty(s))[:300] for s in shs[-3:]]
    if binp is None:
        res.corr['model_disagreements'].append({'what': 'the generated shape crate does not compile against /repo (derive output rejected by rustc or macro panic)',
                                                'log': res.extra.get('cargo_error', '')[-2500:]})
        return core.finish(res, LEVEL, {}, ASSUMPTIONS, proof_ok)

    def explore(r_out, tier, seed):
        if ctx.get('replay_requests') and r_out is res:
            lines = ctx['replay_requests']
            rc, rows = core.run_oracle(binp, lines)
            # replay lines carry the shape id; re-evaluate as pairs
            reqs = []
            for ln in lines:
                q = sx.parse(ln)
                reqs.append((int(q[1]), q[2], q[3:], 'replay') if q[2] != 'subset' else (int(q[1]), 'subset', q[3:], 'subset', dcommon.expected_fields(shs[int(q[1])], q[3], q[4])))
            pr = [x for x in reqs if x[1] == 'pair']
            if pr:
                dcommon.run_pairs(r_out, shs, binp, pr, {prop})
            return
        pr = dcommon.pair_requests(shs, tier, seed)
        dcommon.run_pairs(r_out, shs, binp, pr, {prop} if prop != 'C03' else set())
        if prop == 'C03':
            sr = subset_requests(shs, tier, seed)
            ol, dl = dcommon.to_lines(shs, [x[:4] for x in sr])
            rc, rows = core.run_oracle(binp, ol); rc, mo = core.run_driver(dl)
            evaluate_subsets(r_out, shs, sr, rows, mo)
        if prop == 'C02':
            hr = history_requests(shs, tier, seed)
            ol, dl = dcommon.to_lines(shs, hr)
            rc, rows = core.run_oracle(binp, ol); rc, mo = core.run_driver(dl)
            evaluate_histories(r_out, shs, hr, rows, mo)

    explore(res, tier, seed)
    # only this property's oracle failures count for this check
    res.corr['impl_failures'] = [f for f in res.corr['impl_failures'] if f.get('property', prop) == prop]

    def search():
        r2 = core.Result(prop, tier, seed)
        explore(r2, 'thorough', seed + 1)
        return [f for f in r2.corr['impl_failures'] if f.get('property', prop) == prop]

    cov = {'rule': RULES['C01'] + {
        'C02': '; plus leader histories of 5-200 states with a follower whose skipped fields are re-randomised and unordered collections shuffled, checked for equivalence after EVERY step',
        'C03': '; plus every subset (<= 4 entries: all 2^k subsets, otherwise sampled) of the entries of a.diff(&b) applied in a random order',
        'C04': '; the sequence of fields mentioned by diff and by diff_ref is compared with the fields that differ in the sense of their strategy (computed independently)',
        'C05': '; diff_ref entries converted with the generated Into are compared with diff entries (canonical) and by effect on a and on an equivalent base',
        'C06': '; the four apply entry points are run on clones and compared; the arguments of diff / diff_ref / apply_ref are compared with snapshots taken before the call (including skipped fields and element order)',
    }.get(prop, ''), 'programs': len(shs)}
    return core.finish(res, LEVEL, cov, ASSUMPTIONS, proof_ok, search)
