"""C14 - diffs survive both wire formats, and a serialized DiffRef decodes as a Diff."""
import random, json
import core, sx, shapes
from core import hbump
from props import dcommon, dgeneric, wiretie, structtie

LEVEL = 'proof'
PROP = 'C14'
FEATURES = ('serde', 'nanoserde', 'debug_diffs')
ASSUMPTIONS = dgeneric.ASSUMPTIONS + [
    'byte-level theorems cover the hand-written ordered-script codecs (both formats, owned and borrowed form, tables regenerated from the source); the wire form of derived struct diffs (discriminant = rank of the (field, alternative) among the generated variants, u16 / u32; list length; per-strategy payloads incl. the hand-written collection codecs) is modelled, proved generically in the payload codecs and for all eight field templates over flat element types, and tied byte-for-byte in both directions on the tie shapes; the payload encodings that serde_derive / nanoserde-derive generate for plain fields of other types (nested struct values, enums, floats) and for generic parameters are exercised end-to-end (encode with the real encoder, decode with the real decoder, compare effects), not modelled byte by byte',
]


def run(res, ctx):
    tier, seed = res.tier, res.seed
    proof_ok = core.prove(res, PROP, thorough=(tier == 'thorough'))
    shs, binp = dcommon.build(res, tier, seed, FEATURES, shapes_list=dcommon.make_shapes(tier, seed, FEATURES, extra=structtie.extra_shapes()))
    res.extra['shapes'] = len(shs)
    if binp is None:
        res.corr['impl_failures'].append({'request': 'cargo build --features serde,nanoserde,debug_diffs', 'what': 'the shape catalogue does not compile with both codecs enabled',
                                          'log': res.extra.get('cargo_error', '')[-2500:]})
        return core.finish(res, LEVEL, {}, ASSUMPTIONS, proof_ok)

    def explore(r_out, tier, seed):
        if ctx.get('replay_requests') and r_out is res:
            reqs = []
            for ln in ctx['replay_requests']:
                q = sx.parse(ln); reqs.append((int(q[1]), 'wire', q[3:], 'replay'))
        else:
            reqs = [(i, 'wire', args, cls) for (i, op, args, cls) in dcommon.pair_requests(shs, tier, seed, per_shape=(20 if tier == 'quick' else 300))]
        ol, dl = dcommon.to_lines(shs, reqs)
        rc, rows = core.run_oracle(binp, ol)
        # the model's in-memory effect (diff followed by apply, on a and on the follower)
        pair_lines = [sx.show(['derive', shapes.lean_ty(shs[i]), 'pair'] + args) for (i, op, args, cls) in reqs]
        rc, mo = core.run_driver(pair_lines)
        for (i, op, args, cls), row, m in zip(reqs, rows, mo):
            sh = shs[i]
            req, resp = row[0], row[1]
            r = sx.parse(resp); mm = sx.parse(m)
            r_out.corr['evaluations'] += 1
            hbump(r_out, 'class:' + cls)
            if r[0] != 'ok':
                r_out.corr['impl_failures'].append({'request': req[:3000], 'impl': resp[:300], 'what': 'diff computation panicked: ' + r[0]}); continue
            cv = lambda v: 'panic' if v == 'panic' else shapes.canon_value(sh, v)
            mem_apply = cv(sx.field(r, 'mem-apply')[0]); mem_follow = cv(sx.field(r, 'mem-follow')[0])
            if mm[0] == 'ok':
                if cv(sx.field(mm, 'apply')[0]) != mem_apply or cv(sx.field(mm, 'follow')[0]) != mem_follow:
                    r_out.corr['model_disagreements'].append({'request': req[:2000], 'impl': resp[:400], 'model': m[:400], 'what': 'in-memory effect differs from the model'})
            fail = None
            for fmt in ('nano', 'bincode'):
                blk = sx.field(r, fmt)
                if blk is None:
                    fail = f'{fmt}: codec not compiled in'; break
                d = {x[0]: x[1:] for x in blk}
                hbump(r_out, fmt + ':same-bytes:' + d['same-bytes'][0])
                for form in ('owned', 'ref'):
                    if form + '-decode' in d:
                        fail = f'{fmt}: the serialized {"DiffRef" if form == "ref" else "Diff"} is rejected by the owned decoder'; break
                    if cv(d[form + '-apply'][0]) != mem_apply:
                        fail = f'{fmt}: decoding the serialized {form} form and applying it to a gives {sx.show(d[form + "-apply"][0])[:200]}, the in-memory diff gives {sx.show(sx.field(r, "mem-apply")[0])[:200]}'; break
                    if cv(d[form + '-follow'][0]) != mem_follow:
                        fail = f'{fmt}: decoding the serialized {form} form and applying it to an equivalent base differs from the in-memory diff'; break
                    if d[form + '-reenc-len'] != d[form + '-len']:
                        fail = f'{fmt}: re-encoding the decoded {form} form changes its length'; break
                if fail: break
            if int(sx.field(r, 'nano')[0][1]) > 8:
                r_out.distinct.add(core.digest(req))
            if fail:
                r_out.corr['impl_failures'].append({'request': req[:3000], 'shape': json.dumps(shapes.lean_ty(sh))[:600], 'impl': resp[:600], 'what': fail})
        for k in (0, len(rows) // 2):
            if rows:
                r_out.corr['samples'].append({'request': rows[k][0][:300], 'impl': rows[k][1][:500]})

    explore(res, tier, seed)
    # byte-exact tie of the hand-written / serde-derived codecs of the unordered diffs with the Lean wire model
    wiretie.run(res, binp, tier, seed)
    # byte-exact tie of the generated per-struct diff enums (as serialized by the codec derives) with the Lean framing model
    structtie.run(res, shs, binp, tier, seed)

    def search():
        r2 = core.Result(PROP, tier, seed)
        explore(r2, 'thorough', seed + 1)
        return r2.corr['impl_failures']

    cov = {'rule': 'shape catalogue + seeded random shapes built with serde + nanoserde; for each value pair the owned diff and the borrowed diff are serialized with nanoserde and with bincode, the bytes of BOTH forms are decoded as the owned diff type, applied to a and to an equivalent follower and compared with the in-memory diff\'s effect (and with the model); re-encoding the decoded value must have the same length; same-bytes statistics for owned vs borrowed form are recorded (they may differ legitimately where two separately built hash maps iterate in different orders); byte ties (props/wiretie.py, props/structtie.py): model encoder vs real bytes, model decoder on real bytes (Diff and DiffRef lists), the diff of the derive model through toWire + wire encoder vs real bytes, real decoders on model encodings of arbitrary values and on damaged encodings (truncation, unknown entry / diff / change discriminants, odd Option tags), on tie shapes covering all eight field templates (see input_distribution: wire-* and struct-* keys); distinct_nontrivial = distinct requests with a non-empty serialized diff',
           'programs': len(shs)}
    return core.finish(res, LEVEL, cov, ASSUMPTIONS, proof_ok, search)
