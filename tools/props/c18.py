"""C18 - the derive's list diff needs memory linear in the list lengths."""
import random
import core, sx
from core import hbump

LEVEL = 'other'
FEATURES = ('debug_diffs',)
PROP = 'C18'
ASSUMPTIONS = [
    'the theorem is about live table cells of the cost model (Model/Cost.lean); bytes per cell (16), the reference vectors (8 B per element), the script (<= 128 B per entry incl. Vec growth and boxed iterators) and allocator slack are MEASURED, not proved',
    'stack depth (logarithmic) is not counted',
]
CELL = 16; REF = 8; ENTRY = 128; SLACK = 16384


def gen(rnd, n, m, cls):
    if cls == 'random':
        return [rnd.randrange(50) for _ in range(n)], [rnd.randrange(50) for _ in range(m)]
    if cls == 'equal':
        t = [rnd.randrange(50) for _ in range(n)]; return t, list(t)
    if cls == 'disjoint':
        return [rnd.randrange(50) for _ in range(n)], [100 + rnd.randrange(50) for _ in range(m)]
    if cls == 'shifted':
        t = [rnd.randrange(50) for _ in range(n)]; k = min(7, n); return t, (t[k:] + t[:k])[:max(m, 1)]
    if cls == 'short':
        return [rnd.randrange(50) for _ in range(n)], [rnd.randrange(50) for _ in range(min(m, 5))]
    if cls == 'binary':
        return [rnd.randrange(2) for _ in range(n)], [rnd.randrange(2) for _ in range(m)]
    # position-relation classes: one list is the other plus / minus a block whose length sits near n/2, n/4, n/8 ...
    # (the recursion halves the target, so index mix-ups in the guard show up exactly at such offsets)
    if cls in ('dropprefix', 'addprefix', 'dropsuffix', 'addsuffix', 'window'):
        k = rnd.choice([1, 1, 2, 3]); d = rnd.randrange(-8, 9)
        a = max(1, n // (2 ** k) + d)
        base = [rnd.randrange(50) for _ in range(n)]
        blk = [100 + rnd.randrange(50) for _ in range(a)]
        if cls == 'dropprefix': return base, blk + base          # source carries a extra leading elements
        if cls == 'addprefix': return blk + base, base
        if cls == 'dropsuffix': return base, base + blk
        if cls == 'addsuffix': return base + blk, base
        long = [rnd.randrange(50) for _ in range(n + a)]
        return long[a:], long[:n]                                 # sliding window
    # many insert-only (or delete-only) windows spread along the list: the target is the source with a block of r new
    # elements before every c common ones (or the other way round); what base cases allocate and keep alive until the
    # final collect is multiplied by the number of windows, so a per-window cost that depends on the window's POSITION
    # rather than its length shows up here and nowhere else
    if cls in ('runs-ins', 'runs-del'):
        r, c = rnd.choice([(16, 16), (16, 16), (32, 32), (17, 13), (24, 8), (9, 9)])
        lead = rnd.choice([0, 0, 5])
        long, short = [rnd.randrange(50) for _ in range(lead)], [rnd.randrange(50) for _ in range(lead)]
        short = list(long)
        while len(long) < n:
            blk = [100 + rnd.randrange(50) for _ in range(r)]
            com = [rnd.randrange(50) for _ in range(c)]
            long += blk + com; short += com
        return (long, short) if cls == 'runs-ins' else (short, long)
    raise ValueError(cls)


def cases(tier, seed):
    rnd = random.Random(seed)
    sizes_small = [(50, 50), (200, 300), (600, 600), (1000, 40)]
    sizes_big = [(2000, 2000), (4000, 4000), (6000, 3000)] if tier == 'quick' else [(4000, 4000), (10000, 10000), (20000, 5000), (30000, 30000)]
    out = []
    for cls in ('random', 'equal', 'disjoint', 'shifted', 'short', 'binary'):
        for (n, m) in sizes_small:
            t, s = gen(rnd, n, m, cls)
            out.append((cls, t, s, True))
        for (n, m) in sizes_big:
            t, s = gen(rnd, n, m, cls)
            out.append((cls, t, s, False))
    rel_small = [64, 200, 600] if tier == 'quick' else [64, 100, 200, 400, 600, 1000]
    rel_big = [3000] if tier == 'quick' else [4000, 12000]
    reps = 3 if tier == 'quick' else 8
    for cls in ('dropprefix', 'addprefix', 'dropsuffix', 'addsuffix', 'window'):
        for n in rel_small:
            for _ in range(reps):
                t, s = gen(rnd, n, n, cls)
                out.append((cls, t, s, True))
        for n in rel_big:
            for _ in range(reps):
                t, s = gen(rnd, n, n, cls)
                out.append((cls, t, s, False))
    for cls in ('runs-ins', 'runs-del'):
        for n in ([256, 1000] if tier == 'quick' else [256, 600, 1000]):
            for _ in range(2):
                t, s = gen(rnd, n, n, cls)
                out.append((cls, t, s, True))
        for n in ([4096] if tier == 'quick' else [4096, 8192, 20000]):
            for _ in range(3 if tier == 'quick' else 6):
                t, s = gen(rnd, n, n, cls)
                out.append((cls, t, s, False))
    return out


def run(res, ctx):
    P = ctx['params']
    tier, seed = res.tier, res.seed
    proof_ok = core.prove(res, PROP, thorough=(tier == 'thorough'))
    binp = core.build_harness(res, FEATURES)
    if binp is None:
        res.corr['model_disagreements'].append({'what': 'harness does not build against /repo', 'log': res.extra.get('cargo_error', '')[-1500:]})
        return core.finish(res, LEVEL, {'explanation': 'harness build failed'}, ASSUMPTIONS, proof_ok)
    cutoff = P['CUTOFF']
    cs = cases(tier, seed)
    lines = []; meta = []
    for cls, t, s, small in cs:
        for which in ('hirsch', 'derive'):
            lines.append(sx.show(['mem', which, t, s])); meta.append((cls, len(t), len(s), which, small, t, s))
    # the full-table entry point, as a witness that the bound discriminates (not a requirement)
    t, s = gen(random.Random(seed + 1), 1000, 1000, 'random')
    lines.append(sx.show(['mem', 'lev', t, s])); meta.append(('random', 1000, 1000, 'lev', False, t, s))
    rc, rows = core.run_oracle(binp, lines, timeout=7200)
    model_lines = [sx.show(['cost', m[5], m[6]]) for m in meta if m[4] and m[3] == 'hirsch']
    rc, mo = core.run_driver(model_lines, timeout=7200)
    model_cells = {}
    k = 0
    for mi, m in enumerate(meta):
        if m[4] and m[3] == 'hirsch':
            r = sx.parse(mo[k]); k += 1
            model_cells[mi] = (int(sx.field(r, 'cells')[0]), int(sx.field(r, 'script')[0]))
    table = []
    for mi, (row, m) in enumerate(zip(rows, meta)):
        cls, n, mm, which, small, _t, _s = m
        r = sx.parse(row[1])
        res.corr['evaluations'] += 1
        hbump(res, 'class:' + cls); hbump(res, 'entry:' + which)
        if r[0] != 'ok':
            res.corr['impl_failures'].append({'request': f'(mem {which} n={n} m={mm} class={cls} seed={seed})', 'what': 'the diff computation panicked / aborted'}); continue
        peak = int(sx.field(r, 'peak')[0]); script = int(sx.field(r, 'script')[0])
        bound_cells = (cutoff + 3) * (n + mm + 1)
        linear = CELL * bound_cells + REF * (n + mm) + ENTRY * script + SLACK
        rec = {'class': cls, 'n': n, 'm': mm, 'entry': which, 'peak_bytes': peak, 'script_entries': script, 'linear_bound_bytes': linear,
               'bytes_per_element': round(peak / max(1, n + mm), 1)}
        if which == 'lev':
            rec['note'] = 'full-table entry point: witness that the bound discriminates (expected to exceed it)'
            rec['exceeds_linear_bound'] = peak > linear
            table.append(rec); continue
        res.distinct.add(f'{cls}/{n}/{mm}/{which}')
        if peak > linear:
            res.corr['impl_failures'].append({'request': f'(mem {which} n={n} m={mm} class={cls} seed={seed})',
                                              'what': f'peak heap growth {peak} B exceeds the linear bound {linear} B = {CELL} B x (cutoff+3)(n+m+1) cells + {REF} B x (n+m) + {ENTRY} B x {script} script entries + slack',
                                              'n': n, 'm': mm, 'class': cls, 'entry': which})
        key = mi
        if key in model_cells and which == 'hirsch':
            cells, mscript = model_cells[key]
            rec['model_peak_cells'] = cells
            tight = CELL * cells + REF * (n + mm) + ENTRY * max(script, mscript) + SLACK
            rec['model_based_bound_bytes'] = tight
            if peak > tight:
                res.corr['model_disagreements'].append({'request': f'(mem hirsch n={n} m={mm} class={cls})', 'what': f'measured peak {peak} B exceeds what the cost model predicts for this very input ({cells} cells -> {tight} B): the allocation discipline is not the modelled one'})
            if cells > bound_cells:
                res.corr['model_disagreements'].append({'what': 'model peak exceeds the proved bound (impossible)'})
        table.append(rec)
    res.extra['measurements'] = table
    res.corr['samples'] = table[:4] + table[-2:]

    def search():
        return []

    cov = {'explanation': 'Lean theorem C18.peak_cells_linear: the cost model (peak live table cells of the divide-and-conquer recursion, same split points as the model of the algorithm) is bounded by (cutoff+3)(n+m+1) for all lists; tie: a counting global allocator measures the peak heap growth of the REAL hirschberg and of diff() on a derived struct with an ordered_array_like field, for thirteen content classes and sizes up to 6000 (quick) / 30000 (thorough), and requires it to stay below 16 B x that bound + 8 B x (n+m) + 128 B x script entries + slack; for sizes up to 1000 additionally below what the cost model predicts for that very input',
           'rule': 'content classes random / equal / disjoint / shifted / one side short / binary alphabet / block dropped or added at the front or back and sliding window with the block length within 8 of n/2, n/4, n/8, n/16 / runs of r new elements before every c common ones (many insert-only or delete-only windows along the list); entry points hirschberg and derive-generated diff; distinct_nontrivial = distinct (class, n, m, entry point)',
           'obligations': res.proof['obligations'], 'discharged': res.proof['discharged']}
    return core.finish(res, LEVEL, cov, ASSUMPTIONS, proof_ok, search)
