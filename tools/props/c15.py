"""C15 - generated setters: the emitted diffs replay to the same state."""
import random, json
import core, sx, shapes
from core import hbump
from props import dcommon, dgeneric

LEVEL = 'proof'
FEATURES = ('debug_diffs', 'generated_setters')
PROP = 'C15'


def c15_shapes(tier, seed, features):
    rnd = random.Random(seed * 17 + 3)
    F, struct = shapes.F, shapes.struct
    leaf = shapes.LEAF
    out = []
    # struct-level `setters`
    s = struct([F('plain'), F('plain', rty='Option<u32>'), F('plain', skip=1), F('recurse', inner=leaf()), F('ropt', inner=leaf()),
                F('ordered', cont='Vec'), F('unord', cont='Vec'), F('map', mode='kv', cont='HashMap'), F('map', mode='ko', cont='HashMap'),
                F('recmap', mode='ko', inner=leaf(), cont='HashMap'), F('recmap', mode='kv', inner=leaf(), cont='HashMap')])
    s['all_setters'] = True
    out.append(s)
    # per-field opt-in / opt-out / custom names
    s2 = struct([F('plain'), F('plain'), F('ordered', cont='Vec'), F('unord', cont='Vec'), F('plain')])
    s2['setters'] = {0: ['setter'], 2: ['setter', 'setter_name = "assign_list"'], 3: ['setter']}
    out.append(s2)
    s3 = struct([F('plain'), F('plain'), F('recurse', inner=leaf()), F('map', mode='kv', cont='HashMap')])
    s3['all_setters'] = True
    s3['setters'] = {1: ['skip_setter'], 2: ['setter_name = "put_inner"']}
    out.append(s3)
    # every template once more with a CUSTOM setter name (the macro has a separate code path per template for
    # `setter_name = ...`), struct-level opt-in and field-level opt-in
    def all_kinds():
        return [F('plain'), F('plain', rty='Option<u32>'), F('recurse', inner=leaf()), F('ropt', inner=leaf()),
                F('ordered', cont='Vec'), F('unord', cont='Vec'), F('map', mode='kv', cont='HashMap'), F('map', mode='ko', cont='BTreeMap'),
                F('recmap', mode='ko', inner=leaf(), cont='HashMap')]
    s5 = struct(all_kinds()); s5['all_setters'] = True
    s5['setters'] = {i: [f'setter_name = "put_{i}"'] for i in range(len(s5['fields']))}
    out.append(s5)
    s6 = struct(all_kinds())
    s6['setters'] = {i: ['setter', f'setter_name = "assign_{i}"'] for i in range(len(s6['fields']))}
    out.append(s6)
    s4 = struct([F('plain'), F('plain')], generic=True)
    s4['all_setters'] = True
    out.append(s4)
    n = 5 if tier == 'quick' else 30
    for _ in range(n):
        sh = shapes.random_shape(rnd, 0, features)
        sh['all_setters'] = rnd.random() < 0.7
        if not sh['all_setters']:
            sh['setters'] = {i: (['setter'] if rnd.random() < 0.6 else ['setter', f'setter_name = "nm_{i}"'])
                             for i, f in enumerate(sh['fields']) if not f['skip'] and rnd.random() < 0.6}
        else:
            sh['setters'] = {i: (['skip_setter'] if rnd.random() < 0.4 else [f'setter_name = "nm_{i}"'])
                             for i, f in enumerate(sh['fields']) if not f['skip'] and rnd.random() < 0.35}
        out.append(sh)
    return shapes.name_shapes(out)


def call_requests(shs, tier, seed):
    rnd = random.Random(seed + 21)
    n = 24 if tier == 'quick' else 160
    out = []
    for i, sh in enumerate(shs):
        settable = [j for j in range(len(sh['fields'])) if shapes.setter_name(sh, j)]
        if not settable:
            continue
        for _ in range(n):
            x = shapes.gen_value(sh, rnd)
            cur = list(x)
            calls = []
            for _ in range(rnd.choice([1, 3, 8, 20]) if tier == 'quick' else rnd.choice([1, 5, 20, 100])):
                j = rnd.choice(settable)
                f = sh['fields'][j]
                r = rnd.random()
                if r < 0.22:
                    v = cur[j + 1]                      # deliberately the current value
                elif r < 0.36:
                    # equal in the sense of the field's strategy but not identical: only skipped nested parts differ
                    v = shapes.mutate_inner(f, cur[j + 1], rnd, only_skipped=True)
                    if f['k'] == 'unord' and f['cont'] not in ('HashSet', 'BTreeSet') and len(cur[j + 1]) > 2:
                        # the same multiset in another element order: no change for the strategy, another value for the container
                        l = list(cur[j + 1][1:]); rnd.shuffle(l); v = ['l'] + l
                elif r < 0.7:
                    v = shapes.mutate_field(f, cur[j + 1], rnd)
                else:
                    v = shapes.gen_field(f, rnd)
                calls.append([j, v])
                cur[j + 1] = v
            out.append((i, 'setters', [x, calls], 'setters', cur))
    return out


def evaluate(res, shs, reqs, rows, mo):
    for (i, op, args, cls, final), row, m in zip(reqs, rows, mo):
        sh = shs[i]
        req, resp = row[0], row[1]
        r = sx.parse(resp); mm = sx.parse(m)
        res.corr['evaluations'] += 1
        x, calls = args
        hbump(res, 'calls:%d' % len(calls))
        if r[0] != 'ok':
            res.corr['impl_failures'].append({'request': req[:3000], 'impl': resp[:300], 'what': 'setter call sequence panicked or was rejected: ' + r[0]}); continue
        if mm[0] != 'ok':
            res.corr['model_disagreements'].append({'request': req[:2000], 'model': m[:300], 'what': 'model rejected'}); continue
        rets = sx.field(r, 'rets'); mrets = sx.field(mm, 'rets')
        fin = sx.field(r, 'final')[0]; mfin = sx.field(mm, 'final')[0]
        crets = []
        for ret in rets:
            if ret == 'none' or ret == 'nosetter': crets.append(ret)
            else: crets.append(shapes.canon_entries_impl(sh, ret[1]))
        cm = []
        for ret in mrets:
            if ret == 'none' or ret == 'nosetter': cm.append(ret)
            else: cm.append(shapes.canon_entries_model(sh, ret[1]))
        dis = None
        if crets != cm:
            dis = 'returned entries differ'
        elif shapes.canon_value(sh, fin) != shapes.canon_value(sh, mfin):
            dis = 'receiver state differs'
        if dis:
            res.corr['model_disagreements'].append({'request': req[:2500], 'shape': json.dumps(shapes.lean_ty(sh))[:500], 'impl': resp[:600], 'model': m[:600], 'what': dis})
        # ---- the property itself
        fail = None
        cur = list(x)
        for (j, v), ret in zip(calls, crets):
            f = sh['fields'][int(j)]
            j = int(j)
            same = dcommon.field_same(f, cur[j + 1], v)
            hbump(res, 'kind:' + f['k'] + ('/same' if same else '/changed'))
            if ret == 'nosetter':
                fail = f'no setter is generated for field f{j} although one is expected'; break
            if (ret == 'none') != same:
                fail = f'setter of f{j} returned ' + ('nothing although the strategy sees a change' if ret == 'none' else 'an entry although the strategy sees no change'); break
            if ret != 'none' and [e[0] for e in ret] != [j]:
                fail = f'setter of f{j} returned an entry for another field'; break
            cur[j + 1] = v
        if fail is None and sx.show(fin) != sx.show(cur):
            # renderings are canonical for hash containers and keep the element order of Vec / VecDeque / LinkedList:
            # an order-preserving container must hold the given elements in the given order, whatever the strategy
            # "exactly" is up to the field type's own `==` (the only equality the generated code can use): a setter
            # called with a value that is == to the held one returns before assigning (plain, recurse, recurse+Option),
            # so a field may hold an == but differently rendered value (0.0 / -0.0, enum differing in nothing `==` sees)
            bad = [jj for jj, f in enumerate(sh['fields'])
                   if sx.show(fin[jj + 1]) != sx.show(cur[jj + 1]) and not dcommon.peq_field(f, fin[jj + 1], cur[jj + 1])]
            if bad:
                fail = 'after the calls the receiver does not hold exactly the given values (fields %s)' % bad
            else:
                hbump(res, 'final:==-but-not-identical')
        if fail is None:
            # replay of all returned entries on a copy of the initial value (computed by the model from the REAL entries being equal)
            rep = sx.field(mm, 'replay')[0]
            msg = dcommon.equiv_value(sh, cur, rep) if dis is None else None
            if msg:
                fail = 'replaying the returned entries on the initial value does not reproduce the final value: ' + msg
        if len(calls) >= 3:
            res.distinct.add(core.digest(req))
        if fail:
            res.corr['impl_failures'].append({'request': req[:4000], 'shape': json.dumps(shapes.lean_ty(sh))[:600], 'impl': resp[:400], 'what': fail})
    for k in (0, len(rows) - 1):
        if rows:
            res.corr['samples'].append({'request': rows[k][0][:400], 'impl': rows[k][1][:400], 'model': mo[k][:400]})


def run(res, ctx):
    tier, seed = res.tier, res.seed
    proof_ok = core.prove(res, PROP, thorough=(tier == 'thorough'))
    shs = c15_shapes(tier, seed, FEATURES)
    shs, binp = dcommon.build(res, tier, seed, FEATURES, with_setters=True, shapes_list=shs)
    res.extra['shapes'] = len(shs)
    if binp is None:
        log = res.extra.get('cargo_error', '')
        res.corr['impl_failures'].append({'what': 'a struct using the documented setter attributes does not compile with feature generated_setters (or a predicted setter name does not exist)',
                                          'request': 'cargo build --features debug_diffs,generated_setters (generated shape crate)', 'log': log[-3000:]})
        return core.finish(res, LEVEL, {}, dgeneric.ASSUMPTIONS, proof_ok)

    def explore(r_out, tier, seed):
        if ctx.get('replay_requests') and r_out is res:
            reqs = []
            for ln in ctx['replay_requests']:
                q = sx.parse(ln); reqs.append((int(q[1]), 'setters', q[3:], 'replay', None))
        else:
            reqs = call_requests(shs, tier, seed)
        ol, dl = dcommon.to_lines(shs, [x[:4] for x in reqs])
        rc, rows = core.run_oracle(binp, ol); rc, mo = core.run_driver(dl)
        evaluate(r_out, shs, reqs, rows, mo)

    explore(res, tier, seed)

    def search():
        r2 = core.Result(PROP, tier, seed)
        explore(r2, 'thorough', seed + 1)
        return r2.corr['impl_failures']

    cov = {'rule': 'structs mixing struct-level #[difference(setters)] with per-field setter / skip_setter / setter_name, every strategy that generates a setter; the glue calls each setter by the name the model of shared.rs predicts (a missing setter is a compile error); call sequences of 1-100 calls in random field order, 30% setting the current value; return value, receiver state and replay checked after the sequence',
           'programs': len(shs)}
    return core.finish(res, LEVEL, cov, dgeneric.ASSUMPTIONS, proof_ok, search)
