"""C10 - the fixed-capacity slot array behaves like a bounded sequence."""
import itertools, random
import core, sx
from core import hbump

LEVEL = 'proof'
FEATURES = ()
ASSUMPTIONS = [
    'u8 logical indices are modelled in Nat (N <= 255 is enforced by the code itself; the invariant keeps indices < cnt <= N)',
    'unstable sorts are modelled by stable insertion sorts: keys are distinct under the invariant, so the result is unique',
    'Option::take / mem::swap / array indexing are modelled as list functions',
]


def layouts(N):
    """every layout satisfying the invariant: an injection of logical indices 0..cnt-1 into N cells"""
    for cnt in range(N + 1):
        for cells in itertools.permutations(range(N), cnt):
            lay = [None] * N
            for logical, phys in enumerate(cells):
                lay[phys] = (logical, 10 + 7 * logical + phys)
            yield lay, cnt


def cells_sx(lay):
    return [('_' if c is None else [c[0], c[1]]) for c in lay]


def abs_of(lay):
    return [v for (_, v) in sorted([c for c in lay if c is not None])]


def ops_for(N, cnt, rnd, full=True):
    ops = []
    for p in range(N + 2):
        ops.append(['insert', p, 99])
    for p in range(N + 1):
        ops.append(['remove', p])
    for a in range(cnt + 2):
        for b in range(cnt + 2):
            ops.append(['swap', a, b])
    for lo in range(N + 2):
        for hi in range(lo, N + 2):
            ops.append(['drain', lo, hi])
            ops.append(['drainrev', lo, hi])      # the drained items consumed from the back
        ops.append(['drain', lo, 'inf'])
        ops.append(['drainrev', lo, 'inf'])
    for k in range(N - cnt + 2):
        ops.append(['extend', [70 + i for i in range(k)]])
    for i in range(N + 1):
        ops.append(['index', i])
        ops.append(['set', i, 55])
    ops += [['len'], ['iter'], ['into'], ['rev'], ['judge']]
    L = cnt + 1
    pats = list(itertools.product('fb', repeat=L)) if L <= 5 else [tuple(rnd.choice('fb') for _ in range(L)) for _ in range(24)]
    for pat in pats:
        ops.append(['deque', list(pat)])
    return ops


def requests(tier, seed, P):
    rnd = random.Random(seed)
    reqs = []
    sizes = [1, 2, 3, 4] if tier == 'quick' else [1, 2, 3, 4, 5]
    for N in sizes:
        for lay, cnt in layouts(N):
            for op in ops_for(N, cnt, rnd):
                reqs.append(sx.show(['slots', N, cells_sx(lay), cnt, op]))
        for k in range(N + 2):
            reqs.append(sx.show(['slots', N, ['fromiter', list(range(20, 20 + k))]]))
    # random histories at production capacity (and 8), biased so that holes are reused out of order
    nh, steps = (12, 600) if tier == 'quick' else (200, 3000)
    for h in range(nh):
        N = 16 if h % 3 else 8
        reqs.append(sx.show(['slots-hist', N, history_ops(N, steps, rnd)]))
    return reqs


def history_ops(N, steps, rnd):
    n = 0
    ops = []
    val = 100
    phase_fill = True
    for _ in range(steps):
        if n == 0:
            phase_fill = True
        if n == N:
            phase_fill = False
        r = rnd.random()
        if r < 0.30:
            k = rnd.choice(['iter', 'into', 'rev', 'len', 'index', 'deque'])
            if k == 'index':
                ops.append(['index', rnd.randrange(0, N + 1)])
            elif k == 'deque':
                ops.append(['deque', [rnd.choice('fb') for _ in range(rnd.randrange(1, n + 3))]])
            else:
                ops.append([k])
            continue
        want_grow = rnd.random() < (0.7 if phase_fill else 0.3)
        if want_grow and n < N:
            if rnd.random() < 0.2:
                k = rnd.randrange(0, N - n + 1)
                ops.append(['extend', [val + i for i in range(k)]]); val += k; n += k
            else:
                ops.append(['insert', rnd.randrange(0, n + 1), val]); val += 1; n += 1
        elif n > 0:
            r2 = rnd.random()
            if r2 < 0.5:
                ops.append(['remove', rnd.randrange(0, n)]); n -= 1
            elif r2 < 0.7:
                lo = rnd.randrange(0, n + 1); hi = rnd.randrange(lo, n + 1)
                if rnd.random() < 0.3:
                    ops.append(['drain', lo, 'inf']); n = lo
                else:
                    ops.append(['drain', lo, hi]); n -= (hi - lo)
            elif r2 < 0.85 and n >= 1:
                ops.append(['swap', rnd.randrange(0, n), rnd.randrange(0, n)])
            else:
                ops.append(['set', rnd.randrange(0, n), val]); val += 1
        else:
            ops.append(['insert', 0, val]); val += 1; n += 1
    return ops


def deque_ref(l, pat):
    l = list(l); out = []
    for b in pat:
        if not l:
            out.append('none')
        elif b == 'b':
            out.append(str(l.pop()))
        else:
            out.append(str(l.pop(0)))
    return out


def reference(N, lay, cnt, op):
    """expected outcome on a plain bounded sequence; None where the property does not speak
    returns ('panic',) | ('ok', ret, abs')  (ret / abs' may be None = unconstrained)"""
    l = abs_of(lay)
    k = op[0]
    if k == 'insert':
        p, v = int(op[1]), int(op[2])
        if p >= N or cnt >= N:
            return ('panic',)
        if p <= cnt:
            return ('ok', None, l[:p] + [v] + l[p:])
        return None
    if k == 'remove':
        p = int(op[1])
        if p < cnt:
            return ('ok', l[p], l[:p] + l[p + 1:])
        return ('panic',)
    if k == 'swap':
        a, b = int(op[1]), int(op[2])
        if a == b:
            return ('ok', None, l)
        if a < cnt and b < cnt:
            m = list(l); m[a], m[b] = m[b], m[a]
            return ('ok', None, m)
        return ('panic',)
    if k in ('drain', 'drainrev'):
        lo = int(op[1]); hi = None if op[2] == 'inf' else int(op[2])
        got = l[lo:hi]
        return ('ok', got[::-1] if k == 'drainrev' else got, l[:lo] + (l[hi:] if hi is not None else []))
    if k == 'extend':
        vs = [int(x) for x in op[1]]
        if cnt + len(vs) <= N:
            return ('ok', None, l + vs)
        return None
    if k == 'index':
        i = int(op[1])
        return ('ok', l[i], None) if i < cnt else ('panic',)
    if k == 'set':
        i, v = int(op[1]), int(op[2])
        if i < cnt:
            m = list(l); m[i] = v
            return ('ok', None, m)
        return ('panic',)
    if k == 'len':
        return ('ok', cnt, None)
    if k in ('iter', 'into'):
        return ('ok', l, None)
    if k == 'rev':
        return ('ok', l[::-1], None)
    if k == 'deque':
        return ('ok', deque_ref(l, op[1]), None)
    if k == 'judge':
        return ('ok', None, l)
    return None


def norm(x):
    return sx.show(x) if x is not None else None


def evaluate(res, rows, legacy=False):
    """rows: [request, response] from the oracle. Runs the model on every request and the Lean
    judge on every REAL post-layout; fills res.corr"""
    lines = []
    for req, resp in rows:
        lines.append(req)
        r = sx.parse(resp)
        q = sx.parse(req)
        cells = sx.field(r, 'cells') if r and r[0] == 'ok' else None
        cnt = sx.field(r, 'cnt') if r and r[0] == 'ok' else None
        if cells is not None:
            lines.append(sx.show(['slots', q[1], cells, cnt[0], ['judge']]))
        else:
            lines.append('')
    rc, out = core.run_driver(lines, legacy=legacy)
    if len(out) != len(lines):
        res.corr['model_disagreements'].append({'what': 'driver produced %d lines for %d requests' % (len(out), len(lines))})
        return
    for idx, (req, resp) in enumerate(rows):
        m = sx.parse(out[2 * idx])
        j = sx.parse(out[2 * idx + 1]) if out[2 * idx + 1] else None
        r = sx.parse(resp)
        q = sx.parse(req)
        res.corr['evaluations'] += 1
        fromiter = len(q) == 3
        op = q[2][0] if fromiter else q[4][0]
        hbump(res, 'op:' + op)
        hbump(res, 'N:' + str(q[1]))
        # model vs implementation : exact (the model mirrors the physical layout)
        mm = [m[0]] + [x for x in m[1:] if x[0] in ('ret', 'cells', 'cnt')]
        if sx.show(mm) != sx.show(r):
            res.corr['model_disagreements'].append({'request': req, 'impl': resp, 'model': sx.show(mm)})
        if r[0] == 'panic':
            hbump(res, 'panics')
        # implementation vs plain sequence (the property itself)
        if fromiter:
            vs = [int(x) for x in q[2][1]]
            N = int(q[1])
            ref = ('ok', None, vs) if len(vs) <= N else ('panic',)
            pre_inv = True
        else:
            N = int(q[1])
            lay = [None if c == '_' else (int(c[0]), int(c[1])) for c in q[2]]
            cnt = int(q[3])
            ref = reference(N, lay, cnt, q[4])
            idx_sorted = sorted(c[0] for c in lay if c is not None)
            pre_inv = idx_sorted == list(range(cnt))
            if any(c is not None for c in lay) and lay.index(next(c for c in lay if c is not None)) >= 0:
                if idx_sorted and [c[0] for c in lay if c is not None] != idx_sorted or None in lay[:max(1, len(idx_sorted))]:
                    res.distinct.add(core.digest(req))
        if ref is None or not pre_inv:
            continue
        fail = None
        if ref[0] == 'panic':
            if r[0] != 'panic':
                fail = 'expected a panic (capacity / range), got ' + resp
        else:
            if r[0] != 'ok':
                fail = 'in-range operation panicked'
            else:
                ret = sx.field(r, 'ret')
                if ref[1] is not None and ret is not None:
                    exp = ref[1]
                    got = ret[0]
                    if norm(exp) != norm(got):
                        fail = f'result {norm(got)} but a plain sequence gives {norm(exp)}'
                if fail is None and ref[2] is not None and j is not None:
                    a = sx.field(j, 'abs')
                    inv = sx.field(j, 'inv')
                    if inv != ['true']:
                        fail = 'invariant broken in the resulting layout ' + sx.show(sx.field(r, 'cells'))
                    elif norm(a[0]) != norm(ref[2]):
                        fail = f'contents {norm(a[0])} but a plain sequence gives {norm(ref[2])}'
        if fail:
            res.corr['impl_failures'].append({'request': req, 'impl': resp, 'what': fail, 'op': op})
    if rows:
        for k in (0, len(rows) // 2, len(rows) - 1):
            res.corr['samples'].append({'request': rows[k][0], 'impl': rows[k][1], 'model': out[2 * k]})


def run(res, ctx):
    P = ctx['params']
    proof_ok = core.prove(res, 'C10', thorough=(res.tier == 'thorough'))
    binp = core.build_harness(res, FEATURES)
    if binp is None:
        res.corr['model_disagreements'].append({'what': 'harness does not build against /repo (white-box inclusion of rope/slots.rs)',
                                                'log': res.extra.get('cargo_error', '')[-1500:]})
        return core.finish(res, LEVEL, {}, ASSUMPTIONS, proof_ok)
    reqs = ctx.get('replay_requests') or requests(res.tier, res.seed, P)
    rc, rows = core.run_oracle(binp, reqs)
    rows = [r[:2] for r in rows]
    evaluate(res, rows)

    def search():
        # wider sweep with the plain-sequence oracle only
        extra = requests('thorough', res.seed + 1, P)[:400000]
        rc, rows2 = core.run_oracle(binp, extra)
        r2 = core.Result('C10', res.tier, res.seed)
        evaluate(r2, [r[:2] for r in rows2])
        return r2.corr['impl_failures']

    cov = {'exhaustive': True,
           'rule': 'every invariant-satisfying layout for N in {1..4} (quick) / {1..5} (thorough) x every applicable operation and argument, '
                   'plus seeded random histories at N=16 and N=8; distinct_nontrivial counts distinct requests whose layout is not the canonical left-packed identity layout',
           'whitebox': P.get('whitebox', False)}
    return core.finish(res, LEVEL, cov, ASSUMPTIONS, proof_ok, search)
