"""C13 - recursive map diff: keys converge exactly, values converge through nested diffs."""
import random, json
import core, sx, shapes
from props import dcommon, dgeneric

LEVEL = 'proof'
FEATURES = ('debug_diffs',)
PROP = 'C13'


def c13_shapes(tier, seed, features):
    rnd = random.Random(seed * 31 + 7)
    F, struct = shapes.F, shapes.struct
    inner_a = lambda: struct([F('plain'), F('plain', skip=1)])
    inner_b = lambda: struct([F('plain'), F('ordered', cont='Vec'), F('plain', skip=1), F('unord', cont='Vec')])
    inner_c = lambda: struct([F('recurse', inner=inner_a()), F('plain', skip=1)])
    out = []
    for mode in ('kv', 'ko'):
        for inner in (inner_a, inner_b, inner_c):
            out.append(struct([F('recmap', mode=mode, inner=inner(), cont='HashMap')]))
            out.append(struct([F('plain', skip=1), F('recmap', mode=mode, inner=inner(), cont='HashMap' if 'nanoserde' in features else 'BTreeMap'), F('plain')]))
    n = 6 if tier == 'quick' else 40
    while n > 0:
        sh = shapes.random_shape(rnd, 0, features)
        if any(f['k'] == 'recmap' for f in sh['fields']):
            out.append(sh); n -= 1
    return shapes.name_shapes(out)


def churn_requests(shs, tier, seed):
    """key churn x nested change x 'values differ only in skipped fields' x replacement shortcut"""
    rnd = random.Random(seed + 3)
    n = 40 if tier == 'quick' else 600
    out = []
    for i, sh in enumerate(shs):
        for _ in range(n):
            a = shapes.gen_value(sh, rnd)
            b = list(a)
            for j, f in enumerate(sh['fields']):
                if f['k'] != 'recmap':
                    continue
                cls = rnd.choice(['churn', 'nested', 'skipped-only', 'shrink', 'same'])
                kvs = [list(kv) for kv in a[j + 1][1:]]
                if cls == 'same':
                    pass
                elif cls == 'shrink':    # current has far fewer keys: the replacement shortcut
                    big = sorted(rnd.sample(range(12), rnd.randrange(5, 10)))
                    a = list(a); a[j + 1] = ['m'] + [[k, shapes.gen_value(f['inner'], rnd)] for k in big]
                    keep = rnd.sample(big, rnd.randrange(0, 2))
                    kvs = [[k, v] for k, v in a[j + 1][1:] if k in keep]
                elif cls == 'skipped-only':
                    kvs = [[k, shapes.mutate_value(f['inner'], v, rnd, only_skipped=True)] for k, v in kvs]
                elif cls == 'nested':
                    kvs = [[k, shapes.mutate_value(f['inner'], v, rnd, 0.6)] for k, v in kvs]
                else:
                    kvs = [[k, (shapes.mutate_value(f['inner'], v, rnd, 0.4) if rnd.random() < 0.5 else v)] for k, v in kvs if rnd.random() < 0.7]
                    for _ in range(rnd.randrange(0, 3)):
                        nk = rnd.randrange(12)
                        if all(k != nk for k, _ in kvs):
                            kvs.append([nk, shapes.gen_value(f['inner'], rnd)])
                b[j + 1] = ['m'] + sorted(kvs, key=lambda kv: kv[0])
            f0 = shapes.follower_of(sh, a, rnd)
            out.append((i, 'pair', [a, b, f0], 'recmap-churn'))
    return out


def run(res, ctx):
    tier, seed = res.tier, res.seed
    proof_ok = core.prove(res, PROP, thorough=(tier == 'thorough'))
    shs = c13_shapes(tier, seed, FEATURES)
    shs, binp = dcommon.build(res, tier, seed, FEATURES, shapes_list=shs)
    res.extra['shapes'] = len(shs)
    if binp is None:
        res.corr['model_disagreements'].append({'what': 'the generated shape crate does not compile against /repo', 'log': res.extra.get('cargo_error', '')[-2500:]})
        return core.finish(res, LEVEL, {}, dgeneric.ASSUMPTIONS, proof_ok)

    def explore(r_out, tier, seed):
        if ctx.get('replay_requests') and r_out is res:
            reqs = []
            for ln in ctx['replay_requests']:
                q = sx.parse(ln); reqs.append((int(q[1]), q[2], q[3:], 'replay'))
        else:
            reqs = churn_requests(shs, tier, seed) + dcommon.pair_requests(shs, tier, seed, per_shape=(10 if tier == 'quick' else 100))
        dcommon.run_pairs(r_out, shs, binp, reqs, {PROP})
        r_out.corr['impl_failures'] = [f for f in r_out.corr['impl_failures'] if f.get('property', PROP) == PROP]

    explore(res, tier, seed)

    def search():
        r2 = core.Result(PROP, tier, seed)
        explore(r2, 'thorough', seed + 1)
        return r2.corr['impl_failures']

    cov = {'rule': 'generated structs with recurse + unordered_map_like in both modes (value types with skipped and unskipped fields, themselves containing collection and nested fields; HashMap and BTreeMap), classes key churn / nested change / values differing only in skipped fields (Change with an empty nested diff) / replacement shortcut / identical; both diff and diff_ref paths; result and diff presence checked per mode by an independent oracle',
           'programs': len(shs)}
    return core.finish(res, LEVEL, cov, dgeneric.ASSUMPTIONS, proof_ok, search)
