"""C16 - feature selection never changes diff/apply semantics."""
import itertools, random, json, hashlib
import core, sx, shapes
from core import hbump
from props import dcommon, dgeneric, unord, c11, c12, c19, c20

LEVEL = 'translation_validation'
PROP = 'C16'
ALL = ['nanoserde', 'serde', 'debug_diffs', 'generated_setters', 'rustc_hash', 'debug_asserts']
ASSUMPTIONS = dgeneric.ASSUMPTIONS + [
    'what a feature can change semantically is (1) the hasher, i.e. iteration order - covered for every order by the count / per-key theorems of C11-C13, C19 (arr_order_free); (2) debug_asserts, which adds assertions - proved unreachable in C11.debug_asserts_unreachable (array-like) and checked here in dev-profile builds; (3) trait bounds, derive lists and codec impls - checked per configuration (compiles + same responses), not proved',
]


def feature_sets(tier):
    if tier == 'thorough':
        return [tuple(f for f, b in zip(ALL, bits) if b) for bits in itertools.product((0, 1), repeat=len(ALL))]
    # pairwise covering array for 6 binary factors (every pair of features appears in all four on/off combinations) + none + all
    rows = ['000000', '111111', '110100', '101010', '011001', '100011', '010110', '001101', '111000', '000111']
    return [tuple(f for f, b in zip(ALL, r) if b == '1') for r in rows]


def workload(tier, seed):
    shs = shapes.name_shapes(shapes.catalogue(('nanoserde',)) + [shapes.random_shape(random.Random(seed * 3 + k), 0, ('nanoserde',)) for k in range(6)])
    reqs = dcommon.pair_requests(shs, tier, seed, per_shape=(12 if tier == 'quick' else 25))
    direct = c11.requests('quick', seed, None)[:500] + c20.map_requests('quick', seed)[:500] + c19.triples('quick', seed)[:600]
    return shs, reqs, direct


def run(res, ctx):
    tier, seed = res.tier, res.seed
    proof_ok = core.prove(res, PROP, thorough=(tier == 'thorough'))
    shs, reqs, direct = workload(tier, seed)
    shapes.write_shapes(shs, with_setters=False)
    sets = feature_sets(tier)
    ol, dl = dcommon.to_lines(shs, reqs)
    rc, mo = core.run_driver(dl)
    rc, mdirect = core.run_driver(direct)
    digests = {}
    res.extra['configurations'] = []
    for fs in sets:
        label = '+'.join(fs) or 'default'
        profile = 'dev' if 'debug_asserts' in fs else 'release'
        binp = core.build_harness(res, fs, profile=profile, shapes_written=True)
        if binp is None:
            res.corr['impl_failures'].append({'request': 'cargo build --features ' + ','.join(fs), 'features': label,
                                              'what': f'the crate (library + derive output for the shape catalogue) does not compile under features [{label}]',
                                              'log': res.extra.get('cargo_error', '')[-2500:]})
            res.extra['configurations'].append({'features': label, 'built': False})
            continue
        sub = core.Result(PROP, tier, seed)
        rc, rows = core.run_oracle(binp, ol)
        if len(rows) != len(reqs):
            res.corr['model_disagreements'].append({'what': f'[{label}] oracle produced {len(rows)} lines for {len(reqs)} requests'}); continue
        dcommon.evaluate_pairs(sub, shs, reqs, rows, mo, {'C01', 'C04', 'C06'})
        rc, drows = core.run_oracle(binp, direct)
        ra = [r[:2] for r in drows if r[0].startswith('(uarr-cmp')]
        rm = [r[:2] for r in drows if r[0].startswith('(umap-cmp')]
        r3 = [r[:2] for r in drows if 'apply3' in r[0]]
        c11.evaluate(sub, ra, 'C20'); c12.evaluate(sub, rm); c19.evaluate(sub, r3)
        # canonical response stream digest (results only, order-free) for cross-configuration equality
        h = hashlib.sha1()
        for (i, op, args, cls), row in zip(reqs, rows):
            r = sx.parse(row[1])
            if r[0] != 'ok':
                h.update(b'!'); continue
            for key in dcommon.RES_KEYS:
                v = sx.field(r, key)[0]
                h.update(repr('panic' if v == 'panic' else shapes.canon_value(shs[i], v)).encode())
        digests[label] = h.hexdigest()[:16]
        res.corr['evaluations'] += sub.corr['evaluations']
        res.distinct |= {label + d for d in list(sub.distinct)[:2000]}
        for d in sub.corr['model_disagreements']:
            d['features'] = label; res.corr['model_disagreements'].append(d)
        for f in sub.corr['impl_failures']:
            f['features'] = label; res.corr['impl_failures'].append(f)
        res.extra['configurations'].append({'features': label, 'profile': profile, 'built': True, 'requests': sub.corr['evaluations'],
                                            'model_disagreements': len(sub.corr['model_disagreements']), 'impl_failures': len(sub.corr['impl_failures']),
                                            'result_digest': digests[label]})
        hbump(res, 'config:' + label, sub.corr['evaluations'])
        if not res.corr['samples']:
            res.corr['samples'] = sub.corr['samples'][:3]
    if len(set(digests.values())) > 1:
        res.corr['impl_failures'].append({'request': 'cross-configuration comparison', 'what': 'the canonical results of the same workload differ between feature sets: ' + json.dumps(digests)})
    cov = {'programs': len(sets), 'exhaustive': tier == 'thorough',
           'rule': 'the same seeded workload (derive-level pair requests over the shape catalogue: C01/C04/C06 oracles; direct unordered array-like / map-like comparisons and mismatched-base applications: C11/C12/C19/C20 oracles) executed under each feature set; quick = pairwise covering array of 10 sets incl. default and all-features, thorough = all 64; sets containing debug_asserts are built in the dev profile so that debug assertions are live; every canonical response must equal the model\'s and the result digests must be identical across configurations',
           'explanation': 'configuration space enumerated; order / assertion independence are theorems (C11-C13, C19); bounds and derive lists are validated per configuration'}
    return core.finish(res, LEVEL, cov, ASSUMPTIONS, proof_ok, None)
