"""C19 - unordered patching is total: saturating counts, never a panic."""
import collections, random
import core, sx, shapes
from core import hbump
from props import unord, dcommon

LEVEL = 'proof'
FEATURES = ()
PROP = 'C19'
ASSUMPTIONS = [
    'HashMap modelled as an association list with distinct keys (any order)',
    'usize overflow of `*val += count` is outside the model (counts in Nat)',
    'the recursive map-like part is exercised through derived structs whose fields all use unordered strategies, applied to unrelated bases (stage 3); its per-key closed form for ANY base is C13.apply_total_keys / RMap.apply_modify_kget',
]


def triples(tier, seed):
    rnd = random.Random(seed)
    out = []
    for (p, c) in unord.uarr_pairs(tier, seed):
        r = rnd.random()
        if r < 0.3:
            b = list(p)
        elif r < 0.6:   # shares some items, lacks others, larger/smaller counts
            cp = collections.Counter(p)
            b = []
            for x, n in cp.items():
                k = rnd.choice([0, 1, n, n + 1, max(0, n - 1), 2 * n])
                b += [x] * k
            b += [rnd.randrange(50, 60) for _ in range(rnd.randrange(0, 3))]
        else:
            b = unord.expand(unord.rand_multiset(rnd, rnd.randrange(1, 8), big=False))
        rnd.shuffle(b)
        out.append(sx.show(['uarr-apply3', p, c, b]))
    for (p, c, mode) in unord.umap_pairs(tier, seed):
        r = rnd.random()
        if r < 0.3:
            b = [list(x) for x in p]
        else:
            keys = [k for k, _ in p if rnd.random() < 0.6] + [rnd.randrange(1, 45) for _ in range(rnd.randrange(0, 4))]
            b = [[k, rnd.randrange(3)] for k in dict.fromkeys(keys)]
        out.append(sx.show(['umap-apply3', mode, p, c, b]))
    return out


def unordered_shapes():
    """derived structs all of whose fields use an unordered strategy (so applying a diff to an UNRELATED base must be total)"""
    F, struct = shapes.F, shapes.struct
    inner = lambda: struct([F('plain'), F('unord', cont='Vec'), F('plain', skip=1)])
    shs = [
        struct([F('recmap', mode='kv', inner=inner(), cont='HashMap'), F('map', mode='kv', cont='HashMap')]),
        struct([F('recmap', mode='ko', inner=inner(), cont='BTreeMap'), F('unord', cont='Vec')]),
        struct([F('recmap', mode='kv', cont='HashMap',
                  inner=struct([F('recmap', mode='kv', inner=shapes.LEAF(), cont='BTreeMap'), F('plain')]))]),
        struct([F('unord', cont='LinkedList'), F('map', mode='ko', cont='BTreeMap'), F('plain', skip=1)]),
    ]
    return shapes.name_shapes(shs)


def keys_of(sh, v, path=()):
    """{path: set of keys} for every map-like field (recursively through recursive maps)"""
    out = {}
    for j, (f, x) in enumerate(zip(sh['fields'], v[1:])):
        if f['k'] == 'map':
            out[path + (j,)] = {int(kv[0]) for kv in x[1:]}
        elif f['k'] == 'recmap':
            out[path + (j,)] = {int(kv[0]) for kv in x[1:]}
    return out


def derive_stage(res, tier, seed):
    shs = unordered_shapes()
    shs, binp = dcommon.build(res, tier, seed, ('debug_diffs',), shapes_list=shs)
    if binp is None:
        res.corr['model_disagreements'].append({'what': 'unordered-only shapes do not build', 'log': res.extra.get('cargo_error', '')[-1500:]}); return
    rnd = random.Random(seed + 5)
    n = 60 if tier == 'quick' else 1500
    reqs = []
    for i, sh in enumerate(shs):
        for _ in range(n):
            a = shapes.gen_value(sh, rnd)
            b = shapes.mutate_value(sh, a, rnd, 0.6) if rnd.random() < 0.6 else shapes.gen_value(sh, rnd)
            r = rnd.random()
            base = shapes.gen_value(sh, rnd) if r < 0.6 else (shapes.mutate_value(sh, a, rnd, 0.7) if r < 0.9 else b)
            reqs.append((i, 'pair', [a, b, base], 'unrelated-base'))
    ol, dl = dcommon.to_lines(shs, reqs)
    rc, rows = core.run_oracle(binp, ol)
    rc, mo = core.run_driver(dl)
    for (i, op, args, cls), row, m in zip(reqs, rows, mo):
        sh = shs[i]
        res.corr['evaluations'] += 1
        hbump(res, 'kind:derive-unrelated-base')
        r = sx.parse(row[1]); mm = sx.parse(m)
        if r[0] != 'ok':
            res.corr['impl_failures'].append({'request': row[0][:3000], 'impl': row[1][:300], 'what': 'computing the diff panicked'}); continue
        fr = sx.field(r, 'follow')[0]; fm = sx.field(mm, 'follow')[0] if mm[0] == 'ok' else 'bad'
        if fr == 'panic':
            res.corr['impl_failures'].append({'request': row[0][:3000], 'impl': row[1][:400],
                                              'what': 'applying the diff of (a, b) to an unrelated base panicked (all fields use unordered strategies)'}); continue
        if fm in ('panic', 'bad') or shapes.canon_value(sh, fr) != shapes.canon_value(sh, fm):
            res.corr['model_disagreements'].append({'request': row[0][:2000], 'impl': row[1][:400], 'model': m[:400], 'what': 'result on an unrelated base differs from the model'})
        a, b, base = args
        kb, kbase, kr = keys_of(sh, b), keys_of(sh, base), keys_of(sh, fr)
        ka = keys_of(sh, a)
        for pth, ks in kr.items():
            extra = ks - (kbase[pth] | kb[pth] | ka[pth])
            if extra:
                res.corr['impl_failures'].append({'request': row[0][:3000], 'impl': row[1][:400],
                                                  'what': f'map field f{pth[-1]}: the result holds keys {sorted(extra)} that were neither in the base nor in the diff'}); break
        if sx.show(base) != sx.show(a):
            res.distinct.add(core.digest(row[0]))


def evaluate(res, rows, label=''):
    rc, out = core.run_driver([r[0] for r in rows])
    for idx, (req, resp) in enumerate(rows):
        q = sx.parse(req); r = sx.parse(resp); m = sx.parse(out[idx])
        res.corr['evaluations'] += 1
        kind = q[0]
        hbump(res, 'kind:' + kind + label)
        fail = None; dis = None
        if kind == 'uarr-apply3':
            p, c, b = unord.ints(q[1]), unord.ints(q[2]), unord.ints(q[3])
            cd = unord.canon_udiff(r) if r[0] != 'panic' else 'panic'
            md = unord.canon_udiff(m)
            if cd == 'panic':
                fail = 'panicked'
            elif cd != md:
                dis = 'diff differs'
            elif cd is not None:
                a = sx.field(r, 'applied'); am = sx.field(m, 'applied')
                if a is None:
                    fail = 'applying a diff to a base it was not computed from panicked'
                else:
                    got = collections.Counter(unord.ints(a[0]))
                    if got != collections.Counter(unord.ints(am[0])):
                        dis = 'applied result differs'
                    cb = collections.Counter(b)
                    if cd[0] == 'Replace':
                        if got != collections.Counter(cd[1]):
                            fail = 'a full replacement did not yield exactly the carried collection'
                    else:
                        ins = collections.Counter(); rem = collections.Counter()
                        for k2, x, n in cd[1]:
                            (ins if k2.startswith('Insert') else rem)[x] += n
                        for x in set(cb) | set(ins) | set(rem) | set(got):
                            exp = max(0, cb[x] - rem[x]) + ins[x]
                            if got[x] != exp:
                                fail = 'item %d: got %d, expected base %d - removed %d (not below zero) + inserted %d' % (x, got[x], cb[x], rem[x], ins[x])
                    if sx.field(r, 'applied-ll') is None:
                        fail = 'applying into a LinkedList panicked'
                    if set(b) != set(p):
                        res.distinct.add(core.digest(req))
        else:
            p, c, b = unord.pairs_of(q[2]), unord.pairs_of(q[3]), unord.pairs_of(q[4])
            cd = unord.canon_mdiff(r) if r[0] != 'panic' else 'panic'
            md = unord.canon_mdiff(m)
            if cd == 'panic':
                fail = 'panicked'
            elif cd != md:
                dis = 'diff differs'
            elif cd is not None:
                a = sx.field(r, 'applied'); am = sx.field(m, 'applied')
                if a is None:
                    fail = 'applying a map diff to a base it was not computed from panicked'
                else:
                    got = sorted(unord.pairs_of(a[0]))
                    if got != sorted(unord.pairs_of(am[0])):
                        dis = 'applied result differs'
                    if cd[0] == 'Replace':
                        dkeys = {k for k, _ in cd[1]}
                    else:
                        dkeys = {ch[1] for ch in cd[1]}
                    bad = {k for k, _ in got} - ({k for k, _ in b} | dkeys)
                    if bad:
                        fail = 'result contains keys %s that were neither in the base nor in the diff' % sorted(bad)
                    if dict(b) != dict(p):
                        res.distinct.add(core.digest(req))
        if dis:
            res.corr['model_disagreements'].append({'request': req[:1500], 'impl': resp[:500], 'model': out[idx][:500], 'what': dis + label})
        if fail:
            res.corr['impl_failures'].append({'request': req[:3000], 'impl': resp[:500], 'what': fail + label})
    for k in (0, len(rows) - 1):
        if rows:
            res.corr['samples'].append({'request': rows[k][0][:300], 'impl': rows[k][1][:300], 'model': out[k][:300]})


def run(res, ctx):
    P = ctx['params']
    proof_ok = core.prove(res, PROP, thorough=(res.tier == 'thorough'))
    binp = core.build_harness(res, FEATURES)
    if binp is None:
        res.corr['model_disagreements'].append({'what': 'harness does not build against /repo', 'log': res.extra.get('cargo_error', '')[-1500:]})
        return core.finish(res, LEVEL, {}, ASSUMPTIONS, proof_ok)
    reqs = ctx.get('replay_requests') or triples(res.tier, res.seed)
    rc, rows = core.run_oracle(binp, reqs)
    evaluate(res, [r[:2] for r in rows])
    # the same stream with `debug_asserts` on and debug assertions live (dev profile): no assertion may fire
    bind = core.build_harness(res, ('debug_asserts',), profile='dev')
    if bind is None:
        res.corr['model_disagreements'].append({'what': 'harness does not build with feature debug_asserts (dev profile)', 'log': res.extra.get('cargo_error', '')[-1500:]})
    else:
        sub = reqs if res.tier == 'thorough' else reqs[::3]
        rc, rows2 = core.run_oracle(bind, sub)
        evaluate(res, [r[:2] for r in rows2], label=' [debug_asserts, dev profile]')

    # stage 3: recursive / flat maps and arrays inside derived structs, diffs applied to unrelated bases
    if not ctx.get('replay_requests'):
        derive_stage(res, res.tier, res.seed)

    def search():
        rc, rows3 = core.run_oracle(binp, triples('thorough', res.seed + 1))
        r2 = core.Result(PROP, res.tier, res.seed)
        evaluate(r2, [r[:2] for r in rows3])
        return r2.corr['impl_failures']

    cov = {'rule': 'diff computed from (p, c), applied to an unrelated base b (shares some items, lacks others, larger / smaller counts, extra items) for the array-like and the flat map-like back end, release build and dev build with `debug_asserts`; the per-item formula is checked against the REAL diff; distinct_nontrivial = distinct requests whose base differs from p'}
    return core.finish(res, LEVEL, cov, ASSUMPTIONS, proof_ok, search)
