"""Byte-exact tie between the Lean wire model of DERIVED struct diffs (Model/Codec.lean: rank, encEntries, decEntries,
pvCdc, valsCdc, leafEntriesCdc, plCdc; theorems C14.struct_entries_dec_enc / struct_discriminant_identifies_field /
flat_struct_dec_enc / nested_struct_dec_enc / nested_struct_ref_bytes_eq) and the real codecs: what serde_derive /
nanoserde-derive generate for the enums the macro emits, and — inside them — the HAND-WRITTEN codec of the recursive
map diff. Used by C14.

Tie shapes: every field is flat (plain `u32` / `Option<u32>`), a `recurse` into a flat struct, an ordered list, an
unordered array-like collection, a flat map (elements / keys / values `u32`), or a recursive map (either equality
mode) whose values are flat structs, or an `Option` + `recurse` field of a flat struct (two enum variants: the
optional nested list and the whole new value); any skip pattern. There the whole byte string is determined by the
model. Not covered: plain fields of other types (nested structs, enums, floats), generics.

 stream A: pairs (a, b) -> the REAL diff / diff_ref serialized by the real encoders (both formats, both forms). For
           each of the two byte strings: (1) the MODEL decoder accepts the real bytes and re-encodes them to the
           identical byte string (layout, discriminants, entry order all preserved; the borrowed form is decoded as the
           OWNED type); (2) on flat shapes owned bytes = borrowed bytes (with map payloads the two come from two
           comparisons, each with its own hash order); (3) the decoded entries, given their plain meaning (set field / replace map / insert / remove / patch the
           value of a key), turn a into what the real in-memory apply produced; (4) on flat shapes the entries are
           forced (one per unskipped differing field, in order, carrying b's value): the model ENCODER must produce
           the real bytes.
 stream B: arbitrary well-formed entry lists (any order, repeated fields, recursive-map change lists no comparison
           would produce) encoded by the model and decoded by the REAL decoders: accepted, re-encoded to the same
           bytes, and applied to a base they have their plain meaning; damaged encodings (truncation; an unknown
           discriminant of the entry, of the recursive-map diff, of its first change) must be rejected by both
           decoders, or accepted by both with the same re-encoding.
"""
import random
import core, sx, shapes
from core import hbump


def flat_field(f):
    return f['k'] == 'plain' and f.get('rty', 'u32') in ('u32', 'Option<u32>')


def flat_struct(sh):
    return sh['t'] == 'struct' and not sh.get('generic') and len(sh['fields']) > 0 and all(flat_field(f) for f in sh['fields'])


def rm_field(f):
    return f['k'] == 'recmap' and flat_struct(f['inner']) and any(not g['skip'] for g in f['inner']['fields'])


def ne_field(f):
    return f['k'] == 'recurse' and flat_struct(f['inner']) and any(not g['skip'] for g in f['inner']['fields'])


def ropt_field(f):
    return f['k'] == 'ropt' and flat_struct(f['inner']) and any(not g['skip'] for g in f['inner']['fields'])


def coll_field(f):
    return f['k'] in ('ordered', 'unord') or (f['k'] == 'map' and f.get('vty', 'u32') == 'u32')


def tie_field(f):
    return flat_field(f) or rm_field(f) or ne_field(f) or ropt_field(f) or coll_field(f)


def is_tie(sh):
    return (sh['t'] == 'struct' and not sh.get('generic') and len(sh['fields']) > 0 and
            all(tie_field(f) for f in sh['fields']) and any(not f['skip'] for f in sh['fields']))


def is_flat(sh):
    return is_tie(sh) and all(flat_field(f) for f in sh['fields'])


def extra_shapes():
    F, struct = shapes.F, shapes.struct
    O = lambda **kw: F('plain', rty='Option<u32>', **kw)
    leaf = lambda: struct([F('plain'), F('plain', skip=1), O()])
    leaf2 = lambda: struct([O(skip=1), F('plain'), F('plain')])
    return [
        struct([F('plain'), F('plain'), F('plain')]),
        struct([F('plain', skip=1), F('plain'), O(), F('plain', skip=1), F('plain')]),
        struct([O(), O(skip=1), F('plain'), O()]),
        struct([F('plain', skip=(1 if i % 3 == 1 else 0)) if i % 2 else O(skip=(1 if i % 5 == 0 else 0)) for i in range(18)]),
        struct([F('plain', skip=1), F('recmap', mode='kv', inner=leaf(), cont='HashMap'), F('plain')]),
        struct([F('recmap', mode='ko', inner=leaf2(), cont='HashMap'), O(), F('recmap', mode='kv', inner=leaf2(), cont='HashMap')]),
        struct([F('ordered', cont='Vec'), F('plain', skip=1), F('unord', cont='Vec'), F('map', mode='kv', cont='HashMap'), F('recurse', inner=leaf())]),
        struct([F('ropt', inner=leaf()), F('plain', skip=1), F('plain'), F('ropt', inner=leaf2()), O()]),
        struct([F('recurse', inner=leaf2()), F('unord', cont='HashSet'), F('plain', skip=1), F('ordered', cont='Vec'), F('map', mode='ko', cont='HashMap'), O()]),
    ]


def leaf_desc(inner):
    return [1 if g['skip'] else 0 for g in inner['fields']], [1 if g.get('rty', 'u32') == 'Option<u32>' else 0 for g in inner['fields']]


def kind_of(f):
    if flat_field(f): return 1 if f.get('rty', 'u32') == 'Option<u32>' else 0
    if f['k'] == 'ordered': return 'ord'
    if f['k'] == 'unord': return 'uarr'
    if f['k'] == 'map': return 'umap'
    sk, op = leaf_desc(f['inner'])
    return [{'recmap': 'rm', 'recurse': 'ne', 'ropt': 'on'}[f['k']], sk, op]


def skips_kinds(sh):
    return [1 if f['skip'] else 0 for f in sh['fields']], [kind_of(f) for f in sh['fields']]


def pv(v):
    """protocol value of a flat field -> the driver's payload syntax (and back: the two coincide up to int/str)"""
    if v == 'none': return 'none'
    if isinstance(v, list): return ['some', int(v[1])]
    return int(v)


def gen_flat(f, rnd):
    if f.get('rty', 'u32') == 'Option<u32>':
        return 'none' if rnd.random() < 0.3 else ['some', rnd.choice([0, 1, 7, 255, 256, 2 ** 32 - 1])]
    return rnd.choice([0, 1, 9, 255, 65536, 2 ** 32 - 1])


def gen_leaf_vals(inner, rnd):
    return [gen_flat(g, rnd) for g in inner['fields']]


def apply_script(l, script):
    l = list(l)
    for c in script:
        if c[0] == 'Replace': l[int(c[2])] = int(c[1])
        elif c[0] == 'Insert': l.insert(int(c[2]), int(c[1]))
        elif c[0] == 'Swap':
            i, j = int(c[1]), int(c[2]); l[i], l[j] = l[j], l[i]
        elif c[2] == 'None': del l[int(c[1])]
        else: del l[int(c[1]):int(c[2][1]) + 1]
    return l


def apply_udiff(l, d):
    if d[0] == 'Replace':
        return [int(x) for x in d[1]]
    cnt = {}
    for x in l: cnt[int(x)] = cnt.get(int(x), 0) + 1
    for c in d[1]:
        x = int(c[1]); n = 1 if c[0].endswith('Single') else int(c[2])
        if c[0].startswith('Insert'): cnt[x] = cnt.get(x, 0) + n
        else: cnt[x] = max(0, cnt.get(x, 0) - n)
    return sorted(x for x, n in cnt.items() for _ in range(n))


def apply_mdiff(pairs, d):
    if d[0] == 'Replace':
        return sorted([int(k), int(v)] for k, v in d[1])
    m = {int(k): int(v) for k, v in pairs}
    for c in d[1]:
        if c[0] == 'InsertSingle': m[int(c[1])] = int(c[2])
        elif c[0] == 'RemoveSingle': m.pop(int(c[1]), None)
        elif c[0] == 'InsertMany':
            if int(c[3]) > 0: m[int(c[1])] = int(c[2])
        elif int(c[2]) > 0: m.pop(int(c[1]), None)
    return [[k, m[k]] for k in sorted(m)]


def apply_entries(sh, x, es):
    """the plain meaning of an entry list on a protocol value (collections of unordered strategies come out sorted)"""
    out = list(x)
    for j, p in es:
        j = int(j); f = sh['fields'][j]
        if flat_field(f):
            out[j + 1] = p; continue
        if f['k'] == 'ordered':
            out[j + 1] = ['l'] + apply_script([int(v) for v in out[j + 1][1:]], p); continue
        if f['k'] == 'unord':
            r = apply_udiff(out[j + 1][1:], p)
            if f['cont'] in ('HashSet', 'BTreeSet'): r = sorted(set(r))      # the result is collected into a set
            out[j + 1] = ['l'] + r; continue
        if f['k'] == 'map':
            out[j + 1] = ['p'] + apply_mdiff(out[j + 1][1:], p); continue
        if f['k'] == 'recurse':
            leaf = list(out[j + 1])
            for jj, q in p: leaf[int(jj) + 1] = q
            out[j + 1] = leaf; continue
        if f['k'] == 'ropt':
            if p == 'none': out[j + 1] = 'none'
            elif p[0] == 'full': out[j + 1] = ['some', ['s'] + list(p[1])]
            elif out[j + 1] != 'none':
                leaf = list(out[j + 1][1])
                for jj, q in p[1]: leaf[int(jj) + 1] = q
                out[j + 1] = ['some', leaf]
            continue
        cur = {int(kv[0]): list(kv[1]) for kv in out[j + 1][1:]}
        if p[0] == 'Replace':
            cur = {int(k): ['s'] + list(vs) for k, vs in p[1]}
        else:
            for c in p[1]:
                k = int(c[1])
                if c[0] == 'Insert': cur[k] = ['s'] + list(c[2])
                elif c[0] == 'Remove': cur.pop(k, None)
                elif k in cur:
                    leaf = list(cur[k])
                    for jj, q in c[2]: leaf[int(jj) + 1] = q
                    cur[k] = leaf
        out[j + 1] = ['m'] + [[k, cur[k]] for k in sorted(cur)]
    return out


def gen_payload(f, base_field, rnd):
    """a payload VALUE for the field that need not come from any comparison, safe to apply to the base"""
    if flat_field(f):
        return gen_flat(f, rnd)
    if f['k'] == 'recmap':
        return gen_rm_payload(f, base_field, rnd)
    if f['k'] == 'recurse':
        inner = f['inner']; uns = [j for j, g in enumerate(inner['fields']) if not g['skip']]
        return [[jj, gen_flat(inner['fields'][jj], rnd)] for jj in [rnd.choice(uns) for _ in range(rnd.choice([0, 1, 2, 4]))]]
    if f['k'] == 'ropt':
        inner = f['inner']; uns = [j for j, g in enumerate(inner['fields']) if not g['skip']]
        r = rnd.random()
        if r < 0.25: return 'none'
        if r < 0.55 or base_field == 'none': return ['full', gen_leaf_vals(inner, rnd)]
        return ['some', [[jj, gen_flat(inner['fields'][jj], rnd)] for jj in [rnd.choice(uns) for _ in range(rnd.choice([0, 1, 2, 4]))]]]
    if f['k'] == 'ordered':
        from props import c08
        return c08.rand_script(rnd, len(base_field) - 1, 8)
    if f['k'] == 'unord':
        if rnd.random() < 0.3:
            vals = [rnd.choice([0, 1, 7, 2 ** 32 - 1]) for _ in range(rnd.randrange(0, 6))]
            return ['Replace', sorted(set(vals)) if f['cont'] in ('HashSet', 'BTreeSet') else vals]
        cs = []
        for x in rnd.sample(range(10), rnd.randrange(0, 5)):
            k = rnd.choice(['InsertMany', 'RemoveMany', 'InsertFew', 'RemoveFew', 'InsertSingle', 'RemoveSingle'])
            if f['cont'] in ('HashSet', 'BTreeSet'): k = rnd.choice(['InsertSingle', 'RemoveSingle'])
            if k.endswith('Many'): cs.append([k, x, rnd.choice([256, 300])])
            elif k.endswith('Few'): cs.append([k, x, rnd.choice([2, 3, 255])])
            else: cs.append([k, x])
        return ['Modify', cs]
    if f['k'] == 'map':
        if rnd.random() < 0.3:
            return ['Replace', [[k, rnd.randrange(4)] for k in rnd.sample(range(12), rnd.randrange(0, 5))]]
        # (what inserting a key the base already holds means is not fixed by anything: the comparison never does it)
        have = {int(kv[0]) for kv in base_field[1:]}
        cs = []
        for k in rnd.sample(range(12), rnd.randrange(0, 5)):
            cs.append(['InsertSingle', k, rnd.randrange(4)] if (k not in have and rnd.random() < 0.7) else ['RemoveSingle', k])
        return ['Modify', cs]
    raise ValueError(f['k'])


def gen_rm_payload(f, base_field, rnd):
    """a recursive-map diff VALUE that need not come from any comparison; distinct keys per change list"""
    inner = f['inner']
    uns = [j for j, g in enumerate(inner['fields']) if not g['skip']]
    have = [int(kv[0]) for kv in base_field[1:]]
    if rnd.random() < 0.3:
        ks = rnd.sample(range(12), rnd.randrange(0, 5))
        return ['Replace', [[k, gen_leaf_vals(inner, rnd)] for k in ks]]
    keys = rnd.sample(range(12), rnd.randrange(0, 6))
    cs = []
    for k in keys:
        q = rnd.random()
        if k in have and q < 0.45:
            es = []
            for _ in range(rnd.choice([0, 1, 1, 2, 3])):
                jj = rnd.choice(uns); es.append([jj, gen_flat(inner['fields'][jj], rnd)])
            cs.append(['Change', k, es])
        elif q < 0.75:
            cs.append(['Insert', k, gen_leaf_vals(inner, rnd)])
        else:
            cs.append(['Remove', k])
    return ['Modify', cs]


def hash_ordered(sh):
    return any(f['k'] in ('unord', 'map', 'recmap') and not f['skip'] for f in sh['fields'])


def canon_wire(sh, es):
    """decoded entries with the lists inside hash-ordered payloads sorted"""
    out = []
    for j, p in es:
        f = sh['fields'][int(j)]
        if f['k'] in ('unord', 'map', 'recmap') and isinstance(p, list) and p and p[0] in ('Replace', 'Modify'):
            p = [p[0], sorted(p[1], key=sx.show)]
        out.append(sx.show([j, p]))
    return out


def tag_offsets(fmt, sh, es):
    """byte offsets of discriminants in an encoded entry list: the entry's, and those of the FIRST entry's payload"""
    if not es:
        return []
    dl = 2 if fmt == 'nano' else 4
    tl = 1 if fmt == 'nano' else 4
    offs = [('bad-entry-discriminant', 8, dl)]
    j, p = es[0]
    f = sh['fields'][int(j)]
    if f['k'] in ('recmap', 'unord', 'map'):
        offs.append(('bad-diff-discriminant', 8 + dl, tl))
        if p[0] == 'Modify' and p[1]:
            offs.append(('bad-change-discriminant', 8 + dl + tl + 8, tl))
    elif f['k'] == 'ordered' and p:
        offs.append(('bad-change-discriminant', 8 + dl + 8, tl))
    elif (flat_field(f) and f.get('rty', 'u32') == 'Option<u32>') or (f['k'] == 'ropt' and (p == 'none' or p[0] == 'some')):
        # the tag byte of an Option: bincode accepts 0 / 1 only, nanoserde takes every byte other than 1 as None
        offs.append(('odd-option-tag', 8 + dl, 1))
    return offs


def run(res, shs, binp, tier, seed):
    rnd = random.Random(seed + 1414)
    tie = [(i, sh) for i, sh in enumerate(shs) if is_tie(sh)]
    res.extra['tie_shapes'] = len(tie)
    res.extra['tie_shapes_with_maps'] = sum(1 for i, sh in tie if not is_flat(sh))
    if not tie:
        res.corr['model_disagreements'].append({'what': 'no tie shape in the catalogue: the struct-framing tie did not run'}); return
    # ---------------- stream A
    n = 30 if tier == 'quick' else 600
    reqs = []
    for i, sh in tie:
        for _ in range(n):
            a = shapes.gen_value(sh, rnd)
            r = rnd.random()
            b = shapes.gen_value(sh, rnd) if r < 0.35 else (shapes.mutate_value(sh, a, rnd, 0.5) if r < 0.92 else a)
            reqs.append((i, sh, a, b))
    ol = [sx.show(['derive', i, 'wire', a, b, a]) for (i, sh, a, b) in reqs]
    rc, rows = core.run_oracle(binp, ol)
    dl = []; plan = []
    for (i, sh, a, b), row in zip(reqs, rows):
        sk, ks = skips_kinds(sh)
        r = sx.parse(row[1])
        ent = {'fmts': {}}
        for fmt in ('nano', 'bincode'):
            blk = sx.field(r, fmt) if r[0] == 'ok' else None
            d = {x[0]: x[1:] for x in blk} if blk is not None else {}
            if 'owned-bytes' not in d:
                ent['fmts'][fmt] = None; continue
            ob = [int(x) for x in d['owned-bytes'][0]]; rb = [int(x) for x in d['ref-bytes'][0]]
            ent['fmts'][fmt] = (ob, rb, len(dl))
            dl.append(sx.show(['sdec', fmt, sk, ks, ob]))
            dl.append(sx.show(['sdec', fmt, sk, ks, rb]))
            dl.append(sx.show(['dwire', fmt, shapes.lean_ty(sh), sk, ks, a, b]))
            if is_flat(sh):
                es = [[j, pv(b[j + 1])] for j, f in enumerate(sh['fields']) if not f['skip'] and sx.show(a[j + 1]) != sx.show(b[j + 1])]
                dl.append(sx.show(['senc', fmt, sk, ks, es]))
        plan.append(ent)
    rc, mo = core.run_driver(dl)
    later = []     # shapes with hash-ordered payloads: compared after decoding, up to the order inside change lists
    for (i, sh, a, b), row, ent in zip(reqs, rows, plan):
        res.corr['evaluations'] += 1
        r = sx.parse(row[1])
        if r[0] != 'ok':
            res.corr['impl_failures'].append({'request': row[0][:3000], 'impl': row[1][:200], 'what': 'diff computation panicked: ' + r[0]}); continue
        mem = sx.field(r, 'mem-apply')[0]
        for fmt in ('nano', 'bincode'):
            if ent['fmts'][fmt] is None:
                res.corr['model_disagreements'].append({'request': row[0][:400], 'what': f'{fmt}: oracle built without the codec or without the byte output'}); continue
            ob, rb, k = ent['fmts'][fmt]
            if is_flat(sh) and ob != rb:
                # (with map payloads the two byte strings come from two comparisons, each with its own hash order)
                res.corr['impl_failures'].append({'request': row[0][:3000], 'what': f'{fmt}: the serialized DiffRef list of a flat derived struct is not byte-identical to the serialized Diff list',
                                                  'owned': str(ob)[:400], 'ref': str(rb)[:400]})
            for form, bts, kk in (('Diff', ob, k), ('DiffRef', rb, k + 1)):
                m = sx.parse(mo[kk])
                if m[0] != 'ok':
                    res.corr['model_disagreements'].append({'request': row[0][:600], 'what': f'{fmt}: the model decoder rejects the bytes the real encoder produced for the {form} list of a derived struct', 'impl': str(bts)[:500]}); continue
                if [int(x) for x in sx.field(m, 'reenc')[0]] != bts:
                    res.corr['model_disagreements'].append({'request': row[0][:600], 'what': f'{fmt}: the model re-encodes the decoded real {form} list to different bytes', 'impl': str(bts)[:400], 'model': mo[kk][:400]}); continue
                es = m[1]
                for e in es:
                    f = sh['fields'][int(e[0])]
                    hbump(res, 'struct-tie:' + f['k'] + ((':' + e[1][0]) if f['k'] in ('recmap', 'unord', 'map') else (':' + (e[1] if e[1] == 'none' else e[1][0])) if f['k'] == 'ropt' else ''))
                    if f['k'] == 'recmap' and e[1][0] == 'Modify':
                        for c in e[1][1]: hbump(res, 'struct-tie:change:' + c[0])
                want = apply_entries(sh, a, es)
                if mem == 'panic' or shapes.canon_value(sh, want) != shapes.canon_value(sh, mem):
                    res.corr['model_disagreements'].append({'request': row[0][:800], 'what': f'{fmt}: the entries the model decodes from the real {form} bytes do not mean what the real apply did',
                                                            'impl': sx.show(mem)[:400], 'model': sx.show(want)[:400], 'entries': sx.show(es)[:400]})
            # the DERIVE model's own diff of (a, b), carried through Derive.toWire and the wire encoder
            dw = sx.parse(mo[k + 2])
            if dw[0] != 'ok':
                res.corr['model_disagreements'].append({'request': row[0][:600], 'what': f'{fmt}: the derive model\'s diff of a tie shape is not expressible in the wire model ({dw[0]})', 'model': mo[k + 2][:300]})
            else:
                mob = [int(x) for x in sx.field(dw, 'owned')[0]]; mrb = [int(x) for x in sx.field(dw, 'ref')[0]]
                if not hash_ordered(sh):
                    if mob != ob or mrb != rb:
                        res.corr['model_disagreements'].append({'request': row[0][:600], 'what': f'{fmt}: the bytes of the derive model\'s diff (toWire + wire encoder) differ from the real encoder\'s bytes',
                                                                'impl': str(ob)[:400], 'model': str(mob)[:400]})
                else:
                    sk2, ks2 = skips_kinds(sh)
                    later.append((row[0], fmt, sh, sk2, ks2, mob, ob))
            if is_flat(sh):
                me = sx.parse(mo[k + 3])
                mb = [int(x) for x in sx.field(me, 'owned')[0]] if me[0] == 'ok' else None
                if mb != ob:
                    res.corr['model_disagreements'].append({'request': row[0][:600], 'what': f'{fmt}: bytes of the derived struct diff differ from the framing model (entry = rank among the unskipped fields + payload)',
                                                            'impl': str(ob)[:400], 'model': str(mb)[:400]})
                if me[0] == 'ok' and sx.field(me, 'ref')[0] != sx.field(me, 'owned')[0]:
                    res.corr['model_disagreements'].append({'request': row[0][:300], 'what': 'the model encodes the borrowed form differently'})
    dl2 = []
    for (req, fmt, sh, sk, ks, mob, ob) in later:
        dl2.append(sx.show(['sdec', fmt, sk, ks, mob])); dl2.append(sx.show(['sdec', fmt, sk, ks, ob]))
    rc, mo3 = core.run_driver(dl2)
    for q, (req, fmt, sh, sk, ks, mob, ob) in enumerate(later):
        m1 = sx.parse(mo3[2 * q]); m2 = sx.parse(mo3[2 * q + 1])
        res.corr['evaluations'] += 1
        if m1[0] != 'ok' or m2[0] != 'ok' or canon_wire(sh, m1[1]) != canon_wire(sh, m2[1]):
            res.corr['model_disagreements'].append({'request': req[:600], 'what': f'{fmt}: the derive model\'s diff (toWire + wire encoder) and the real encoder\'s bytes decode to different entry lists (compared up to the order inside hash-ordered change lists)',
                                                    'impl': mo3[2 * q + 1][:400], 'model': mo3[2 * q][:400]})
    # ---------------- stream B
    nv = 40 if tier == 'quick' else 800
    items = []
    for i, sh in tie:
        sk, ks = skips_kinds(sh)
        uns = [j for j, f in enumerate(sh['fields']) if not f['skip']]
        for _ in range(nv):
            base = shapes.gen_value(sh, rnd)
            es = []
            used_maps = set()
            for _ in range(rnd.choice([0, 1, 1, 2, 3, 6])):
                j = rnd.choice(uns); f = sh['fields'][j]
                if flat_field(f):
                    es.append([j, gen_flat(f, rnd)])
                elif j not in used_maps:
                    used_maps.add(j)
                    es.append([j, gen_payload(f, base[j + 1], rnd)])
            items.append((i, sh, sk, ks, es, base))
    dl = [sx.show(['senc', fmt, sk, ks, es]) for (i, sh, sk, ks, es, base) in items for fmt in ('nano', 'bincode')]
    rc, mo = core.run_driver(dl)
    ol = []; meta = []
    k = 0
    for (i, sh, sk, ks, es, base) in items:
        for fmt in ('nano', 'bincode'):
            m = sx.parse(mo[k]); k += 1
            if m[0] != 'ok':
                res.corr['model_disagreements'].append({'request': dl[k - 1][:400], 'model': mo[k - 1][:200], 'what': 'model encoder rejected a generated entry list'}); continue
            bs = [int(x) for x in sx.field(m, 'owned')[0]]
            ol.append(sx.show(['derive', i, 'wiredec', fmt, bs, base])); meta.append((i, sh, sk, ks, es, base, fmt, bs, 'valid'))
            if rnd.random() < 0.5:
                bad = list(bs); offs = tag_offsets(fmt, sh, es)
                if offs and rnd.random() < 0.6:
                    why, off, ln = rnd.choice(offs)
                    bad[off] = rnd.choice([3, 6, 99, 200, 255])
                    if ln > 1 and rnd.random() < 0.4: bad[off + 1] = 1
                else:
                    why = 'truncated'; bad = bad[:rnd.randrange(0, len(bad))] if bad else bad
                ol.append(sx.show(['derive', i, 'wiredec', fmt, bad, base])); meta.append((i, sh, sk, ks, es, base, fmt, bad, why))
    rc, rows = core.run_oracle(binp, ol)
    dl = [sx.show(['sdec', fmt, sk, ks, bs]) for (i, sh, sk, ks, es, base, fmt, bs, why) in meta]
    rc, mo2 = core.run_driver(dl)
    for (i, sh, sk, ks, es, base, fmt, bs, why), row, m in zip(meta, rows, mo2):
        res.corr['evaluations'] += 1
        hbump(res, 'struct-decode:' + why)
        r = sx.parse(row[1]); mm = sx.parse(m)
        if r[0] in ('codec-missing', 'bad-shape', 'bad-value'):
            res.corr['model_disagreements'].append({'request': row[0][:300], 'impl': row[1][:100], 'what': 'oracle cannot decode derived diffs (built without the codecs / the wiredec command)'}); continue
        if why == 'valid':
            if r[0] != 'ok':
                res.corr['impl_failures'].append({'request': row[0][:3000], 'what': f'{fmt}: the real decoder rejects a well-formed encoded entry list of a derived struct ({sx.show(es)[:300]})', 'impl': row[1][:300]}); continue
            want = apply_entries(sh, base, es)
            got = sx.field(r, 'applied')[0]
            if got == 'panic' or shapes.canon_value(sh, got) != shapes.canon_value(sh, want):
                res.corr['impl_failures'].append({'request': row[0][:3000], 'what': f'{fmt}: decoding the entry list {sx.show(es)[:300]} and applying it does not have its plain meaning (expected {sx.show(want)[:300]})', 'impl': row[1][:500]})
            if int(sx.field(r, 'entries')[0]) != len(es) or [int(x) for x in sx.field(r, 'reenc')[0]] != bs:
                res.corr['impl_failures'].append({'request': row[0][:3000], 'what': f'{fmt}: re-encoding the decoded entry list does not reproduce the bytes', 'impl': row[1][:400]})
            if mm[0] != 'ok' or sx.show(mm[1]) != sx.show(es):
                res.corr['model_disagreements'].append({'request': row[0][:300], 'model': m[:300], 'what': 'the model decoder does not return the encoded entries'})
        else:
            if (r[0] == 'ok') != (mm[0] == 'ok'):
                res.corr['model_disagreements'].append({'request': row[0][:600], 'what': f'{fmt}: {why} encoding of a derived struct diff: real decoder says {r[0]}, model says {mm[0]}', 'impl': row[1][:300], 'model': m[:300]})
            elif r[0] == 'ok':
                if [int(x) for x in sx.field(r, 'reenc')[0]] != [int(x) for x in sx.field(mm, 'reenc')[0]]:
                    res.corr['model_disagreements'].append({'request': row[0][:600], 'what': f'{fmt}: {why} encoding accepted by both with different meanings', 'impl': row[1][:300], 'model': m[:300]})
