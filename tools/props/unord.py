"""shared generators / evaluators for the unordered back ends (C11, C12, C19, C20)"""
import random
import sx, collections
import core, sx
from core import hbump

MULTS = [0, 1, 1, 2, 3, 254, 255, 256, 257, 300]


def expand(counts):
    out = []
    for x, n in counts.items():
        out += [x] * n
    return out


def rand_multiset(rnd, alpha, big=True):
    items = rnd.sample(range(1, 40), alpha)
    cnt = {}
    for x in items:
        m = rnd.choice(MULTS) if (big and rnd.random() < 0.25) else rnd.choice([0, 1, 1, 1, 2, 3])
        if m:
            cnt[x] = m
    return cnt


def uarr_pairs(tier, seed):
    rnd = random.Random(seed)
    n = 1200 if tier == 'quick' else 30000
    out = []
    for k in range(n):
        cls = k % 6
        a = rnd.randrange(1, 13)
        p = rand_multiset(rnd, a)
        if cls == 0:          # unrelated
            c = rand_multiset(rnd, rnd.randrange(1, 13))
        elif cls == 1:        # same support, perturbed multiplicities (crossing 255/256 both ways)
            c = {x: max(0, m + rnd.choice([-300, -257, -256, -255, -254, -2, -1, 0, 0, 1, 2, 254, 255, 256, 257, 300])) for x, m in p.items()}
            c = {x: m for x, m in c.items() if m}
        elif cls == 2:        # equal as multisets, different order
            c = dict(p)
        elif cls in (3, 4):   # around the replacement boundary: distinct(cur) vs distinct(prev)-distinct(cur) in {-1,0,+1}
            dp = rnd.randrange(3, 13)
            p = {x: rnd.choice([1, 1, 2]) for x in rnd.sample(range(1, 40), dp)}
            # choose dc so that dc - (dp - dc) is -1, 0 or 1
            delta = rnd.choice([-1, 0, 1]); dc = max(0, (dp + delta) // 2)
            keys = rnd.sample(sorted(p), min(dc, len(p))) if rnd.random() < 0.5 else rnd.sample(range(40, 80), dc)
            c = {x: rnd.choice([1, 2]) for x in keys}
        else:                 # one side empty
            c = {} if rnd.random() < 0.5 else p
            if c is p: p = {}
        pl = expand(p); cl = expand(c)
        rnd.shuffle(pl); rnd.shuffle(cl)
        out.append((pl, cl))
    return out


def rand_map(rnd, nkeys, valpha=3, keys=None):
    ks = keys if keys is not None else rnd.sample(range(1, 30), nkeys)
    return {k: rnd.randrange(valpha) for k in ks}


def umap_pairs(tier, seed):
    rnd = random.Random(seed + 99)
    n = 1200 if tier == 'quick' else 30000
    out = []
    for k in range(n):
        cls = k % 6
        p = rand_map(rnd, rnd.randrange(0, 11))
        if cls == 0:
            c = rand_map(rnd, rnd.randrange(0, 11))
        elif cls == 1:     # retained keys, some values changed, some keys added/removed
            c = {}
            for key, v in p.items():
                r = rnd.random()
                if r < 0.2: continue
                c[key] = v if r < 0.6 else (v + 1) % 3
            for _ in range(rnd.randrange(0, 3)):
                c[rnd.randrange(30, 40)] = rnd.randrange(3)
        elif cls == 2:
            c = dict(p)
        elif cls in (3, 4):
            dp = rnd.randrange(3, 11)
            p = rand_map(rnd, dp)
            delta = rnd.choice([-1, 0, 1]); dc = max(0, (dp + delta) // 2)
            keys = rnd.sample(sorted(p), min(dc, len(p))) if rnd.random() < 0.5 else rnd.sample(range(40, 80), dc)
            c = {key: (p.get(key, 0) if rnd.random() < 0.5 else rnd.randrange(3)) for key in keys}
        else:
            c = {} if rnd.random() < 0.5 else p
            if c is p: p = {}
        pl = list(p.items()); cl = list(c.items())
        rnd.shuffle(pl); rnd.shuffle(cl)
        out.append(([list(x) for x in pl], [list(x) for x in cl], 'ko' if k % 2 else 'kv'))
    return out


# ---------------------------------------------------------------- canonical forms

def umap_multi_requests(tier, seed):
    """pair lists with REPEATED keys (a `Vec<(K, V)>` used as a map-like collection): the count-carrying paths of the
    comparison (`InsertMany` / `RemoveMany`) and of apply, which maps with unique keys never reach.  Only the
    agreement of the model with the implementation is checked on these (the properties are stated for maps)."""
    rnd = random.Random(seed + 313)
    n = 200 if tier == 'quick' else 5000
    out = []
    def multi():
        keys = [rnd.randrange(5) for _ in range(rnd.randrange(0, 9))]
        same = rnd.random() < 0.6
        vals = {}
        l = []
        for k in keys:
            v = vals.setdefault(k, rnd.randrange(3)) if same else rnd.randrange(2)
            l.append([k, v])
        return l
    for k in range(n):
        p = multi()
        c = multi() if rnd.random() < 0.6 else [list(x) for x in p if rnd.random() < 0.7] + ([[rnd.randrange(5), 0]] * rnd.randrange(0, 3))
        out.append(sx.show(['umap-cmp', 'ko' if k % 2 else 'kv', p, c]))
    return out


def multi_expected(p, c):
    """what a change list must say for pair lists in which every key has ONE value per list (possibly repeated):
    per key either nothing, one entry with the multiplicity delta, or remove-all-old + insert-all-new for a changed value"""
    def coll(l):
        d = {}
        for k, v in l:
            if k in d and d[k][0] != v:
                return None
            d[k] = (v, d.get(k, (v, 0))[1] + 1)
        return d
    P, C = coll(p), coll(c)
    if P is None or C is None:
        return None
    exp = []
    def mk(kind, k, v, n):
        if kind == 'Insert':
            return ('InsertSingle', k, v) if n == 1 else ('InsertMany', k, v, n)
        return ('RemoveSingle', k) if n == 1 else ('RemoveMany', k, n)
    for k in set(P) | set(C):
        if k not in P:
            exp.append(mk('Insert', k, C[k][0], C[k][1]))
        elif k not in C:
            exp.append(mk('Remove', k, None, P[k][1]))
        elif P[k][0] == C[k][0]:
            if C[k][1] > P[k][1]: exp.append(mk('Insert', k, C[k][0], C[k][1] - P[k][1]))
            elif C[k][1] < P[k][1]: exp.append(mk('Remove', k, None, P[k][1] - C[k][1]))
        else:
            exp.append(mk('Remove', k, None, P[k][1])); exp.append(mk('Insert', k, C[k][0], C[k][1]))
    return sorted(exp), len(P), len(C), C


def evaluate_umap_multi(res, binp, minimal=False):
    import core as _core
    reqs = umap_multi_requests(res.tier, res.seed)
    rc, rows = _core.run_oracle(binp, reqs)
    rc, out = _core.run_driver([r[0] for r in rows])
    for row, m in zip(rows, out):
        res.corr['evaluations'] += 1
        _core.hbump(res, 'kind:umap-repeated-keys')
        r = sx.parse(row[1]); mm = sx.parse(m)
        if r[0] == 'panic':
            res.corr['impl_failures'].append({'request': row[0][:3000], 'impl': row[1], 'what': 'map-like comparison / apply panicked on pair lists with repeated keys'}); continue
        cd, md = canon_mdiff(r), canon_mdiff(mm)
        if cd and cd[0] == 'Modify':
            for ch in cd[1]:
                _core.hbump(res, 'multi-change:' + ch[0])
        dis = None
        if cd != md:
            dis = 'map diff differs (repeated keys)'
        elif cd is not None:
            a = sx.field(r, 'applied'); am = sx.field(mm, 'applied')
            if a is None:
                res.corr['impl_failures'].append({'request': row[0][:3000], 'impl': row[1][:400], 'what': 'applying the diff panicked (repeated keys)'}); continue
            if sorted(pairs_of(a[0])) != sorted(pairs_of(am[0])):
                dis = 'applied result differs (repeated keys)'
        if dis:
            res.corr['model_disagreements'].append({'request': row[0][:1500], 'impl': row[1][:500], 'model': m[:500], 'what': dis})
        if minimal:
            q = sx.parse(row[0])
            e = multi_expected(pairs_of(q[2]), pairs_of(q[3]))
            if e is not None:
                exp, np_, nc_, C = e
                _core.hbump(res, 'multi-minimality-checked')
                fail = None
                if cd is None:
                    if exp: fail = 'no diff although the pair multisets differ'
                elif cd[0] == 'Modify':
                    if sorted(cd[1]) != exp:
                        fail = 'the change list is %s but exactly %s changed' % (sorted(cd[1]), exp)
                else:
                    want = sorted((k, v) for k, (v, n) in C.items() for _ in range(n))
                    if sorted(cd[1]) != want:
                        fail = 'a full replacement does not carry exactly the new collection'
                    if nc_ >= np_:
                        fail = 'full replacement although the new collection has at least as many distinct keys as the old one'
                if fail:
                    res.corr['impl_failures'].append({'request': row[0][:3000], 'impl': row[1][:500], 'what': fail + ' (pair lists with repeated keys)'})


def canon_uchange(c):
    """impl: (InsertFew (UnorderedArrayLikeChangeSpec (kv item 3) (kv count 4))) | (InsertSingle 3) ; model: (InsertFew 3 4)"""
    kind = c[0]
    if len(c) == 2 and isinstance(c[1], list):
        spec = c[1]
        d = {kv[1]: kv[2] for kv in spec[1:]}
        return (kind, int(d['item']), int(d['count']))
    if len(c) == 2:
        return (kind, int(c[1]), 1)
    return (kind, int(c[1]), int(c[2]))


def canon_udiff(r):
    """-> None | ('Replace', sorted items) | ('Modify', sorted changes)"""
    if r[0] == 'none':
        return None
    d = r[1]
    if d[0] == 'UnorderedArrayLikeDiff':
        d = d[1]
    body = d[1]
    if body and body[0] == 'list':
        body = body[1:]
    if d[0] == 'Replace':
        return ('Replace', sorted(int(x) for x in body))
    return ('Modify', sorted(canon_uchange(c) for c in body))


def canon_mchange(c):
    kind = c[0]
    return tuple([kind] + [int(x) for x in c[1:]])


def canon_mdiff(r):
    if r[0] == 'none':
        return None
    d = r[1]
    if d[0] == 'UnorderedMapLikeDiff':
        d = d[1]
    body = d[1]
    if body and body[0] == 'list':
        body = body[1:]
    if d[0] == 'Replace':
        pr = []
        for x in body:
            if x[0] == 'tuple': x = x[1:]
            pr.append((int(x[0]), int(x[1])))
        return ('Replace', sorted(pr))
    return ('Modify', sorted(canon_mchange(c) for c in body))


def ints(x):
    return [int(a) for a in x]


def pairs_of(x):
    return [(int(a[0]), int(a[1])) for a in x]


# ---------------------------------------------------------------- property oracles on the REAL outputs

def uarr_minimal(p, c, d):
    """C20 for array-like: returns failure text or None"""
    cp, cc = collections.Counter(p), collections.Counter(c)
    if d is None:
        return None
    if d[0] == 'Replace':
        if collections.Counter(d[1]) != cc:
            return 'a full replacement does not carry exactly the new collection'
        if len(cc) >= len(cp):
            return 'full replacement although the new collection has at least as many distinct items as the old one'
        return None
    ins = collections.Counter(); rem = collections.Counter(); seen_i = set(); seen_r = set()
    for kind, x, n in d[1]:
        if kind.startswith('Insert'):
            if x in seen_i: return 'item %d mentioned twice as insertion' % x
            seen_i.add(x); ins[x] += n
        else:
            if x in seen_r: return 'item %d mentioned twice as removal' % x
            seen_r.add(x); rem[x] += n
        if kind.endswith('Single') and n != 1: return 'Single with count'
        if n == 0: return 'zero-count entry for item %d' % x
    for x in set(cp) | set(cc) | seen_i | seen_r:
        if x in seen_i and x in seen_r: return 'item %d is both inserted and removed' % x
        if ins[x] != max(0, cc[x] - cp[x]): return 'item %d: inserted %d but the multiplicity delta is %d' % (x, ins[x], cc[x] - cp[x])
        if rem[x] != max(0, cp[x] - cc[x]): return 'item %d: removed %d but the multiplicity delta is %d' % (x, rem[x], cc[x] - cp[x])
    return None


def umap_minimal(p, c, d):
    mp, mc = dict(p), dict(c)
    if d is None:
        return None
    if d[0] == 'Replace':
        if sorted(d[1]) != sorted(mc.items()):
            return 'a full replacement does not carry exactly the new map'
        if len(mc) >= len(mp):
            return 'full replacement although the new map has at least as many keys as the old one'
        return None
    ins = {}; rem = {}
    for ch in d[1]:
        kind = ch[0]
        if kind == 'InsertSingle':
            k, v, n = ch[1], ch[2], 1
        elif kind == 'InsertMany':
            k, v, n = ch[1], ch[2], ch[3]
        elif kind == 'RemoveSingle':
            k, v, n = ch[1], None, 1
        else:
            k, v, n = ch[1], None, ch[2]
        tgt = ins if kind.startswith('Insert') else rem
        if k in tgt: return 'key %d mentioned twice in one direction' % k
        tgt[k] = (v, n)
    for k in set(mp) | set(mc) | set(ins) | set(rem):
        inp, inc = k in mp, k in mc
        if inp and inc and mp[k] == mc[k]:
            if k in ins or k in rem: return 'pair (%d,%d) identical on both sides is mentioned' % (k, mp[k])
        elif inp and inc:
            if rem.get(k) != (None, 1) or ins.get(k) != (mc[k], 1): return 'changed key %d is not encoded as remove-old + insert-new' % k
        elif inc:
            if ins.get(k) != (mc[k], 1) or k in rem: return 'added key %d is not a single insertion of the new pair' % k
        elif inp:
            if rem.get(k) != (None, 1) or k in ins: return 'removed key %d is not a single removal' % k
        else:
            return 'key %d is in neither map but is mentioned' % k
    return None
