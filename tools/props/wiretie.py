"""Byte-exact tie between the Lean wire model of the unordered array-like / flat map-like diffs (Model/Codec.lean:
encUDiff, encUDiffRef, decUDiff and the M versions) and the real codecs (hand-written nanoserde impls, serde-derived
impls through bincode), used by C14.

 stream 1: pairs (prev, cur) -> the REAL comparison -> the real diff in its real entry order + the bytes the real
           encoders produce for the borrowed diff and for its owned conversion, in both formats; the model encodes the
           same diff value: all four byte strings must be identical; the model decoder on the real bytes must return
           the diff and re-encode to the same bytes.
 stream 2: arbitrary well-formed diff VALUES (not only ones a comparison can produce) encoded by the model and
           decoded by the REAL decoders: the decoded value must be the value, re-encoding must reproduce the bytes;
           malformed encodings (unknown discriminant, truncation) must be rejected by both.
"""
import random
import core, sx
from core import hbump
from props import unord


def ordered_udiff(r):
    """the real array-like diff in its real entry order, as the driver's syntax"""
    d = r[1]
    if d[0] == 'UnorderedArrayLikeDiff':
        d = d[1]
    body = d[1]
    if body and body[0] == 'list':
        body = body[1:]
    if d[0] == 'Replace':
        return ['Replace', [int(x) for x in body]]
    out = []
    for c in body:
        kind, x, n = unord.canon_uchange(c)
        out.append([kind, x] if kind.endswith('Single') else [kind, x, n])
    return ['Modify', out]


def ordered_mdiff(r):
    d = r[1]
    if d[0] == 'UnorderedMapLikeDiff':
        d = d[1]
    body = d[1]
    if body and body[0] == 'list':
        body = body[1:]
    if d[0] == 'Replace':
        pr = []
        for x in body:
            if x[0] == 'tuple': x = x[1:]
            pr.append([int(x[0]), int(x[1])])
        return ['Replace', pr]
    return ['Modify', [[c[0]] + [int(x) for x in c[1:]] for c in body]]


def rand_udiff(rnd):
    if rnd.random() < 0.3:
        return ['Replace', [rnd.randrange(2 ** 32) if rnd.random() < 0.1 else rnd.randrange(20) for _ in range(rnd.randrange(0, 9))]]
    es = []
    for _ in range(rnd.randrange(0, 8)):
        k = rnd.choice(['InsertMany', 'RemoveMany', 'InsertFew', 'RemoveFew', 'InsertSingle', 'RemoveSingle'])
        x = rnd.choice([0, 1, 7, 255, 256, 65535, 2 ** 32 - 1])
        if k.endswith('Many'): es.append([k, x, rnd.choice([0, 1, 255, 256, 300, 2 ** 32, 2 ** 64 - 1])])
        elif k.endswith('Few'): es.append([k, x, rnd.choice([0, 1, 2, 254, 255])])
        else: es.append([k, x])
    return ['Modify', es]


def rand_mdiff(rnd):
    if rnd.random() < 0.3:
        return ['Replace', [[rnd.randrange(50), rnd.choice([0, 3, 2 ** 32 - 1])] for _ in range(rnd.randrange(0, 7))]]
    es = []
    for _ in range(rnd.randrange(0, 8)):
        k = rnd.choice(['InsertMany', 'RemoveMany', 'InsertSingle', 'RemoveSingle'])
        key = rnd.choice([0, 1, 9, 2 ** 32 - 1]); v = rnd.randrange(5)
        if k == 'InsertMany': es.append([k, key, v, rnd.choice([0, 2, 300, 2 ** 64 - 1])])
        elif k == 'RemoveMany': es.append([k, key, rnd.choice([0, 2, 300])])
        elif k == 'InsertSingle': es.append([k, key, v])
        else: es.append([k, key])
    return ['Modify', es]


def damage(rnd, bs, fmt, modify_with_entries=False):
    """a malformed variant of a valid encoding: truncation, unknown outer discriminant, unknown discriminant of the first change"""
    bs = list(bs)
    r = rnd.random()
    if r < 0.4 and bs:
        return bs[:rnd.randrange(0, len(bs))], 'truncated'
    if r < 0.7 and modify_with_entries:
        off = (1 + 8) if fmt == 'nano' else (4 + 8)
        if off < len(bs):
            bs[off] = rnd.choice([6, 7, 99, 255])
            return bs, 'bad-inner-discriminant'
    # overwrite the outer discriminant with an unknown one
    if fmt == 'nano':
        bs[0] = rnd.choice([2, 6, 99, 255])
    else:
        bs[0] = rnd.choice([2, 7, 200])
    return bs, 'bad-discriminant'


def run(res, binp, tier, seed):
    """appends to res.corr; returns nothing"""
    rnd = random.Random(seed + 77)
    # ---------------- stream 1
    nu = 250 if tier == 'quick' else 6000
    up = unord.uarr_pairs(tier, seed + 3)[:nu]
    mp = unord.umap_pairs(tier, seed + 4)[:nu]
    lines = [sx.show(['uarr-cmp', p, c]) for (p, c) in up] + \
            [sx.show(['umap-cmp', mode, p, c]) for (p, c, mode) in mp] + \
            unord.umap_multi_requests(tier, seed)[:max(60, nu // 3)]     # repeated keys: the Many variants of the map codec
    rc, rows = core.run_oracle(binp, lines)
    jobs = []   # (kind, diff, real wire dict, request)
    for ln, row in zip(lines, rows):
        r = sx.parse(row[1])
        if r[0] != 'some':
            continue
        w = sx.field(r, 'wire')
        if w is None:
            res.corr['model_disagreements'].append({'request': ln[:300], 'what': 'oracle built without the wire commands'}); continue
        wd = {x[0]: [int(b) for b in x[1]] for x in w}
        is_map = ln.startswith('(umap')
        d = ordered_mdiff(r) if is_map else ordered_udiff(r)
        jobs.append(('m' if is_map else 'u', d, wd, ln))
    dl = []
    for kind, d, wd, ln in jobs:
        for fmt in ('nano', 'bincode'):
            dl.append(sx.show([kind + 'enc', fmt, d]))
            dl.append(sx.show([kind + 'dec', fmt, wd.get(fmt + '-owned', [])]))
    rc, mo = core.run_driver(dl)
    i = 0
    for kind, d, wd, ln in jobs:
        res.corr['evaluations'] += 1
        hbump(res, 'wire-tie:' + ('map' if kind == 'm' else 'array') + ':' + d[0])
        if d[0] == 'Modify':
            for e in d[1]:
                hbump(res, 'wire-variant:' + ('map:' if kind == 'm' else 'array:') + e[0])
        for fmt in ('nano', 'bincode'):
            enc = sx.parse(mo[i]); dec = sx.parse(mo[i + 1]); i += 2
            if fmt + '-owned' not in wd:
                res.corr['model_disagreements'].append({'request': ln[:300], 'what': f'{fmt} codec not compiled into the oracle'}); continue
            mown = [int(b) for b in sx.field(enc, 'owned')[0]] if enc[0] == 'ok' else None
            mref = [int(b) for b in sx.field(enc, 'ref')[0]] if enc[0] == 'ok' else None
            if mown != wd[fmt + '-owned']:
                res.corr['model_disagreements'].append({'request': ln[:400], 'what': f'{fmt}: bytes of the OWNED diff differ from the model encoding', 'impl': str(wd[fmt + "-owned"])[:300], 'model': str(mown)[:300]})
            if mref != wd[fmt + '-ref']:
                res.corr['model_disagreements'].append({'request': ln[:400], 'what': f'{fmt}: bytes of the BORROWED diff differ from the model encoding', 'impl': str(wd[fmt + "-ref"])[:300], 'model': str(mref)[:300]})
            if wd[fmt + '-ref'] != wd[fmt + '-owned']:
                res.corr['impl_failures'].append({'request': ln[:3000], 'what': f'{fmt}: the serialized DiffRef is not byte-identical to the serialized Diff (hand-written codec of the {"map-like" if kind == "m" else "array-like"} diff)',
                                                  'owned': str(wd[fmt + "-owned"])[:400], 'ref': str(wd[fmt + "-ref"])[:400]})
            if dec[0] != 'ok' or sx.show(dec[1]) != sx.show(d):
                res.corr['model_disagreements'].append({'request': ln[:400], 'what': f'{fmt}: the model decoder does not return the diff from the real bytes', 'model': sx.show(dec)[:300], 'impl': sx.show(d)[:300]})
    # ---------------- stream 2
    nv = 150 if tier == 'quick' else 4000
    vals = [('u', rand_udiff(rnd)) for _ in range(nv)] + [('m', rand_mdiff(rnd)) for _ in range(nv)]
    dl = [sx.show([k + 'enc', fmt, d]) for (k, d) in vals for fmt in ('nano', 'bincode')]
    rc, mo = core.run_driver(dl)
    ol = []; meta = []
    i = 0
    for (k, d) in vals:
        for fmt in ('nano', 'bincode'):
            enc = sx.parse(mo[i]); i += 1
            bs = [int(b) for b in sx.field(enc, 'owned')[0]]
            ol.append(sx.show([('uarr' if k == 'u' else 'umap') + '-dec', fmt, bs])); meta.append((k, d, fmt, bs, 'valid'))
            if rnd.random() < 0.35:
                bad, why = damage(rnd, bs, fmt, modify_with_entries=(d[0] == 'Modify' and len(d[1]) > 0))
                ol.append(sx.show([('uarr' if k == 'u' else 'umap') + '-dec', fmt, bad])); meta.append((k, d, fmt, bad, why))
    rc, rows = core.run_oracle(binp, ol)
    dl = [sx.show([m[0] + 'dec', m[2], m[3]]) for m in meta]
    rc, mo2 = core.run_driver(dl)
    for (k, d, fmt, bs, why), row, m in zip(meta, rows, mo2):
        res.corr['evaluations'] += 1
        hbump(res, 'wire-decode:' + why)
        r = sx.parse(row[1]); mm = sx.parse(m)
        if r[0] == 'codec-missing':
            res.corr['model_disagreements'].append({'request': row[0][:200], 'what': 'codec not compiled into the oracle'}); continue
        if why == 'valid':
            got = (ordered_mdiff(['x', r[1]]) if k == 'm' else ordered_udiff(['x', r[1]])) if r[0] == 'ok' else None
            if got is None or sx.show(got) != sx.show(d):
                res.corr['impl_failures'].append({'request': row[0][:3000], 'what': f'{fmt}: the real decoder does not return the encoded {"map-like" if k == "m" else "array-like"} diff value {sx.show(d)[:200]}', 'impl': row[1][:400]})
            elif [int(b) for b in sx.field(r, 'reenc')[0]] != bs:
                res.corr['impl_failures'].append({'request': row[0][:3000], 'what': f'{fmt}: re-encoding the decoded diff does not reproduce the bytes', 'impl': row[1][:400]})
            if mm[0] != 'ok':
                res.corr['model_disagreements'].append({'request': row[0][:300], 'what': 'model decoder rejects its own encoding'})
        else:
            # both must take the same decision; when both accept (a truncation that is itself a valid encoding) the values must agree
            if (r[0] == 'ok') != (mm[0] == 'ok'):
                res.corr['model_disagreements'].append({'request': row[0][:400], 'what': f'{fmt}: {why} encoding: real decoder says {r[0]}, model says {mm[0]}', 'impl': row[1][:300], 'model': m[:300]})
