#!/bin/sh
# run every quick check and summarise
cd /verif
for i in 01 02 03 04 05 06 07 08 09 10 11 12 13 14 15 16 17 18 19 20; do
  ./check C$i --tier ${1:-quick} 2>&1 | grep -E "^(VIOLATION|OK)" | head -2
done
