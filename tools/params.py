"""Translator for constants and tables: reads /repo sources, writes lean/SdModel/Gen/Params.lean
and harness/src/gen_rope.rs (textual inclusion of the rope sources + white-box accessors +
a scaled-down twin with the constants substituted)."""
import os, re, json

REPO = os.environ.get('SDV_REPO', '/repo')
VERIF = os.path.dirname(os.path.dirname(os.path.abspath(__file__)))

SMALL = dict(MAX=4, BASE=2, UNDER=1, CHUNK=2)

# model constructor order, and which extracted tables describe each type:
# (canonical variants, nano enc owned, nano enc ref, nano dec owned, serde decl owned, serde decl ref)
CANON = {
    'Ordered': (['Replace', 'Insert', 'Delete', 'Swap'], 'OrderedChangeOwned', 'OrderedChangeRef', 'OrderedChangeOwned', 'OrderedChangeOwned', 'OrderedChangeRef'),
    'UArrChange': (['InsertMany', 'RemoveMany', 'InsertFew', 'RemoveFew', 'InsertSingle', 'RemoveSingle'], 'UArrChangeOwned', 'UArrChangeRef', 'UArrChangeOwned', 'UArrChange', 'UArrChange'),
    'UArrDiff': (['Replace', 'Modify'], 'UArrDiffOwned', 'UArrDiffRef', 'UArrDiffOwned', 'UArrInternal', 'UArrInternal'),
    'UMapChange': (['InsertMany', 'RemoveMany', 'InsertSingle', 'RemoveSingle'], 'UMapChangeOwned', 'UMapChangeRef', 'UMapChangeOwned', 'UMapChange', 'UMapChange'),
    'UMapDiff': (['Replace', 'Modify'], 'UMapDiffOwned', 'UMapDiffRef', 'UMapDiffOwned', 'UMapInternal', 'UMapInternal'),
    'RMapChange': (['Insert', 'Remove', 'Change'], 'RMapChangeOwned', 'RMapChangeRef', 'RMapChangeOwned', 'RMapChangeOwned', 'RMapChangeRef'),
    'RMapDiff': (['Replace', 'Modify'], 'RMapDiffOwned', 'RMapDiffRef', 'RMapDiffOwned', 'RMapInternalOwned', 'RMapInternalRef'),
}

def read(p):
    with open(os.path.join(REPO, p)) as f:
        return f.read()

def const(src, name, notes, default):
    m = re.search(r'const\s+' + name + r'\s*:\s*\w+\s*=\s*([^;]+);', src)
    if not m:
        notes.append(f'constant {name} not found; using last known value {default}')
        return default, None
    return m.group(1).strip(), m

def ev(expr, env):
    e = expr
    for k, v in env.items():
        e = re.sub(r'\b' + k + r'\b', str(v), e)
    e = e.replace('/', '//')
    if not re.fullmatch(r'[0-9\s\+\-\*\(\)/]+', e):
        raise ValueError('cannot evaluate ' + expr)
    return int(eval(e))

def extract():
    notes = []
    P = {}
    rope = read('src/collections/rope/mod.rs')
    env = {}
    for name, key, dflt in [('MAX_SLOT_SIZE', 'MAX', '16'), ('BASE_SLOT_SIZE', 'BASE', '8'), ('UNDERSIZED_SLOT', 'UNDER', '1')]:
        e, _ = const(rope, name, notes, dflt)
        try:
            env[name] = ev(e, env)
        except Exception as ex:
            notes.append(f'{name}: {ex}; using {dflt}')
            env[name] = int(dflt)
        P[key] = env[name]
    for name, key, dflt in [('LOW', 'LOW', 'BASE_SLOT_SIZE - (BASE_SLOT_SIZE / 2)'), ('HIGH', 'HIGH', 'BASE_SLOT_SIZE + (BASE_SLOT_SIZE / 2)')]:
        e, _ = const(rope, name, notes, dflt)
        P[key + '_EXPR'] = e
        try:
            P[key] = ev(e, env)
        except Exception as ex:
            notes.append(f'{name}: {ex}')
            P[key] = ev(dflt, env)
    m = re.search(r'from_iter\(iter\.by_ref\(\)\.take\((\w+)\)\)', rope)
    m2 = re.search(r'\.len\(\)\s*!=\s*(\w+)', rope)
    if m and m2:
        try:
            P['CHUNK'] = ev(m.group(1), env)
            P['CHUNK_NE'] = ev(m2.group(1), env)
        except Exception as ex:
            notes.append(f'from_iter chunk literal: {ex}')
            P['CHUNK'] = P['CHUNK_NE'] = 8
    else:
        notes.append('from_iter chunk literal not found; using 8')
        P['CHUNK'] = P['CHUNK_NE'] = 8
    oal = read('src/collections/ordered_array_like.rs')
    oenv = {}
    for name, key, dflt in [('LEVENSHTEIN_CUTOFF', 'CUTOFF', '8'), ('DELETE_COST', 'DEL', '1'), ('REPLACE_COST', 'REP', '2'), ('INSERT_COST', 'INS', '2')]:
        e, _ = const(oal, name, notes, dflt)
        try:
            P[key] = ev(e, oenv)
        except Exception as ex:
            notes.append(f'{name}: {ex}; using {dflt}')
            P[key] = int(dflt)
    ual = read('src/collections/unordered_array_like.rs')
    m = re.search(r'val\s*<=\s*(u8::MAX)\s+as\s+usize', ual)
    P['FEW_MAX'] = 255
    if not m:
        notes.append('Few/Many threshold `u8::MAX` not found in unordered_array_like.rs; using 255')
    # nanoserde discriminant tables (encode side and decode side) of the hand-written impls
    P['tables'] = tables(oal, ual, read('src/collections/unordered_map_like.rs'),
                         read('src/collections/unordered_map_like_recursive.rs'), notes)
    # serde declaration orders
    P['decl'] = decl_orders(oal, ual, read('src/collections/unordered_map_like.rs'),
                            read('src/collections/unordered_map_like_recursive.rs'))
    return P, notes

def enum_variants(src, name):
    m = re.search(r'enum\s+' + name + r'\b[^{]*\{(.*?)\n\}', src, re.S)
    if not m:
        return []
    body = re.sub(r'///[^\n]*', '', m.group(1))
    body = re.sub(r'#\[[^\]]*\]', '', body)
    out = []
    depth = 0
    cur = ''
    for ch in body:
        if ch in '({<':
            depth += 1
        elif ch in ')}>':
            depth -= 1
        if ch == ',' and depth == 0:
            out.append(cur.strip()); cur = ''
        else:
            cur += ch
    if cur.strip():
        out.append(cur.strip())
    return [re.match(r'\w+', v).group(0) for v in out if re.match(r'\w+', v)]

def decl_orders(oal, ual, uml, umr):
    return {
        'OrderedChangeOwned': enum_variants(oal, 'OrderedArrayLikeChangeOwned'),
        'OrderedChangeRef': enum_variants(oal, 'OrderedArrayLikeChangeRef'),
        'UArrChange': enum_variants(ual, 'UnorderedArrayLikeChange'),
        'UArrInternal': enum_variants(ual, 'UnorderedArrayLikeDiffInternal'),
        'UMapChange': enum_variants(uml, 'UnorderedMapLikeChange'),
        'UMapInternal': enum_variants(uml, 'UnorderedMapLikeDiffInternal'),
        'RMapChangeOwned': enum_variants(umr, 'UnorderedMapLikeRecursiveChangeOwned'),
        'RMapChangeRef': enum_variants(umr, 'UnorderedMapLikeRecursiveChangeRef'),
        'RMapInternalOwned': enum_variants(umr, 'UnorderedMapLikeRecursiveDiffInternalOwned'),
        'RMapInternalRef': enum_variants(umr, 'UnorderedMapLikeRecursiveDiffInternalRef'),
    }

def impl_blocks(src, header_re):
    """return bodies of `impl ... {` blocks whose header matches header_re"""
    out = []
    for m in re.finditer(r'impl\b[^{;]*?\{', src, re.S):
        hdr = m.group(0)
        if not re.search(header_re, hdr, re.S):
            continue
        i = m.end(); depth = 1
        while depth and i < len(src):
            if src[i] == '{': depth += 1
            elif src[i] == '}': depth -= 1
            i += 1
        out.append((hdr, src[m.end():i-1]))
    return out

def enc_table(body):
    """variant -> byte from `Variant(..) => { N_u8.ser_bin` or `=> N,` patterns"""
    t = {}
    for m in re.finditer(r'(?:Self|\w+)::(\w+)\s*(?:\([^)]*\)|\{[^}]*\})?\s*=>\s*\{?\s*(\d+)(?:_u8)?\s*(?:\.ser_bin|,)', body):
        t.setdefault(m.group(1), int(m.group(2)))
    return t

def dec_table(body):
    t = {}
    for m in re.finditer(r'(\d+)(?:_u8)?\s*=>\s*(?:\{[^}]*?)?(?:Ok\()?\s*(?:\w+::)?(\w+)(?:\(|::(\w+))', body, re.S):
        pass
    # robust variant: for each `N =>` arm, take the first `Type::Variant` that follows before the next arm
    arms = list(re.finditer(r'\b(\d+)(?:_u8)?\s*=>', body))
    for i, a in enumerate(arms):
        seg = body[a.end(): arms[i+1].start() if i+1 < len(arms) else len(body)]
        names = re.findall(r'(\w+)::(\w+)\s*\(', seg)
        cand = [v for (ty, v) in names if ty not in ('DeBin', 'core', 'result', 'Result', 'nanoserde') and v[0].isupper() and v not in ('Ok', 'Err')]
        if cand:
            t[int(a.group(1))] = cand[-1] if cand[-1] not in ('Ok',) else cand[0]
    return t

def tables(oal, ual, uml, umr, notes):
    T = {}
    def one(key, src, enc_hdr, dec_hdr, disc_fn=None):
        enc = {}
        if disc_fn:
            for hdr, body in impl_blocks(src, disc_fn):
                if 'nanoserde_discriminant' in body:
                    enc = enc_table(body)
                    break
        else:
            for hdr, body in impl_blocks(src, enc_hdr):
                enc = enc_table(body)
                if enc: break
        dec = {}
        if dec_hdr:
            for hdr, body in impl_blocks(src, dec_hdr):
                dec = dec_table(body)
                if dec: break
        if not enc:
            notes.append(f'nanoserde encode table for {key} not found')
        if dec_hdr and not dec:
            notes.append(f'nanoserde decode table for {key} not found')
        T[key] = {'enc': enc, 'dec': {str(k): v for k, v in dec.items()}}
    one('OrderedChangeOwned', oal, None, r'DeBin\s+for\s+OrderedArrayLikeChangeOwned', r'impl<T>\s+OrderedArrayLikeChangeOwned<T>')
    one('OrderedChangeRef', oal, None, None, r"impl<T>\s+OrderedArrayLikeChangeRef<'_,\s*T>")
    one('UArrChangeOwned', ual, r'SerBin\s+for\s+UnorderedArrayLikeChange<T>', r'DeBin\s+for\s+UnorderedArrayLikeChange<T>')
    one('UArrChangeRef', ual, r'SerBin\s+for\s+&UnorderedArrayLikeChange<&T>', None)
    one('UArrDiffOwned', ual, r'SerBin\s+for\s+UnorderedArrayLikeDiff<T>', r'DeBin\s+for\s+UnorderedArrayLikeDiff<T>')
    one('UArrDiffRef', ual, r'SerBin\s+for\s+&UnorderedArrayLikeDiff<&T>', None)
    one('UMapChangeOwned', uml, r'SerBin\s+for\s+UnorderedMapLikeChange<K,\s*V>', r'DeBin\s+for\s+UnorderedMapLikeChange<K,\s*V>')
    one('UMapChangeRef', uml, r'SerBin\s+for\s+&UnorderedMapLikeChange<&K,\s*&V>', None)
    one('UMapDiffOwned', uml, r'SerBin\s+for\s+UnorderedMapLikeDiff<K,\s*V>', r'DeBin\s+for\s+UnorderedMapLikeDiff<K,\s*V>')
    one('UMapDiffRef', uml, r'SerBin\s+for\s+&UnorderedMapLikeDiff<&K,\s*&V>', None)
    one('RMapChangeOwned', umr, r'SerBin\s+for\s+UnorderedMapLikeRecursiveChangeOwned', r'DeBin\s+for\s+UnorderedMapLikeRecursiveChangeOwned')
    one('RMapChangeRef', umr, r'SerBin\s+for\s+UnorderedMapLikeRecursiveChangeRef', None)
    one('RMapDiffOwned', umr, r'SerBin\s+for\s+UnorderedMapLikeRecursiveDiffOwned', r'DeBin\s+for\s+UnorderedMapLikeRecursiveDiffOwned')
    one('RMapDiffRef', umr, r'SerBin\s+for\s+UnorderedMapLikeRecursiveDiffRef', None)
    return T

SLOT_ACCESSORS = '''
// ---- white-box accessors appended by /verif/tools/params.py (not part of /repo) ----
impl<T: Clone, const N: usize> ArrayMap<T, N> {
    pub fn vf_layout(&self) -> (Vec<Option<(u8, T)>>, usize) {
        (self.0.iter().cloned().collect(), self.1)
    }
    pub fn vf_from_layout(cells: Vec<Option<(u8, T)>>, cnt: usize) -> Self {
        let mut it = cells.into_iter();
        let arr: [Option<(u8, T)>; N] = std::array::from_fn(|_| it.next().unwrap());
        Self(arr, cnt)
    }
}
'''
ROPE_ACCESSORS = '''
// ---- white-box accessors appended by /verif/tools/params.py (not part of /repo) ----
impl<T: Clone> Rope<T> {
    pub fn vf_chunks(&self) -> Vec<Vec<T>> {
        self.0
            .iter()
            .map(|c| {
                let (cells, _) = c.vf_layout();
                let mut v: Vec<(u8, T)> = cells.into_iter().flatten().collect();
                v.sort_by_key(|e| e.0);
                v.into_iter().map(|e| e.1).collect()
            })
            .collect()
    }
    pub fn vf_from_chunks(chunks: Vec<Vec<T>>) -> Self {
        Self(chunks.into_iter().map(|c| c.into_iter().collect()).collect())
    }
    pub fn vf_clone(&self) -> Self {
        Self(self.0.clone())
    }
}
'''

def rope_module(name, rope, slots, subst=None):
    if subst:
        for pat, rep in subst:
            rope, k = re.subn(pat, rep, rope)
    if 'mod slots;' not in rope:
        raise RuntimeError('`mod slots;` not found in rope/mod.rs')
    body = rope.replace('mod slots;', 'pub mod slots {\n' + slots + SLOT_ACCESSORS + '\n}\n', 1)
    return f'pub mod {name} {{\n{body}\n{ROPE_ACCESSORS}\n}}\n'

def gen_harness_rope(P):
    rope = read('src/collections/rope/mod.rs')
    slots = read('src/collections/rope/slots.rs')
    prod = rope_module('rope_prod', rope, slots)
    s = SMALL
    subst = [
        (r'(const\s+MAX_SLOT_SIZE\s*:\s*usize\s*=\s*)[^;]+;', rf'\g<1>{s["MAX"]};'),
        (r'(const\s+BASE_SLOT_SIZE\s*:\s*usize\s*=\s*)[^;]+;', rf'\g<1>{s["BASE"]};'),
        (r'(const\s+UNDERSIZED_SLOT\s*:\s*usize\s*=\s*)[^;]+;', rf'\g<1>{s["UNDER"]};'),
        (r'(from_iter\(iter\.by_ref\(\)\.take\()\w+(\)\))', rf'\g<1>{s["CHUNK"]}\g<2>'),
        (r'(\.len\(\)\s*!=\s*)\w+', rf'\g<1>{s["CHUNK"]}'),
    ]
    small = rope_module('rope_small', rope, slots, subst)
    out = '// GENERATED by /verif/tools/params.py from /repo/src/collections/rope/{mod,slots}.rs -- do not edit\n' + prod + small
    path = os.path.join(VERIF, 'harness/src/gen_rope.rs')
    write_if_changed(path, out)

def write_if_changed(path, text):
    try:
        with open(path) as f:
            if f.read() == text:
                return False
    except FileNotFoundError:
        pass
    os.makedirs(os.path.dirname(path), exist_ok=True)
    with open(path, 'w') as f:
        f.write(text)
    return True

def lean_table(name, enc, order):
    rows = ', '.join(f'("{v}", {enc[v]})' for v in order if v in enc)
    return f'def {name} : List (String × Nat) := [{rows}]\n'

def gen_lean(P):
    s = SMALL
    lowS = ev(P['LOW_EXPR'], {'BASE_SLOT_SIZE': s['BASE'], 'MAX_SLOT_SIZE': s['MAX']})
    highS = ev(P['HIGH_EXPR'], {'BASE_SLOT_SIZE': s['BASE'], 'MAX_SLOT_SIZE': s['MAX']})
    P['SMALL'] = dict(MAX=s['MAX'], BASE=s['BASE'], LOW=lowS, HIGH=highS, UNDER=s['UNDER'], CHUNK=s['CHUNK'])
    t = []
    t.append('-- GENERATED by tools/params.py from /repo sources on every run. Do not edit.\n')
    t.append('import SdModel.Model.Rope\n')
    t.append('namespace Gen\n')
    t.append(f'/-- MAX_SLOT_SIZE, BASE_SLOT_SIZE, LOW, HIGH, UNDERSIZED_SLOT, FromIterator chunk literal -/\n')
    t.append(f'def ropeParams : Rope.Params := ⟨{P["MAX"]}, {P["BASE"]}, {P["LOW"]}, {P["HIGH"]}, {P["UNDER"]}, {P["CHUNK"]}⟩\n')
    t.append(f'/-- the `!= k` literal of FromIterator (must equal the `take(k)` literal) -/\n')
    t.append(f'def ropeChunkNe : Nat := {P["CHUNK_NE"]}\n')
    t.append(f'/-- constants of the scaled-down twin compiled into the harness (same source text, constants substituted) -/\n')
    t.append(f'def ropeParamsSmall : Rope.Params := ⟨{s["MAX"]}, {s["BASE"]}, {lowS}, {highS}, {s["UNDER"]}, {s["CHUNK"]}⟩\n')
    t.append(f'def levCutoff : Nat := {P["CUTOFF"]}\n')
    t.append(f'def deleteCost : Nat := {P["DEL"]}\n')
    t.append(f'def replaceCost : Nat := {P["REP"]}\n')
    t.append(f'def insertCost : Nat := {P["INS"]}\n')
    t.append(f'def fewMax : Nat := {P["FEW_MAX"]}\n')
    # numeric tables in the model's canonical constructor order (see CANON)
    for name, (canon, encO, encR, decO, declO, declR) in CANON.items():
        T = P['tables']; D = P['decl']
        eo = [T[encO]['enc'].get(v, 255) for v in canon]
        er = [T[encR]['enc'].get(v, 255) for v in canon]
        de = [(int(b), canon.index(v)) for b, v in sorted(T[decO]['dec'].items(), key=lambda kv: int(kv[0])) if v in canon]
        so = [D[declO].index(v) if v in D[declO] else 255 for v in canon]
        sr = [D[declR].index(v) if v in D[declR] else 255 for v in canon]
        t.append(f'/-- {name}: constructor order {canon} -/\n')
        t.append(f'def nano{name}OwnedEnc : List Nat := {eo}\n')
        t.append(f'def nano{name}RefEnc : List Nat := {er}\n')
        t.append(f'def nano{name}OwnedDec : List (Nat × Nat) := [{", ".join(f"({b}, {k})" for b, k in de)}]\n')
        t.append(f'def serde{name}OwnedIdx : List Nat := {so}\n')
        t.append(f'def serde{name}RefIdx : List Nat := {sr}\n')
    t.append('end Gen\n')
    path = os.path.join(VERIF, 'lean/SdModel/Gen/Params.lean')
    return write_if_changed(path, ''.join(t))

def run():
    P, notes = extract()
    gen_lean(P)
    try:
        gen_harness_rope(P)
        P['whitebox'] = True
    except Exception as ex:
        notes.append(f'white-box textual inclusion failed: {ex}')
        P['whitebox'] = False
    return P, notes

if __name__ == '__main__':
    P, notes = run()
    print(json.dumps(P, indent=1))
    for n in notes:
        print('NOTE', n)
