#!/usr/bin/env python3
"""Regenerates the table of seeded changes in DESIGN.md §10.5 from seeded/*/meta.json (the rows between the header
line `| seed | breaks | ...` and the first line that is not a table row)."""
import glob, json, os, re

ROOT = os.path.dirname(os.path.dirname(os.path.abspath(__file__)))


def esc(t):
    return str(t).replace('|', '\\|').replace('\n', ' ')


def key(path):
    m = re.search(r'S-C(\d+)-(\d+)', path)
    return (int(m.group(1)), int(m.group(2)))


def rows():
    out = []
    for f in sorted(glob.glob(os.path.join(ROOT, 'seeded', '*', 'meta.json')), key=key):
        m = json.load(open(f))
        runs = m.get('checks_run_against_it', {})
        hit = [k for k, v in runs.items() if v.startswith('failing input')]
        tie = [k for k, v in runs.items() if v.startswith('tie broken')]
        own = m['property_broken']
        hit.sort(key=lambda k: (k != own, k)); tie.sort()
        caught = ', '.join(hit) if hit else ('— (not caught)' if m.get('status') == 'not caught' else '')
        out.append('| %s | %s | %s | %s | %s | %s |' % (m['seed'], own, esc(m['needs_to_manifest']), caught, ', '.join(tie), esc(m.get('strengthening', ''))))
    return out


def main():
    p = os.path.join(ROOT, 'DESIGN.md')
    lines = open(p).read().split('\n')
    start = next(i for i, l in enumerate(lines) if l.startswith('| seed | breaks |'))
    end = start + 2
    while end < len(lines) and lines[end].startswith('| S-'):
        end += 1
    lines[start + 2:end] = rows()
    open(p, 'w').write('\n'.join(lines))
    print('rows:', len(rows()))


if __name__ == '__main__':
    main()
