"""S-expressions (same shape as the Lean driver / Rust oracle use)."""

def tokenize(s):
    out, cur = [], []
    for c in s:
        if c in '()':
            if cur:
                out.append(''.join(cur)); cur = []
            out.append(c)
        elif c.isspace():
            if cur:
                out.append(''.join(cur)); cur = []
        else:
            cur.append(c)
    if cur:
        out.append(''.join(cur))
    return out

def parse(s):
    toks = tokenize(s)
    pos = 0
    def go():
        nonlocal pos
        t = toks[pos]; pos += 1
        if t == '(':
            items = []
            while toks[pos] != ')':
                items.append(go())
            pos += 1
            return items
        if t == ')':
            raise ValueError('unbalanced')
        return t
    r = go()
    if pos != len(toks):
        raise ValueError('trailing tokens')
    return r

def show(x):
    if isinstance(x, (list, tuple)):
        return '(' + ' '.join(show(i) for i in x) + ')'
    if isinstance(x, bool):
        return 'true' if x else 'false'
    return str(x)

def field(resp, name):
    """(ok (name v...) ...) -> [v...] or None"""
    if not isinstance(resp, list):
        return None
    for it in resp[1:]:
        if isinstance(it, list) and it and it[0] == name:
            return it[1:]
    return None
