#!/bin/sh
# Re-runs the quick check of the targeted property against every kept seeded change (seeded/<id>/patch.diff):
# applies the patch to /repo, runs the check, undoes the patch. Expected: VIOLATION for every seed.
# usage: tools/seeds_regress.sh [seed-id ...]      (never leaves /repo modified)
cd /verif
# evidence written while a seeded change is applied must not replace the evidence of the unchanged tree
rm -rf .work/evidence_backup; mkdir -p .work; cp -r evidence .work/evidence_backup
restore_evidence() { rm -rf /verif/evidence; cp -r /verif/.work/evidence_backup /verif/evidence; }
trap restore_evidence EXIT
ids="$@"; [ -z "$ids" ] && ids=$(ls seeded)
miss=0
for id in $ids; do
  prop=$(python3 -c "import json;print(json.load(open('seeded/$id/meta.json'))['property_broken'])")
  st=$(python3 -c "import json;print(json.load(open('seeded/$id/meta.json')).get('status',''))")
  if [ "$st" = "not caught" ]; then echo "$id $prop documented-as-not-caught (see meta.json)"; continue; fi
  if ! git -C /repo apply --3way "/verif/seeded/$id/patch.diff" 2>/dev/null && ! git -C /repo apply "/verif/seeded/$id/patch.diff"; then
    echo "$id $prop PATCH-DOES-NOT-APPLY"; git -C /repo checkout -- . ; git -C /repo reset -q; continue
  fi
  out=$(./check "$prop" --tier quick 2>&1 | grep -E "^(VIOLATION|OK)" | head -1)
  git -C /repo reset -q; git -C /repo checkout -- .
  case "$out" in
    VIOLATION*no-failing-input-found) echo "$id $prop caught-without-input" ;;
    VIOLATION*) echo "$id $prop caught" ;;
    *) echo "$id $prop MISSED ($out)"; miss=1 ;;
  esac
done
git -C /repo status --short | head -3
exit $miss
