#!/usr/bin/env python3
"""Regenerates MANIFEST.json from the table below (kept here so that the manifest stays valid and in sync)."""
import json, os
V = os.path.dirname(os.path.dirname(os.path.abspath(__file__)))
ALL = [f'C{i:02d}' for i in range(1, 21)]

TB = "Lean 4.33.0 kernel; axioms propext, Classical.choice, Quot.sound only (audited by #print axioms on every run); tools/params.py (constants/tables translator); the correspondence harness (Rust oracle calling the real code, compiled Lean driver, comparator)"

CHECKS = {
 'C11': ('proof',
   "Lean theorems (Props/C11.lean), for every item type with decidable equality, all lists, all multiplicities: previous patched with the diff equals current as a multiset in BOTH representations (change list and full replacement, each exhibited), the diff is absent iff the collections are equal as multisets, the Few/Many count split never truncates (threshold regenerated from the source and checked to fit u8), and the debug_asserts assertions inside the comparison can never fire. All statements are on counts, hence hold for every hash-map iteration order. Correspondence: real unordered_hashcmp / apply_unordered_hashdiffs vs the model, diffs compared as canonical multisets, multiplicities crossing 255/256, sizes around the replacement boundary.",
   TB + "; HashMap = association list with distinct keys in some order; Hash/Eq/Clone lawful; counts in Nat",
   "Lean 4 proof (count-map algebra, order-free) + differential correspondence", "DESIGN.md §5 C11"),
 'C12': ('proof',
   "Lean theorems (Props/C12.lean) for maps with unique keys, both equality modes, both representations: the result of applying the diff to previous is a map (every key once) equal to current key for key and value for value; a changed key carries the new value only; the diff is absent iff the maps are equal. Proved through a per-key specification of the comparison loop and of the removal / insertion passes (general multimaps with counts), specialised to unique keys. Correspondence: direct calls of the real functions, canonical diffs and results compared exactly.",
   TB + "; HashMap = association list with distinct keys; PartialEq of values lawful",
   "Lean 4 proof (per-key refinement of the map algebra) + differential correspondence", "DESIGN.md §5 C12"),
 'C19': ('proof',
   "Lean theorems (Props/C19.lean): for an ARBITRARY base and an ARBITRARY diff value (not only one computed from that base) the array-like apply is total and yields per item `base - removed (saturating) + inserted`, a replacement yields exactly the carried collection, and the result is independent of hash order; the flat map-like apply is total and yields only keys from the base or the diff (recursive map-like: C13.apply_keys). Correspondence: diff(p,c) applied to unrelated bases under catch_unwind, in a release build and in a dev build with the `debug_asserts` feature so that debug assertions are live.",
   TB + "; `usize` overflow of `*val += count` outside the model",
   "Lean 4 proof (total functions + closed-form effect) + differential correspondence incl. a debug-assertions build", "DESIGN.md §5 C19"),
 'C20': ('proof',
   "Lean theorems (Props/C20.lean): a change list mentions every item at most once, with exactly the multiplicity delta, never an unchanged item, and every changed item; a replacement carries exactly the new collection; a replacement is chosen iff distinct(cur) < distinct(prev) - distinct(cur) (so never when the new side has at least as many distinct items). Flat maps with unique keys: per key exactly nothing / one insertion / one removal / remove-old + insert-new, every entry with positive count. Correspondence: the REAL diffs are checked entry by entry for minimality and compared with the model diffs as canonical multisets.",
   TB + "; HashMap = association list with distinct keys",
   "Lean 4 proof (closed form of the emitted entries) + differential correspondence on canonical diffs", "DESIGN.md §5 C20"),
 'C10': ('proof',
   "Lean theorems (Props/C10.lean): from EVERY layout satisfying the representation invariant, insert/remove/swap/range-drain/extend/index/assignment/from_iter/new have exactly the List effect and result, capacity violations panic, the invariant is preserved, lifted by induction to every operation history. The model mirrors the Rust cell array physically and is compared with the real ArrayMap exactly (every invariant layout for N<=4 x every op, plus random histories at N=16/8). PARTIAL: the iteration theorems (forward/backward/interleaved owning iteration) are not yet proved; iteration is covered by the exhaustive correspondence against a plain-sequence oracle only.",
   TB + "; u8 logical indices modelled in Nat; library sorts modelled as insertion sorts (unique result for distinct keys)",
   "Lean 4 refinement proof (invariant + abstraction function) + exhaustive differential correspondence", "DESIGN.md §5 C10"),
 'C09': ('proof',
   "Lean theorems (Props/C09.lean), for every parameter record satisfying the side conditions and instantiated at the constants regenerated from the source: rebalancing preserves the flattening and re-establishes the chunk-size invariant; insert/remove/inclusive drain/swap/assignment refine the List operations without panic from EVERY invariant state; len, indexed reads (panic at or past the length), borrowed and consuming iteration equal the flattening; lifted by induction to every operation history from new() and from_iter. The model is stepped from the REAL pre-state on every operation and compared with the real Rope (production constants and a scaled-down twin of the real source, exhaustive over all invariant chunk vectors up to a size) and with a plain Vec.",
   TB + "; chunks are bounded lists (C10); Vec/VecDeque/mem::swap/retain modelled as list functions; usize in Nat",
   "Lean 4 refinement proof by induction over operation histories + differential correspondence (exhaustive on a scaled-down twin)", "DESIGN.md §5 C09"),
 'C08': ('proof',
   "Lean theorems (Props/C08.lean): every well-formed script (any length, any index order, swaps, ranged deletes) applied through the rope equals executing it on a plain growable array and never panics (fold of the C09 step theorems); for both wire formats decoding what a conforming encoder wrote returns the script and re-encoding reproduces the bytes; borrowed and owned forms are byte-identical. The discriminant tables / declaration orders are regenerated from the source and their consistency is a `decide`d side condition. Correspondence: the Lean model encodes random scripts, the real code decodes, applies (Vec, LinkedList) and re-encodes; bytes and results must agree exactly.",
   TB + "; nanoserde/bincode primitive layouts and the code serde_derive generates are modelled from their format and validated byte-for-byte",
   "Lean 4 proof (codec round trip + refinement to list semantics) + byte-exact differential correspondence", "DESIGN.md §5 C08"),
 'C07': ('proof',
   "Lean theorems (Props/C07.lean), for an ARBITRARY Boolean element relation (no laws: covers PartialEq types such as f64) and the constants regenerated from the source: the table the model builds is the recursively specified cost table; backtracking with the early exit yields a script that rewrites the source into a list pointwise equal to the target; the divide-and-conquer driver is correct for ANY split point; both public algorithms round-trip, never index out of range, also through the real rope-based apply (composition with C08/C09); a diff is absent only if the sequences are element-wise equal. PARTIAL: 'element-wise equal => no diff' is not yet proved for the divide-and-conquer algorithm. Correspondence: exact script equality, exact wire bytes and applied results on exhaustive small pairs and seeded classes.",
   TB + "; only the forward-index paths are modelled (the reversed-index branches are unreachable from the public entry points)",
   "Lean 4 proof (DP table correctness + backtracking invariant + induction over the recursion) + exact differential correspondence", "DESIGN.md §5 C07"),
}

NOT_YET = "not yet built in this round (planned; see DESIGN.md §9 build order)"

def chk(pid, level, text, note, technique, design):
    return {"property_id": pid, "quick_cmd": f"./check {pid} --tier quick", "thorough_cmd": f"./check {pid} --tier thorough",
            "evidence_file": f"evidence/{pid}.json", "replay_cmd_template": f"./check {pid} --replay {{path}}",
            "engine": "lean4+correspondence",
            "level_claimed": {"category": level, "text": text, "design_ref": design},
            "level_note": note, "technique": technique}

def main(extra_na=None):
    m = {
     "version": 1,
     "setup_cmd": "python3 tools/setup.py",
     "hooks": {"guard": "knickish_structdiff_verif",
               "enable": "none needed: white-box access is by textual inclusion of /repo sources into the harness crate (tools/params.py); no hook code lives in /repo",
               "baseline_off_cmd": "cd /repo && cargo test --workspace --no-fail-fast --offline", "source_commits": [], "add_only": True},
     "engines": [{"name": "lean4+correspondence", "path": "check", "serves_properties": sorted(CHECKS),
                  "kind_free_text": "Lean 4 theorems about a hand-written executable model (lean/SdModel), constants and tables regenerated from /repo by tools/params.py, behaviour tied by a differential correspondence check (Rust oracle calling the real code vs compiled Lean driver)"}],
     "checks": [chk(p, *CHECKS[p]) for p in sorted(CHECKS)],
     "not_applicable": [{"property_id": p, "reason": (extra_na or {}).get(p, NOT_YET)} for p in ALL if p not in CHECKS],
     "notes": "Single entry point ./check <Cxx> --tier quick|thorough [--replay F]. Every run regenerates lean/SdModel/Gen/Params.lean and harness/src/gen_*.rs from /repo's working tree, rebuilds the harness against it, re-checks the theorems and audits their axioms."
    }
    json.dump(m, open(os.path.join(V, 'MANIFEST.json'), 'w'), indent=1)

if __name__ == '__main__':
    main()
