"""Derive shapes: a catalogue + seeded random type shapes; Rust code generation (declaration with
#[derive(Difference)] spelled as a user would, Wire glue, dispatch), the Lean type descriptor, type-directed
value generation, and canonicalisation of values / diff entries coming from either side."""
import random, os, re
import sx

VERIF = os.path.dirname(os.path.dirname(os.path.abspath(__file__)))

# ------------------------------------------------------------------ shape construction

def F(k, skip=0, **kw):
    d = {'k': k, 'skip': skip}; d.update(kw); return d


def struct(fields, name=None, generic=False, setters=None):
    return {'t': 'struct', 'fields': fields, 'name': name, 'generic': generic, 'setters': setters or {}}


def enum(variants, name=None):
    # variants: ('unit',) | ('tuple', n) | ('struct', n)
    return {'t': 'enum', 'variants': variants, 'name': name}


LEAF = lambda: struct([F('plain'), F('plain', skip=1)])
LEAF2 = lambda: struct([F('plain'), F('unord', cont='Vec'), F('plain', skip=1)])


def catalogue(features=()):
    nano = 'nanoserde' in features
    omap = 'HashMap' if nano else 'BTreeMap'
    odq = 'LinkedList' if nano else 'VecDeque'
    C = []
    # every kind alone
    C.append(struct([F('plain')]))
    C.append(struct([F('plain', rty='Option<u32>')]))
    C.append(struct([F('plain'), F('plain', skip=1)]))
    C.append(struct([F('recurse', inner=LEAF())]))
    C.append(struct([F('ropt', inner=LEAF())]))
    C.append(struct([F('ordered', cont='Vec')]))
    C.append(struct([F('ordered', cont=odq)]))
    C.append(struct([F('ordered', cont='LinkedList')]))
    C.append(struct([F('unord', cont='Vec')]))
    C.append(struct([F('unord', cont='HashSet')]))
    C.append(struct([F('unord', cont='BTreeSet')]))
    C.append(struct([F('unord', cont='LinkedList')]))
    C.append(struct([F('map', mode='kv', cont='HashMap')]))
    C.append(struct([F('map', mode='ko', cont='HashMap')]))
    C.append(struct([F('map', mode='kv', cont=omap)]))
    # a value type for which the in-memory pair is larger than its encoding (padding): size-based shortcuts in the codecs
    C.append(struct([F('plain'), F('map', mode='kv', cont='HashMap', vty='u64')]))
    C.append(struct([F('recmap', mode='kv', inner=LEAF(), cont='HashMap')]))
    C.append(struct([F('recmap', mode='ko', inner=LEAF(), cont='HashMap')]))
    C.append(struct([F('recmap', mode='kv', inner=LEAF2(), cont=omap)]))
    # a recursive map whose VALUE type owns a recursive map: the nested diff of a retained key is computed through the
    # value type's diff_ref even inside the outer OWNED diff
    C.append(struct([F('recmap', mode='kv', inner=struct([F('plain'), F('recmap', mode='kv', inner=LEAF(), cont='HashMap')]), cont='HashMap')]))
    C.append(enum([('unit',), ('tuple', 1), ('struct', 2), ('unit',)]))
    # pairs / mixes
    C.append(struct([F('plain'), F('ordered', cont='Vec'), F('plain', skip=1), F('unord', cont='Vec')]))
    C.append(struct([F('unord', cont='Vec'), F('map', mode='kv', cont='HashMap'), F('plain')]))
    C.append(struct([F('recurse', inner=LEAF2()), F('ropt', inner=LEAF2()), F('plain')]))
    C.append(struct([F('plain', skip=1), F('recurse', inner=struct([F('recurse', inner=LEAF()), F('ordered', cont='Vec'), F('plain', skip=1)])), F('plain')]))
    C.append(struct([F('ropt', inner=struct([F('ordered', cont='Vec'), F('map', mode='ko', cont='HashMap'), F('plain', skip=1)]))]))
    C.append(struct([F('recmap', mode='kv', inner=struct([F('plain'), F('ordered', cont='Vec'), F('plain', skip=1)]), cont='HashMap'), F('plain')]))
    C.append(struct([F('plain', rty='enum', en=enum([('unit',), ('tuple', 2)])), F('plain', rty='struct', inner=LEAF()), F('plain')]))
    C.append(struct([F('plain'), F('plain')], generic=True))
    C.append(struct([F('plain'), F('plain', skip=1), F('ordered', cont='Vec')], generic=True))
    # a SKIPPED twin of the same type directly before each kind (a position among the unskipped fields that is
    # confused with the declared position then hits a field of the right type: the failure is silent, not a compile error)
    l1, l2, l3 = LEAF(), LEAF(), LEAF2()
    C.append(struct([F('plain'), F('ropt', skip=1, inner=l1), F('ropt', inner=l1), F('plain')]))
    C.append(struct([F('recurse', skip=1, inner=l2), F('recurse', inner=l2), F('plain', skip=1), F('plain')]))
    C.append(struct([F('plain', skip=1), F('plain'), F('ordered', skip=1, cont='Vec'), F('ordered', cont='Vec'),
                     F('unord', skip=1, cont='Vec'), F('unord', cont='Vec')]))
    C.append(struct([F('map', skip=1, mode='kv', cont='HashMap'), F('map', mode='kv', cont='HashMap'),
                     F('recmap', skip=1, mode='kv', inner=l3, cont='HashMap'), F('recmap', mode='kv', inner=l3, cont='HashMap'), F('plain')]))
    # types whose `==` is not identity (f64: -0.0 == 0.0, NaN != NaN): plain fields, enum payloads, inside nested values
    FL = lambda: struct([F('plain', rty='f64'), F('plain'), F('plain', rty='f64', skip=1)])
    C.append(struct([F('plain', rty='f64'), F('plain')]))
    C.append(enum([('unit',), ('ftuple', 1), ('tuple', 1), ('ftuple', 2)]))
    C.append(struct([F('recurse', inner=FL()), F('ropt', inner=FL()), F('plain', rty='f64')]))
    C.append(struct([F('recmap', mode='kv', inner=FL(), cont='HashMap'), F('recmap', mode='ko', inner=FL(), cont='HashMap'),
                     F('plain', rty='enum', en=enum([('unit',), ('ftuple', 1)]))]))
    # all kinds in one struct (the 14-field shape)
    C.append(struct([F('plain'), F('plain', rty='Option<u32>'), F('plain', skip=1), F('recurse', inner=LEAF2()), F('ropt', inner=LEAF()),
                     F('ordered', cont='Vec'), F('unord', cont='Vec'), F('unord', cont='HashSet'), F('map', mode='kv', cont='HashMap'),
                     F('map', mode='ko', cont='HashMap'), F('recmap', mode='kv', inner=LEAF(), cont='HashMap'),
                     F('recmap', mode='ko', inner=LEAF(), cont='HashMap'), F('plain', skip=1), F('plain')]))
    return C


def random_shape(rnd, depth=0, features=()):
    nano = 'nanoserde' in features
    n = rnd.randrange(1, 6)
    fields = []
    for _ in range(n):
        skip = 1 if rnd.random() < 0.2 else 0
        kinds = ['plain', 'plain', 'ordered', 'unord', 'map']
        if depth < 2:
            kinds += ['recurse', 'ropt', 'recmap']
        k = rnd.choice(kinds)
        if skip:
            fields.append(F('plain', skip=1)); continue
        if k == 'plain':
            fields.append(F('plain', rty=rnd.choice(['u32', 'u32', 'Option<u32>', 'f64'])))
        elif k == 'ordered':
            fields.append(F('ordered', cont=rnd.choice(['Vec', 'LinkedList'] + ([] if nano else ['VecDeque']))))
        elif k == 'unord':
            fields.append(F('unord', cont=rnd.choice(['Vec', 'HashSet', 'BTreeSet', 'LinkedList'])))
        elif k == 'map':
            fields.append(F('map', mode=rnd.choice(['ko', 'kv']), cont=rnd.choice(['HashMap'] + ([] if nano else ['BTreeMap']))))
        elif k == 'recurse':
            fields.append(F('recurse', inner=random_shape(rnd, depth + 1, features)))
        elif k == 'ropt':
            fields.append(F('ropt', inner=random_shape(rnd, depth + 1, features)))
        else:
            fields.append(F('recmap', mode=rnd.choice(['ko', 'kv']), inner=random_shape(rnd, depth + 1, features),
                            cont=rnd.choice(['HashMap'] + ([] if nano else ['BTreeMap']))))
    if all(f['skip'] for f in fields):
        fields.append(F('plain'))
    return struct(fields)


def name_shapes(shapes):
    """assign unique Rust type names (depth-first)"""
    counter = [0]
    def go(sh, prefix):
        sh['name'] = prefix
        if sh['t'] == 'struct':
            for i, f in enumerate(sh['fields']):
                if 'inner' in f:
                    go(f['inner'], f'{prefix}_{i}')
                if 'en' in f:
                    go(f['en'], f'{prefix}_{i}E')
    for i, sh in enumerate(shapes):
        go(sh, f'S{i}')
    return shapes


# ------------------------------------------------------------------ Lean type descriptor

def lean_ty(sh):
    if sh['t'] == 'enum':
        return 'enum'
    out = ['struct']
    for f in sh['fields']:
        k = f['k']
        if k == 'plain': kk = 'plain'
        elif k == 'ordered': kk = 'ordered'
        elif k == 'unord': kk = 'unord'
        elif k == 'map': kk = ['map', f['mode']]
        elif k == 'recurse': kk = ['recurse', lean_ty(f['inner'])]
        elif k == 'ropt': kk = ['ropt', lean_ty(f['inner'])]
        elif k == 'recmap': kk = ['recmap', f['mode'], lean_ty(f['inner'])]
        out.append([f['skip'], kk])
    return out


# ------------------------------------------------------------------ Rust code generation

DERIVES = ('#[derive(Debug, Clone, PartialEq, Difference)]\n'
           '#[cfg_attr(feature = "serde", derive(serde::Serialize, serde::Deserialize))]\n'
           '#[cfg_attr(feature = "nanoserde", derive(nanoserde::SerBin, nanoserde::DeBin))]\n')
PLAIN_DERIVES = ('#[derive(Debug, Clone, PartialEq)]\n'
                 '#[cfg_attr(feature = "serde", derive(serde::Serialize, serde::Deserialize))]\n'
                 '#[cfg_attr(feature = "nanoserde", derive(nanoserde::SerBin, nanoserde::DeBin))]\n')


def rust_field_type(f, elem='u32'):
    k = f['k']
    if k == 'plain':
        r = f.get('rty', 'u32')
        if r == 'f64': return 'f64'
        if r == 'struct': return f['inner']['name']
        if r == 'enum': return f['en']['name']
        return r if r != 'u32' else elem
    if k == 'recurse': return f['inner']['name']
    if k == 'ropt': return f'Option<{f["inner"]["name"]}>'
    if k in ('ordered', 'unord'): return f'{f["cont"]}<u32>'
    if k == 'map': return f'{f["cont"]}<u32, {f.get("vty", "u32")}>'      # vty u64: (K, V) larger in memory than on the wire
    if k == 'recmap': return f'{f["cont"]}<u32, {f["inner"]["name"]}>'
    raise ValueError(k)


def field_attrs(f, i, sh):
    a = []
    k = f['k']
    if f['skip']: a.append('skip')
    if k in ('recurse', 'ropt', 'recmap'): a.append('recurse')
    if k == 'ordered': a.append('collection_strategy = "ordered_array_like"')
    if k == 'unord': a.append('collection_strategy = "unordered_array_like"')
    if k in ('map', 'recmap'):
        a.append('collection_strategy = "unordered_map_like"')
        # default map_equality is key_and_value; spell it out half of the time
        if f['mode'] == 'ko': a.append('map_equality = "key_only"')
        elif i % 2: a.append('map_equality = "key_and_value"')
    st = sh.get('setters', {}).get(i)
    if st:
        a += st
    if not a:
        return ''
    # four spellings (all legal): one attribute with a comma list; the same with a trailing comma and spread over
    # several lines; several attributes; several attributes in reverse order, each with a trailing comma
    v = (i + len(sh['fields']) + sum(map(ord, sh['name']))) % 4
    if v == 0:
        return '    #[difference(' + ', '.join(a) + ')]\n'
    if v == 1:
        return '    #[difference(\n' + ''.join(f'        {x},\n' for x in a) + '    )]\n'
    if v == 2:
        return ''.join(f'    #[difference({x})]\n' for x in a)
    return ''.join(f'    #[difference({x},)]\n' for x in reversed(a))


def gen_types(sh, out, seen):
    if sh['name'] in seen: return
    seen.add(sh['name'])
    if sh['t'] == 'enum':
        body = []
        for j, v in enumerate(sh['variants']):
            if v[0] == 'unit': body.append(f'    V{j},')
            elif v[0] == 'tuple': body.append(f'    V{j}(' + ', '.join(['u32'] * v[1]) + '),')
            elif v[0] == 'ftuple': body.append(f'    V{j}(' + ', '.join(['f64'] * v[1]) + '),')
            else: body.append(f'    V{j} {{ ' + ', '.join(f'a{q}: u32' for q in range(v[1])) + ' },')
        der = DERIVES if sh.get('derive_diff', True) else PLAIN_DERIVES
        out.append(der + f'pub enum {sh["name"]} {{\n' + '\n'.join(body) + '\n}\n')
        # Wire
        arms_from = []; arms_to = []
        for j, v in enumerate(sh['variants']):
            if v[0] == 'unit':
                arms_from.append(f'            {j} => Some({sh["name"]}::V{j}),')
                arms_to.append(f'            {sh["name"]}::V{j} => tag("e", vec![n({j})]),')
            elif v[0] == 'ftuple':
                args = ', '.join(f'<f64 as Wire>::from_sx(l.get({2 + q})?)?' for q in range(v[1]))
                arms_from.append(f'            {j} => Some({sh["name"]}::V{j}({args})),')
                pats = ', '.join(f'x{q}' for q in range(v[1]))
                arms_to.append(f'            {sh["name"]}::V{j}({pats}) => tag("e", vec![n({j}), ' + ', '.join(f'x{q}.to_sx()' for q in range(v[1])) + ']),')
            elif v[0] == 'tuple':
                args = ', '.join(f'l[{2 + q}].nat()? as u32' for q in range(v[1]))
                arms_from.append(f'            {j} => Some({sh["name"]}::V{j}({args})),')
                pats = ', '.join(f'x{q}' for q in range(v[1]))
                arms_to.append(f'            {sh["name"]}::V{j}({pats}) => tag("e", vec![n({j}), ' + ', '.join(f'n(*x{q} as usize)' for q in range(v[1])) + ']),')
            else:
                args = ', '.join(f'a{q}: l[{2 + q}].nat()? as u32' for q in range(v[1]))
                arms_from.append(f'            {j} => Some({sh["name"]}::V{j} {{ {args} }}),')
                pats = ', '.join(f'a{q}' for q in range(v[1]))
                arms_to.append(f'            {sh["name"]}::V{j} {{ {pats} }} => tag("e", vec![n({j}), ' + ', '.join(f'n(*a{q} as usize)' for q in range(v[1])) + ']),')
        out.append(f'''impl Wire for {sh["name"]} {{
    fn from_sx(x: &Sx) -> Option<Self> {{
        let l = x.list()?;
        match l.get(1)?.nat()? {{
{chr(10).join(arms_from)}
            _ => None,
        }}
    }}
    fn to_sx(&self) -> Sx {{
        match self {{
{chr(10).join(arms_to)}
        }}
    }}
}}
''')
        return
    for f in sh['fields']:
        if 'inner' in f:
            if f['k'] == 'plain':
                f['inner']['derive_diff'] = f['inner'].get('derive_diff', False)
            gen_types(f['inner'], out, seen)
        if 'en' in f:
            f['en']['derive_diff'] = False
            gen_types(f['en'], out, seen)
    generic = sh.get('generic')
    gp = '<T>' if generic else ''
    elem = 'T' if generic else 'u32'
    sattr = '#[difference(setters)]\n' if sh.get('all_setters') else ''
    body = ''
    for i, f in enumerate(sh['fields']):
        body += (field_attrs(f, i, sh) if sh.get('derive_diff', True) else '') + f'    pub f{i}: {rust_field_type(f, elem)},\n'
    der = DERIVES if sh.get('derive_diff', True) else PLAIN_DERIVES
    out.append(der + sattr + f'pub struct {sh["name"]}{gp} {{\n{body}}}\n')
    inst = f'{sh["name"]}<u32>' if generic else sh['name']
    fr = ', '.join(f'f{i}: Wire::from_sx(l.get({i + 1})?)?' for i in range(len(sh['fields'])))
    to = ', '.join(f'self.f{i}.to_sx()' for i in range(len(sh['fields'])))
    out.append(f'''impl Wire for {inst} {{
    fn from_sx(x: &Sx) -> Option<Self> {{
        let l = x.list()?;
        Some({sh["name"]} {{ {fr} }})
    }}
    fn to_sx(&self) -> Sx {{
        tag("s", vec![{to}])
    }}
}}
''')


def setter_name(sh, i):
    """the name the macro generates for field i, or None when it generates none (model of shared.rs attrs_setter)"""
    f = sh['fields'][i]
    if f['skip']:
        return None
    if f['k'] == 'recmap' and f['mode'] == 'kv':
        return None
    attrs = sh.get('setters', {}).get(i, [])
    skip_setter = 'skip_setter' in attrs
    local = 'setter' in attrs
    nm = None
    for a in attrs:
        m = re.match(r'setter_name\s*=\s*"(\w+)"', a)
        if m: nm = m.group(1)
    if skip_setter:
        return None
    if sh.get('all_setters') or local:
        return nm or f'set_f{i}_with_diff'
    return None


def gen_rust(shapes, with_setters=False):
    out = ['// GENERATED by /verif/tools/shapes.py -- derive shapes for the correspondence harness; do not edit\n',
           '#![allow(non_camel_case_types, dead_code, unused_imports, clippy::all)]\n',
           'use crate::sx::*;\nuse crate::wire::Wire;\nuse crate::h_derive::{run, ret_sx};\nuse structdiff::{Difference, StructDiff};\n',
           'use std::collections::{BTreeMap, BTreeSet, HashMap, HashSet, LinkedList, VecDeque};\n',
           '#[cfg(feature = "nanoserde")]\nuse nanoserde::{DeBin, SerBin};\n\n']
    seen = set()
    global LAST_RANGES
    LAST_RANGES = []           # (first line, last line, index of the top-level shape that introduced the text)
    for idx, sh in enumerate(shapes):
        before = ''.join(out).count('\n')
        gen_types(sh, out, seen)
        LAST_RANGES.append((before + 1, ''.join(out).count('\n'), idx))
    arms = []
    for i, sh in enumerate(shapes):
        inst = f'{sh["name"]}<u32>' if sh.get('generic') else sh['name']
        arms.append(f'        {i} => run::<{inst}>(op, args),')
    out.append('pub fn run_shape(id: usize, op: &str, args: &[Sx]) -> Sx {\n    match id {\n' + '\n'.join(arms) +
               '\n        _ => tag("bad-shape", vec![]),\n    }\n}\n')
    warms = []
    for i, sh in enumerate(shapes):
        inst = f'{sh["name"]}<u32>' if sh.get('generic') else sh['name']
        warms.append(f'        {i} => crate::h_wire::wire::<{inst}>(args),')
    out.append('pub fn wire_shape(id: usize, args: &[Sx]) -> Sx {\n    match id {\n' + '\n'.join(warms) +
               '\n        _ => tag("bad-shape", vec![]),\n    }\n}\n')
    dwarms = [w.replace('h_wire::wire::<', 'h_wire::wire_dec::<') for w in warms]
    out.append('pub fn wiredec_shape(id: usize, args: &[Sx]) -> Sx {\n    match id {\n' + '\n'.join(dwarms) +
               '\n        _ => tag("bad-shape", vec![]),\n    }\n}\n')
    # setters (only compiled with the generated_setters feature)
    sarms = []
    for i, sh in enumerate(shapes):
        if sh['t'] != 'struct' or not with_setters:
            continue
        inst = f'{sh["name"]}<u32>' if sh.get('generic') else sh['name']
        farms = []
        for j, f in enumerate(sh['fields']):
            nm = setter_name(sh, j)
            if nm:
                farms.append(f'                {j} => Some(ret_sx(x.{nm}(Wire::from_sx(v)?))),')
        sarms.append(f'''        {i} => {{
            let mut x: {inst} = Wire::from_sx(xs)?;
            let mut rets = Vec::new();
            for c in calls {{
                let c = c.list()?;
                let v = &c[1];
                let r = match c[0].nat()? {{
{chr(10).join(farms)}
                    _ => None,
                }};
                rets.push(r.unwrap_or(a("nosetter")));
            }}
            Some((rets, x.to_sx()))
        }}''')
    out.append('#[cfg(feature = "generated_setters")]\npub fn set_shape(id: usize, xs: &Sx, calls: &[Sx]) -> Option<(Vec<Sx>, Sx)> {\n    match id {\n' +
               '\n'.join(sarms) + '\n        _ => None,\n    }\n}\n')
    out.append('#[cfg(not(feature = "generated_setters"))]\npub fn set_shape(_id: usize, _xs: &Sx, _calls: &[Sx]) -> Option<(Vec<Sx>, Sx)> {\n    None\n}\n')
    return ''.join(out)


# ------------------------------------------------------------------ values

NAN, NEGZ = 999999, 1000001      # protocol codes of f64 NaN and -0.0 (Derive.nanCode / Derive.negZero)


def gen_f64(rnd):
    r = rnd.random()
    if r < 0.03: return NAN
    if r < 0.30: return NEGZ
    if r < 0.60: return 0
    return rnd.randrange(1, 4)


def eqf(a, b):
    """`==` of f64 on protocol codes"""
    a, b = int(a), int(b)
    return a != NAN and b != NAN and (0 if a == NEGZ else a) == (0 if b == NEGZ else b)


def gen_value(sh, rnd, small=True):
    if sh['t'] == 'enum':
        j = rnd.randrange(len(sh['variants']))
        v = sh['variants'][j]
        n = 0 if v[0] == 'unit' else v[1]
        if v[0] == 'ftuple':
            return ['e', j] + [gen_f64(rnd) for _ in range(n)]
        return ['e', j] + [rnd.randrange(3) for _ in range(n)]
    return ['s'] + [gen_field(f, rnd) for f in sh['fields']]


def gen_field(f, rnd):
    k = f['k']
    if k == 'plain':
        r = f.get('rty', 'u32')
        if r == 'u32': return rnd.randrange(4)
        if r == 'f64': return gen_f64(rnd)
        if r == 'Option<u32>': return 'none' if rnd.random() < 0.4 else ['some', rnd.randrange(3)]
        if r == 'struct': return gen_value(f['inner'], rnd)
        if r == 'enum': return gen_value(f['en'], rnd)
    if k == 'recurse': return gen_value(f['inner'], rnd)
    if k == 'ropt': return 'none' if rnd.random() < 0.35 else ['some', gen_value(f['inner'], rnd)]
    if k == 'ordered':
        n = rnd.choice([0, 1, 3, 6, 12, 20]) if rnd.random() < 0.8 else rnd.randrange(20, 45)
        return ['l'] + [rnd.randrange(5) for _ in range(n)]
    if k == 'unord':
        if f['cont'] in ('HashSet', 'BTreeSet'):
            return ['l'] + sorted(rnd.sample(range(12), rnd.randrange(0, 8)))
        return ['l'] + [rnd.randrange(6) for _ in range(rnd.randrange(0, 9))]
    if k == 'map':
        ks = rnd.sample(range(10), rnd.randrange(0, 7))
        return ['p'] + [[x, rnd.randrange(3)] for x in sorted(ks)]
    if k == 'recmap':
        ks = rnd.sample(range(8), rnd.randrange(0, 5))
        return ['m'] + [[x, gen_value(f['inner'], rnd)] for x in sorted(ks)]
    raise ValueError(k)


def mutate_value(sh, v, rnd, p=0.35, only_skipped=False):
    """a mutation of v touching some fields (leader's next state)"""
    if sh['t'] == 'enum':
        if only_skipped:
            # an enum has no skipped part: an equivalent follower holds a value that is `==`: the same value, or one that
            # differs in the sign of a float zero
            var = sh['variants'][int(v[1])]
            if var[0] == 'ftuple':
                return list(v[:2]) + [(rnd.choice([0, NEGZ]) if int(x) in (0, NEGZ) else x) for x in v[2:]]
            return v
        if rnd.random() >= p:
            return v
        if rnd.random() < 0.6:
            w = enum_same_variant(sh, v, rnd)
            if w is not None:
                return w
        return gen_value(sh, rnd)
    out = ['s']
    for f, x in zip(sh['fields'], v[1:]):
        if only_skipped:
            out.append(gen_field(f, rnd) if f['skip'] else mutate_inner(f, x, rnd, only_skipped=True))
        elif rnd.random() < p:
            out.append(mutate_field(f, x, rnd))
        else:
            out.append(x)
    return out


def enum_same_variant(sh, v, rnd):
    """the same variant with ONE payload component changed (None for a data-less variant): the pair a derived `==`
    must look inside the variant for"""
    var = sh['variants'][int(v[1])]
    n = 0 if var[0] == 'unit' else var[1]
    if n == 0:
        return None
    w = list(v); q = 2 + rnd.randrange(n)
    if var[0] == 'ftuple':
        old = int(w[q])
        for _ in range(20):
            c = gen_f64(rnd)
            if c != old: w[q] = c; break
    else:
        w[q] = (int(w[q]) + 1 + rnd.randrange(2)) % 4
    return w


def flip_zeros(sh, v):
    """every float zero replaced by the zero of the other sign: `==` to v under the derived PartialEq, rendered differently
    (returns v itself when it holds no float zero outside NaN-carrying parts)"""
    if sh['t'] == 'enum':
        var = sh['variants'][int(v[1])]
        if var[0] == 'ftuple':
            return list(v[:2]) + [({0: NEGZ, NEGZ: 0}.get(int(x), x)) for x in v[2:]]
        return v
    out = ['s']
    for f, x in zip(sh['fields'], v[1:]):
        k = f['k']; r = f.get('rty', 'u32')
        if k == 'plain' and r == 'f64': out.append({0: NEGZ, NEGZ: 0}.get(int(x), x))
        elif k == 'plain' and r == 'enum': out.append(flip_zeros(f['en'], x))
        elif k == 'plain' and r == 'struct': out.append(flip_zeros(f['inner'], x))
        elif k == 'recurse': out.append(flip_zeros(f['inner'], x))
        elif k == 'ropt' and x != 'none': out.append(['some', flip_zeros(f['inner'], x[1])])
        else: out.append(x)
    return out


def has_float(sh):
    if sh['t'] == 'enum':
        return any(v[0] == 'ftuple' for v in sh['variants'])
    for f in sh['fields']:
        if f['k'] == 'plain' and f.get('rty') == 'f64': return True
        if f['k'] == 'plain' and f.get('rty') == 'enum' and has_float(f['en']): return True
        if (f['k'] in ('recurse', 'ropt') or (f['k'] == 'plain' and f.get('rty') == 'struct')) and has_float(f['inner']): return True
    return False


def gen_zeroish(sh, rnd):
    """a value whose float payloads are all zeros (of either sign), an enum in a float-carrying variant when it has one"""
    if sh['t'] == 'enum':
        fl = [j for j, v in enumerate(sh['variants']) if v[0] == 'ftuple']
        if not fl:
            return gen_value(sh, rnd)
        j = rnd.choice(fl)
        return ['e', j] + [rnd.choice([0, NEGZ]) for _ in range(sh['variants'][j][1])]
    out = ['s']
    for f in sh['fields']:
        k = f['k']; r = f.get('rty', 'u32')
        if k == 'plain' and r == 'f64': out.append(rnd.choice([0, NEGZ]))
        elif k == 'plain' and r == 'enum': out.append(gen_zeroish(f['en'], rnd))
        elif k == 'plain' and r == 'struct': out.append(gen_zeroish(f['inner'], rnd))
        elif k == 'recurse': out.append(gen_zeroish(f['inner'], rnd))
        elif k == 'ropt': out.append(['some', gen_zeroish(f['inner'], rnd)])
        else: out.append(gen_field(f, rnd))
    return out


def plain_only(sh):
    """every field is plain (any value type) or a nested / optional nested value of such a type: a diff of this type may be
    applied to ANY value of the type (C06: "d need not have been computed from x for plain fields")"""
    if sh['t'] == 'enum':
        return True
    for f in sh['fields']:
        if f['k'] == 'plain': continue
        if f['k'] in ('recurse', 'ropt') and plain_only(f['inner']): continue
        return False
    return True


def mutate_inner(f, x, rnd, only_skipped):
    k = f['k']
    if k == 'plain' and f.get('rty') == 'f64' and int(x) in (0, NEGZ):
        return rnd.choice([0, NEGZ])          # `==`-equal, not identical
    if k == 'plain' and f.get('rty') == 'enum':
        return mutate_value(f['en'], x, rnd, only_skipped=True)
    if k == 'recurse' or (k == 'plain' and f.get('rty') == 'struct'):
        return mutate_value(f['inner'], x, rnd, only_skipped=True) if k == 'recurse' else x
    if k == 'ropt' and x != 'none':
        return ['some', mutate_value(f['inner'], x[1], rnd, only_skipped=True)]
    if k == 'recmap':
        return ['m'] + [[kv[0], mutate_value(f['inner'], kv[1], rnd, only_skipped=True)] for kv in x[1:]]
    return x


def mutate_field(f, x, rnd):
    k = f['k']
    r = rnd.random()
    if k in ('ordered', 'unord') and r < 0.7 and not (k == 'unord' and f['cont'] in ('HashSet', 'BTreeSet')):
        l = list(x[1:])
        for _ in range(rnd.randrange(1, 4)):
            q = rnd.random()
            if q < 0.4 and l: del l[rnd.randrange(len(l))]
            elif q < 0.8: l.insert(rnd.randrange(len(l) + 1), rnd.randrange(6))
            elif l: l[rnd.randrange(len(l))] = rnd.randrange(6)
        return ['l'] + l
    if k == 'recurse' and r < 0.7:
        return mutate_value(f['inner'], x, rnd, 0.5)
    if k == 'ropt' and x != 'none' and r < 0.5:
        return ['some', mutate_value(f['inner'], x[1], rnd, 0.5)]
    if k == 'recmap' and r < 0.7:
        kvs = [list(kv) for kv in x[1:]]
        out = []
        for kk, vv in kvs:
            q = rnd.random()
            if q < 0.2: continue
            out.append([kk, mutate_value(f['inner'], vv, rnd, 0.5) if q < 0.6 else vv])
        if rnd.random() < 0.4:
            nk = rnd.randrange(8)
            if all(kv[0] != nk for kv in out):
                out.append([nk, gen_value(f['inner'], rnd)])
        return ['m'] + sorted(out, key=lambda kv: kv[0])
    if k == 'map' and r < 0.7:
        d = {kv[0]: kv[1] for kv in x[1:]}
        for _ in range(rnd.randrange(1, 3)):
            q = rnd.random()
            if q < 0.3 and d: del d[rnd.choice(sorted(d))]
            elif q < 0.6: d[rnd.randrange(10)] = rnd.randrange(3)
            elif d: kk = rnd.choice(sorted(d)); d[kk] = (d[kk] + 1) % 3
        return ['p'] + [[a, b] for a, b in sorted(d.items())]
    return gen_field(f, rnd)


def shuffle_unordered(sh, v, rnd):
    """an equivalent value: unordered Vec/LinkedList collections in a different element order"""
    if sh['t'] == 'enum':
        return v
    out = ['s']
    for f, x in zip(sh['fields'], v[1:]):
        k = f['k']
        if k == 'unord' and f['cont'] in ('Vec', 'LinkedList'):
            l = list(x[1:]); rnd.shuffle(l); out.append(['l'] + l)
        elif k == 'recurse':
            out.append(shuffle_unordered(f['inner'], x, rnd))
        elif k == 'ropt' and x != 'none':
            out.append(['some', shuffle_unordered(f['inner'], x[1], rnd)])
        elif k == 'recmap':
            out.append(['m'] + [[kv[0], shuffle_unordered(f['inner'], kv[1], rnd)] for kv in x[1:]])
        else:
            out.append(x)
    return out


def follower_of(sh, v, rnd):
    """equivalent but not identical: skipped fields re-randomised (also inside nested values), unordered collections shuffled"""
    return shuffle_unordered(sh, mutate_value(sh, v, rnd, only_skipped=True), rnd)


# ------------------------------------------------------------------ canonical forms

def canon_value(sh, v, ignore_skipped=False):
    """canonical comparable form of a protocol value; unordered collections sorted"""
    if isinstance(v, str) and v == 'panic':
        return 'panic'
    if sh['t'] == 'enum':
        return ('e',) + tuple(int(x) for x in v[1:])
    out = []
    for f, x in zip(sh['fields'], v[1:]):
        if ignore_skipped and f['skip']:
            out.append('_'); continue
        out.append(canon_field(f, x, ignore_skipped))
    return ('s',) + tuple(out)


def canon_field(f, x, ignore_skipped=False):
    k = f['k']
    if k == 'plain':
        r = f.get('rty', 'u32')
        if r in ('u32', 'f64'): return int(x)
        if r == 'Option<u32>': return 'none' if x == 'none' else ('some', int(x[1]))
        if r == 'struct': return canon_value(f['inner'], x)
        if r == 'enum': return canon_value(f['en'], x)
    if k == 'recurse': return canon_value(f['inner'], x, ignore_skipped)
    if k == 'ropt': return 'none' if x == 'none' else ('some', canon_value(f['inner'], x[1], ignore_skipped))
    if k == 'ordered': return ('l',) + tuple(int(a) for a in x[1:])
    if k == 'unord': return ('l',) + tuple(sorted(int(a) for a in x[1:]))
    if k == 'map': return ('p',) + tuple(sorted((int(a[0]), int(a[1])) for a in x[1:]))
    if k == 'recmap': return ('m',) + tuple(sorted(((int(a[0]), canon_value(f['inner'], a[1], ignore_skipped)) for a in x[1:]), key=lambda t: t[0]))
    raise ValueError(k)


# --- Debug-rendered values (from the oracle's generic Debug reader) -> protocol values

def dbg_f64(d):
    """Debug rendering of an f64 -> protocol code"""
    d = str(d)
    if d == 'NaN': return NAN
    if d == '-0.0': return NEGZ
    return int(float(d))


def dbg_value(sh, d):
    """d: Sx produced by dbg() for a Rust value of shape sh -> protocol value"""
    if sh['t'] == 'enum':
        if isinstance(d, str):
            return ['e', int(d[1:])]
        j = int(d[0][1:])
        conv = dbg_f64 if sh['variants'][j][0] == 'ftuple' else int
        args = []
        for a in d[1:]:
            if isinstance(a, list) and a and a[0] == 'kv': args.append(conv(a[2]))
            else: args.append(conv(a))
        return ['e', j] + args
    fields = {kv[1]: kv[2] for kv in d[1:] if isinstance(kv, list) and kv and kv[0] == 'kv'}
    return ['s'] + [dbg_field(f, fields[f'f{i}']) for i, f in enumerate(sh['fields'])]


def dbg_field(f, d):
    k = f['k']
    if k == 'plain':
        r = f.get('rty', 'u32')
        if r == 'u32': return int(d)
        if r == 'f64': return dbg_f64(d)
        if r == 'Option<u32>': return 'none' if d == 'None' else ['some', int(d[1])]
        if r == 'struct': return dbg_value(f['inner'], d)
        if r == 'enum': return dbg_value(f['en'], d)
    if k == 'recurse': return dbg_value(f['inner'], d)
    if k == 'ropt': return 'none' if d == 'None' else ['some', dbg_value(f['inner'], d[1])]
    if k in ('ordered', 'unord'): return ['l'] + [int(a) for a in d[1:]]
    if k == 'map': return ['p'] + [[int(a[1]), int(a[2])] for a in d[1:]]
    if k == 'recmap': return ['m'] + [[int(a[1]), dbg_value(f['inner'], a[2])] for a in d[1:]]
    raise ValueError(k)


def canon_entries_impl(sh, d):
    """d: Sx of `Vec<Diff>` Debug rendering: (list entry...) -> canonical entries"""
    items = d[1:] if (isinstance(d, list) and d and d[0] == 'list') else d
    out = []
    for e in items:
        out.append(canon_entry_impl(sh, e))
    return tuple(out)


def canon_entry_impl(sh, e):
    if sh['t'] == 'enum':
        # Replace(value)
        return (0, 'val', canon_value(sh, dbg_value(sh, e[1])))
    name = e[0] if isinstance(e, list) else e
    full = name.endswith('_full')
    idx = int(name[1:-5]) if full else int(name[1:])
    f = sh['fields'][idx]
    k = f['k']
    arg = e[1] if isinstance(e, list) and len(e) > 1 else None
    if k == 'plain':
        return (idx, 'val', canon_field(f, dbg_field(f, arg)))
    if k == 'recurse':
        return (idx, 'nested', canon_entries_impl(f['inner'], arg))
    if k == 'ropt':
        if full: return (idx, 'full', canon_value(f['inner'], dbg_value(f['inner'], arg)))
        if arg == 'None': return (idx, 'optnone')
        return (idx, 'optsome', canon_entries_impl(f['inner'], arg[1]))
    if k == 'ordered':
        from props.ordcommon import norm_script
        return (idx, 'script', norm_script(arg))
    if k == 'unord':
        from props.unord import canon_udiff
        return (idx, 'uarr', canon_udiff(['some', arg]))
    if k == 'map':
        from props.unord import canon_mdiff
        return (idx, 'umap', canon_mdiff(['some', arg]))
    if k == 'recmap':
        body = arg[1]            # (UnorderedMapLikeRecursiveDiffOwned (Replace|Modify (list ...)))
        kind = body[0]; items = body[1][1:] if (len(body) > 1 and isinstance(body[1], list) and body[1] and body[1][0] == 'list') else body[1:]
        if kind == 'Replace':
            return (idx, 'rmap', ('Replace', tuple(sorted(((int(t[1]), canon_value(f['inner'], dbg_value(f['inner'], t[2]))) for t in items), key=lambda z: z[0]))))
        cs = []
        for c in items:
            if c[0] == 'Insert':
                t = c[1]; cs.append(('Insert', int(t[1]), canon_value(f['inner'], dbg_value(f['inner'], t[2]))))
            elif c[0] == 'Remove':
                cs.append(('Remove', int(c[1])))
            else:
                t = c[1]; cs.append(('Change', int(t[1]), canon_entries_impl(f['inner'], t[2])))
        return (idx, 'rmap', ('Modify', tuple(sorted(cs, key=lambda z: (z[1], z[0])))))
    raise ValueError(k)


def canon_entries_model(sh, d):
    """d: model rendering ((i payload) ...) -> canonical entries"""
    return tuple(canon_entry_model(sh, e) for e in d)


def canon_entry_model(sh, e):
    idx = int(e[0]); p = e[1]
    if sh['t'] == 'enum':
        return (0, 'val', canon_value(sh, p[1]))
    f = sh['fields'][idx]
    k = f['k']
    tagp = p if isinstance(p, str) else p[0]
    if tagp == 'val': return (idx, 'val', canon_field(f, p[1]))
    if tagp == 'nested': return (idx, 'nested', canon_entries_model(f['inner'], p[1]))
    if tagp == 'optsome': return (idx, 'optsome', canon_entries_model(f['inner'], p[1]))
    if tagp == 'optnone': return (idx, 'optnone')
    if tagp == 'full': return (idx, 'full', canon_value(f['inner'], p[1]))
    if tagp == 'script':
        from props.ordcommon import norm_script
        return (idx, 'script', norm_script(p[1]))
    if tagp == 'uarr':
        from props.unord import canon_udiff
        return (idx, 'uarr', canon_udiff(['some', p[1]]))
    if tagp == 'umap':
        from props.unord import canon_mdiff
        return (idx, 'umap', canon_mdiff(['some', p[1]]))
    if tagp == 'rmap':
        body = p[1]
        if body[0] == 'Replace':
            return (idx, 'rmap', ('Replace', tuple(sorted(((int(t[0]), canon_value(f['inner'], t[1])) for t in body[1]), key=lambda z: z[0]))))
        cs = []
        for c in body[1]:
            if c[0] == 'Insert': cs.append(('Insert', int(c[1]), canon_value(f['inner'], c[2])))
            elif c[0] == 'Remove': cs.append(('Remove', int(c[1])))
            else: cs.append(('Change', int(c[1]), canon_entries_model(f['inner'], c[2])))
        return (idx, 'rmap', ('Modify', tuple(sorted(cs, key=lambda z: (z[1], z[0])))))
    raise ValueError(tagp)


LAST_RANGES = []


def blame(cargo_output):
    """indices of the top-level shapes whose generated declarations rustc (or the macro) rejects"""
    bad = set()
    for m in re.finditer(r'--> src/gen_shapes\.rs:(\d+):', cargo_output):
        ln = int(m.group(1))
        for a, b, idx in LAST_RANGES:
            if a <= ln <= b:
                bad.add(idx)
    return sorted(bad)


def shape_text(sh):
    out = []
    gen_types(sh, out, set())
    return ''.join(out)


def write_shapes(shapes, with_setters=False):
    from params import write_if_changed
    write_if_changed(os.path.join(VERIF, 'harness/src/gen_shapes.rs'), gen_rust(shapes, with_setters))
