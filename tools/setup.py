#!/usr/bin/env python3
"""MANIFEST.setup_cmd: build the framework offline from files on disk."""
import os, sys, glob
sys.path.insert(0, os.path.dirname(os.path.abspath(__file__)))
import core, params

P, notes = params.run()
for n in notes:
    print('translator note:', n)
props = sorted(os.path.basename(p)[:-5] for p in glob.glob(os.path.join(core.LEAN, 'SdModel/Props/C*.lean')))
targets = ['SdModel.Props.' + p for p in props] + ['sddriver']
rc, out, dt = core.sh(['lake', 'build'] + targets, cwd=core.LEAN, timeout=7200)
print(out[-3000:])
print(f'lake build rc={rc} in {dt:.0f}s')
res = core.Result('setup', 'quick', 0)
b = core.build_harness(res)
print('harness:', b, res.extra.get('cargo_build_s'))
if b is None:
    print(res.extra.get('cargo_error', '')[-3000:])
sys.exit(0 if (rc == 0 and b) else 1)
