#!/bin/sh
# Parallel form of tools/seeds_regress.sh: N copies of /verif (without .work), each with its own detached worktree of
# /repo, run the quick check of the targeted property against a share of the kept seeded changes. /repo itself is
# never modified. Honours VERIF_SEED (to measure how much a catch depends on the check's random streams).
# usage: tools/seeds_regress_lanes.sh [N=3] [base dir=/tmp]     -- removes its copies and worktrees when done
N=${1:-3}; BASE=${2:-/tmp}
cd /verif || exit 2
ids=$(ls seeded)
k=0
while [ $k -lt $N ]; do
  k=$((k+1))
  git -C /repo worktree add --detach "$BASE/lrepo$k" HEAD >/dev/null 2>&1 || { echo "cannot create worktree $BASE/lrepo$k"; exit 2; }
  rm -rf "$BASE/lverif$k"; rsync -a --exclude '.work' --exclude '.git' --exclude 'replay' /verif/ "$BASE/lverif$k/"
  sed -i "s#path = \"/repo\"#path = \"$BASE/lrepo$k\"#" "$BASE/lverif$k/harness/Cargo.toml" "$BASE/lverif$k/harness_decl/Cargo.toml"
  : > "$BASE/lane$k.ids"
done
n=0
for id in $ids; do n=$((n+1)); echo -n "$id " >> "$BASE/lane$(( (n % N) + 1 )).ids"; done
lane() {
  L="$BASE/lverif$1"; R="$BASE/lrepo$1"
  cd "$L" || exit 2
  export SDV_REPO="$R"
  for id in $(cat "$BASE/lane$1.ids"); do
    prop=$(python3 -c "import json;print(json.load(open('seeded/$id/meta.json'))['property_broken'])")
    if ! git -C "$R" apply --3way "$L/seeded/$id/patch.diff" 2>/dev/null && ! git -C "$R" apply "$L/seeded/$id/patch.diff"; then
      echo "$id $prop PATCH-DOES-NOT-APPLY"; git -C "$R" reset -q; git -C "$R" checkout -- .; continue
    fi
    out=$(./check "$prop" --tier quick 2>&1 | grep -E "^(VIOLATION|OK)" | head -1)
    git -C "$R" reset -q; git -C "$R" checkout -- .
    case "$out" in
      VIOLATION*no-failing-input-found) echo "$id $prop caught-without-input" ;;
      VIOLATION*) echo "$id $prop caught" ;;
      *) echo "$id $prop MISSED ($out)" ;;
    esac
  done
}
k=0
while [ $k -lt $N ]; do k=$((k+1)); lane $k > "$BASE/lane$k.log" 2>&1 & done
wait
cat "$BASE"/lane*.log | sort
miss=$(cat "$BASE"/lane*.log | grep -vc " caught$")
k=0
while [ $k -lt $N ]; do
  k=$((k+1))
  git -C /repo worktree remove --force "$BASE/lrepo$k"; rm -rf "$BASE/lverif$k" "$BASE/lane$k.ids" "$BASE/lane$k.log"
done
git -C /repo worktree prune
[ "$miss" = "0" ]
