#!/usr/bin/env python3
"""./check <Cxx> --tier quick|thorough [--replay FILE]"""
import sys, os, json, argparse, importlib, time
sys.path.insert(0, os.path.dirname(os.path.abspath(__file__)))
import core, params, sx


def main():
    ap = argparse.ArgumentParser()
    ap.add_argument('prop')
    ap.add_argument('--tier', default=os.environ.get('VERIF_TIER', 'quick'))
    ap.add_argument('--replay')
    a = ap.parse_args()
    prop = a.prop.upper()
    seed = int(os.environ.get('VERIF_SEED', '20260930'))
    tier = a.tier if a.tier in ('quick', 'thorough') else 'quick'
    res = core.Result(prop, tier, seed)
    try:
        P, notes = params.run()
        for n in notes:
            res.note('translator: ' + n)
        res.extra['params'] = {k: v for k, v in P.items() if k not in ('tables', 'decl')}
        mod = importlib.import_module('props.' + prop.lower())
    except Exception:
        # the translator or the check's own module cannot even be loaded: never silence, never a pass
        import traceback
        tb = traceback.format_exc()
        print(tb, file=sys.stderr)
        res.corr['model_disagreements'].append({'what': 'internal error of the check before it could run (translator or check module failed to load; the property is not shown to hold)', 'traceback': tb[-3000:]})
        sys.exit(core.finish(res, 'exploration', {}, [], False))
    ctx = {'params': P}
    if a.replay:
        rp = json.load(open(a.replay))
        f = rp.get('failure') or {}
        reqs = f.get('requests') or ([f['request']] if 'request' in f else [])
        if not reqs:
            for d in rp.get('model_disagreements', []):
                if 'request' in d:
                    reqs.append(d['request'])
        ctx['replay_requests'] = reqs
        print(f'replaying {len(reqs)} request(s) from {a.replay}')
    try:
        rc = mod.run(res, ctx)
    except Exception:
        # an internal error must never look like a pass, and never like silence: the property is not shown to hold
        import traceback
        tb = traceback.format_exc()
        print(tb, file=sys.stderr)
        res.corr['model_disagreements'].append({'what': 'internal error of the check while evaluating responses (the property is not shown to hold)', 'traceback': tb[-3000:]})
        rc = core.finish(res, getattr(mod, 'LEVEL', 'exploration'), {}, getattr(mod, 'ASSUMPTIONS', []), False)
    sys.exit(rc)


if __name__ == '__main__':
    main()
