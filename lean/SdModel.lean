import SdModel.Model.Slots
import SdModel.Model.Rope
