import SdModel.Model.Sx
import SdModel.Model.Slots
import SdModel.Model.Rope
import SdModel.Gen.Params
import SdModel.Model.Script
import SdModel.Model.Codec
import SdModel.Model.Lev
import SdModel.Model.UArr
import SdModel.Model.UMap
import SdModel.Model.RMap
import Driver.Derive
import SdModel.Lemmas.WireBridge
import SdModel.Model.Cost

open Sx

/-! ## slots -/
namespace DSlots
open Slots

def cellOf : Sx → Option (Cell Nat)
  | .atom "_" => some none
  | .list [i, v] => do some (some ((← nat? i), (← nat? v)))
  | _ => none

def cellsOf : Sx → Option (List (Cell Nat))
  | .list l => l.mapM cellOf
  | _ => none

def cellSx : Cell Nat → Sx
  | none => .atom "_"
  | some (i, v) => .list [ofNat i, ofNat v]

def stateSx (N : Nat) (s : AM Nat) : List Sx :=
  [tag "cells" (s.cells.map cellSx), tag "cnt" [ofNat s.cnt], tag "inv" [ofBool (invB N s)], tag "abs" [ofNats (abs s)]]

def optSx : Option Nat → Sx
  | none => .atom "none"
  | some v => ofNat v

def run (N : Nat) (s : AM Nat) (legacy : Bool) : Sx → Sx
  | .list [.atom "insert", p, v] =>
    match nat? p, nat? v with
    | some p, some v => match insert s p v with
      | .ok s' => tag "ok" (stateSx N s')
      | .error _ => tag "panic" []
    | _, _ => tag "bad-op" []
  | .list [.atom "remove", p] =>
    match nat? p with
    | some p => match remove s p with
      | .ok (v, s') => tag "ok" (tag "ret" [ofNat v] :: stateSx N s')
      | .error _ => tag "panic" []
    | _ => tag "bad-op" []
  | .list [.atom "swap", a, b] =>
    match nat? a, nat? b with
    | some a, some b => match swap s a b with
      | .ok s' => tag "ok" (stateSx N s')
      | .error _ => tag "panic" []
    | _, _ => tag "bad-op" []
  | .list [.atom "drain", lo, hi] =>
    match nat? lo, (if hi == .atom "inf" then some none else (nat? hi).map some) with
    | some lo, some hi => match drain s ⟨lo, hi⟩ with
      | .ok (vals, s') => tag "ok" (tag "ret" [ofNats vals] :: stateSx N s')
      | .error _ => tag "panic" []
    | _, _ => tag "bad-op" []
  | .list [.atom "drainrev", lo, hi] =>
    -- `drain(range).rev()`: the drained items, consumed from the back (`Drain::next_back`)
    match nat? lo, (if hi == .atom "inf" then some none else (nat? hi).map some) with
    | some lo, some hi => match drain s ⟨lo, hi⟩ with
      | .ok (vals, s') => tag "ok" (tag "ret" [ofNats vals.reverse] :: stateSx N s')
      | .error _ => tag "panic" []
    | _, _ => tag "bad-op" []
  | .list [.atom "extend", vs] =>
    match nats? vs with
    | some vs => tag "ok" (stateSx N (extend s vs))
    | _ => tag "bad-op" []
  | .list [.atom "index", i] =>
    match nat? i with
    | some i => match index s i with
      | .ok v => tag "ok" [tag "ret" [ofNat v]]
      | .error _ => tag "panic" []
    | _ => tag "bad-op" []
  | .list [.atom "set", i, v] =>
    match nat? i, nat? v with
    | some i, some v => match set s i v with
      | .ok s' => tag "ok" (stateSx N s')
      | .error _ => tag "panic" []
    | _, _ => tag "bad-op" []
  | .list [.atom "len"] => tag "ok" [tag "ret" [ofNat s.cnt]]
  | .list [.atom "iter"] => tag "ok" [tag "ret" [ofNats (iter s)]]
  | .list [.atom "into"] => tag "ok" [tag "ret" [ofNats (intoList s)]]
  | .list [.atom "rev"] => tag "ok" [tag "ret" [ofNats (intoListRev legacy s)]]
  | .list [.atom "deque", .list pat] =>
    let bs := pat.map (fun x => x == .atom "b")
    tag "ok" [tag "ret" [.list ((OIter.run legacy (intoIter s) bs).map optSx)]]
  | .list [.atom "judge"] => tag "ok" (stateSx N s)
  | _ => tag "bad-op" []

def handle (legacy : Bool) : List Sx → Sx
  | [n, cells, cnt, op] =>
    match nat? n, cellsOf cells, nat? cnt with
    | some N, some cs, some c => run N ⟨cs, c⟩ legacy op
    | _, _, _ => tag "bad-req" []
  | [n, .list [.atom "fromiter", vs]] =>
    match nat? n, nats? vs with
    | some N, some vs => match fromIter N vs with
      | .ok s => tag "ok" (stateSx N s)
      | .error _ => tag "panic" []
    | _, _ => tag "bad-req" []
  | _ => tag "bad-req" []
end DSlots

/-! ## rope -/
namespace DRope
open Rope

def P : Params := Gen.ropeParams

def chunksOf? : Sx → Option (Chunks Nat)
  | .list l => l.mapM nats?
  | _ => none

def chunksSx (r : Chunks Nat) : Sx := .list (r.map ofNats)

def obs (P : Params) (r : Chunks Nat) : List Sx :=
  [tag "chunks" [chunksSx r], tag "inv" [ofBool (invB P r)], tag "flat" [ofNats (flat r)], tag "len" [ofNat (len r)],
   tag "iter" [match iter r with | .ok l => ofNats l | .error _ => .atom "panic"],
   tag "into" [ofNats (intoList r)]]

def res (P : Params) : Except String (Chunks Nat) → Sx
  | .ok r => tag "ok" (obs P r)
  | .error _ => tag "panic" []

def paramsOf : Sx → Option Params
  | .atom "prod" => some Gen.ropeParams
  | .atom "small" => some Gen.ropeParamsSmall
  | .list [a, b, c, d, e, f] => do
    some ⟨← nat? a, ← nat? b, ← nat? c, ← nat? d, ← nat? e, ← nat? f⟩
  | _ => none

def run (P : Params) (r : Chunks Nat) : Sx → Sx
  | .list [.atom "insert", i, v] =>
    match nat? i, nat? v with
    | some i, some v => res P (insert P r i v)
    | _, _ => tag "bad-op" []
  | .list [.atom "remove", i] =>
    match nat? i with
    | some i => res P (remove P r i)
    | _ => tag "bad-op" []
  | .list [.atom "drain", l, h] =>
    match nat? l, nat? h with
    | some l, some h => res P (drain P r l h)
    | _, _ => tag "bad-op" []
  | .list [.atom "swap", a, b] =>
    match nat? a, nat? b with
    | some a, some b => res P (swap r a b)
    | _, _ => tag "bad-op" []
  | .list [.atom "set", i, v] =>
    match nat? i, nat? v with
    | some i, some v => res P (set r i v)
    | _, _ => tag "bad-op" []
  | .list [.atom "index", i] =>
    match nat? i with
    | some i => match index r i with
      | .ok v => tag "ok" [tag "ret" [ofNat v]]
      | .error _ => tag "panic" []
    | _ => tag "bad-op" []
  | .list [.atom "judge"] => tag "ok" (obs P r)
  | _ => tag "bad-op" []

def handle (legacy : Bool) : List Sx → Sx
  | [p, .list [.atom "new"]] =>
    match paramsOf p with
    | some P => tag "ok" (obs P (new legacy))
    | none => tag "bad-req" []
  | [p, .list [.atom "fromiter", vs]] =>
    match paramsOf p, nats? vs with
    | some P, some vs => tag "ok" (obs P (fromIter P vs))
    | _, _ => tag "bad-req" []
  | [p, chunks, op] =>
    match paramsOf p, chunksOf? chunks with
    | some P, some r => run P r op
    | _, _ => tag "bad-req" []
  | _ => tag "bad-req" []
end DRope


/-! ## ordered scripts, diff algorithms, codecs -/
namespace DOrd
open Script

def nanCode : Nat := 999999
def eqNat (a b : Nat) : Bool := a == b
def eqNan (a b : Nat) : Bool := a == b && a != nanCode

def costs : Lev.Costs := ⟨Gen.deleteCost, Gen.replaceCost, Gen.insertCost⟩

def changeSx : Change Nat → Sx
  | .replace v i => tag "Replace" [ofNat v, ofNat i]
  | .insert v i => tag "Insert" [ofNat v, ofNat i]
  | .delete i none => tag "Delete" [ofNat i, .atom "None"]
  | .delete i (some r) => tag "Delete" [ofNat i, tag "Some" [ofNat r]]
  | .swap a b => tag "Swap" [ofNat a, ofNat b]

def changeOf : Sx → Option (Change Nat)
  | .list [.atom "Replace", v, i] => do some (.replace (← nat? v) (← nat? i))
  | .list [.atom "Insert", v, i] => do some (.insert (← nat? v) (← nat? i))
  | .list [.atom "Delete", i, .atom "None"] => do some (.delete (← nat? i) none)
  | .list [.atom "Delete", i, .list [.atom "Some", r]] => do some (.delete (← nat? i) (some (← nat? r)))
  | .list [.atom "Swap", a, b] => do some (.swap (← nat? a) (← nat? b))
  | _ => none

def scriptOf : Sx → Option (List (Change Nat))
  | .list l => l.mapM changeOf
  | _ => none

def scriptSx (s : List (Change Nat)) : Sx := .list (s.map changeSx)

def fmtOf : Sx → Option Codec.Fmt
  | .atom "nano" => some .nano
  | .atom "bincode" => some .bincode
  | _ => none

def applied (s : List (Change Nat)) (src : List Nat) : List Sx :=
  [tag "list" [match runList s src with | some r => ofNats r | none => .atom "oob"],
   tag "rope" [match Script.apply Gen.ropeParams s src with | .ok r => ofNats r | .error _ => .atom "panic"]]

def diffResp (r : Option (List (Change Nat))) (src : List Nat) (withWire : Bool) : Sx :=
  match r with
  | none => tag "none" []
  | some s =>
    tag "some" ([tag "script" [scriptSx s]] ++
      (if withWire then
        [tag "nano-owned" [ofNats (Codec.encScript .nano s)], tag "nano-ref" [ofNats (Codec.encScriptRef .nano s)],
         tag "bincode-owned" [ofNats (Codec.encScript .bincode s)], tag "bincode-ref" [ofNats (Codec.encScriptRef .bincode s)]]
       else []) ++ applied s src)

def handle (name : String) : List Sx → Sx
  | [t, s] =>
    match nats? t, nats? s with
    | some t, some s =>
      match name with
      | "lev" => diffResp (Lev.levenshtein eqNat costs t s) s true
      | "hirsch" => diffResp (Lev.hirschberg eqNat costs Gen.levCutoff t s) s true
      | "lev-nan" => diffResp (Lev.levenshtein eqNan costs t s) s false
      | "hirsch-nan" => diffResp (Lev.hirschberg eqNan costs Gen.levCutoff t s) s false
      | _ => tag "bad-req" []
    | _, _ => tag "bad-req" []
  | _ => tag "bad-req" []

def handleCost : List Sx → Sx
  | [t, s] =>
    match nats? t, nats? s with
    | some t, some s =>
      tag "ok" [tag "cells" [ofNat (Cost.hirschCost eqNat costs Gen.levCutoff t s 0 t.length 0 s.length)],
                tag "bound" [ofNat ((Gen.levCutoff + 3) * (t.length + s.length + 1))],
                tag "script" [ofNat (match Lev.hirschberg eqNat costs Gen.levCutoff t s with | some d => d.length | none => 0)]]
    | _, _ => tag "bad-req" []
  | _ => tag "bad-req" []

def handleEnc : List Sx → Sx
  | [f, s] =>
    match fmtOf f, scriptOf s with
    | some f, some s => tag "bytes" [ofNats (Codec.encScript f s)]
    | _, _ => tag "bad-req" []
  | _ => tag "bad-req" []

def handleApplyBytes : List Sx → Sx
  | [f, bs, l] =>
    match fmtOf f, nats? bs, nats? l with
    | some f, some bs, some l =>
      match Codec.decScript f bs with
      | some (s, []) =>
        tag "ok" ([tag "decoded" [scriptSx s], tag "reenc" [ofNats (Codec.encScript f s)]] ++ applied s l)
      | _ => tag "reject" []
    | _, _, _ => tag "bad-req" []
  | _ => tag "bad-req" []
end DOrd


/-! ## unordered collections -/
namespace DUn

def uchangeSx : UArr.Change Nat → Sx
  | .insertMany x n => tag "InsertMany" [ofNat x, ofNat n]
  | .removeMany x n => tag "RemoveMany" [ofNat x, ofNat n]
  | .insertFew x n => tag "InsertFew" [ofNat x, ofNat n]
  | .removeFew x n => tag "RemoveFew" [ofNat x, ofNat n]
  | .insertSingle x => tag "InsertSingle" [ofNat x]
  | .removeSingle x => tag "RemoveSingle" [ofNat x]

def udiffSx : UArr.Diff Nat → Sx
  | .replace l => tag "Replace" [ofNats l]
  | .modify es => tag "Modify" [.list (es.map uchangeSx)]

def uarr (three : Bool) : List Sx → Sx
  | p :: c :: rest =>
    match nats? p, nats? c, (if three then rest.head?.bind nats? else nats? p) with
    | some p, some c, some b =>
      let r := UArr.hashcmpA Gen.fewMax p c
      match r.1 with
      | none => tag "none" [tag "asserts" [ofBool r.2]]
      | some d => tag "some" [udiffSx d, tag "asserts" [ofBool r.2], tag "applied" [ofNats (UArr.apply b d)]]
    | _, _, _ => tag "bad-req" []
  | _ => tag "bad-req" []

def pairsOf : Sx → Option (List (Nat × Nat))
  | .list l => l.mapM fun
    | .list [a, b] => do some ((← nat? a), (← nat? b))
    | _ => none
  | _ => none

def pairsSx (l : List (Nat × Nat)) : Sx := .list (l.map fun (a, b) => .list [ofNat a, ofNat b])

def mchangeSx : UMap.Change Nat Nat → Sx
  | .insertMany k v n => tag "InsertMany" [ofNat k, ofNat v, ofNat n]
  | .removeMany k n => tag "RemoveMany" [ofNat k, ofNat n]
  | .insertSingle k v => tag "InsertSingle" [ofNat k, ofNat v]
  | .removeSingle k => tag "RemoveSingle" [ofNat k]

def mdiffSx : UMap.Diff Nat Nat → Sx
  | .replace l => tag "Replace" [pairsSx l]
  | .modify es => tag "Modify" [.list (es.map mchangeSx)]

def umap (three : Bool) : List Sx → Sx
  | mode :: p :: c :: rest =>
    match pairsOf p, pairsOf c, (if three then rest.head?.bind pairsOf else pairsOf p) with
    | some p, some c, some b =>
      let r := UMap.hashcmpA p c (mode == .atom "ko")
      match r.1 with
      | none => tag "none" [tag "asserts" [ofBool r.2]]
      | some d => tag "some" [mdiffSx d, tag "asserts" [ofBool r.2], tag "applied" [pairsSx (UMap.apply b d)]]
    | _, _, _ => tag "bad-req" []
  | _ => tag "bad-req" []

/-! wire formats of the unordered diffs: `(uenc fmt diff)`, `(udec fmt (bytes))`, `(menc ..)`, `(mdec ..)`;
diffs are written `(Replace (x ..))` / `(Modify ((InsertMany x n) ..))` exactly as `udiffSx` / `mdiffSx` print them -/

def uchangeOf : Sx → Option (UArr.Change Nat)
  | .list [.atom "InsertMany", x, n] => do some (.insertMany (← nat? x) (← nat? n))
  | .list [.atom "RemoveMany", x, n] => do some (.removeMany (← nat? x) (← nat? n))
  | .list [.atom "InsertFew", x, n] => do some (.insertFew (← nat? x) (← nat? n))
  | .list [.atom "RemoveFew", x, n] => do some (.removeFew (← nat? x) (← nat? n))
  | .list [.atom "InsertSingle", x] => do some (.insertSingle (← nat? x))
  | .list [.atom "RemoveSingle", x] => do some (.removeSingle (← nat? x))
  | _ => none

def udiffOf : Sx → Option (UArr.Diff Nat)
  | .list [.atom "Replace", l] => (nats? l).map .replace
  | .list [.atom "Modify", .list es] => (es.mapM uchangeOf).map .modify
  | _ => none

def mchangeOf : Sx → Option (UMap.Change Nat Nat)
  | .list [.atom "InsertMany", k, v, n] => do some (.insertMany (← nat? k) (← nat? v) (← nat? n))
  | .list [.atom "RemoveMany", k, n] => do some (.removeMany (← nat? k) (← nat? n))
  | .list [.atom "InsertSingle", k, v] => do some (.insertSingle (← nat? k) (← nat? v))
  | .list [.atom "RemoveSingle", k] => do some (.removeSingle (← nat? k))
  | _ => none

def mdiffOf : Sx → Option (UMap.Diff Nat Nat)
  | .list [.atom "Replace", l] => (pairsOf l).map .replace
  | .list [.atom "Modify", .list es] => (es.mapM mchangeOf).map .modify
  | _ => none

def fmtOf : Sx → Option Codec.Fmt
  | .atom "nano" => some .nano
  | .atom "bincode" => some .bincode
  | _ => none

def wireEnc (isMap : Bool) : List Sx → Sx
  | [f, d] =>
    match fmtOf f with
    | none => tag "bad-req" []
    | some f =>
      if isMap then
        match mdiffOf d with
        | some d => tag "ok" [tag "owned" [ofNats (Codec.encMDiff f d)], tag "ref" [ofNats (Codec.encMDiffRef f d)]]
        | none => tag "bad-req" []
      else
        match udiffOf d with
        | some d => tag "ok" [tag "owned" [ofNats (Codec.encUDiff f d)], tag "ref" [ofNats (Codec.encUDiffRef f d)]]
        | none => tag "bad-req" []
  | _ => tag "bad-req" []

def wireDec (isMap : Bool) : List Sx → Sx
  | [f, bs] =>
    match fmtOf f, nats? bs with
    | some f, some bs =>
      if isMap then
        match Codec.decMDiff f bs with
        | some (d, []) => tag "ok" [mdiffSx d, tag "reenc" [ofNats (Codec.encMDiff f d)]]
        | _ => tag "reject" []
      else
        match Codec.decUDiff f bs with
        | some (d, []) => tag "ok" [udiffSx d, tag "reenc" [ofNats (Codec.encUDiff f d)]]
        | _ => tag "reject" []
    | _, _ => tag "bad-req" []
  | _ => tag "bad-req" []
/-! derived struct diffs of shapes whose fields are flat (`u32`, `Option<u32>`) or recursive maps of flat values:
`(senc fmt (skip ..) (kind ..) ((j payload) ..))`, `(sdec fmt (skip ..) (kind ..) (bytes))`;
skip: 0/1 per field; kind: `0` = u32, `1` = Option<u32>, `(rm (skip ..) (opt ..))` = recursive map of that value type;
payload: `v` | `none` | `(some v)` | `(Replace ((k (v ..)) ..))` | `(Modify ((Insert k (v ..)) | (Remove k) | (Change k ((j v) ..)) ..))` -/

def pvOf : Sx → Option Codec.PV
  | .atom "none" => some (.o none)
  | .list [.atom "some", v] => do some (.o (some (← nat? v)))
  | v => do some (.u (← nat? v))

def pvSx : Codec.PV → Sx
  | .u v => ofNat v
  | .o none => .atom "none"
  | .o (some v) => tag "some" [ofNat v]

def flagsOf (x : Sx) : Option (List Bool) := (nats? x).map (·.map (· != 0))

def kindOf : Sx → Option Codec.FKind
  | .list [.atom "rm", sk, op] => do some (.rmap ⟨← flagsOf sk, ← flagsOf op⟩)
  | .list [.atom "ne", sk, op] => do some (.nested ⟨← flagsOf sk, ← flagsOf op⟩)
  | .list [.atom "on", sk, op] => do some (.optNested ⟨← flagsOf sk, ← flagsOf op⟩)
  | .atom "ord" => some .ord
  | .atom "uarr" => some .uarr
  | .atom "umap" => some .umap
  | v => do some (.flat ((← nat? v) != 0))

def leafEntryOf : Sx → Option (Nat × Codec.PV)
  | .list [j, v] => do some (← nat? j, ← pvOf v)
  | _ => none

def valsOf : Sx → Option (List Codec.PV)
  | .list vs => vs.mapM pvOf
  | _ => none

def rchangeOf : Sx → Option (RMap.Change Nat (List Codec.PV) (List (Nat × Codec.PV)))
  | .list [.atom "Insert", k, vs] => do some (.insert (← nat? k) (← valsOf vs))
  | .list [.atom "Remove", k] => do some (.remove (← nat? k))
  | .list [.atom "Change", k, .list es] => do some (.change (← nat? k) (← es.mapM leafEntryOf))
  | _ => none

def kvOf : Sx → Option (Nat × List Codec.PV)
  | .list [k, vs] => do some (← nat? k, ← valsOf vs)
  | _ => none

/-- the payload syntax depends on the field's kind (`Replace` / `Modify` are used by three diff types); returns the
alternative (enum variant of the field) with the payload -/
def plOf (k : Codec.FKind) (x : Sx) : Option (Nat × Codec.PL) :=
  match k with
  | .flat _ => (pvOf x).map fun p => (0, .pv p)
  | .nested _ => match x with
    | .list es => (es.mapM leafEntryOf).map fun es => (0, .ne es)
    | _ => none
  | .optNested _ => match x with
    | .atom "none" => some (0, .on none)
    | .list [.atom "some", .list es] => (es.mapM leafEntryOf).map fun es => (0, .on (some es))
    | .list [.atom "full", vs] => (valsOf vs).map fun vs => (1, .full vs)
    | _ => none
  | .ord => (DOrd.scriptOf x).map fun s => (0, .sc s)
  | .uarr => (udiffOf x).map fun d => (0, .ua d)
  | .umap => (mdiffOf x).map fun d => (0, .um d)
  | .rmap _ => match x with
    | .list [.atom "Replace", .list l] => do some (0, .rm (.replace (← l.mapM kvOf)))
    | .list [.atom "Modify", .list es] => do some (0, .rm (.modify (← es.mapM rchangeOf)))
    | _ => none

def entryOf (kinds : List Codec.FKind) : Sx → Option ((Nat × Nat) × Codec.PL)
  | .list [j, v] => do
    let j ← nat? j
    let (a, p) ← plOf (kinds.getD j (.flat false)) v
    some ((j, a), p)
  | _ => none

def leafEntriesSx (es : List (Nat × Codec.PV)) : Sx := .list (es.map fun (j, p) => .list [ofNat j, pvSx p])
def valsSx (vs : List Codec.PV) : Sx := .list (vs.map pvSx)

def plSx : Codec.PL → Sx
  | .pv p => pvSx p
  | .ne es => leafEntriesSx es
  | .on none => .atom "none"
  | .on (some es) => tag "some" [leafEntriesSx es]
  | .full vs => tag "full" [valsSx vs]
  | .sc sc => DOrd.scriptSx sc
  | .ua d => udiffSx d
  | .um d => mdiffSx d
  | .rm (.replace l) => tag "Replace" [.list (l.map fun (k, vs) => .list [ofNat k, valsSx vs])]
  | .rm (.modify es) => tag "Modify" [.list (es.map fun c => match c with
      | .insert k vs => tag "Insert" [ofNat k, valsSx vs]
      | .remove k => tag "Remove" [ofNat k]
      | .change k d => tag "Change" [ofNat k, leafEntriesSx d])]

def fieldCdc (f : Codec.Fmt) (kinds : List Codec.FKind) (j alt : Nat) : Codec.Cdc Codec.PL :=
  Codec.plCdc f (kinds.getD j (.flat false)) alt

def widths (skips : List Bool) (kinds : List Codec.FKind) : List Nat :=
  (skips.zip kinds).map fun (s, k) => if s then 0 else k.width

def encRefEntries (f : Codec.Fmt) (ws : List Nat) (kinds : List Codec.FKind) (es : List ((Nat × Nat) × Codec.PL)) : List Nat :=
  Codec.encList (fun e => Codec.encDTag f (Codec.rankW ws e.1.1 + e.1.2) ++ Codec.plEncRef f (kinds.getD e.1.1 (.flat false)) e.1.2 e.2) es

def structEnc : List Sx → Sx
  | [f, sk, .list ks, .list es] =>
    match fmtOf f, flagsOf sk, ks.mapM kindOf with
    | some f, some sk, some ks =>
      match es.mapM (entryOf ks) with
      | none => tag "bad-req" []
      | some es =>
        let ws := widths sk ks
        tag "ok" [tag "owned" [ofNats (Codec.encEntriesW f ws (fieldCdc f ks) es)], tag "ref" [ofNats (encRefEntries f ws ks es)]]
    | _, _, _ => tag "bad-req" []
  | _ => tag "bad-req" []

def structDec : List Sx → Sx
  | [f, sk, .list ks, bs] =>
    match fmtOf f, flagsOf sk, ks.mapM kindOf, nats? bs with
    | some f, some sk, some ks, some bs =>
      let ws := widths sk ks
      -- like `bincode::deserialize` and `DeBin::deserialize_bin`, trailing bytes are not an error
      match Codec.decEntriesW f ws (fieldCdc f ks) bs with
      | some (es, _) => tag "ok" [.list (es.map fun ((j, _), p) => .list [ofNat j, plSx p]),
                                  tag "reenc" [ofNats (Codec.encEntriesW f ws (fieldCdc f ks) es)]]
      | _ => tag "reject" []
    | _, _, _, _ => tag "bad-req" []
  | _ => tag "bad-req" []
/-- `(dwire fmt ty (skip ..) (kind ..) a b)`: the DERIVE model's diff of (a, b), re-expressed in the wire model by
`Derive.toWire` and encoded: the bytes the real encoder must produce (up to the order of hash-ordered change lists) -/
def deriveWire : List Sx → Sx
  | [f, ty, sk, .list ks, a, b] =>
    match fmtOf f, DDerive.tyOf ty, flagsOf sk, ks.mapM kindOf, DDerive.valOf a, DDerive.valOf b with
    | some f, some t, some sk, some ks, some a, some b =>
      match Derive.toWire ((Derive.semTy t).diff a b), Derive.toWire ((Derive.semTy t).diffRef a b) with
      | some w, some wr =>
        let ws := widths sk ks
        tag "ok" [tag "owned" [ofNats (Codec.encEntriesW f ws (fieldCdc f ks) w)], tag "ref" [ofNats (encRefEntries f ws ks wr)]]
      | _, _ => tag "not-flat" []
    | _, _, _, _, _, _ => tag "bad-req" []
  | _ => tag "bad-req" []
end DUn

def dispatch (legacy : Bool) (x : Sx) : Sx :=
  match x with
  | .list (.atom "slots" :: rest) => DSlots.handle legacy rest
  | .list (.atom "rope" :: rest) => DRope.handle legacy rest
  | .list (.atom "lev" :: rest) => DOrd.handle "lev" rest
  | .list (.atom "hirsch" :: rest) => DOrd.handle "hirsch" rest
  | .list (.atom "lev-nan" :: rest) => DOrd.handle "lev-nan" rest
  | .list (.atom "hirsch-nan" :: rest) => DOrd.handle "hirsch-nan" rest
  | .list (.atom "enc" :: rest) => DOrd.handleEnc rest
  | .list (.atom "cost" :: rest) => DOrd.handleCost rest
  | .list (.atom "derive" :: rest) => DDerive.handle rest
  | .list (.atom "uarr-cmp" :: rest) => DUn.uarr false rest
  | .list (.atom "uarr-apply3" :: rest) => DUn.uarr true rest
  | .list (.atom "umap-cmp" :: rest) => DUn.umap false rest
  | .list (.atom "umap-apply3" :: rest) => DUn.umap true rest
  | .list (.atom "apply-bytes" :: rest) => DOrd.handleApplyBytes rest
  | .list (.atom "uenc" :: rest) => DUn.wireEnc false rest
  | .list (.atom "menc" :: rest) => DUn.wireEnc true rest
  | .list (.atom "udec" :: rest) => DUn.wireDec false rest
  | .list (.atom "mdec" :: rest) => DUn.wireDec true rest
  | .list (.atom "senc" :: rest) => DUn.structEnc rest
  | .list (.atom "sdec" :: rest) => DUn.structDec rest
  | .list (.atom "dwire" :: rest) => DUn.deriveWire rest
  | _ => tag "bad-req" []

partial def loop (legacy : Bool) (h : IO.FS.Stream) (out : IO.FS.Stream) : IO Unit := do
  let line ← h.getLine
  if line.isEmpty then return ()
  let t := line.trimAscii.toString
  if t.isEmpty then
    out.putStrLn ""
  else
    match Sx.parse t with
    | some x => out.putStrLn (toString (dispatch legacy x))
    | none => out.putStrLn "(bad-parse)"
  loop legacy h out

def main (args : List String) : IO Unit := do
  let legacy := args.contains "--legacy"
  loop legacy (← IO.getStdin) (← IO.getStdout)
