import SdModel.Model.Sx
import SdModel.Model.Derive

/-! driver commands for derived types (C01-C06, C13, C15) -/
namespace DDerive
open Sx Derive

partial def tyOf : Sx → Option Ty
  | .atom "enum" => some .enum
  | .list (.atom "struct" :: fs) => do
    let fields ← fs.mapM fieldOf
    some (.struct (fields.foldr (fun (s, k) acc => .cons s k acc) .nil))
  | _ => none
where
  fieldOf : Sx → Option (Bool × Kind)
    | .list [s, k] => do
      let skip := s == .atom "1"
      let kind ← kindOf k
      some (skip, kind)
    | _ => none
  kindOf : Sx → Option Kind
    | .atom "plain" => some .plain
    | .atom "ordered" => some .ordered
    | .atom "unord" => some .unordArr
    | .list [.atom "map", m] => some (.map (m == .atom "ko"))
    | .list [.atom "recurse", t] => do some (.recurse (← tyOf t))
    | .list [.atom "ropt", t] => do some (.recurseOpt (← tyOf t))
    | .list [.atom "recmap", m, t] => do some (.recMap (m == .atom "ko") (← tyOf t))
    | _ => none

partial def valOf : Sx → Option Val
  | .atom "none" => some .onone
  | .atom s => s.toNat?.map Val.atom
  | .list (.atom "l" :: xs) => (xs.mapM nat?).map Val.list
  | .list (.atom "e" :: xs) =>
    -- an enum value: variant index + payload atoms, compared field by field with the atoms' own `==`
    (xs.mapM nat?).map fun ns => Val.strct (Vals.ofList ((Val.atom 2000000) :: ns.map Val.atom))
  | .list (.atom "p" :: xs) => (xs.mapM fun
      | Sx.list [a, b] => do some ((← nat? a), (← nat? b))
      | _ => none).map Val.pairs
  | .list (.atom "s" :: xs) => do
    let vs ← xs.mapM valOf
    some (.strct (Vals.ofList vs))
  | .list [.atom "some", v] => do some (.osome (← valOf v))
  | .list (.atom "m" :: xs) => do
    let kvs ← xs.mapM fun
      | Sx.list [k, v] => do some ((← nat? k), (← valOf v))
      | _ => none
    some (.rmap (RMapV.ofList kvs))
  | _ => none

partial def valSx : Val → Sx
  | .atom n => ofNat n
  | .list l => tag "l" (l.map ofNat)
  | .pairs l => tag "p" (l.map fun (a, b) => .list [ofNat a, ofNat b])
  | .strct (.cons (.atom 2000000) rest) => tag "e" (rest.toList.map valSx)
  | .strct vs => tag "s" (vs.toList.map valSx)
  | .onone => .atom "none"
  | .osome v => tag "some" [valSx v]
  | .rmap m => tag "m" (m.toList.map fun (k, v) => .list [ofNat k, valSx v])

def changeSx : Script.Change Nat → Sx
  | .replace v i => tag "Replace" [ofNat v, ofNat i]
  | .insert v i => tag "Insert" [ofNat v, ofNat i]
  | .delete i none => tag "Delete" [ofNat i, .atom "None"]
  | .delete i (some r) => tag "Delete" [ofNat i, tag "Some" [ofNat r]]
  | .swap a b => tag "Swap" [ofNat a, ofNat b]

def uchangeSx : UArr.Change Nat → Sx
  | .insertMany x n => tag "InsertMany" [ofNat x, ofNat n]
  | .removeMany x n => tag "RemoveMany" [ofNat x, ofNat n]
  | .insertFew x n => tag "InsertFew" [ofNat x, ofNat n]
  | .removeFew x n => tag "RemoveFew" [ofNat x, ofNat n]
  | .insertSingle x => tag "InsertSingle" [ofNat x]
  | .removeSingle x => tag "RemoveSingle" [ofNat x]

def mchangeSx : UMap.Change Nat Nat → Sx
  | .insertMany k v n => tag "InsertMany" [ofNat k, ofNat v, ofNat n]
  | .removeMany k n => tag "RemoveMany" [ofNat k, ofNat n]
  | .insertSingle k v => tag "InsertSingle" [ofNat k, ofNat v]
  | .removeSingle k => tag "RemoveSingle" [ofNat k]

mutual
partial def payloadSx : Payload → Sx
  | .val v => tag "val" [valSx v]
  | .nested es => tag "nested" [entriesSx es]
  | .optSome es => tag "optsome" [entriesSx es]
  | .optNone => .atom "optnone"
  | .full v => tag "full" [valSx v]
  | .script s => tag "script" [.list (s.map changeSx)]
  | .uarr (.replace l) => tag "uarr" [tag "Replace" [ofNats l]]
  | .uarr (.modify es) => tag "uarr" [tag "Modify" [.list (es.map uchangeSx)]]
  | .umap (.replace l) => tag "umap" [tag "Replace" [.list (l.map fun (a, b) => .list [ofNat a, ofNat b])]]
  | .umap (.modify es) => tag "umap" [tag "Modify" [.list (es.map mchangeSx)]]
  | .rmap (.replace l) => tag "rmap" [tag "Replace" [.list (l.map fun (k, v) => .list [ofNat k, valSx v])]]
  | .rmap (.modify cs) => tag "rmap" [tag "Modify" [.list (cs.map fun
      | .insert k v => tag "Insert" [ofNat k, valSx v]
      | .remove k => tag "Remove" [ofNat k]
      | .change k d => tag "Change" [ofNat k, entriesSx d])]]
partial def entriesSx (es : Entries) : Sx := .list (es.map fun (i, p) => .list [ofNat i, payloadSx p])
end

def resSx : Except String Val → Sx
  | .ok v => valSx v
  | .error _ => .atom "panic"

def takeIdx (es : Entries) (idx : List Nat) : Entries := idx.filterMap fun i => es[i]?

def fieldsOf : Ty → Fields
  | .struct fs => semFields fs
  | .enum => []

/-- feed the entries one by one to `apply_single` -/
def singles (S : TySem) (x : Val) : Entries → Except String Val
  | [] => .ok x
  | e :: es => match S.applySingle x e with
    | .ok x' => singles S x' es
    | .error m => .error m

def handle : List Sx → Sx
  | [tyx, .atom "pair", a, b, f] =>
    match tyOf tyx, valOf a, valOf b, valOf f with
    | some ty, some a, some b, some f =>
      let S := semTy ty
      let d := S.diff a b
      let dr := S.diffRef a b
      tag "ok" [tag "diff" [entriesSx d], tag "diffref" [entriesSx dr],
        tag "apply" [resSx (S.apply a d)], tag "applyref" [resSx (S.applyRef a d)], tag "applymut" [resSx (S.applyMut a d)],
        tag "single" [resSx (singles S a d)], tag "applyrefd" [resSx (S.apply a dr)],
        tag "follow" [resSx (S.apply f d)], tag "followref" [resSx (S.apply f dr)],
        tag "fapplyref" [resSx (S.applyRef f d)], tag "fapplymut" [resSx (S.applyMut f d)], tag "fsingle" [resSx (singles S f d)],
        -- a diff with more than one entry per field: diff(a, b) ++ diff(b, f), applied to a
        tag "cat" [resSx (S.apply a (d ++ S.diff b f))], tag "catref" [resSx (S.applyRef a (d ++ S.diff b f))],
        tag "catmut" [resSx (S.applyMut a (d ++ S.diff b f))], tag "catsingle" [resSx (singles S a (d ++ S.diff b f))]]
    | _, _, _, _ => tag "bad-req" []
  | [tyx, .atom "subset", a, b, idx] =>
    match tyOf tyx, valOf a, valOf b, nats? idx with
    | some ty, some a, some b, some idx =>
      let S := semTy ty
      tag "ok" [tag "apply" [resSx (S.apply a (takeIdx (S.diff a b) idx))]]
    | _, _, _, _ => tag "bad-req" []
  | [tyx, .atom "history", f0, .list states] =>
    match tyOf tyx, valOf f0, states.mapM valOf with
    | some ty, some f0, some (s0 :: rest) =>
      let S := semTy ty
      let rec go (prev : Val) (f : Except String Val) : List Val → List Sx
        | [] => []
        | s :: ss =>
          let f' := match f with
            | .ok fv => S.apply fv (S.diff prev s)
            | .error m => .error m
          resSx f' :: go s f' ss
      tag "ok" [tag "followers" (go s0 (.ok f0) rest)]
    | _, _, _ => tag "bad-req" []
  | [tyx, .atom "setters", x, .list calls] =>
    match tyOf tyx, valOf x with
    | some ty, some x =>
      let fs := fieldsOf ty
      let S := semTy ty
      let rec goS (cur : Val) (acc : Entries) : List Sx → List Sx × Val × Entries
        | [] => ([], cur, acc)
        | .list [i, v] :: cs =>
          match nat? i, valOf v with
          | some i, some v =>
            match setterCall fs cur i v with
            | some (ret, cur') =>
              let r := goS cur' (acc ++ ret.toList) cs
              ((match ret with | some e => tag "some" [entriesSx [e]] | none => .atom "none") :: r.1, r.2.1, r.2.2)
            | none => let r := goS cur acc cs; (.atom "nosetter" :: r.1, r.2.1, r.2.2)
          | _, _ => ([.atom "bad-call"], cur, acc)
        | _ :: _ => ([.atom "bad-call"], cur, acc)
      let r := goS x [] calls
      tag "ok" [tag "rets" r.1, tag "final" [valSx r.2.1], tag "replay" [resSx (S.apply x r.2.2)]]
    | _, _ => tag "bad-req" []
  | _ => tag "bad-req" []

end DDerive
