import SdModel.Lemmas.WireTotal

/-!
The recursive map: every value a computed diff carries comes from the CURRENT map, and every nested diff is the
nested diff towards a value of the current map — so `toWire` is defined on it when the current map's values are flat.
-/
namespace RMap
variable {κ ν δ : Type} [DecidableEq κ]

theorem mem_kput (m : KV κ ν) (k : κ) (v : ν) (x : κ × ν) (h : x ∈ kput m k v) : x ∈ m ∨ x = (k, v) := by
  induction m with
  | nil => simp [kput] at h; exact .inr h
  | cons p t ih =>
    obtain ⟨k', w⟩ := p
    simp only [kput] at h
    split at h
    · rename_i hk
      simp only [List.mem_cons] at h
      rcases h with h | h
      · right; rw [h, hk]
      · left; exact List.mem_cons_of_mem _ h
    · simp only [List.mem_cons] at h
      rcases h with h | h
      · left; rw [h]; exact List.mem_cons_self
      · rcases ih h with h' | h'
        · left; exact List.mem_cons_of_mem _ h'
        · right; exact h'

theorem mem_foldl_kput (l m : KV κ ν) (x : κ × ν) (h : x ∈ l.foldl (fun m kv => kput m kv.1 kv.2) m) : x ∈ m ∨ x ∈ l := by
  induction l generalizing m with
  | nil => exact .inl h
  | cons p t ih =>
    simp only [List.foldl_cons] at h
    rcases ih _ h with h' | h'
    · rcases mem_kput m p.1 p.2 x h' with h'' | h''
      · exact .inl h''
      · right; rw [h'']; exact List.mem_cons_self
    · exact .inr (List.mem_cons_of_mem _ h')

theorem mem_collect (l : KV κ ν) (x : κ × ν) (h : x ∈ collect l) : x ∈ l := by
  rcases mem_foldl_kput l [] x h with h' | h'
  · cases h'
  · exact h'

theorem kerase_mem (m : KV κ ν) (k : κ) :
    (∀ v, (kerase m k).1 = some v → (k, v) ∈ m) ∧ (∀ x, x ∈ (kerase m k).2 → x ∈ m) := by
  induction m with
  | nil => simp [kerase]
  | cons p t ih =>
    obtain ⟨k', w⟩ := p
    simp only [kerase]
    split
    · rename_i hk
      constructor
      · intro v hv; simp only [Option.some.injEq] at hv; subst hv; rw [hk]; exact List.mem_cons_self
      · intro x hx; exact List.mem_cons_of_mem _ hx
    · constructor
      · intro v hv; exact List.mem_cons_of_mem _ (ih.1 v hv)
      · intro x hx
        simp only [List.mem_cons] at hx
        rcases hx with hx | hx
        · rw [hx]; exact List.mem_cons_self
        · exact List.mem_cons_of_mem _ (ih.2 x hx)

/-- what a change produced by the comparison looks like: a removal, or the nested diff towards a value of `cur` -/
def FromCur (N : Nested ν δ) (G : ν → Prop) : Change κ ν δ → Prop
  | .remove _ => True
  | .change _ d => ∃ pv cv, d = N.diff pv cv ∧ G cv
  | .insert _ v => G v

theorem loopP_fromCur (N : Nested ν δ) (keyOnly : Bool) (G : ν → Prop) :
    ∀ (prev cur : KV κ ν), (∀ x ∈ cur, G x.2) →
      (∀ c ∈ (loopP N keyOnly prev cur).1, FromCur N G c) ∧ (∀ x ∈ (loopP N keyOnly prev cur).2, G x.2)
  | [], cur, h => by
    simp only [loopP]
    exact ⟨fun c hc => (by cases hc), h⟩
  | (k, pv) :: prev, cur, h => by
    have he := kerase_mem cur k
    have ih := loopP_fromCur N keyOnly G prev (kerase cur k).2 (fun x hx => h x (he.2 x hx))
    simp only [loopP]
    cases hc : (kerase cur k).1 with
    | none =>
      simp only
      refine ⟨fun c hc' => ?_, ih.2⟩
      simp only [List.mem_cons] at hc'
      rcases hc' with rfl | hc'
      · trivial
      · exact ih.1 c hc'
    | some cv =>
      simp only
      split
      · refine ⟨fun c hc' => ?_, ih.2⟩
        simp only [List.mem_cons] at hc'
        rcases hc' with rfl | hc'
        · exact ⟨pv, cv, rfl, h (k, cv) (he.1 cv hc)⟩
        · exact ih.1 c hc'
      · exact ih

/-- every value carried by a computed recursive-map diff is a value of the current map; every nested diff leads to one -/
theorem hashcmp_fromCur (N : Nested ν δ) (prev cur : KV κ ν) (keyOnly : Bool) (G : ν → Prop) (h : ∀ x ∈ cur, G x.2)
    (d : Diff κ ν δ) (hd : hashcmp N prev cur keyOnly = some d) :
    match d with
    | .replace l => ∀ x ∈ l, G x.2
    | .modify es => ∀ c ∈ es, FromCur N G c := by
  have hc : ∀ x ∈ collect cur, G x.2 := fun x hx => h x (mem_collect cur x hx)
  simp only [hashcmp] at hd
  split at hd
  · cases hd; exact hc
  · split at hd
    · cases hd
    · cases hd
      have := loopP_fromCur N keyOnly G (collect prev) (collect cur) hc
      intro c hc'
      simp only [List.mem_append, List.mem_map] at hc'
      rcases hc' with hc' | ⟨x, hx, rfl⟩
      · exact this.1 c hc'
      · exact this.2 x hx

end RMap

namespace Derive
open Codec

theorem mapM_isSome_of_forall {α β : Type} (f : α → Option β) (l : List α) (h : ∀ x ∈ l, (f x).isSome = true) :
    (l.mapM f).isSome = true := by
  induction l with
  | nil => simp
  | cons x t ih =>
    rw [mapM_cons_isSome, h x List.mem_cons_self, ih (fun y hy => h y (List.mem_cons_of_mem _ hy))]; rfl

/-- what a recursive-map field needs: a flat value type and flat values in the target map -/
def RMapFlat (t : Ty) (b : Val) : Prop :=
  match t with
  | .struct fs => AllPlain fs ∧ ∀ m, b = .rmap m → ∀ x ∈ m.toList, ∃ y, x.2 = .strct y ∧ FlatVals y
  | .enum => False

theorem leaf_diffRef_toWire (fs : FieldTys) (h : AllPlain fs) (a b : Val) (hb : ∀ y, b = .strct y → FlatVals y) :
    (leafToWire ((semTy (.struct fs)).diffRef a b)).isSome = true := by
  simp only [semTy, structSem]
  cases a <;> cases b <;> try (simp [leafToWire]; done)
  rename_i x y
  exact leaf_sdiff_toWire (·.diffRef) plain_diffRef_cases fs h 0 x y (hb y rfl)

theorem rmap_entry_toWire (ko : Bool) (fs : FieldTys) (a b : Val) (h : RMapFlat (.struct fs) b) (i : Nat) (p : Payload)
    (hp : (semKind (.recMap ko (.struct fs))).diff a b = some p) : (entryToWire (i, p)).isSome = true := by
  obtain ⟨h1, h2⟩ := h
  simp only [semKind, recMapField, Option.map_eq_some_iff] at hp
  obtain ⟨d, hd, rfl⟩ := hp
  let G : Val → Prop := fun v => ∃ y, v = .strct y ∧ FlatVals y
  have hcur : ∀ x ∈ asRMap b, G x.2 := by
    intro x hx
    cases b <;> simp [asRMap] at hx
    rename_i m
    exact h2 m rfl x hx
  have hG : ∀ v, G v → (valsToWire v).isSome = true := by
    rintro v ⟨y, rfl, hy⟩
    simpa [valsToWire] using flatVals_toWire y hy
  have key := RMap.hashcmp_fromCur (nestedOf (semTy (.struct fs))) (asRMap a) (asRMap b) ko G hcur d hd
  simp only [entryToWire]
  suffices hs : (rdiffToWire d).isSome = true by
    cases hq : rdiffToWire d with
    | none => simp [hq] at hs
    | some q => simp
  cases d with
  | replace l =>
    simp only at key
    simp only [rdiffToWire, Option.isSome_map]
    apply mapM_isSome_of_forall
    intro x hx
    have := hG x.2 (key x hx)
    simp only [kvToWire, Option.isSome_map]; exact this
  | modify es =>
    simp only at key
    simp only [rdiffToWire, Option.isSome_map]
    apply mapM_isSome_of_forall
    intro c hc'
    have hc := key c hc'
    cases c with
    | remove k => simp [rchangeToWire]
    | insert k v =>
      simp only [RMap.FromCur] at hc
      simp only [rchangeToWire, Option.isSome_map]; exact hG v hc
    | change k dd =>
      simp only [RMap.FromCur] at hc
      obtain ⟨pv, cv, rfl, ⟨y, rfl, hy⟩⟩ := hc
      simp only [rchangeToWire, Option.isSome_map, nestedOf]
      exact leaf_diffRef_toWire fs h1 pv (.strct y) (fun z hz => by cases hz; exact hy)

/-- what the (kind, target value) of a field must be for its entry to be expressible: ALL eight templates -/
def FieldFlatAll : Kind → Val → Prop
  | .recMap _ t, b => RMapFlat t b
  | k, b => FieldFlat k b

def StructFlatAll : FieldTys → Vals → Prop
  | .nil, _ => True
  | .cons skip k r, .cons b bs => (skip = true ∨ FieldFlatAll k b) ∧ StructFlatAll r bs
  | .cons _ _ _, .nil => True

theorem field_entry_toWire_all (k : Kind) (a b : Val) (h : FieldFlatAll k b) (i : Nat) (p : Payload)
    (hp : (semKind k).diff a b = some p) : (entryToWire (i, p)).isSome = true := by
  cases k with
  | recMap ko t =>
    cases t with
    | enum => simp [FieldFlatAll, RMapFlat] at h
    | struct fs => exact rmap_entry_toWire ko fs a b h i p hp
  | plain => exact field_entry_toWire (.plain) a b (by simpa [FieldFlatAll] using h) i p hp
  | recurse t => exact field_entry_toWire (.recurse t) a b (by simpa [FieldFlatAll] using h) i p hp
  | recurseOpt t => exact field_entry_toWire (.recurseOpt t) a b (by simpa [FieldFlatAll] using h) i p hp
  | ordered => exact field_entry_toWire (.ordered) a b (by simpa [FieldFlatAll] using h) i p hp
  | unordArr => exact field_entry_toWire (.unordArr) a b (by simpa [FieldFlatAll] using h) i p hp
  | map ko => exact field_entry_toWire (.map ko) a b (by simpa [FieldFlatAll] using h) i p hp

theorem struct_sdiff_toWire_all : ∀ (fs : FieldTys) (i : Nat) (x y : Vals), StructFlatAll fs y →
    (toWire (sdiffG (·.diff) (semFields fs) i x y)).isSome = true
  | .nil, i, x, y, _ => by cases x <;> cases y <;> simp [semFields, sdiffG, toWire]
  | .cons skip k r, i, x, y, h => by
    cases x with
    | nil => simp [semFields, sdiffG, toWire]
    | cons a as =>
      cases y with
      | nil => simp [semFields, sdiffG, toWire]
      | cons b bs =>
        obtain ⟨h1, h2⟩ := h
        have ih := struct_sdiff_toWire_all r (i + 1) as bs h2
        simp only [semFields, sdiffG]
        by_cases hs : skip = true
        · simp only [hs, if_true]; exact ih
        · simp only [hs, if_false, Bool.false_eq_true]
          cases hd : (semKind k).diff a b with
          | none => exact ih
          | some p =>
            simp only
            unfold toWire at ih ⊢
            rw [mapM_cons_isSome, ih, Bool.and_true]
            exact field_entry_toWire_all k a b (h1.resolve_left hs) i p hd

/-- **`toWire` is defined on every diff of every struct type over flat element types** (all eight templates), for a
flat-shaped target -/
theorem diff_toWire_defined_all (fs : FieldTys) (a b : Val) (hb : ∀ y, b = .strct y → StructFlatAll fs y) :
    (toWire ((semTy (.struct fs)).diff a b)).isSome = true := by
  simp only [semTy, structSem]
  cases a <;> cases b <;> try (simp [toWire]; done)
  rename_i x y
  exact struct_sdiff_toWire_all fs 0 x y (hb y rfl)

end Derive
