import SdModel.Lemmas.DeriveKnot

/-!
Position-wise view of the struct-level semantics: which entry `diff` emits for which field, what `apply_single`
does to the addressed field and to all the others, and the setter bodies.  Used by C03, C04, C15.
-/
namespace Derive

/-! ### `valAt` / `setAt` -/

theorem valAt_setAt_same : ∀ (x : Vals) (j : Nat) (w v : Val), valAt x j = some v → valAt (setAt x j w) j = some w
  | .nil, _, _, _, h => by simp [valAt] at h
  | .cons _ _, 0, _, _, _ => rfl
  | .cons _ as, j+1, w, v, h => by
    simp only [valAt] at h; simp only [setAt, valAt]; exact valAt_setAt_same as j w v h

theorem valAt_setAt_ne : ∀ (x : Vals) (j i : Nat) (w : Val), i ≠ j → valAt (setAt x j w) i = valAt x i
  | .nil, _, _, _, _ => rfl
  | .cons _ _, 0, 0, _, h => absurd rfl h
  | .cons _ _, 0, _+1, _, _ => rfl
  | .cons _ _, _+1, 0, _, _ => rfl
  | .cons _ as, j+1, i+1, w, h => by simp only [setAt, valAt]; exact valAt_setAt_ne as j i w (by omega)

theorem setAt_self : ∀ (x : Vals) (j : Nat) (v : Val), valAt x j = some v → setAt x j v = x
  | .nil, _, _, _ => rfl
  | .cons _ _, 0, _, h => by simp only [valAt, Option.some.injEq] at h; subst h; rfl
  | .cons _ as, j+1, v, h => by simp only [valAt] at h; simp only [setAt, setAt_self as j v h]

theorem swt_at (fs : FS) (x : Vals) (h : SWT fs x) (j : Nat) (e : Bool × FieldSem × FieldRel) (hj : fs[j]? = some e) :
    ∃ v, valAt x j = some v ∧ e.2.2.wt v := by
  induction fs generalizing x j with
  | nil => simp at hj
  | cons e0 fs ih =>
    obtain ⟨sk, F, R⟩ := e0
    cases x with
    | nil => simp [SWT] at h
    | cons v vs =>
      cases j with
      | zero => simp only [List.getElem?_cons_zero, Option.some.injEq] at hj; subst hj; exact ⟨v, rfl, h.1⟩
      | succ j => simp only [List.getElem?_cons_succ] at hj; simpa [valAt] using ih vs h.2 j hj

theorem swt_setAt (fs : FS) (x : Vals) (h : SWT fs x) (j : Nat) (e : Bool × FieldSem × FieldRel) (hj : fs[j]? = some e)
    (w : Val) (hw : e.2.2.wt w) : SWT fs (setAt x j w) := by
  induction fs generalizing x j with
  | nil => simp at hj
  | cons e0 fs ih =>
    obtain ⟨sk, F, R⟩ := e0
    cases x with
    | nil => simp [SWT] at h
    | cons v vs =>
      cases j with
      | zero => simp only [List.getElem?_cons_zero, Option.some.injEq] at hj; subst hj; exact ⟨hw, h.2⟩
      | succ j => simp only [List.getElem?_cons_succ] at hj; exact ⟨h.1, ih vs h.2 j hj⟩

theorem sequiv_at (fs : FS) (x y : Vals) (h : SEquiv fs x y) (j : Nat) (sk : Bool) (F : FieldSem) (R : FieldRel)
    (hj : fs[j]? = some (sk, F, R)) (a f : Val) (ha : valAt x j = some a) (hf : valAt y j = some f) :
    sk = true ∨ R.equiv a f := by
  induction fs generalizing x y j with
  | nil => simp at hj
  | cons e0 fs ih =>
    obtain ⟨sk0, F0, R0⟩ := e0
    cases x with
    | nil => cases y <;> simp [SEquiv] at h
    | cons v vs =>
      cases y with
      | nil => simp [SEquiv] at h
      | cons w ws =>
        cases j with
        | zero =>
          simp only [List.getElem?_cons_zero, Option.some.injEq, Prod.mk.injEq] at hj
          obtain ⟨rfl, rfl, rfl⟩ := hj
          simp only [valAt, Option.some.injEq] at ha hf
          subst ha hf
          exact h.1
        | succ j =>
          simp only [List.getElem?_cons_succ] at hj
          exact ih vs ws h.2 j hj (by simpa [valAt] using ha) (by simpa [valAt] using hf)

theorem sequiv_setAt (fs : FS) (x y : Vals) (h : SEquiv fs x y) (j : Nat) (sk : Bool) (F : FieldSem) (R : FieldRel)
    (hj : fs[j]? = some (sk, F, R)) (a f : Val) (he : sk = true ∨ R.equiv a f) :
    SEquiv fs (setAt x j a) (setAt y j f) := by
  induction fs generalizing x y j with
  | nil => simp at hj
  | cons e0 fs ih =>
    obtain ⟨sk0, F0, R0⟩ := e0
    cases x with
    | nil => cases y <;> simp [SEquiv] at h
    | cons v vs =>
      cases y with
      | nil => simp [SEquiv] at h
      | cons w ws =>
        cases j with
        | zero =>
          simp only [List.getElem?_cons_zero, Option.some.injEq, Prod.mk.injEq] at hj
          obtain ⟨rfl, rfl, rfl⟩ := hj
          exact ⟨he, h.2⟩
        | succ j =>
          simp only [List.getElem?_cons_succ] at hj
          exact ⟨h.1, ih vs ws h.2 j hj⟩

/-! ### which entries `diff` emits -/

theorem mem_sdiffG (sel : FieldSem → Val → Val → Option Payload) (fs : FS) (i0 : Nat) (a b : Vals) (n : Nat) (p : Payload)
    (h : (n, p) ∈ sdiffG sel (fieldsOf fs) i0 a b) :
    ∃ j F R va vb, n = i0 + j ∧ fs[j]? = some (false, F, R) ∧ valAt a j = some va ∧ valAt b j = some vb ∧
      sel F va vb = some p := by
  induction fs generalizing i0 a b with
  | nil => simp [fieldsOf, sdiffG] at h
  | cons e0 fs ih =>
    obtain ⟨sk, F, R⟩ := e0
    cases a with
    | nil => simp [fieldsOf, sdiffG] at h
    | cons a0 as =>
    cases b with
    | nil => simp [fieldsOf, sdiffG] at h
    | cons b0 bs =>
      simp only [fieldsOf, List.map_cons, sdiffG] at h
      have tl : (n, p) ∈ sdiffG sel (fieldsOf fs) (i0 + 1) as bs →
          ∃ j F' R' va vb, n = i0 + j ∧ ((sk, F, R) :: fs)[j]? = some (false, F', R') ∧ valAt (.cons a0 as) j = some va ∧
            valAt (.cons b0 bs) j = some vb ∧ sel F' va vb = some p := by
        intro h'
        obtain ⟨j, F', R', va, vb, e1, e2, e3, e4, e5⟩ := ih (i0 + 1) as bs h'
        exact ⟨j + 1, F', R', va, vb, by omega, by simpa using e2, by simpa [valAt] using e3, by simpa [valAt] using e4, e5⟩
      cases sk with
      | true => simp only [if_true] at h; exact tl h
      | false =>
        simp only [Bool.false_eq_true, if_false] at h
        cases hd : sel F a0 b0 with
        | none => rw [hd] at h; exact tl h
        | some q =>
          rw [hd] at h
          rcases List.mem_cons.mp h with h | h
          · cases h
            exact ⟨0, F, R, a0, b0, rfl, rfl, rfl, rfl, hd⟩
          · exact tl h

theorem sdiffG_mem (sel : FieldSem → Val → Val → Option Payload) (fs : FS) (i0 : Nat) (a b : Vals)
    (j : Nat) (F : FieldSem) (R : FieldRel) (va vb : Val) (p : Payload)
    (hj : fs[j]? = some (false, F, R)) (ha : valAt a j = some va) (hb : valAt b j = some vb) (hp : sel F va vb = some p) :
    (i0 + j, p) ∈ sdiffG sel (fieldsOf fs) i0 a b := by
  induction fs generalizing i0 a b j with
  | nil => simp at hj
  | cons e0 fs ih =>
    obtain ⟨sk, F0, R0⟩ := e0
    cases a with
    | nil => simp [valAt] at ha
    | cons a0 as =>
    cases b with
    | nil => simp [valAt] at hb
    | cons b0 bs =>
      simp only [fieldsOf, List.map_cons, sdiffG]
      cases j with
      | zero =>
        simp only [List.getElem?_cons_zero, Option.some.injEq, Prod.mk.injEq] at hj
        obtain ⟨rfl, rfl, rfl⟩ := hj
        simp only [valAt, Option.some.injEq] at ha hb
        subst ha hb
        simp [hp]
      | succ j =>
        simp only [List.getElem?_cons_succ] at hj
        have := ih (i0 + 1) as bs j hj (by simpa [valAt] using ha) (by simpa [valAt] using hb)
        have e : i0 + (j + 1) = i0 + 1 + j := by omega
        rw [e]
        simp only [fieldsOf] at this
        cases sk with
        | true => simpa using this
        | false =>
          simp only [Bool.false_eq_true, if_false]
          cases sel F0 a0 b0 with
          | none => exact this
          | some q => exact List.mem_cons_of_mem _ this

/-- entry indices are strictly increasing (declaration order) and start at `i0` -/
theorem sdiffG_sorted (sel : FieldSem → Val → Val → Option Payload) (fs : Fields) (i0 : Nat) (a b : Vals) :
    ((sdiffG sel fs i0 a b).map (·.1)).Pairwise (· < ·) ∧ ∀ n ∈ (sdiffG sel fs i0 a b).map (·.1), i0 ≤ n := by
  fun_induction sdiffG sel fs i0 a b
  all_goals first
    | (simp; done)
    | (rename_i ih
       exact ⟨ih.1, fun n hn => by have := ih.2 n hn; omega⟩)
    | (rename_i ih
       refine ⟨?_, ?_⟩
       · simp only [List.map_cons, List.pairwise_cons]
         exact ⟨fun n hn => by have := ih.2 n hn; omega, ih.1⟩
       · intro n hn
         simp only [List.map_cons, List.mem_cons] at hn
         rcases hn with rfl | hn
         · exact Nat.le_refl _
         · have := ih.2 n hn; omega)

/-! ### what `apply_single` does -/

theorem sapplyOne_at (fs : FS) (i0 : Nat) (x : Vals) (j : Nat) (F : FieldSem) (R : FieldRel) (v v' : Val) (p : Payload)
    (hj : fs[j]? = some (false, F, R)) (hv : valAt x j = some v) (hp : F.apply v p = .ok v') :
    sapplyOne (fieldsOf fs) i0 (i0 + j, p) x = .ok (setAt x j v') := by
  induction fs generalizing i0 x j with
  | nil => simp at hj
  | cons e0 fs ih =>
    obtain ⟨sk, F0, R0⟩ := e0
    cases x with
    | nil => simp [valAt] at hv
    | cons a as =>
      cases j with
      | zero =>
        simp only [List.getElem?_cons_zero, Option.some.injEq, Prod.mk.injEq] at hj
        obtain ⟨rfl, rfl, rfl⟩ := hj
        simp only [valAt, Option.some.injEq] at hv
        subst hv
        simp [fieldsOf, sapplyOne, hp, setAt]
      | succ j =>
        simp only [List.getElem?_cons_succ] at hj
        have := ih (i0 + 1) as j hj (by simpa [valAt] using hv)
        have e : i0 + (j + 1) = i0 + 1 + j := by omega
        simp only [fieldsOf, List.map_cons, sapplyOne]
        rw [if_neg (by omega), e]
        simp only [fieldsOf] at this
        rw [this]
        rfl

/-- a skipped field has no arm: an entry addressed to it is rejected (no such variant exists in the real enum) -/
theorem sapplyOne_skipped (fs : FS) (i0 : Nat) (x : Vals) (j : Nat) (F : FieldSem) (R : FieldRel) (p : Payload)
    (hj : fs[j]? = some (true, F, R)) : ∃ m, sapplyOne (fieldsOf fs) i0 (i0 + j, p) x = .error m := by
  induction fs generalizing i0 x j with
  | nil => simp at hj
  | cons e0 fs ih =>
    obtain ⟨sk, F0, R0⟩ := e0
    cases x with
    | nil => exact ⟨_, rfl⟩
    | cons a as =>
      cases j with
      | zero =>
        simp only [List.getElem?_cons_zero, Option.some.injEq, Prod.mk.injEq] at hj
        obtain ⟨rfl, rfl, rfl⟩ := hj
        exact ⟨"no such variant", by simp [fieldsOf, sapplyOne]⟩
      | succ j =>
        simp only [List.getElem?_cons_succ] at hj
        obtain ⟨m, hm⟩ := ih (i0 + 1) as j hj
        have e : i0 + (j + 1) = i0 + 1 + j := by omega
        refine ⟨m, ?_⟩
        simp only [fieldsOf, List.map_cons, sapplyOne]
        rw [if_neg (by omega), e]
        simp only [fieldsOf] at hm
        rw [hm]

/-- conversely: a successful `apply_single` addressed an unskipped field and changed exactly that position -/
theorem sapplyOne_frame (fs : FS) (i0 : Nat) (x x' : Vals) (n : Nat) (p : Payload)
    (h : sapplyOne (fieldsOf fs) i0 (n, p) x = .ok x') :
    ∃ j F R v v', n = i0 + j ∧ fs[j]? = some (false, F, R) ∧ valAt x j = some v ∧ F.apply v p = .ok v' ∧ x' = setAt x j v' := by
  induction fs generalizing i0 x x' with
  | nil => simp [fieldsOf, sapplyOne] at h
  | cons e0 fs ih =>
    obtain ⟨sk, F0, R0⟩ := e0
    cases x with
    | nil => simp [fieldsOf, sapplyOne] at h
    | cons a as =>
      simp only [fieldsOf, List.map_cons, sapplyOne] at h
      by_cases hn : i0 = n
      · subst hn
        simp only [if_true] at h
        cases sk with
        | true => simp at h
        | false =>
          simp only [Bool.false_eq_true, if_false] at h
          cases hap : F0.apply a p with
          | error m => rw [hap] at h; cases h
          | ok v' =>
            rw [hap] at h
            simp only [Except.ok.injEq] at h
            exact ⟨0, F0, R0, a, v', rfl, rfl, rfl, hap, h.symm⟩
      · simp only [hn, if_false] at h
        cases hrec : sapplyOne (List.map (fun x => (x.fst, x.snd.fst)) fs) (i0 + 1) (n, p) as with
        | error m => rw [hrec] at h; cases h
        | ok as' =>
          rw [hrec] at h
          simp only [Except.ok.injEq] at h
          obtain ⟨j, F, R, v, v', e1, e2, e3, e4, e5⟩ := ih (i0 + 1) as as' hrec
          exact ⟨j + 1, F, R, v, v', by omega, by simpa using e2, by simpa [valAt] using e3, e4, by rw [← h, e5]; rfl⟩

/-! ### setters -/

/-- a setter body, when one is generated, returns exactly the entry a full diff would contain for that field, and it
returns BEFORE assigning only when it returns nothing because the old value is `==` to the given one -/
def SetterOK (F : FieldSem) : Prop :=
  (∀ old v ret, F.setter old v = some ret → ret = F.diff old v) ∧
  (∀ old v, F.setterKeeps old v = true → veq old v = true ∧ (∀ ret, F.setter old v = some ret → ret = none))

theorem setter_ok_kind : ∀ k : Kind, SetterOK (semKind k)
  | .plain => by
    refine ⟨fun old v ret h => ?_, fun old v hk => ?_⟩
    · simp only [semKind, plainField, Option.some.injEq] at h ⊢
      exact h.symm
    · simp only [semKind, plainField] at hk ⊢
      exact ⟨hk, fun ret h => by simp only [hk, if_true, Option.some.injEq] at h; exact h.symm⟩
  | .recurse t => by
    refine ⟨fun old v ret h => ?_, fun old v hk => ?_⟩
    · simp only [semKind, recurseField, Option.some.injEq] at h ⊢
      exact h.symm
    · simp only [semKind, recurseField] at hk ⊢
      exact ⟨hk, fun ret h => by simp only [hk, if_true, Option.some.injEq] at h; exact h.symm⟩
  | .recurseOpt t => by
    refine ⟨fun old v ret h => ?_, fun old v hk => ?_⟩
    · simp only [semKind, recurseOptField, Option.some.injEq] at h ⊢
      subst h
      cases hv : veq old v with
      | false => simp
      | true =>
        simp only [if_true]
        cases old <;> cases v <;> simp_all [veq]
    · simp only [semKind, recurseOptField] at hk ⊢
      exact ⟨hk, fun ret h => by simp only [hk, if_true, Option.some.injEq] at h; exact h.symm⟩
  | .ordered => by
    refine ⟨fun old v ret h => ?_, fun old v hk => by simp [semKind, orderedField] at hk⟩
    simp only [semKind, orderedField, Option.some.injEq] at h ⊢
    exact h.symm
  | .unordArr => by
    refine ⟨fun old v ret h => ?_, fun old v hk => by simp [semKind, unordField] at hk⟩
    simp only [semKind, unordField, Option.some.injEq] at h ⊢
    exact h.symm
  | .map ko => by
    refine ⟨fun old v ret h => ?_, fun old v hk => by simp [semKind, mapField] at hk⟩
    simp only [semKind, mapField, Option.some.injEq] at h ⊢
    exact h.symm
  | .recMap ko t => by
    refine ⟨fun old v ret h => ?_, fun old v hk => by simp [semKind, recMapField] at hk⟩
    simp only [semKind, recMapField] at h ⊢
    cases ko with
    | true => simp only [if_true, Option.some.injEq] at h; exact h.symm
    | false => simp at h

theorem setter_ok_fields : ∀ fs : FieldTys, ∀ x ∈ relFields fs, SetterOK x.2.1
  | .nil => by intro x hx; simp [relFields] at hx
  | .cons skip k rest => by
    intro x hx
    simp only [relFields, List.mem_cons] at hx
    rcases hx with rfl | hx
    · exact setter_ok_kind k
    · exact setter_ok_fields rest x hx

theorem fieldAt_fieldsOf (fs : FS) (i : Nat) : fieldAt (fieldsOf fs) i = (fs[i]?).map fun x => (x.1, x.2.1) := by
  induction fs generalizing i with
  | nil => simp [fieldsOf, fieldAt]
  | cons e fs ih =>
    cases i with
    | zero => simp [fieldsOf, fieldAt]
    | succ i => simpa [fieldsOf, fieldAt] using ih i

end Derive
