import SdModel.Lemmas.WireBridge

/-!
`Derive.toWire` is DEFINED on every diff the derive model computes for a type whose fields are flat, nested-flat,
optional nested-flat or collections (all templates except the recursive map) when the target value is flat-shaped:
the hypothesis of `C14.derive_entries_survive` is discharged for those types.
-/
namespace Derive
open Codec

theorem mapM_cons_isSome {α β : Type} (f : α → Option β) (a : α) (l : List α) :
    ((a :: l).mapM f).isSome = ((f a).isSome && (l.mapM f).isSome) := by
  simp only [List.mapM_cons, bind, Option.bind]
  cases f a with
  | none => simp
  | some b => cases l.mapM f <;> simp [pure]

/-- every field of the struct is plain -/
def AllPlain : FieldTys → Prop
  | .nil => True
  | .cons _ k r => k = .plain ∧ AllPlain r

/-- every value is a `u32` or an `Option<u32>` -/
def FlatVals : Vals → Prop
  | .nil => True
  | .cons v r => (pvOfVal v).isSome = true ∧ FlatVals r

theorem leaf_sdiff_toWire (sel : FieldSem → Val → Val → Option Payload)
    (hsel : ∀ a b, sel plainField a b = none ∨ sel plainField a b = some (.val b)) :
    ∀ (fs : FieldTys), AllPlain fs → ∀ (i : Nat) (x y : Vals), FlatVals y →
      (leafToWire (sdiffG sel (semFields fs) i x y)).isSome = true
  | .nil, _, i, x, y, _ => by cases x <;> cases y <;> simp [semFields, sdiffG, leafToWire]
  | .cons skip k r, h, i, x, y, hy => by
    obtain ⟨hk, hr⟩ := h
    subst hk
    cases x with
    | nil => simp [semFields, sdiffG, leafToWire]
    | cons a as =>
      cases y with
      | nil => simp [semFields, sdiffG, leafToWire]
      | cons b bs =>
        have ih := leaf_sdiff_toWire sel hsel r hr (i + 1) as bs hy.2
        simp only [semFields, semKind, sdiffG]
        by_cases hs : skip = true
        · simp only [hs, if_true]; exact ih
        · simp only [hs, if_false, Bool.false_eq_true]
          rcases hsel a b with h0 | h0
          · simp only [h0]; exact ih
          · simp only [h0]
            unfold leafToWire at ih ⊢
            rw [mapM_cons_isSome, ih, Bool.and_true]
            have := hy.1
            simp only [leafEntryToWire]
            cases hp : pvOfVal b with
            | none => simp [hp] at this
            | some p => simp

theorem plain_diff_cases (a b : Val) : plainField.diff a b = none ∨ plainField.diff a b = some (.val b) := by
  simp only [plainField]; split <;> simp
theorem plain_diffRef_cases (a b : Val) : plainField.diffRef a b = none ∨ plainField.diffRef a b = some (.val b) := by
  simp only [plainField]; split <;> simp

/-- the nested diff of a flat struct type is expressible on the wire when the target is flat -/
theorem leaf_diff_toWire (fs : FieldTys) (h : AllPlain fs) (a b : Val) (hb : ∀ y, b = .strct y → FlatVals y) :
    (leafToWire ((semTy (.struct fs)).diff a b)).isSome = true := by
  simp only [semTy, structSem]
  cases a <;> cases b <;> try (simp [leafToWire]; done)
  rename_i x y
  exact leaf_sdiff_toWire (·.diff) plain_diff_cases fs h 0 x y (hb y rfl)

theorem flatVals_toWire : ∀ (y : Vals), FlatVals y → (y.toList.mapM pvOfVal).isSome = true
  | .nil, _ => by simp [Vals.toList]
  | .cons v r, h => by
    rw [Vals.toList, mapM_cons_isSome, h.1, flatVals_toWire r h.2]; rfl

/-- what the (kind, target value) of a field must be for its entry to be expressible in the wire model -/
def FieldFlat : Kind → Val → Prop
  | .plain, b => (pvOfVal b).isSome = true
  | .recurse (.struct fs), b => AllPlain fs ∧ ∀ y, b = .strct y → FlatVals y
  | .recurseOpt (.struct fs), b => AllPlain fs ∧ ∀ v, b = .osome v → ∃ y, v = .strct y ∧ FlatVals y
  | .ordered, _ => True
  | .unordArr, _ => True
  | .map _, _ => True
  | _, _ => False

def StructFlat : FieldTys → Vals → Prop
  | .nil, _ => True
  | .cons skip k r, .cons b bs => (skip = true ∨ FieldFlat k b) ∧ StructFlat r bs
  | .cons _ _ _, .nil => True

theorem field_entry_toWire (k : Kind) (a b : Val) (h : FieldFlat k b) (i : Nat) (p : Payload)
    (hp : (semKind k).diff a b = some p) : (entryToWire (i, p)).isSome = true := by
  cases k with
  | plain =>
    simp only [semKind, plainField] at hp
    split at hp
    · cases hp
    · cases hp
      simp only [FieldFlat] at h
      simp only [entryToWire]
      cases hq : pvOfVal b with
      | none => simp [hq] at h
      | some q => simp
  | recurse t =>
    cases t with
    | enum => simp [FieldFlat] at h
    | struct fs =>
      obtain ⟨h1, h2⟩ := h
      simp only [semKind, recurseField] at hp
      split at hp
      · cases hp
      · cases hp
        have := leaf_diff_toWire fs h1 a b h2
        simp only [entryToWire]
        cases hq : leafToWire ((semTy (.struct fs)).diff a b) with
        | none => simp [hq] at this
        | some q => simp
  | recurseOpt t =>
    cases t with
    | enum => simp [FieldFlat] at h
    | struct fs =>
      obtain ⟨h1, h2⟩ := h
      simp only [semKind, recurseOptField] at hp
      split at hp
      · rename_i x y
        split at hp
        · cases hp
        · cases hp
          obtain ⟨yy, hy1, hy2⟩ := h2 y rfl
          have := leaf_diff_toWire fs h1 x y (fun z hz => by rw [hy1] at hz; cases hz; exact hy2)
          simp only [entryToWire]
          cases hq : leafToWire ((semTy (.struct fs)).diff x y) with
          | none => simp [hq] at this
          | some q => simp
      · cases hp; simp [entryToWire]
      · rename_i y
        cases hp
        obtain ⟨yy, hy1, hy2⟩ := h2 y rfl
        subst hy1
        have := flatVals_toWire yy hy2
        simp only [entryToWire, valsToWire]
        cases hq : yy.toList.mapM pvOfVal with
        | none => simp [hq] at this
        | some q => simp
      · cases hp
  | ordered =>
    simp only [semKind, orderedField, Option.map_eq_some_iff] at hp
    obtain ⟨s, _, rfl⟩ := hp; simp [entryToWire]
  | unordArr =>
    simp only [semKind, unordField, Option.map_eq_some_iff] at hp
    obtain ⟨s, _, rfl⟩ := hp; simp [entryToWire]
  | map ko =>
    simp only [semKind, mapField, Option.map_eq_some_iff] at hp
    obtain ⟨s, _, rfl⟩ := hp; simp [entryToWire]
  | recMap ko t => simp [FieldFlat] at h

theorem struct_sdiff_toWire : ∀ (fs : FieldTys) (i : Nat) (x y : Vals), StructFlat fs y →
    (toWire (sdiffG (·.diff) (semFields fs) i x y)).isSome = true
  | .nil, i, x, y, _ => by cases x <;> cases y <;> simp [semFields, sdiffG, toWire]
  | .cons skip k r, i, x, y, h => by
    cases x with
    | nil => simp [semFields, sdiffG, toWire]
    | cons a as =>
      cases y with
      | nil => simp [semFields, sdiffG, toWire]
      | cons b bs =>
        obtain ⟨h1, h2⟩ := h
        have ih := struct_sdiff_toWire r (i + 1) as bs h2
        simp only [semFields, sdiffG]
        by_cases hs : skip = true
        · simp only [hs, if_true]; exact ih
        · simp only [hs, if_false, Bool.false_eq_true]
          cases hd : (semKind k).diff a b with
          | none => exact ih
          | some p =>
            simp only
            unfold toWire at ih ⊢
            rw [mapM_cons_isSome, ih, Bool.and_true]
            exact field_entry_toWire k a b (h1.resolve_left hs) i p hd

/-- **`toWire` is defined on every diff of such a type**: for a struct whose unskipped fields are plain-flat, nested
flat, optional nested flat, or one of the three flat collection strategies, and a flat-shaped target `b` -/
theorem diff_toWire_defined (fs : FieldTys) (a b : Val) (hb : ∀ y, b = .strct y → StructFlat fs y) :
    (toWire ((semTy (.struct fs)).diff a b)).isSome = true := by
  simp only [semTy, structSem]
  cases a <;> cases b <;> try (simp [toWire]; done)
  rename_i x y
  exact struct_sdiff_toWire fs 0 x y (hb y rfl)

end Derive
