import SdModel.Model.Lev

/-! Helper lemmas for C07: the table the model builds is the recursively specified Levenshtein table;
backtracking with the early exit yields a correct script for an arbitrary (lawless) `eq`. -/
namespace Lev
open Script
variable {α : Type}

/-- spec-level table cell for the REVERSED prefixes `tr` of the target and `sr` of the source, for a cell rule -/
def cellG (mk : CellRule α) (eq : α → α → Bool) (C : Costs) : List α → List α → Cell
  | [], sr => ⟨.del, sr.length * C.D⟩
  | _ :: tr, [] => ⟨.ins, (tr.length + 1) * C.I⟩
  | x :: tr, y :: sr => mk eq C x y (cellG mk eq C tr sr) (cellG mk eq C tr (y :: sr)) (cellG mk eq C (x :: tr) sr)
termination_by tr sr => tr.length + sr.length

/-- the full-table rule -/
def cell (eq : α → α → Bool) (C : Costs) (tr sr : List α) : Cell := cellG mkCell eq C tr sr

/-! ### the rows the model computes are rows of `cell` -/

/-- reversed prefix `pre ++ ys[0..n)` -/
def rp (pre ys : List α) (n : Nat) : List α := (pre ++ ys.take n).reverse

theorem scanRowG_get (mk : CellRule α) (eq : α → α → Bool) (C : Costs) (x : α) (tr : List α) :
    ∀ (ys pre : List α) (diag left : Cell) (ups : List Cell),
      (∀ k, ups[k]? = if k < ys.length then some (cellG mk eq C tr (rp pre ys (k+1))) else none) →
      diag = cellG mk eq C tr pre.reverse → left = cellG mk eq C (x :: tr) pre.reverse →
      ∀ k, (scanRowG mk eq C x diag left ups ys)[k]? =
        if k < ys.length then some (cellG mk eq C (x :: tr) (rp pre ys (k+1))) else none := by
  intro ys
  induction ys with
  | nil =>
    intro pre diag left ups _ _ _ k
    cases ups <;> simp [scanRowG]
  | cons y ys ih =>
    intro pre diag left ups hups hd hl k
    cases ups with
    | nil => have := hups 0; simp at this
    | cons up ups' =>
      have hup : up = cellG mk eq C tr (y :: pre.reverse) := by
        have := hups 0; simp [rp] at this; exact this
      have hc : mk eq C x y diag up left = cellG mk eq C (x :: tr) (y :: pre.reverse) := by
        rw [cellG, hd, hl, hup]
      simp only [scanRowG]
      cases k with
      | zero => simp [rp, hc]
      | succ k =>
        have hups' : ∀ k, ups'[k]? = if k < ys.length then some (cellG mk eq C tr (rp (pre ++ [y]) ys (k+1))) else none := by
          intro k
          have := hups (k+1)
          simp only [List.getElem?_cons_succ, List.length_cons, Nat.add_lt_add_iff_right] at this
          rw [this]; simp [rp]
        have := ih (pre ++ [y]) up (mk eq C x y diag up left) ups' hups'
          (by rw [hup]; simp) (by rw [hc]; simp) k
        simp only [List.getElem?_cons_succ, List.length_cons, Nat.add_lt_add_iff_right]
        rw [this]; simp [rp]

theorem rowOfG_get (mk : CellRule α) (eq : α → α → Bool) (C : Costs) (s : List α) (tr : List α) (j : Nat) :
    (rowOfG mk eq C s tr)[j]? = if j ≤ s.length then some (cellG mk eq C tr (s.take j).reverse) else none := by
  induction tr generalizing j with
  | nil =>
    simp only [rowOfG, row0, List.getElem?_map, List.range_eq_range']
    by_cases h : j ≤ s.length
    · have : j < s.length + 1 := by omega
      simp [h, this, cellG, List.length_take, Nat.min_eq_left h]
    · have : ¬ j < s.length + 1 := by omega
      simp [h, this]
  | cons x tr ih =>
    have h0 := ih 0
    simp only [Nat.zero_le, if_true, List.take_zero, List.reverse_nil] at h0
    cases hprev : rowOfG mk eq C s tr with
    | nil => rw [hprev] at h0; simp at h0
    | cons p0 ps =>
      rw [hprev] at h0
      simp only [List.getElem?_cons_zero, Option.some.injEq] at h0
      simp only [rowOfG, hprev, nextRowG]
      cases j with
      | zero =>
        simp only [List.getElem?_cons_zero, Nat.zero_le, if_true, List.take_zero, List.reverse_nil]
        congr 1
        rw [h0]
        cases tr with
        | nil => simp [cellG]
        | cons a tr => simp [cellG, Nat.add_mul]
      | succ j =>
        have hups : ∀ k, ps[k]? = if k < s.length then some (cellG mk eq C tr (rp [] s (k+1))) else none := by
          intro k
          have := ih (k+1)
          rw [hprev] at this
          simp only [List.getElem?_cons_succ] at this
          rw [this]
          simp [rp, Nat.succ_le_iff]
        have hleft : (⟨.ins, p0.cost + C.I⟩ : Cell) = cellG mk eq C (x :: tr) ([] : List α).reverse := by
          rw [h0]; simp [cellG]
          cases tr with
          | nil => simp [cellG]
          | cons a tr => simp [cellG, Nat.add_mul]
        have := scanRowG_get mk eq C x tr s [] p0 ⟨.ins, p0.cost + C.I⟩ ps hups (by rw [h0]; rfl) hleft j
        simp only [List.getElem?_cons_succ]
        rw [this]; simp [rp, Nat.succ_le_iff]

theorem rowOf_get (eq : α → α → Bool) (C : Costs) (s : List α) (tr : List α) (j : Nat) :
    (rowOf eq C s tr)[j]? = if j ≤ s.length then some (cell eq C tr (s.take j).reverse) else none :=
  rowOfG_get mkCell eq C s tr j

theorem tableRows_get (eq : α → α → Bool) (C : Costs) (s : List α) (t : List α) (row : List Cell) (acc : List α)
    (hrow : row = rowOf eq C s acc) (i : Nat) (hi : i ≤ t.length) :
    (tableRows eq C s t row)[i]? = some (rowOf eq C s ((t.take i).reverse ++ acc)) := by
  induction t generalizing row acc i with
  | nil => have : i = 0 := by simpa using hi
           subst this; simp [tableRows, hrow]
  | cons x t ih =>
    cases i with
    | zero => simp [tableRows, hrow]
    | succ i =>
      simp only [tableRows, List.getElem?_cons_succ]
      rw [ih (nextRow eq C x row s) (x :: acc) (by rw [hrow]; rfl) i (by simpa using hi)]
      simp

/-- every table entry the backtracking reads is the spec cell of the corresponding reversed prefixes -/
theorem lookup_fullTable (eq : α → α → Bool) (C : Costs) (t s : List α) (i j : Nat) (hi : i ≤ t.length) (hj : j ≤ s.length) :
    lookup (fullTable eq C t s) i j = cell eq C (t.take i).reverse (s.take j).reverse := by
  simp only [lookup, fullTable]
  rw [tableRows_get eq C s t (row0 C s) [] rfl i hi]
  simp only [List.append_nil, rowOf_get, hj, if_true, Option.getD_some]

end Lev

namespace Lev
open Script
variable {α : Type}

/-! ### backtracking with the early exit -/

/-- pointwise: the result element is the target element itself or an `eq`-equal source element -/
inductive PW (eq : α → α → Bool) : List α → List α → Prop
  | nil : PW eq [] []
  | cons {r x rs xs} : (r = x ∨ eq x r = true) → PW eq rs xs → PW eq (r :: rs) (x :: xs)

theorem PW.append {eq : α → α → Bool} {a b c d : List α} (h1 : PW eq a b) (h2 : PW eq c d) : PW eq (a ++ c) (b ++ d) := by
  induction h1 with
  | nil => simpa
  | cons h _ ih => exact .cons h ih

theorem PW.refl_ (eq : α → α → Bool) (a : List α) : PW eq a a := by
  induction a with
  | nil => exact .nil
  | cons x xs ih => exact .cons (.inl rfl) ih

theorem PW.length_eq {eq : α → α → Bool} {a b : List α} (h : PW eq a b) : a.length = b.length := by
  induction h with
  | nil => rfl
  | cons _ _ ih => simp [ih]

/-- what each tag says about neighbouring costs and about `eq` -/
theorem mkCell_tag (eq : α → α → Bool) (C : Costs) (x y : α) (diag up left : Cell) :
    ((mkCell eq C x y diag up left).tag = .noop → eq x y = true ∧ (mkCell eq C x y diag up left).cost = diag.cost) ∧
    ((mkCell eq C x y diag up left).tag = .rep → (mkCell eq C x y diag up left).cost = diag.cost + C.R) ∧
    ((mkCell eq C x y diag up left).tag = .ins → (mkCell eq C x y diag up left).cost = up.cost + C.I) ∧
    ((mkCell eq C x y diag up left).tag = .del → (mkCell eq C x y diag up left).cost = left.cost + C.D) := by
  unfold mkCell
  generalize diag.cost = cr
  generalize up.cost = ci
  generalize left.cost = cd
  grind

theorem cell_cons_cons (eq : α → α → Bool) (C : Costs) (x y : α) (tr sr : List α) :
    cell eq C (x :: tr) (y :: sr) = mkCell eq C x y (cell eq C tr sr) (cell eq C tr (y :: sr)) (cell eq C (x :: tr) sr) := by
  simp only [cell]; rw [cellG]

/-- cost 0 forces the (reversed) prefixes to be pointwise eq-related -/
theorem cell_zero (eq : α → α → Bool) (C : Costs) (hD : 1 ≤ C.D) (hR : 1 ≤ C.R) (hI : 1 ≤ C.I) :
    ∀ (tr sr : List α), (cell eq C tr sr).cost = 0 → PW eq sr.reverse tr.reverse := by
  intro tr sr
  induction tr generalizing sr with
  | nil =>
    intro h
    simp only [cell] at h; rw [cellG] at h
    have : sr.length = 0 := by
      rcases Nat.mul_eq_zero.mp h with h | h
      · exact h
      · omega
    have : sr = [] := List.length_eq_zero_iff.mp this
    subst this; exact .nil
  | cons x tr ih =>
    induction sr with
    | nil =>
      intro h
      simp only [cell] at h; rw [cellG] at h
      rcases Nat.mul_eq_zero.mp h with h | h <;> omega
    | cons y sr ih2 =>
      intro h
      rw [cell_cons_cons] at h
      unfold mkCell at h
      split at h
      · rename_i heq
        simp only [List.reverse_cons]
        exact PW.append (ih sr h) (.cons (.inr heq) .nil)
      · simp only at h
        split at h
        · simp at h; omega
        · split at h <;> (simp at h; omega)

theorem run_replace (pre mid post : List α) (y x : α) (i : Nat) (hi : i = pre.length + mid.length) :
    applyList (.replace x i) (pre ++ (mid ++ [y]) ++ post) = some (pre ++ (mid ++ [x]) ++ post) := by
  subst hi
  simp [applyList, List.set_append]

theorem insertIdx_len_append (l r : List α) (x : α) : (l ++ r).insertIdx l.length x = l ++ x :: r := by
  induction l with
  | nil => simp
  | cons a l ih => simp [List.insertIdx_succ_cons, ih]

theorem run_insert_end (pre mid post : List α) (x : α) (i : Nat) (hi : i = pre.length + mid.length) :
    applyList (.insert x i) (pre ++ mid ++ post) = some (pre ++ mid ++ x :: post) := by
  subst hi
  have : pre.length + mid.length = (pre ++ mid).length := by simp
  simp only [applyList]
  rw [this, insertIdx_len_append]
  simp

theorem run_delete_last (pre mid post : List α) (y : α) (i : Nat) (hi : i = pre.length + mid.length) :
    applyList (.delete i none) (pre ++ (mid ++ [y]) ++ post) = some (pre ++ mid ++ post) := by
  subst hi
  have h : pre ++ (mid ++ [y]) ++ post = (pre ++ mid) ++ y :: post := by simp
  have hl : pre.length + mid.length = (pre ++ mid).length := by simp
  simp only [applyList]
  rw [h, hl, List.eraseIdx_append_of_length_le] <;> simp

theorem run_deleteRange (pre mid post : List α) (l r : Nat) (hl : l = pre.length) (hr : r + 1 = pre.length + mid.length) (hm : 0 < mid.length) :
    applyList (.delete l (some r)) (pre ++ mid ++ post) = some (pre ++ post) := by
  subst hl
  simp only [applyList]
  have : pre.length ≤ r ∧ r < (pre ++ mid ++ post).length := by simp only [List.length_append]; omega
  simp only [this, and_self, if_true]
  have h2 : r + 1 = (pre ++ mid).length := by simp; omega
  rw [h2]
  simp [List.take_append, List.drop_append]

theorem tail_correct (eq : α → α → Bool) (ss : Nat) (tr sr : List α) (h : tr = [] ∨ sr = []) (pre post : List α) (hp : pre.length = ss) :
    ∃ T', runList (tail ss tr sr) (pre ++ sr.reverse ++ post) = some (pre ++ T' ++ post) ∧ PW eq T' tr.reverse := by
  induction tr generalizing post with
  | nil =>
    cases sr with
    | nil => exact ⟨[], by simp [tail, runList], .nil⟩
    | cons y sr =>
      refine ⟨[], ?_, .nil⟩
      simp only [tail, runList]
      rw [run_deleteRange pre _ post ss (ss + sr.length) hp.symm (by simp; omega) (by simp)]
      simp
  | cons x tr ih =>
    have hs : sr = [] := by simpa using h
    subst hs
    obtain ⟨T', h1, h2⟩ := ih (.inr rfl) (x :: post)
    refine ⟨T' ++ [x], ?_, ?_⟩
    · simp only [tail, runList, List.reverse_nil, List.append_nil] at *
      have := run_insert_end pre [] post x ss (by simp [hp])
      simp at this
      rw [this]; simp [h1]
    · simp only [List.reverse_cons]; exact PW.append h2 (.cons (.inl rfl) .nil)

theorem pw_of_zero (eq : α → α → Bool) (C : Costs) (hD : 1 ≤ C.D) (hR : 1 ≤ C.R) (hI : 1 ≤ C.I)
    (tr sr : List α) (total n k : Nat) (hn : n = total) (hnk : n ≤ k) (hk : k + (cell eq C tr sr).cost = total) :
    PW eq sr.reverse tr.reverse := by
  apply cell_zero eq C hD hR hI; omega

theorem bt_correct (eq : α → α → Bool) (C : Costs) (hD : 1 ≤ C.D) (hR : 1 ≤ C.R) (hI : 1 ≤ C.I)
    (table : List (List Cell)) (TR SR : List α)
    (H : ∀ tr' sr', tr' <:+ TR → sr' <:+ SR → lookup table tr'.length sr'.length = cell eq C tr' sr')
    (total ss : Nat) (tr sr : List α) (n : Nat) :
    tr <:+ TR → sr <:+ SR →
    ∀ k, n ≤ k → k + (cell eq C tr sr).cost = total → ∀ pre post : List α, pre.length = ss →
    ∃ T', runList (bt table total ss tr sr n) (pre ++ sr.reverse ++ post) = some (pre ++ T' ++ post) ∧ PW eq T' tr.reverse := by
  fun_induction bt table total ss tr sr n with
  | case1 x tr y sr htag =>
    intro ht hs k hnk hk pre post hp
    have hl := H (x :: tr) (y :: sr) ht hs
    simp only [List.length_cons] at hl
    rw [hl, cell_cons_cons] at htag
    obtain ⟨h1, h2⟩ := (mkCell_tag eq C x y _ _ _).1 htag
    rw [cell_cons_cons] at hk
    have hpw := pw_of_zero eq C hD hR hI tr sr _ _ k rfl hnk (by omega)
    exact ⟨sr.reverse ++ [y], by simp [runList], by simp only [List.reverse_cons]; exact PW.append hpw (.cons (.inr h1) .nil)⟩
  | case2 x tr y sr n htag hn ih =>
    intro ht hs k hnk hk pre post hp
    have hl := H (x :: tr) (y :: sr) ht hs
    simp only [List.length_cons] at hl
    rw [hl, cell_cons_cons] at htag
    obtain ⟨h1, h2⟩ := (mkCell_tag eq C x y _ _ _).1 htag
    rw [cell_cons_cons] at hk
    obtain ⟨T', r1, r2⟩ := ih (List.IsSuffix.trans (List.suffix_cons x tr) ht) (List.IsSuffix.trans (List.suffix_cons y sr) hs)
      k hnk (by omega) pre (y :: post) hp
    refine ⟨T' ++ [y], ?_, ?_⟩
    · simpa using r1
    · simp only [List.reverse_cons]; exact PW.append r2 (.cons (.inr h1) .nil)
  | case3 x tr y sr n htag ih =>
    intro ht hs k hnk hk pre post hp
    have hl := H (x :: tr) (y :: sr) ht hs
    simp only [List.length_cons] at hl
    rw [hl, cell_cons_cons] at htag
    have h2 := (mkCell_tag eq C x y _ _ _).2.1 htag
    rw [cell_cons_cons] at hk
    have hrun := run_replace pre sr.reverse post y x (ss + sr.length) (by simp [hp])
    by_cases hn : n + 1 = total
    · have hpw := pw_of_zero eq C hD hR hI tr sr total (n+1) (k + C.R) hn (by omega) (by omega)
      refine ⟨sr.reverse ++ [x], ?_, ?_⟩
      · simp only [runList, List.reverse_cons, hrun, hn, if_true]
      · simp only [List.reverse_cons]; exact PW.append hpw (.cons (.inl rfl) .nil)
    · obtain ⟨T', r1, r2⟩ := ih (List.IsSuffix.trans (List.suffix_cons x tr) ht) (List.IsSuffix.trans (List.suffix_cons y sr) hs)
        (k + C.R) (by omega) (by omega) pre (x :: post) hp
      refine ⟨T' ++ [x], ?_, ?_⟩
      · simp only [runList, List.reverse_cons, hrun, hn, if_false]; simpa using r1
      · simp only [List.reverse_cons]; exact PW.append r2 (.cons (.inl rfl) .nil)
  | case4 x tr y sr n htag ih =>
    intro ht hs k hnk hk pre post hp
    have hl := H (x :: tr) (y :: sr) ht hs
    simp only [List.length_cons] at hl
    rw [hl, cell_cons_cons] at htag
    have h2 := (mkCell_tag eq C x y _ _ _).2.2.1 htag
    rw [cell_cons_cons] at hk
    have hrun := run_insert_end pre (y :: sr).reverse post x (ss + sr.length + 1) (by simp [hp]; omega)
    by_cases hn : n + 1 = total
    · have hpw := pw_of_zero eq C hD hR hI tr (y :: sr) total (n+1) (k + C.I) hn (by omega) (by omega)
      refine ⟨(y :: sr).reverse ++ [x], ?_, ?_⟩
      · simp only [runList, hrun, hn, if_true]; simp
      · simp only [List.reverse_cons (a := x)]; exact PW.append hpw (.cons (.inl rfl) .nil)
    · obtain ⟨T', r1, r2⟩ := ih (List.IsSuffix.trans (List.suffix_cons x tr) ht) hs
        (k + C.I) (by omega) (by omega) pre (x :: post) hp
      refine ⟨T' ++ [x], ?_, ?_⟩
      · simp only [runList, hrun, hn, if_false]; simpa using r1
      · simp only [List.reverse_cons (a := x)]; exact PW.append r2 (.cons (.inl rfl) .nil)
  | case5 x tr y sr n htag ih =>
    intro ht hs k hnk hk pre post hp
    have hl := H (x :: tr) (y :: sr) ht hs
    simp only [List.length_cons] at hl
    rw [hl, cell_cons_cons] at htag
    have h2 := (mkCell_tag eq C x y _ _ _).2.2.2 htag
    rw [cell_cons_cons] at hk
    have hrun := run_delete_last pre sr.reverse post y (ss + sr.length) (by simp [hp])
    by_cases hn : n + 1 = total
    · have hpw := pw_of_zero eq C hD hR hI (x :: tr) sr total (n+1) (k + C.D) hn (by omega) (by omega)
      refine ⟨sr.reverse, ?_, hpw⟩
      simp only [runList, List.reverse_cons, hrun, hn, if_true]
    · obtain ⟨T', r1, r2⟩ := ih ht (List.IsSuffix.trans (List.suffix_cons y sr) hs)
        (k + C.D) (by omega) (by omega) pre post hp
      refine ⟨T', ?_, r2⟩
      simp only [runList, List.reverse_cons, hrun, hn, if_false]; simpa using r1
  | case6 sr n =>
    intro ht hs k hnk hk pre post hp
    exact tail_correct eq ss [] sr (.inl rfl) pre post hp
  | case7 tr n hne =>
    intro ht hs k hnk hk pre post hp
    exact tail_correct eq ss tr [] (.inr rfl) pre post hp

end Lev

namespace Lev
open Script
variable {α : Type}

/-! ### segments, the full-table algorithm, the divide-and-conquer driver -/

theorem suffix_reverse_eq (l tr : List α) (h : tr <:+ l.reverse) : tr = (l.take tr.length).reverse := by
  obtain ⟨p, hp⟩ := h
  have : l = tr.reverse ++ p.reverse := by
    have := congrArg List.reverse hp
    simpa using this.symm
  rw [this]
  simp

theorem runList_append (a b : List (Change α)) (L : List α) :
    runList (a ++ b) L = (runList a L).bind (runList b) := by
  induction a generalizing L with
  | nil => simp [runList]
  | cons c cs ih =>
    simp only [List.cons_append, runList]
    cases applyList c L with
    | none => simp
    | some L' => simp [ih]

theorem seg_split (l : List α) (a b c : Nat) (hab : a ≤ b) (hbc : b ≤ c) : seg l a c = seg l a b ++ seg l b c := by
  unfold seg
  have e1 : c - a = (b - a) + (c - b) := by omega
  rw [e1, List.take_add, List.drop_drop]
  congr 3; omega

theorem seg_length (l : List α) (a b : Nat) (hb : b ≤ l.length) : (seg l a b).length = b - a := by
  unfold seg; simp only [List.length_take, List.length_drop]; omega

/-- the full-table algorithm on arbitrary segments: the emitted changes rewrite the source segment
(wherever it sits in a larger list) into something pointwise equal to the target segment -/
theorem lev_correct (eq : α → α → Bool) (C : Costs) (hD : 1 ≤ C.D) (hR : 1 ≤ C.R) (hI : 1 ≤ C.I)
    (tseg sseg : List α) (ss : Nat) (pre post : List α) (hp : pre.length = ss) :
    ∃ T', runList (bt (fullTable eq C tseg sseg) (lookup (fullTable eq C tseg sseg) tseg.length sseg.length).cost ss
        tseg.reverse sseg.reverse 0) (pre ++ sseg ++ post) = some (pre ++ T' ++ post) ∧ PW eq T' tseg := by
  have H : ∀ tr' sr', tr' <:+ tseg.reverse → sr' <:+ sseg.reverse →
      lookup (fullTable eq C tseg sseg) tr'.length sr'.length = cell eq C tr' sr' := by
    intro tr' sr' ht hs
    have h1 := suffix_reverse_eq tseg tr' ht
    have h2 := suffix_reverse_eq sseg sr' hs
    have l1 : tr'.length ≤ tseg.length := by have := ht.length_le; simpa using this
    have l2 : sr'.length ≤ sseg.length := by have := hs.length_le; simpa using this
    rw [lookup_fullTable eq C tseg sseg _ _ l1 l2, ← h1, ← h2]
  have htot : lookup (fullTable eq C tseg sseg) tseg.length sseg.length = cell eq C tseg.reverse sseg.reverse := by
    have := H tseg.reverse sseg.reverse (List.suffix_refl _) (List.suffix_refl _)
    simpa using this
  have := bt_correct eq C hD hR hI (fullTable eq C tseg sseg) tseg.reverse sseg.reverse H
    (lookup (fullTable eq C tseg sseg) tseg.length sseg.length).cost ss tseg.reverse sseg.reverse 0
    (List.suffix_refl _) (List.suffix_refl _) 0 (Nat.le_refl _) (by rw [htot]; simp) pre post hp
  simpa using this

theorem insert_run_aux (vs : List α) (pre post : List α) (base j : Nat) (hk : base + j = pre.length) :
    runList ((vs.zipIdx j).map fun (v, i) => Change.insert v (base + i)) (pre ++ post) = some (pre ++ vs ++ post) := by
  induction vs generalizing pre j with
  | nil => simp [runList]
  | cons v vs ih =>
    simp only [List.zipIdx_cons, List.map_cons, runList]
    have h1 := run_insert_end pre [] post v (base + j) (by simp [hk])
    simp only [List.append_nil] at h1
    rw [h1]
    have := ih (pre ++ [v]) (j + 1) (by simp; omega)
    simp only [List.append_assoc, List.singleton_append] at this
    simp only [this, List.append_assoc, List.cons_append]

theorem insert_run (vs : List α) (pre post : List α) (k : Nat) (hk : k = pre.length) :
    runList ((vs.zipIdx).map fun (v, i) => Change.insert v (k + i)) (pre ++ post) = some (pre ++ vs ++ post) :=
  insert_run_aux vs pre post k 0 (by omega)

/-- `hirschberg_impl`, any segment: its output REVERSED (the application order) rewrites the source segment into
something pointwise equal to the target segment. Holds for whatever split point the row computation chooses. -/
theorem hirsch_correct (eq : α → α → Bool) (C : Costs) (hD : 1 ≤ C.D) (hR : 1 ≤ C.R) (hI : 1 ≤ C.I) (cutoff : Nat)
    (t s : List α) (ts te ss se : Nat) :
    ts ≤ te → ss ≤ se → se ≤ s.length → ∀ pre post : List α, pre.length = ss →
    ∃ T', runList (hirschImpl eq C cutoff t s ts te ss se).reverse (pre ++ seg s ss se ++ post) = some (pre ++ T' ++ post) ∧
      PW eq T' (seg t ts te) := by
  fun_induction hirschImpl eq C cutoff t s ts te ss se with
  | case1 ts te ss se h =>
    intro _ _ _ pre post hp
    obtain ⟨rfl, rfl⟩ := h
    exact ⟨[], by simp [seg, runList], by simp [seg]; exact .nil⟩
  | case2 te ss se h1 =>
    intro _ hss hse pre post hp
    have hne : ss ≠ se := fun e => h1 ⟨rfl, e⟩
    refine ⟨[], ?_, by simp [seg]; exact .nil⟩
    simp only [List.reverse_cons, List.reverse_nil, List.nil_append, runList]
    rw [run_deleteRange pre (seg s ss se) post ss (se - 1) hp.symm (by rw [seg_length s ss se hse]; omega)
      (by rw [seg_length s ss se hse]; omega)]
    simp
  | case3 ts te ss h1 h2 =>
    intro _ _ _ pre post hp
    simp only [List.reverse_reverse]
    have : seg s ss ss = [] := by simp [seg]
    rw [this, List.append_nil]
    exact ⟨seg t ts te, insert_run (seg t ts te) pre post ss hp.symm, PW.refl_ eq _⟩
  | case4 ts te ss se h1 h2 h3 h4 =>
    intro _ _ _ pre post hp
    simp only [List.reverse_reverse, levImpl]
    exact lev_correct eq C hD hR hI (seg t ts te) (seg s ss se) ss pre post hp
  | case5 ts te ss se h1 h2 h3 h4 tsplit left right ssplit ihl ihr =>
    intro hts hss hse pre post hp
    have hsp1 : ss ≤ ssplit := by simp only [ssplit]; omega
    have hsp2 : ssplit ≤ se := by simp only [ssplit]; omega
    have htp1 : ts ≤ tsplit := by simp only [tsplit]; omega
    have htp2 : tsplit ≤ te := by simp only [tsplit]; omega
    rw [List.reverse_append, runList_append, seg_split s ss ssplit se hsp1 hsp2, seg_split t ts tsplit te htp1 htp2]
    obtain ⟨Tr, r1, r2⟩ := ihr htp2 hsp2 hse (pre ++ seg s ss ssplit) post
      (by rw [List.length_append, seg_length s ss ssplit (by omega), hp]; omega)
    have e1 : pre ++ (seg s ss ssplit ++ seg s ssplit se) ++ post = pre ++ seg s ss ssplit ++ seg s ssplit se ++ post := by simp
    rw [e1, r1]
    simp only [Option.bind_some]
    obtain ⟨Tl, l1, l2⟩ := ihl htp1 hsp1 (by omega) pre (Tr ++ post) hp
    have e2 : pre ++ seg s ss ssplit ++ Tr ++ post = pre ++ seg s ss ssplit ++ (Tr ++ post) := by simp
    rw [e2, l1]
    exact ⟨Tl ++ Tr, by simp, PW.append l2 r2⟩

end Lev
