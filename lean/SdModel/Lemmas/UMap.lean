import SdModel.Model.UMap

/-! Helper lemmas for C12 and the map parts of C19 / C20. Everything is pointwise in the key. -/
namespace UMap
variable {κ ν : Type} [DecidableEq κ] [DecidableEq ν]

def hasKey (m : MMap κ ν) (x : κ) : Bool := (mget m x).isSome

def NoDup : MMap κ ν → Prop
  | [] => True
  | (k, _, _) :: t => mget t k = none ∧ NoDup t

def Pos (m : MMap κ ν) : Prop := ∀ e ∈ m, 0 < e.2.2

/-! ### primitive map operations -/

theorem mget_mput (m : MMap κ ν) (x y : κ) (v : ν) (n : Nat) :
    mget (mput m x v n) y = if y = x then some (v, n) else mget m y := by
  fun_induction mput m x v n <;> grind [mget]

theorem nodup_mput (m : MMap κ ν) (x : κ) (v : ν) (n : Nat) (h : NoDup m) : NoDup (mput m x v n) := by
  fun_induction mput m x v n <;> grind [NoDup, mget, mget_mput]

theorem mget_mbump (m : MMap κ ν) (x y : κ) (n : Nat) :
    mget (mbump m x n) y = if y = x then (mget m y).map (fun vc => (vc.1, vc.2 + n)) else mget m y := by
  fun_induction mbump m x n <;> grind [mget]

theorem nodup_mbump (m : MMap κ ν) (x : κ) (n : Nat) (h : NoDup m) : NoDup (mbump m x n) := by
  fun_induction mbump m x n <;> grind [NoDup, mget, mget_mbump]

theorem mget_msub (m : MMap κ ν) (x y : κ) (n : Nat) (h : NoDup m) :
    mget (msub m x n) y = if y = x then (mget m y).bind (fun vc => if vc.2 > n then some (vc.1, vc.2 - n) else none) else mget m y := by
  fun_induction msub m x n <;> grind [mget, NoDup]

theorem nodup_msub (m : MMap κ ν) (x : κ) (n : Nat) (h : NoDup m) : NoDup (msub m x n) := by
  fun_induction msub m x n <;> grind [NoDup, mget, mget_msub]

theorem merase_fst (m : MMap κ ν) (x : κ) : (merase m x).1 = mget m x := by
  fun_induction merase m x <;> grind [mget]

theorem mget_merase (m : MMap κ ν) (x y : κ) (h : NoDup m) :
    mget (merase m x).2 y = if y = x then none else mget m y := by
  fun_induction merase m x <;> grind [mget, NoDup]

theorem nodup_merase (m : MMap κ ν) (x : κ) (h : NoDup m) : NoDup (merase m x).2 := by
  fun_induction merase m x <;> grind [NoDup, mget_merase]

theorem merase_sub (m : MMap κ ν) (x : κ) : ∀ e ∈ (merase m x).2, e ∈ m := by
  fun_induction merase m x <;> grind

theorem mget_pos (m : MMap κ ν) (hp : Pos m) (x : κ) (v : ν) (c : Nat) (h : mget m x = some (v, c)) : 0 < c := by
  induction m with
  | nil => simp [mget] at h
  | cons e t ih =>
    obtain ⟨k, w, d⟩ := e
    simp only [mget] at h
    split at h
    · cases h; exact hp (k, v, c) (List.mem_cons_self)
    · exact ih (fun e he => hp e (List.mem_cons_of_mem _ he)) h

theorem mem_of_mget (m : MMap κ ν) (x : κ) (v : ν) (c : Nat) (h : mget m x = some (v, c)) : (x, v, c) ∈ m := by
  induction m with
  | nil => simp [mget] at h
  | cons e t ih =>
    obtain ⟨k, w, d⟩ := e
    simp only [mget] at h
    split at h
    · rename_i hk; cases h; subst hk; exact List.mem_cons_self
    · exact List.mem_cons_of_mem _ (ih h)

/-! ### collectors -/

theorem pos_mbump (m : MMap κ ν) (x : κ) (n : Nat) (hp : Pos m) : Pos (mbump m x n) := by
  fun_induction mbump m x n
  · exact hp
  · intro e he
    rcases List.mem_cons.mp he with rfl | he
    · have := hp _ (List.mem_cons_self); simp at this ⊢; omega
    · exact hp e (List.mem_cons_of_mem _ he)
  · rename_i ih2
    intro e he
    rcases List.mem_cons.mp he with rfl | he
    · exact hp _ (List.mem_cons_self)
    · exact ih2 (fun e he => hp e (List.mem_cons_of_mem _ he)) e he

theorem mem_mput (m : MMap κ ν) (x : κ) (v : ν) (n : Nat) : ∀ e ∈ mput m x v n, e = (x, v, n) ∨ e ∈ m := by
  fun_induction mput m x v n <;> grind

theorem pos_mput (m : MMap κ ν) (x : κ) (v : ν) (n : Nat) (hn : 0 < n) (hp : Pos m) : Pos (mput m x v n) := by
  intro e he
  rcases mem_mput m x v n e he with rfl | h
  · exact hn
  · exact hp e h

theorem length_mput_fresh (m : MMap κ ν) (x : κ) (v : ν) (n : Nat) (h : mget m x = none) :
    (mput m x v n).length = m.length + 1 := by
  fun_induction mput m x v n <;> grind [mget]

theorem nodup_stepKE (m : MMap κ ν) (kv : κ × ν) (h : NoDup m) : NoDup (stepKE m kv) := by
  unfold stepKE; split
  · exact nodup_mbump _ _ _ h
  · exact nodup_mput _ _ _ _ h

theorem pos_stepKE (m : MMap κ ν) (kv : κ × ν) (h : Pos m) : Pos (stepKE m kv) := by
  unfold stepKE; split
  · exact pos_mbump _ _ _ h
  · exact pos_mput _ _ _ _ (by omega) h

theorem collectKeyEq_spec (l : List (κ × ν)) : NoDup (collectKeyEq l) ∧ Pos (collectKeyEq l) := by
  have : ∀ (m : MMap κ ν), NoDup m → Pos m → NoDup (l.foldl stepKE m) ∧ Pos (l.foldl stepKE m) := by
    induction l with
    | nil => intro m h1 h2; exact ⟨h1, h2⟩
    | cons a t ih => intro m h1 h2; exact ih _ (nodup_stepKE m a h1) (pos_stepKE m a h2)
  exact this [] trivial (by intro e he; simp at he)

/-- first value bound to `k` in a list of pairs -/
def plookup : List (κ × ν) → κ → Option ν
  | [], _ => none
  | (k, v) :: t, x => if k = x then some v else plookup t x

def UniqueKeys (l : List (κ × ν)) : Prop := (l.map (·.1)).Nodup

theorem fold_unique (step : MMap κ ν → κ × ν → MMap κ ν)
    (hstep : ∀ m kv, mget m kv.1 = none → step m kv = mput m kv.1 kv.2 1)
    (l : List (κ × ν)) (m : MMap κ ν) (hnd : (l.map (·.1)).Nodup) (hfresh : ∀ kv ∈ l, mget m kv.1 = none)
    (h3 : NoDup m) (h4 : Pos m) :
    (∀ x, mget (l.foldl step m) x = match mget m x with | some vc => some vc | none => (plookup l x).map (fun v => (v, 1))) ∧
    NoDup (l.foldl step m) ∧ Pos (l.foldl step m) ∧ (l.foldl step m).length = m.length + l.length := by
  induction l generalizing m with
  | nil => refine ⟨?_, h3, h4, rfl⟩; intro x; simp [plookup]; cases mget m x <;> rfl
  | cons a t ih =>
    obtain ⟨k, v⟩ := a
    simp only [List.map_cons, List.nodup_cons] at hnd
    have hk : mget m k = none := hfresh (k, v) (List.mem_cons_self)
    have hfresh' : ∀ kv ∈ t, mget (mput m k v 1) kv.1 = none := by
      intro kv hkv
      rw [mget_mput]
      have : kv.1 ≠ k := by intro e; exact hnd.1 (by rw [← e]; exact List.mem_map_of_mem hkv)
      simp [this, hfresh kv (List.mem_cons_of_mem _ hkv)]
    obtain ⟨a1, a3, a4, a5⟩ := ih (mput m k v 1) hnd.2 hfresh' (nodup_mput _ _ _ _ h3) (pos_mput _ _ _ _ (by omega) h4)
    simp only [List.foldl_cons, hstep m (k, v) hk]
    refine ⟨?_, a3, a4, by rw [a5, length_mput_fresh _ _ _ _ hk]; simp; omega⟩
    intro x
    rw [a1 x, mget_mput]
    by_cases e : x = k
    · subst e; simp [hk, plookup]
    · have e' : ¬ k = x := fun h => e h.symm
      simp [e, e', plookup]

/-- for unique keys both collectors give every pair the count 1 -/
theorem collect_unique (l : List (κ × ν)) (h : UniqueKeys l) :
    (∀ x, mget (collectKeyEq l) x = (plookup l x).map (fun v => (v, 1))) ∧
    (∀ x, mget (collectKeyValueEq l) x = (plookup l x).map (fun v => (v, 1))) ∧
    NoDup (collectKeyEq l) ∧ Pos (collectKeyEq l) ∧
    NoDup (collectKeyValueEq l) ∧ Pos (collectKeyValueEq l) ∧
    (collectKeyEq l).length = l.length ∧ (collectKeyValueEq l).length = l.length := by
  obtain ⟨a1, a3, a4, a5⟩ := fold_unique stepKE (by intro m kv hm; simp [stepKE, hm]) l [] h (by intro kv _; rfl) trivial (by intro e he; simp at he)
  obtain ⟨b1, b3, b4, b5⟩ := fold_unique stepKV (by intro m kv hm; simp [stepKV, hm]) l [] h (by intro kv _; rfl) trivial (by intro e he; simp at he)
  exact ⟨by intro x; simpa [mget, collectKeyEq] using a1 x, by intro x; simpa [mget, collectKeyValueEq] using b1 x, a3, a4, b3, b4,
    by simpa [collectKeyEq] using a5, by simpa [collectKeyValueEq] using b5⟩

end UMap

namespace UMap
variable {κ ν : Type} [DecidableEq κ] [DecidableEq ν]

/-! ### per-key summaries of a change list -/

def remTot : List (Change κ ν) → κ → Nat
  | [], _ => 0
  | .removeMany k n :: es, x => (if k = x then n else 0) + remTot es x
  | .removeSingle k :: es, x => (if k = x then 1 else 0) + remTot es x
  | _ :: es, x => remTot es x

def insTot : List (Change κ ν) → κ → Nat
  | [], _ => 0
  | .insertMany k _ n :: es, x => (if k = x then n else 0) + insTot es x
  | .insertSingle k _ :: es, x => (if k = x then 1 else 0) + insTot es x
  | _ :: es, x => insTot es x

/-- value of the first insertion entry for the key -/
def insVal : List (Change κ ν) → κ → Option ν
  | [], _ => none
  | .insertMany k v _ :: es, x => if k = x then some v else insVal es x
  | .insertSingle k v :: es, x => if k = x then some v else insVal es x
  | _ :: es, x => insVal es x

theorem remTot_append (a b : List (Change κ ν)) (x : κ) : remTot (a ++ b) x = remTot a x + remTot b x := by
  fun_induction remTot a x <;> simp_all [remTot] <;> omega
theorem insTot_append (a b : List (Change κ ν)) (x : κ) : insTot (a ++ b) x = insTot a x + insTot b x := by
  fun_induction insTot a x <;> simp_all [insTot] <;> omega
theorem insVal_append (a b : List (Change κ ν)) (x : κ) :
    insVal (a ++ b) x = match insVal a x with | some v => some v | none => insVal b x := by
  fun_induction insVal a x <;> simp_all [insVal]

theorem isInsert_insertMany (k : κ) (v : ν) (n : Nat) : isInsert (Change.insertMany k v n) = true := rfl
theorem isInsert_insertSingle (k : κ) (v : ν) : isInsert (Change.insertSingle k v) = true := rfl
theorem isInsert_removeMany (k : κ) (n : Nat) : isInsert (Change.removeMany k n : Change κ ν) = false := rfl
theorem isInsert_removeSingle (k : κ) : isInsert (Change.removeSingle k : Change κ ν) = false := rfl

theorem remTot_filter (es : List (Change κ ν)) (x : κ) : remTot (es.filter fun e => !isInsert e) x = remTot es x := by
  induction es with
  | nil => rfl
  | cons e t ih =>
    rw [List.filter_cons]
    cases e with
    | insertMany k v n => simp only [isInsert_insertMany, Bool.not_true, Bool.false_eq_true, if_false, remTot]; exact ih
    | insertSingle k v => simp only [isInsert_insertSingle, Bool.not_true, Bool.false_eq_true, if_false, remTot]; exact ih
    | removeMany k n => simp only [isInsert_removeMany, Bool.not_false, if_true, remTot, ih]
    | removeSingle k => simp only [isInsert_removeSingle, Bool.not_false, if_true, remTot, ih]
theorem insTot_filter (es : List (Change κ ν)) (x : κ) : insTot (es.filter isInsert) x = insTot es x := by
  induction es with
  | nil => rfl
  | cons e t ih =>
    rw [List.filter_cons]
    cases e with
    | insertMany k v n => simp only [isInsert_insertMany, if_true, insTot, ih]
    | insertSingle k v => simp only [isInsert_insertSingle, if_true, insTot, ih]
    | removeMany k n => simp only [isInsert_removeMany, Bool.false_eq_true, if_false, insTot]; exact ih
    | removeSingle k => simp only [isInsert_removeSingle, Bool.false_eq_true, if_false, insTot]; exact ih
theorem insVal_filter (es : List (Change κ ν)) (x : κ) : insVal (es.filter isInsert) x = insVal es x := by
  induction es with
  | nil => rfl
  | cons e t ih =>
    rw [List.filter_cons]
    cases e with
    | insertMany k v n => simp only [isInsert_insertMany, if_true, insVal, ih]
    | insertSingle k v => simp only [isInsert_insertSingle, if_true, insVal, ih]
    | removeMany k n => simp only [isInsert_removeMany, Bool.false_eq_true, if_false, insVal]; exact ih
    | removeSingle k => simp only [isInsert_removeSingle, Bool.false_eq_true, if_false, insVal]; exact ih

theorem insVal_none_insTot (es : List (Change κ ν)) (x : κ) (h : insVal es x = none) : insTot es x = 0 := by
  fun_induction insVal es x <;> simp_all [insTot]

/-- removal pass: per key, saturating subtraction of the removed total; the key disappears at or below zero -/
theorem pos_msub (m : MMap κ ν) (x : κ) (n : Nat) (hp : Pos m) : Pos (msub m x n) := by
  fun_induction msub m x n
  · exact hp
  · intro e he
    rcases List.mem_cons.mp he with rfl | he
    · simp; omega
    · exact hp e (List.mem_cons_of_mem _ he)
  · intro e he; exact hp e (List.mem_cons_of_mem _ he)
  · rename_i ih2
    intro e he
    rcases List.mem_cons.mp he with rfl | he
    · exact hp _ (List.mem_cons_self)
    · exact ih2 (fun e he => hp e (List.mem_cons_of_mem _ he)) e he

theorem applyRemovals_spec (m : MMap κ ν) (es : List (Change κ ν)) (h : NoDup m) (hp : Pos m) :
    NoDup (applyRemovals m es) ∧ Pos (applyRemovals m es) ∧
    ∀ x, mget (applyRemovals m es) x =
      (mget m x).bind (fun vc => if vc.2 > remTot es x then some (vc.1, vc.2 - remTot es x) else none) := by
  induction es generalizing m with
  | nil =>
    refine ⟨h, hp, ?_⟩
    intro x; simp only [applyRemovals, remTot]
    cases hm : mget m x with
    | none => rfl
    | some vc =>
      have := mget_pos m hp x vc.1 vc.2 hm
      simp; omega
  | cons e es ih =>
    cases e with
    | removeMany k n =>
      obtain ⟨a1, a0, a2⟩ := ih (msub m k n) (nodup_msub _ _ _ h) (pos_msub _ _ _ hp)
      refine ⟨a1, a0, ?_⟩
      intro x
      simp only [applyRemovals, remTot, a2, mget_msub _ _ _ _ h]
      by_cases e : x = k
      · subst e
        cases hm : mget m x with
        | none => simp
        | some vc =>
          simp only [if_true, Option.bind_some]
          by_cases hgt : vc.2 > n
          · simp only [hgt, if_true, Option.bind_some]
            by_cases h2 : vc.2 - n > remTot es x
            · have : vc.2 > n + remTot es x := by omega
              simp [h2, this]; omega
            · have : ¬ vc.2 > n + remTot es x := by omega
              simp [h2, this]
          · have : ¬ vc.2 > n + remTot es x := by omega
            simp [hgt, this]
      · have e' : ¬ k = x := fun h => e h.symm
        simp [e, e']
    | removeSingle k =>
      obtain ⟨a1, a0, a2⟩ := ih (msub m k 1) (nodup_msub _ _ _ h) (pos_msub _ _ _ hp)
      refine ⟨a1, a0, ?_⟩
      intro x
      simp only [applyRemovals, remTot, a2, mget_msub _ _ _ _ h]
      by_cases e : x = k
      · subst e
        cases hm : mget m x with
        | none => simp
        | some vc =>
          simp only [if_true, Option.bind_some]
          by_cases hgt : vc.2 > 1
          · simp only [hgt, if_true, Option.bind_some]
            by_cases h2 : vc.2 - 1 > remTot es x
            · have : vc.2 > 1 + remTot es x := by omega
              simp [h2, this]; omega
            · have : ¬ vc.2 > 1 + remTot es x := by omega
              simp [h2, this]
          · have : ¬ vc.2 > 1 + remTot es x := by omega
            simp [hgt, this]
      · have e' : ¬ k = x := fun h => e h.symm
        simp [e, e']
    | insertMany k v n => simpa [applyRemovals, remTot] using ih m h hp
    | insertSingle k v => simpa [applyRemovals, remTot] using ih m h hp

/-- insertion pass: an existing key only gains count (its value is kept); a missing key takes the first inserted value -/
theorem applyInsertions_spec (m : MMap κ ν) (es : List (Change κ ν)) (h : NoDup m) :
    NoDup (applyInsertions m es) ∧
    ∀ x, mget (applyInsertions m es) x =
      match mget m x with
      | some vc => some (vc.1, vc.2 + insTot es x)
      | none => (insVal es x).map (fun v => (v, insTot es x)) := by
  induction es generalizing m with
  | nil =>
    refine ⟨h, ?_⟩
    intro x; simp only [applyInsertions, insTot, insVal]
    cases hm : mget m x <;> simp
  | cons e es ih =>
    cases e with
    | insertMany k v n =>
      simp only [applyInsertions]
      cases hk : mget m k with
      | none =>
        obtain ⟨a1, a2⟩ := ih (mput m k v n) (nodup_mput _ _ _ _ h)
        refine ⟨a1, ?_⟩
        intro x
        rw [a2, mget_mput]
        simp only [insTot, insVal]
        by_cases e : x = k
        · subst e; simp [hk]
        · have e' : ¬ k = x := fun h => e h.symm
          simp [e, e']
      | some vc =>
        obtain ⟨a1, a2⟩ := ih (mbump m k n) (nodup_mbump _ _ _ h)
        refine ⟨a1, ?_⟩
        intro x
        rw [a2, mget_mbump]
        simp only [insTot, insVal]
        by_cases e : x = k
        · subst e; simp [hk]; omega
        · have e' : ¬ k = x := fun h => e h.symm
          simp [e, e']
    | insertSingle k v =>
      simp only [applyInsertions]
      cases hk : mget m k with
      | none =>
        obtain ⟨a1, a2⟩ := ih (mput m k v 1) (nodup_mput _ _ _ _ h)
        refine ⟨a1, ?_⟩
        intro x
        rw [a2, mget_mput]
        simp only [insTot, insVal]
        by_cases e : x = k
        · subst e; simp [hk]
        · have e' : ¬ k = x := fun h => e h.symm
          simp [e, e']
      | some vc =>
        obtain ⟨a1, a2⟩ := ih (mbump m k 1) (nodup_mbump _ _ _ h)
        refine ⟨a1, ?_⟩
        intro x
        rw [a2, mget_mbump]
        simp only [insTot, insVal]
        by_cases e : x = k
        · subst e; simp [hk]; omega
        · have e' : ¬ k = x := fun h => e h.symm
          simp [e, e']
    | removeMany k n => simpa [applyInsertions, insTot, insVal] using ih m h
    | removeSingle k => simpa [applyInsertions, insTot, insVal] using ih m h

end UMap

namespace UMap
variable {κ ν : Type} [DecidableEq κ] [DecidableEq ν]

/-! ### the comparison loop, key by key -/

def cnt : Change κ ν → Nat
  | .insertMany _ _ n | .removeMany _ n => n
  | .insertSingle _ _ | .removeSingle _ => 1

omit [DecidableEq ν] in
theorem mk_rem (k : κ) (v : ν) (n : Nat) (x : κ) :
    remTot [mkChange k v n .rem] x = (if k = x then n else 0) ∧ insTot [mkChange k v n .rem] x = 0 ∧
    insVal [mkChange k v n .rem] x = none ∧ cnt (mkChange k v n .rem) = n := by
  simp only [mkChange]; split <;> simp_all [remTot, insTot, insVal, cnt]

omit [DecidableEq ν] in
theorem mk_ins (k : κ) (v : ν) (n : Nat) (x : κ) :
    remTot [mkChange k v n .ins] x = 0 ∧ insTot [mkChange k v n .ins] x = (if k = x then n else 0) ∧
    insVal [mkChange k v n .ins] x = (if k = x then some v else none) ∧ cnt (mkChange k v n .ins) = n := by
  simp only [mkChange]; split <;> simp_all [remTot, insTot, insVal, cnt]

/-- summary of the entries emitted for one key of `current` against its state `p` in `previous` -/
def headSpec (v : ν) (cc : Nat) (p : Option (ν × Nat)) : Nat × Nat × Option ν :=
  match p with
  | none => (0, cc, some v)
  | some (pv, pc) => if pv = v then (pc - cc, cc - pc, if cc > pc then some v else none) else (pc, cc, some v)

theorem loop1_head (k : κ) (v : ν) (cc : Nat) (hcc : 0 < cc) (cur prev : MMap κ ν) (hp : Pos prev) :
    ∃ hd : List (Change κ ν),
      loop1 ((k, v, cc) :: cur) prev =
        (hd ++ (loop1 cur (merase prev k).2).1, (loop1 cur (merase prev k).2).2.1, (loop1 cur (merase prev k).2).2.2) ∧
      (∀ x, (remTot hd x, insTot hd x, insVal hd x) = if x = k then headSpec v cc (mget prev k) else (0, 0, none)) ∧
      (∀ e ∈ hd, 0 < cnt e) := by
  simp only [loop1, merase_fst]
  cases hpk : mget prev k with
  | none =>
    have hA : mkAssert cc = true := by simp [mkAssert]; omega
    refine ⟨[mkChange k v cc .ins], by simp [hA], ?_, ?_⟩
    · intro x
      obtain ⟨a, b, c, _⟩ := mk_ins k v cc x
      rw [a, b, c]
      by_cases e : x = k
      · subst e; simp [headSpec]
      · have e' : ¬ k = x := fun h => e h.symm
        simp [e, e']
    · intro e he; simp only [List.mem_singleton] at he; subst he; rw [(mk_ins k v cc k).2.2.2]; exact hcc
  | some pvc =>
    obtain ⟨pv, pc⟩ := pvc
    have hpc : 0 < pc := mget_pos prev hp k pv pc hpk
    simp only []
    by_cases hv : pv = v
    · subst hv
      simp only [if_true]
      by_cases hgt : cc > pc
      · have hA : mkAssert (cc - pc) = true := by simp [mkAssert]; omega
        refine ⟨[mkChange k pv (cc - pc) .ins], by simp [hgt, hA], ?_, ?_⟩
        · intro x
          obtain ⟨a, b, c, _⟩ := mk_ins k pv (cc - pc) x
          rw [a, b, c]
          by_cases e : x = k
          · subst e; simp [headSpec, hgt]; omega
          · have e' : ¬ k = x := fun h => e h.symm
            simp [e, e']
        · intro e he; simp only [List.mem_singleton] at he; subst he; rw [(mk_ins k pv (cc - pc) k).2.2.2]; omega
      · by_cases hlt : cc < pc
        · have hA : mkAssert (pc - cc) = true := by simp [mkAssert]; omega
          refine ⟨[mkChange k pv (pc - cc) .rem], by simp [hgt, hlt, hA], ?_, ?_⟩
          · intro x
            obtain ⟨a, b, c, _⟩ := mk_rem k pv (pc - cc) x
            rw [a, b, c]
            by_cases e : x = k
            · subst e; simp [headSpec, hgt]; omega
            · have e' : ¬ k = x := fun h => e h.symm
              simp [e, e']
          · intro e he; simp only [List.mem_singleton] at he; subst he; rw [(mk_rem k pv (pc - cc) k).2.2.2]; omega
        · refine ⟨[], by simp [hgt, hlt], ?_, by simp⟩
          intro x
          by_cases e : x = k
          · subst e; simp [headSpec, remTot, insTot, insVal, hgt]; omega
          · simp [e, remTot, insTot, insVal]
    · simp only [hv, if_false]
      have hA1 : mkAssert pc = true := by simp [mkAssert]; omega
      have hA2 : mkAssert cc = true := by simp [mkAssert]; omega
      refine ⟨[mkChange k pv pc .rem, mkChange k v cc .ins], by simp [hA1, hA2], ?_, ?_⟩
      · intro x
        obtain ⟨a, b, c, _⟩ := mk_rem k pv pc x
        obtain ⟨a', b', c', _⟩ := mk_ins k v cc x
        have e1 : [mkChange k pv pc Dir.rem, mkChange k v cc Dir.ins] = [mkChange k pv pc Dir.rem] ++ [mkChange k v cc Dir.ins] := rfl
        rw [e1, remTot_append, insTot_append, insVal_append, a, b, c, a', b', c']
        by_cases e : x = k
        · subst e; simp [headSpec, hv]
        · have e' : ¬ k = x := fun h => e h.symm
          simp [e, e']
      · intro e he
        simp only [List.mem_cons, List.not_mem_nil, or_false] at he
        rcases he with rfl | rfl
        · rw [(mk_rem k pv pc k).2.2.2]; exact hpc
        · rw [(mk_ins k v cc k).2.2.2]; exact hcc

/-- per-key summary expected from the whole first loop -/
def loopSpec (c p : Option (ν × Nat)) : Nat × Nat × Option ν :=
  match c with
  | none => (0, 0, none)
  | some (v, cc) => headSpec v cc p

theorem loop1_spec (cur prev : MMap κ ν) (hc : NoDup cur) (hpn : NoDup prev) (pc : Pos cur) (pp : Pos prev) :
    (∀ x, (remTot (loop1 cur prev).1 x, insTot (loop1 cur prev).1 x, insVal (loop1 cur prev).1 x) = loopSpec (mget cur x) (mget prev x)) ∧
    NoDup (loop1 cur prev).2.1 ∧ Pos (loop1 cur prev).2.1 ∧
    (∀ x, mget (loop1 cur prev).2.1 x = if (mget cur x).isSome then none else mget prev x) ∧
    (loop1 cur prev).2.2 = true ∧ (∀ e ∈ (loop1 cur prev).1, 0 < cnt e) := by
  induction cur generalizing prev with
  | nil => exact ⟨by intro x; simp [loop1, remTot, insTot, insVal, loopSpec, mget], hpn, pp, by intro x; simp [loop1, mget], rfl, by simp [loop1]⟩
  | cons e cur ih =>
    obtain ⟨k, v, cc⟩ := e
    have hcc : 0 < cc := pc (k, v, cc) (List.mem_cons_self)
    obtain ⟨hd, heq, h1, h2⟩ := loop1_head k v cc hcc cur prev pp
    have pe : Pos (merase prev k).2 := fun e he => pp e (merase_sub prev k e he)
    obtain ⟨i1, i2, i3, i4, i5, i6⟩ := ih (merase prev k).2 hc.2 (nodup_merase prev k hpn) (fun e he => pc e (List.mem_cons_of_mem _ he)) pe
    have hck : mget cur k = none := hc.1
    rw [heq]
    refine ⟨?_, i2, i3, ?_, i5, ?_⟩
    · intro x
      have hh := h1 x
      have ii := i1 x
      have r1 := congrArg (·.1) hh
      have r2 := congrArg (·.2.1) hh
      have r3 := congrArg (·.2.2) hh
      have t1 := congrArg (·.1) ii
      have t2 := congrArg (·.2.1) ii
      have t3 := congrArg (·.2.2) ii
      simp only [] at r1 r2 r3 t1 t2 t3
      simp only [remTot_append, insTot_append, insVal_append, r1, r2, r3, t1, t2, t3]
      rw [mget_merase prev k x hpn]
      by_cases e : x = k
      · subst e
        simp only [if_true, hck, loopSpec, mget]
        generalize headSpec v cc (mget prev x) = hs
        obtain ⟨a, b, c⟩ := hs
        cases c <;> simp
      · have e' : ¬ k = x := fun h => e h.symm
        simp only [e, e', if_false, mget, Nat.zero_add]
    · intro x
      rw [i4 x, mget_merase prev k x hpn]
      by_cases e : x = k
      · subst e; simp [mget, hck]
      · have e' : ¬ k = x := fun h => e h.symm
        simp [mget, e, e']
    · intro e he
      rcases List.mem_append.mp he with he | he
      · exact h2 e he
      · exact i6 e he

end UMap

namespace UMap
variable {κ ν : Type} [DecidableEq κ] [DecidableEq ν]

/-! ### the whole comparison, and applying it -/

def restOf (m : MMap κ ν) : List (Change κ ν) := m.map fun (k, v, n) => mkChange k v n .rem

theorem rest_spec (m : MMap κ ν) (h : NoDup m) (hp : Pos m) :
    (∀ x, remTot (restOf m) x = match mget m x with | some vc => vc.2 | none => 0) ∧
    (∀ x, insTot (restOf m) x = 0) ∧ (∀ x, insVal (restOf m) x = none) ∧
    (∀ e ∈ restOf m, 0 < cnt e) ∧ (m.all fun (_, _, n) => mkAssert n) = true := by
  induction m with
  | nil => simp [restOf, remTot, insTot, insVal, mget]
  | cons e t ih =>
    obtain ⟨k, v, n⟩ := e
    obtain ⟨a1, a2, a3, a4, a5⟩ := ih h.2 (fun e he => hp e (List.mem_cons_of_mem _ he))
    have hn : 0 < n := hp (k, v, n) (List.mem_cons_self)
    have e1 : restOf ((k, v, n) :: t) = [mkChange k v n .rem] ++ restOf t := rfl
    refine ⟨?_, ?_, ?_, ?_, ?_⟩
    · intro x
      rw [e1, remTot_append, (mk_rem k v n x).1, a1, mget]
      by_cases e : k = x
      · subst e; simp [h.1]
      · simp [e]
    · intro x; rw [e1, insTot_append, (mk_rem k v n x).2.1, a2]
    · intro x; rw [e1, insVal_append, (mk_rem k v n x).2.2.1, a3]
    · intro e he
      rw [e1] at he
      rcases List.mem_append.mp he with he | he
      · simp only [List.mem_singleton] at he; subst he; rw [(mk_rem k v n k).2.2.2]; exact hn
      · exact a4 e he
    · have hA : mkAssert n = true := by simp [mkAssert]; omega
      simp only [List.all_cons, hA, Bool.true_and]; exact a5

/-- the change list built when no replacement is chosen, from the collected maps `P`, `C` -/
def entriesOf (P C : MMap κ ν) : List (Change κ ν) := (loop1 C P).1 ++ restOf (loop1 C P).2.1

/-- **core round trip**: applying the change list computed from collected maps `P → C` to a base map that
agrees with `P` yields a map that agrees with `C`, key by key (value AND count) -/
theorem roundtrip_mget (P C B : MMap κ ν) (hP : NoDup P) (hC : NoDup C) (pP : Pos P) (pC : Pos C)
    (hB : NoDup B) (pB : Pos B) (hBP : ∀ x, mget B x = mget P x) :
    let es := entriesOf P C
    let M := applyInsertions (applyRemovals B (es.filter fun e => !isInsert e)) (es.filter isInsert)
    NoDup M ∧ ∀ x, mget M x = mget C x := by
  intro es M
  obtain ⟨l1, l2, l3, l4, _, _⟩ := loop1_spec C P hC hP pC pP
  obtain ⟨r1, r2, r3, _, _⟩ := rest_spec _ l2 l3
  obtain ⟨a1, a0, a2⟩ := applyRemovals_spec B (es.filter fun e => !isInsert e) hB pB
  obtain ⟨b1, b2⟩ := applyInsertions_spec _ (es.filter isInsert) a1
  refine ⟨b1, ?_⟩
  intro x
  have ll := l1 x
  have s1 := congrArg (·.1) ll
  have s2 := congrArg (·.2.1) ll
  have s3 := congrArg (·.2.2) ll
  simp only [] at s1 s2 s3
  have hr : remTot es x = remTot (loop1 C P).1 x + (match mget (loop1 C P).2.1 x with | some vc => vc.2 | none => 0) := by
    simp only [es, entriesOf, remTot_append, r1]
  have hi : insTot es x = insTot (loop1 C P).1 x := by simp only [es, entriesOf, insTot_append, r2, Nat.add_zero]
  have hv : insVal es x = insVal (loop1 C P).1 x := by
    simp only [es, entriesOf, insVal_append, r3]
    cases insVal (loop1 C P).1 x <;> rfl
  show mget M x = mget C x
  rw [b2 x, a2 x, remTot_filter, insTot_filter, insVal_filter, hBP x, hr, hi, hv, s1, s2, s3, l4 x]
  cases hc : mget C x with
  | none =>
    simp only [loopSpec, Option.isSome_none, Bool.false_eq_true, if_false]
    cases hp : mget P x with
    | none => simp
    | some pvc => simp
  | some vc =>
    obtain ⟨v, cc⟩ := vc
    have hcc : 0 < cc := mget_pos C pC x v cc hc
    simp only [loopSpec, Option.isSome_some, if_true, Nat.add_zero]
    cases hp : mget P x with
    | none => simp [headSpec]
    | some pvc =>
      obtain ⟨pv, pc⟩ := pvc
      have hpc : 0 < pc := mget_pos P pP x pv pc hp
      simp only [headSpec, Option.bind_some]
      by_cases hvv : pv = v
      · subst hvv
        simp only [if_true]
        have h1 : pc > pc - cc := by omega
        simp only [h1, if_true]
        congr 2; omega
      · simp only [hvv, if_false]
        have h1 : ¬ pc > pc := by omega
        simp [h1]

/-- maps whose every count is 1 expand to one pair per key -/
theorem expand_ones (M : MMap κ ν) (hM : NoDup M) (h1 : ∀ e ∈ M, e.2.2 = 1) :
    UniqueKeys (expand M) ∧ ∀ k, plookup (expand M) k = (mget M k).map (·.1) := by
  induction M with
  | nil => simp [expand, UniqueKeys, plookup, mget]
  | cons e t ih =>
    obtain ⟨k, v, c⟩ := e
    have hc : c = 1 := h1 (k, v, c) (List.mem_cons_self)
    subst hc
    obtain ⟨a1, a2⟩ := ih hM.2 (fun e he => h1 e (List.mem_cons_of_mem _ he))
    have hexp : expand ((k, v, 1) :: t) = (k, v) :: expand t := by simp [expand]
    rw [hexp]
    refine ⟨?_, ?_⟩
    · simp only [UniqueKeys, List.map_cons, List.nodup_cons]
      refine ⟨?_, a1⟩
      intro hmem
      obtain ⟨⟨k', v'⟩, hin, hk⟩ := List.mem_map.mp hmem
      simp only at hk; subst hk
      have : plookup (expand t) k' ≠ none := by
        have : ∀ (l : List (κ × ν)) (k : κ) (v : ν), (k, v) ∈ l → plookup l k ≠ none := by
          intro l k v hl
          induction l with
          | nil => simp at hl
          | cons a l ihl =>
            obtain ⟨ka, va⟩ := a
            simp only [plookup]
            split
            · simp
            · rcases List.mem_cons.mp hl with h | h
              · cases h; rename_i hne; exact absurd rfl hne
              · exact ihl h
        exact this _ _ _ hin
      rw [a2, hM.1] at this; simp at this
    · intro x
      simp only [plookup, mget, a2]
      split <;> simp

theorem plookup_eq_of_mget (l : List (κ × ν)) (M : MMap κ ν) (hM : NoDup M)
    (h : ∀ x, mget M x = (plookup l x).map (fun v => (v, 1))) :
    UniqueKeys (expand M) ∧ ∀ k, plookup (expand M) k = plookup l k := by
  have h1 : ∀ e ∈ M, e.2.2 = 1 := by
    intro e he
    obtain ⟨k, v, c⟩ := e
    have hm : mget M k = some (v, c) := by
      have : ∀ (M : MMap κ ν), NoDup M → (k, v, c) ∈ M → mget M k = some (v, c) := by
        intro M hM hin
        induction M with
        | nil => simp at hin
        | cons a t ih =>
          obtain ⟨ka, va, ca⟩ := a
          rcases List.mem_cons.mp hin with h | h
          · cases h; simp [mget]
          · have hne : ¬ ka = k := by
              intro e; subst e
              have := ih hM.2 h
              rw [hM.1] at this; cases this
            simp [mget, hne, ih hM.2 h]
      exact this M hM he
    rw [h k] at hm
    cases hp : plookup l k with
    | none => rw [hp] at hm; cases hm
    | some w => rw [hp] at hm; simp at hm; exact hm.2.symm
  obtain ⟨a1, a2⟩ := expand_ones M hM h1
  refine ⟨a1, ?_⟩
  intro k
  rw [a2, h k]
  cases plookup l k <;> rfl

end UMap

namespace UMap
variable {κ ν : Type} [DecidableEq κ] [DecidableEq ν]

/-! ### auxiliary facts for the top-level statements -/

def coll (keyOnly : Bool) (l : List (κ × ν)) : MMap κ ν := if keyOnly then collectKeyEq l else collectKeyValueEq l

theorem hashcmpA_eq (prev cur : List (κ × ν)) (b : Bool) :
    hashcmpA prev cur b =
      if ((coll b cur).length : Int) < ((coll b prev).length : Int) - ((coll b cur).length : Int)
      then (some (.replace (expand (coll b cur))), true)
      else ((if (entriesOf (coll b prev) (coll b cur)).isEmpty then none else some (.modify (entriesOf (coll b prev) (coll b cur)))),
            (loop1 (coll b cur) (coll b prev)).2.2 && (loop1 (coll b cur) (coll b prev)).2.1.all fun (_, _, n) => mkAssert n) := by
  cases b <;> rfl

theorem coll_unique (b : Bool) (l : List (κ × ν)) (h : UniqueKeys l) :
    NoDup (coll b l) ∧ Pos (coll b l) ∧ (∀ x, mget (coll b l) x = (plookup l x).map (fun v => (v, 1))) ∧ (coll b l).length = l.length := by
  obtain ⟨a1, a2, a3, a4, a5, a6, a7, a8⟩ := collect_unique l h
  cases b
  · exact ⟨a5, a6, a2, a8⟩
  · exact ⟨a3, a4, a1, a7⟩

theorem eq_nil_of_mget_none (m : MMap κ ν) (h : ∀ x, mget m x = none) : m = [] := by
  cases m with
  | nil => rfl
  | cons e t => obtain ⟨k, v, c⟩ := e; have := h k; simp [mget] at this

theorem eq_nil_of_totals (es : List (Change κ ν)) (hpos : ∀ e ∈ es, 0 < cnt e)
    (h : ∀ x, remTot es x = 0 ∧ insTot es x = 0) : es = [] := by
  cases es with
  | nil => rfl
  | cons e t =>
    exfalso
    have hp := hpos e (List.mem_cons_self)
    cases e with
    | insertMany k v n => have := (h k).2; simp [insTot, cnt] at this hp; omega
    | insertSingle k v => have := (h k).2; simp [insTot] at this
    | removeMany k n => have := (h k).1; simp [remTot, cnt] at this hp; omega
    | removeSingle k => have := (h k).1; simp [remTot] at this

omit [DecidableEq ν] in
theorem plookup_isSome_iff (l : List (κ × ν)) (k : κ) : (plookup l k).isSome ↔ k ∈ l.map (·.1) := by
  induction l with
  | nil => simp [plookup]
  | cons a t ih =>
    obtain ⟨ka, va⟩ := a
    simp only [plookup, List.map_cons, List.mem_cons]
    split
    · rename_i h; simp [h]
    · rename_i h
      rw [ih]
      constructor
      · intro hm; exact Or.inr hm
      · rintro (e | hm)
        · exact absurd e.symm h
        · exact hm

omit [DecidableEq ν] in
theorem length_eq_of_lookup (a b : List (κ × ν)) (ha : UniqueKeys a) (hb : UniqueKeys b)
    (h : ∀ k, (plookup a k).isSome = (plookup b k).isSome) : a.length = b.length := by
  have hperm : (a.map (·.1)).Perm (b.map (·.1)) := by
    rw [List.perm_ext_iff_of_nodup ha hb]
    intro k
    rw [← plookup_isSome_iff, ← plookup_isSome_iff, h k]
  simpa using hperm.length_eq

omit [DecidableEq ν] in
theorem mem_expand (M : MMap κ ν) (k : κ) (v : ν) (h : (k, v) ∈ expand M) : ∃ c, (k, v, c) ∈ M := by
  simp only [expand, List.mem_flatMap] at h
  obtain ⟨⟨k', v', c⟩, hin, hrep⟩ := h
  have := (List.mem_replicate.mp hrep).2
  cases this
  exact ⟨c, hin⟩

theorem mget_isSome_of_mem (M : MMap κ ν) (k : κ) (v : ν) (c : Nat) (h : (k, v, c) ∈ M) : (mget M k).isSome := by
  induction M with
  | nil => simp at h
  | cons a t ih =>
    obtain ⟨ka, va, ca⟩ := a
    simp only [mget]
    split
    · rfl
    · rcases List.mem_cons.mp h with e | e
      · cases e; rename_i hne; exact absurd rfl hne
      · exact ih e

theorem collectKeyEq_keys (l : List (κ × ν)) (k : κ) (h : (mget (collectKeyEq l) k).isSome) : k ∈ l.map (·.1) := by
  have : ∀ (m : MMap κ ν), (mget (l.foldl stepKE m) k).isSome → (mget m k).isSome ∨ k ∈ l.map (·.1) := by
    clear h
    induction l with
    | nil => intro m hm; exact Or.inl hm
    | cons a t ih =>
      intro m hm
      rcases ih (stepKE m a) hm with h1 | h1
      · unfold stepKE at h1
        split at h1
        · rw [mget_mbump] at h1
          by_cases e : k = a.1
          · subst e; rename_i hs; left; simp [hs]
          · left; simpa [e] using h1
        · rw [mget_mput] at h1
          by_cases e : k = a.1
          · right; simp [e]
          · left; simpa [e] using h1
      · right; simp [h1]
  rcases this [] h with h1 | h1
  · simp [mget] at h1
  · exact h1

def keyOf : Change κ ν → κ
  | .insertMany k _ _ | .removeMany k _ | .insertSingle k _ | .removeSingle k => k

omit [DecidableEq ν] in
theorem insVal_some_mem (es : List (Change κ ν)) (k : κ) (h : (insVal es k).isSome) : k ∈ es.map keyOf := by
  induction es with
  | nil => simp [insVal] at h
  | cons e t ih =>
    cases e with
    | insertMany k' v n =>
      simp only [insVal] at h
      split at h
      · rename_i e; simp [keyOf, e]
      · simp [ih h]
    | insertSingle k' v =>
      simp only [insVal] at h
      split at h
      · rename_i e; simp [keyOf, e]
      · simp [ih h]
    | removeMany k' n => simp only [insVal] at h; simp [ih h]
    | removeSingle k' => simp only [insVal] at h; simp [ih h]

end UMap
