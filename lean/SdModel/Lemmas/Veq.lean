import SdModel.Model.Derive

/-! `veq` (the derived `==` over universal values) is a partial equivalence relation: symmetric and transitive;
it is reflexive on values that contain no `nanCode` atom. -/
namespace Derive

theorem beq_symm' {α : Type} [BEq α] [LawfulBEq α] (a b : α) : (a == b) = (b == a) := by
  cases h : (a == b) <;> cases h' : (b == a) <;> simp_all

theorem eqAtom_symm (a b : Nat) : eqAtom a b = eqAtom b a := by
  simp only [eqAtom]
  rw [beq_symm' (canonAtom a) (canonAtom b)]
  cases (a != nanCode) <;> cases (b != nanCode) <;> simp

theorem eqAtom_trans (a b c : Nat) (h1 : eqAtom a b = true) (h2 : eqAtom b c = true) : eqAtom a c = true := by
  simp only [eqAtom, Bool.and_eq_true, beq_iff_eq] at *
  exact ⟨⟨h1.1.1, h2.1.2⟩, h1.2.trans h2.2⟩

mutual
theorem veq_symm : ∀ a b : Val, veq a b = veq b a
  | .atom a, .atom b => by simp only [veq]; exact eqAtom_symm a b
  | .list a, .list b => by simp only [veq]; exact beq_symm' a b
  | .pairs a, .pairs b => by simp only [veq]; exact beq_symm' a b
  | .strct a, .strct b => by simp only [veq]; exact veqs_symm a b
  | .onone, .onone => rfl
  | .osome a, .osome b => by simp only [veq]; exact veq_symm a b
  | .rmap a, .rmap b => by simp only [veq]; exact veqm_symm a b
  | .atom _, .list _ | .atom _, .pairs _ | .atom _, .strct _ | .atom _, .onone | .atom _, .osome _ | .atom _, .rmap _ => by simp [veq]
  | .list _, .atom _ | .list _, .pairs _ | .list _, .strct _ | .list _, .onone | .list _, .osome _ | .list _, .rmap _ => by simp [veq]
  | .pairs _, .atom _ | .pairs _, .list _ | .pairs _, .strct _ | .pairs _, .onone | .pairs _, .osome _ | .pairs _, .rmap _ => by simp [veq]
  | .strct _, .atom _ | .strct _, .list _ | .strct _, .pairs _ | .strct _, .onone | .strct _, .osome _ | .strct _, .rmap _ => by simp [veq]
  | .onone, .atom _ | .onone, .list _ | .onone, .pairs _ | .onone, .strct _ | .onone, .osome _ | .onone, .rmap _ => by simp [veq]
  | .osome _, .atom _ | .osome _, .list _ | .osome _, .pairs _ | .osome _, .strct _ | .osome _, .onone | .osome _, .rmap _ => by simp [veq]
  | .rmap _, .atom _ | .rmap _, .list _ | .rmap _, .pairs _ | .rmap _, .strct _ | .rmap _, .onone | .rmap _, .osome _ => by simp [veq]
theorem veqs_symm : ∀ a b : Vals, veqs a b = veqs b a
  | .nil, .nil => rfl
  | .cons a as, .cons b bs => by simp only [veqs]; rw [veq_symm a b, veqs_symm as bs]
  | .nil, .cons _ _ => by simp [veqs]
  | .cons _ _, .nil => by simp [veqs]
theorem veqm_symm : ∀ a b : RMapV, veqm a b = veqm b a
  | .nil, .nil => rfl
  | .cons k a as, .cons k' b bs => by
    simp only [veqm]; rw [veq_symm a b, veqm_symm as bs]
    rw [beq_symm' k k']
  | .nil, .cons _ _ _ => by simp [veqm]
  | .cons _ _ _, .nil => by simp [veqm]
end

mutual
theorem veq_trans : ∀ a b c : Val, veq a b = true → veq b c = true → veq a c = true
  | .atom a, b, c, h1, h2 => by
    cases b with
    | atom b => cases c with
      | atom c => simp only [veq] at *; exact eqAtom_trans a b c h1 h2
      | _ => simp [veq] at h2
    | _ => simp [veq] at h1
  | .list a, b, c, h1, h2 => by
    cases b with
    | list b => cases c with
      | list c => simp only [veq, beq_iff_eq] at *; exact h1.trans h2
      | _ => simp [veq] at h2
    | _ => simp [veq] at h1
  | .pairs a, b, c, h1, h2 => by
    cases b with
    | pairs b => cases c with
      | pairs c => simp only [veq, beq_iff_eq] at *; exact h1.trans h2
      | _ => simp [veq] at h2
    | _ => simp [veq] at h1
  | .strct a, b, c, h1, h2 => by
    cases b with
    | strct b => cases c with
      | strct c => simp only [veq] at *; exact veqs_trans a b c h1 h2
      | _ => simp [veq] at h2
    | _ => simp [veq] at h1
  | .onone, b, c, h1, h2 => by
    cases b with
    | onone => cases c with
      | onone => rfl
      | _ => simp [veq] at h2
    | _ => simp [veq] at h1
  | .osome a, b, c, h1, h2 => by
    cases b with
    | osome b => cases c with
      | osome c => simp only [veq] at *; exact veq_trans a b c h1 h2
      | _ => simp [veq] at h2
    | _ => simp [veq] at h1
  | .rmap a, b, c, h1, h2 => by
    cases b with
    | rmap b => cases c with
      | rmap c => simp only [veq] at *; exact veqm_trans a b c h1 h2
      | _ => simp [veq] at h2
    | _ => simp [veq] at h1
theorem veqs_trans : ∀ a b c : Vals, veqs a b = true → veqs b c = true → veqs a c = true
  | .nil, b, c, h1, h2 => by
    cases b with
    | nil => cases c with
      | nil => rfl
      | cons _ _ => simp [veqs] at h2
    | cons _ _ => simp [veqs] at h1
  | .cons a as, b, c, h1, h2 => by
    cases b with
    | nil => simp [veqs] at h1
    | cons b bs => cases c with
      | nil => simp [veqs] at h2
      | cons c cs =>
        simp only [veqs, Bool.and_eq_true] at *
        exact ⟨veq_trans a b c h1.1 h2.1, veqs_trans as bs cs h1.2 h2.2⟩
theorem veqm_trans : ∀ a b c : RMapV, veqm a b = true → veqm b c = true → veqm a c = true
  | .nil, b, c, h1, h2 => by
    cases b with
    | nil => cases c with
      | nil => rfl
      | cons _ _ _ => simp [veqm] at h2
    | cons _ _ _ => simp [veqm] at h1
  | .cons k a as, b, c, h1, h2 => by
    cases b with
    | nil => simp [veqm] at h1
    | cons k' b bs => cases c with
      | nil => simp [veqm] at h2
      | cons k'' c cs =>
        simp only [veqm, Bool.and_eq_true, beq_iff_eq] at *
        exact ⟨⟨h1.1.1.trans h2.1.1, veq_trans a b c h1.1.2 h2.1.2⟩, veqm_trans as bs cs h1.2 h2.2⟩
end

theorem veq_symm' {a b : Val} (h : veq a b = true) : veq b a = true := by rw [veq_symm]; exact h

/-- from `a == b` and `a == f` : `b == f` -/
theorem veq_tri {a b f : Val} (h1 : veq a b = true) (h2 : veq a f = true) : veq b f = true :=
  veq_trans b a f (veq_symm' h1) h2

end Derive
