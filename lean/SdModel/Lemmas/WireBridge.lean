import SdModel.Model.Derive
import SdModel.Model.Codec

/-!
Bridge between the entry lists of the derive model (`Derive.Entries`, payloads over the universal value type) and
the entry lists of the wire model (`Codec.PL` over flat element types): `toWire` is defined exactly on the entry
lists whose values are flat (`u32` / `Option<u32>` atoms, structs of those), `fromWire` inverts it.
-/
namespace Derive
open Codec

theorem mapM_inv {α β : Type} (f : α → Option β) (g : β → α) (h : ∀ a b, f a = some b → g b = a) :
    ∀ (l : List α) (w : List β), l.mapM f = some w → w.map g = l
  | [], w, hw => by simp at hw; subst hw; rfl
  | a :: l, w, hw => by
    simp only [List.mapM_cons, bind, Option.bind] at hw
    cases ha : f a with
    | none => simp [ha] at hw
    | some b =>
      cases hl : l.mapM f with
      | none => simp [ha, hl] at hw
      | some bs =>
        simp [ha, hl, pure] at hw
        subst hw
        simp only [List.map_cons, h a b ha, mapM_inv f g h l bs hl]

def pvOfVal : Val → Option PV
  | .atom n => some (.u n)
  | .onone => some (.o none)
  | .osome (.atom n) => some (.o (some n))
  | _ => none

def valOfPV : PV → Val
  | .u n => .atom n
  | .o none => .onone
  | .o (some n) => .osome (.atom n)

theorem valOfPV_pvOfVal (v : Val) (p : PV) (h : pvOfVal v = some p) : valOfPV p = v := by
  cases v with
  | atom n => simp [pvOfVal] at h; subst h; rfl
  | onone => simp [pvOfVal] at h; subst h; rfl
  | osome x =>
    cases x <;> simp [pvOfVal] at h
    subst h; rfl
  | _ => simp [pvOfVal] at h

def leafEntryToWire (e : Nat × Payload) : Option (Nat × PV) :=
  match e.2 with
  | .val v => (pvOfVal v).map fun p => (e.1, p)
  | _ => none
def leafEntryFromWire (e : Nat × PV) : Nat × Payload := (e.1, .val (valOfPV e.2))

theorem leafEntry_inv (e : Nat × Payload) (w : Nat × PV) (h : leafEntryToWire e = some w) : leafEntryFromWire w = e := by
  obtain ⟨j, p⟩ := e
  cases p <;> simp [leafEntryToWire] at h
  rename_i v
  obtain ⟨q, hq, rfl⟩ := h
  simp [leafEntryFromWire, valOfPV_pvOfVal v q hq]

def leafToWire (es : List (Nat × Payload)) : Option (List (Nat × PV)) := es.mapM leafEntryToWire
def leafFromWire (w : List (Nat × PV)) : List (Nat × Payload) := w.map leafEntryFromWire
theorem leaf_inv (es : List (Nat × Payload)) (w : List (Nat × PV)) (h : leafToWire es = some w) : leafFromWire w = es :=
  mapM_inv _ _ leafEntry_inv es w h

theorem Vals.ofList_toList : ∀ vs : Vals, Vals.ofList vs.toList = vs
  | .nil => rfl
  | .cons v r => by simp [Vals.toList, Vals.ofList, Vals.ofList_toList r]

/-- a struct value with flat fields -/
def valsToWire : Val → Option (List PV)
  | .strct vs => vs.toList.mapM pvOfVal
  | _ => none
def valsFromWire (l : List PV) : Val := .strct (Vals.ofList (l.map valOfPV))

theorem vals_inv (v : Val) (l : List PV) (h : valsToWire v = some l) : valsFromWire l = v := by
  cases v <;> simp [valsToWire] at h
  rename_i vs
  have := mapM_inv pvOfVal valOfPV valOfPV_pvOfVal vs.toList l h
  simp [valsFromWire, this, Vals.ofList_toList]

def rchangeToWire : RMap.Change Nat Val (List (Nat × Payload)) → Option (RMap.Change Nat (List PV) (List (Nat × PV)))
  | .insert k v => (valsToWire v).map (.insert k)
  | .remove k => some (.remove k)
  | .change k d => (leafToWire d).map (.change k)
def rchangeFromWire : RMap.Change Nat (List PV) (List (Nat × PV)) → RMap.Change Nat Val (List (Nat × Payload))
  | .insert k l => .insert k (valsFromWire l)
  | .remove k => .remove k
  | .change k d => .change k (leafFromWire d)

theorem rchange_inv (c) (w) (h : rchangeToWire c = some w) : rchangeFromWire w = c := by
  cases c with
  | insert k v => simp [rchangeToWire] at h; obtain ⟨l, hl, rfl⟩ := h; simp [rchangeFromWire, vals_inv v l hl]
  | remove k => simp [rchangeToWire] at h; subst h; rfl
  | change k d => simp [rchangeToWire] at h; obtain ⟨l, hl, rfl⟩ := h; simp [rchangeFromWire, leaf_inv d l hl]

def kvToWire (kv : Nat × Val) : Option (Nat × List PV) := (valsToWire kv.2).map fun l => (kv.1, l)
def kvFromWire (kv : Nat × List PV) : Nat × Val := (kv.1, valsFromWire kv.2)
theorem kv_inv (kv) (w) (h : kvToWire kv = some w) : kvFromWire w = kv := by
  obtain ⟨k, v⟩ := kv
  simp [kvToWire] at h; obtain ⟨l, hl, rfl⟩ := h; simp [kvFromWire, vals_inv v l hl]

def rdiffToWire : RMap.Diff Nat Val (List (Nat × Payload)) → Option LeafDiff
  | .replace l => (l.mapM kvToWire).map .replace
  | .modify cs => (cs.mapM rchangeToWire).map .modify
def rdiffFromWire : LeafDiff → RMap.Diff Nat Val (List (Nat × Payload))
  | .replace l => .replace (l.map kvFromWire)
  | .modify cs => .modify (cs.map rchangeFromWire)
theorem rdiff_inv (d) (w) (h : rdiffToWire d = some w) : rdiffFromWire w = d := by
  cases d with
  | replace l => simp [rdiffToWire] at h; obtain ⟨x, hx, rfl⟩ := h; simp [rdiffFromWire, mapM_inv _ _ kv_inv l x hx]
  | modify cs => simp [rdiffToWire] at h; obtain ⟨x, hx, rfl⟩ := h; simp [rdiffFromWire, mapM_inv _ _ rchange_inv cs x hx]

/-- one entry of the derive model as an entry of the wire model: (field, alternative) and the payload -/
def entryToWire (e : Entry) : Option ((Nat × Nat) × PL) :=
  match e.2 with
  | .val v => (pvOfVal v).map fun p => ((e.1, 0), .pv p)
  | .nested es => (leafToWire es).map fun w => ((e.1, 0), .ne w)
  | .optSome es => (leafToWire es).map fun w => ((e.1, 0), .on (some w))
  | .optNone => some ((e.1, 0), .on none)
  | .full v => (valsToWire v).map fun l => ((e.1, 1), .full l)
  | .script s => some ((e.1, 0), .sc s)
  | .uarr d => some ((e.1, 0), .ua d)
  | .umap d => some ((e.1, 0), .um d)
  | .rmap d => (rdiffToWire d).map fun w => ((e.1, 0), .rm w)

def entryFromWire (w : (Nat × Nat) × PL) : Entry :=
  (w.1.1, match w.2 with
    | .pv p => .val (valOfPV p)
    | .ne es => .nested (leafFromWire es)
    | .on none => .optNone
    | .on (some es) => .optSome (leafFromWire es)
    | .full l => .full (valsFromWire l)
    | .sc s => .script s
    | .ua d => .uarr d
    | .um d => .umap d
    | .rm d => .rmap (rdiffFromWire d))

theorem entry_inv (e : Entry) (w : (Nat × Nat) × PL) (h : entryToWire e = some w) : entryFromWire w = e := by
  obtain ⟨j, p⟩ := e
  cases p with
  | val v => simp [entryToWire] at h; obtain ⟨q, hq, rfl⟩ := h; simp [entryFromWire, valOfPV_pvOfVal v q hq]
  | nested es => simp [entryToWire] at h; obtain ⟨q, hq, rfl⟩ := h; simp [entryFromWire, leaf_inv es q hq]
  | optSome es => simp [entryToWire] at h; obtain ⟨q, hq, rfl⟩ := h; simp [entryFromWire, leaf_inv es q hq]
  | optNone => simp [entryToWire] at h; subst h; rfl
  | full v => simp [entryToWire] at h; obtain ⟨q, hq, rfl⟩ := h; simp [entryFromWire, vals_inv v q hq]
  | script s => simp [entryToWire] at h; subst h; rfl
  | uarr d => simp [entryToWire] at h; subst h; rfl
  | umap d => simp [entryToWire] at h; subst h; rfl
  | rmap d => simp [entryToWire] at h; obtain ⟨q, hq, rfl⟩ := h; simp [entryFromWire, rdiff_inv d q hq]

def toWire (es : Entries) : Option (List ((Nat × Nat) × PL)) := es.mapM entryToWire
def fromWire (w : List ((Nat × Nat) × PL)) : Entries := w.map entryFromWire

/-- `fromWire` inverts `toWire` wherever `toWire` is defined -/
theorem fromWire_toWire (es : Entries) (w : List ((Nat × Nat) × PL)) (h : toWire es = some w) : fromWire w = es :=
  mapM_inv _ _ entry_inv es w h

end Derive
