import SdModel.Model.UArr

/-! Helper lemmas for C11 / C19 / C20 (count-map algebra; every statement is order-free). -/
namespace UArr
variable {α : Type} [DecidableEq α]

/-- keys are distinct -/
def NoDup : CMap α → Prop
  | [] => True
  | (k, _) :: t => hasKey t k = false ∧ NoDup t

/-- every stored count is positive -/
def Pos (m : CMap α) : Prop := ∀ kc ∈ m, 0 < kc.2

theorem cget_of_not_hasKey (m : CMap α) (x : α) (h : hasKey m x = false) : cget m x = 0 := by
  fun_induction cget m x <;> simp_all [hasKey]

theorem hasKey_iff_mem (m : CMap α) (x : α) : hasKey m x = true ↔ x ∈ m.map (·.1) := by
  induction m with
  | nil => simp [hasKey]
  | cons kc t ih =>
    obtain ⟨k, c⟩ := kc
    simp only [hasKey, Bool.or_eq_true, decide_eq_true_eq, ih, List.map_cons, List.mem_cons]
    constructor
    · rintro (h | h); exact Or.inl h.symm; exact Or.inr h
    · rintro (h | h); exact Or.inl h.symm; exact Or.inr h

theorem cget_cadd (m : CMap α) (x y : α) (n : Nat) :
    cget (cadd m x n) y = cget m y + (if y = x then n else 0) := by
  fun_induction cadd m x n <;> grind [cget]

theorem hasKey_cadd (m : CMap α) (x y : α) (n : Nat) : hasKey (cadd m x n) y = (hasKey m y || decide (x = y)) := by
  fun_induction cadd m x n <;> grind [hasKey]

theorem nodup_cadd (m : CMap α) (x : α) (n : Nat) (h : NoDup m) : NoDup (cadd m x n) := by
  fun_induction cadd m x n <;> grind [NoDup, hasKey, hasKey_cadd]

theorem pos_cadd (m : CMap α) (x : α) (n : Nat) (hn : 0 < n) (h : Pos m) : Pos (cadd m x n) := by
  fun_induction cadd m x n
  · intro kc hkc; simp at hkc; subst hkc; exact hn
  · intro kc hkc
    rcases List.mem_cons.mp hkc with rfl | hkc
    · have := h _ (List.mem_cons_self); simp at this ⊢; omega
    · exact h kc (List.mem_cons_of_mem _ hkc)
  · rename_i ih
    intro kc hkc
    rcases List.mem_cons.mp hkc with rfl | hkc
    · exact h _ (List.mem_cons_self)
    · exact ih hn (fun kc hkc => h kc (List.mem_cons_of_mem _ hkc)) kc hkc

theorem cget_csub (m : CMap α) (x y : α) (n : Nat) (h : NoDup m) :
    cget (csub m x n) y = if y = x then cget m y - n else cget m y := by
  fun_induction csub m x n <;> grind [cget, NoDup, cget_of_not_hasKey]

theorem hasKey_csub_false (m : CMap α) (x y : α) (n : Nat) (h : hasKey m y = false) : hasKey (csub m x n) y = false := by
  fun_induction csub m x n <;> grind [hasKey]

theorem nodup_csub (m : CMap α) (x : α) (n : Nat) (h : NoDup m) : NoDup (csub m x n) := by
  fun_induction csub m x n <;> grind [NoDup, hasKey_csub_false]

theorem collect_spec (l : List α) : NoDup (collect l) ∧ Pos (collect l) ∧ ∀ x, cget (collect l) x = l.count x := by
  have : ∀ (m : CMap α), NoDup m → Pos m →
      NoDup (l.foldl (fun m x => cadd m x 1) m) ∧ Pos (l.foldl (fun m x => cadd m x 1) m) ∧
      ∀ x, cget (l.foldl (fun m x => cadd m x 1) m) x = cget m x + l.count x := by
    induction l with
    | nil => intro m h1 h2; exact ⟨h1, h2, by simp⟩
    | cons a t ih =>
      intro m h1 h2
      obtain ⟨a1, a2, a3⟩ := ih (cadd m a 1) (nodup_cadd m a 1 h1) (pos_cadd m a 1 (by omega) h2)
      refine ⟨a1, a2, ?_⟩
      intro x
      simp only [List.foldl_cons, a3, cget_cadd, List.count_cons]; grind
  obtain ⟨a1, a2, a3⟩ := this [] trivial (by intro kc hkc; simp at hkc)
  exact ⟨a1, a2, by intro x; simpa [collect, cget] using a3 x⟩

theorem hasKey_of_cget_pos (m : CMap α) (x : α) (h : 0 < cget m x) : hasKey m x = true := by
  by_cases hk : hasKey m x = true
  · exact hk
  · have := cget_of_not_hasKey m x (by simpa using hk); omega

theorem cget_pos_of_hasKey (m : CMap α) (x : α) (hp : Pos m) (h : hasKey m x = true) : 0 < cget m x := by
  induction m with
  | nil => simp [hasKey] at h
  | cons kc t ih =>
    obtain ⟨k, c⟩ := kc
    simp only [cget]
    by_cases e : k = x
    · simp [e]; exact hp (k, c) (List.mem_cons_self)
    · simp only [e, if_false]
      simp only [hasKey, e, decide_false, Bool.false_or] at h
      exact ih (fun kc hkc => hp kc (List.mem_cons_of_mem _ hkc)) h

theorem count_expand (m : CMap α) (x : α) (h : NoDup m) : (expand m).count x = cget m x := by
  induction m with
  | nil => simp [expand, cget]
  | cons kc t ih =>
    obtain ⟨k, c⟩ := kc
    have := ih h.2
    simp only [expand, List.flatMap_cons, List.count_append, List.count_replicate, cget] at *
    by_cases hk : k = x
    · subst hk; simp [this, cget_of_not_hasKey t k h.1]
    · have : (k == x) = false := by simp [hk]
      simp [hk, this, *]

/-! ### `cerase` -/

theorem cerase_fst (m : CMap α) (x : α) :
    (cerase m x).1 = (if hasKey m x then some (cget m x) else none) := by
  fun_induction cerase m x <;> grind [hasKey, cget]

theorem hasKey_cerase (m : CMap α) (x y : α) (h : NoDup m) :
    hasKey (cerase m x).2 y = (hasKey m y && !decide (y = x)) := by
  fun_induction cerase m x <;> grind [hasKey, NoDup]

theorem cget_cerase (m : CMap α) (x y : α) (h : NoDup m) :
    cget (cerase m x).2 y = if y = x then 0 else cget m y := by
  fun_induction cerase m x <;> grind [cget, NoDup, cget_of_not_hasKey]

theorem nodup_cerase (m : CMap α) (x : α) (h : NoDup m) : NoDup (cerase m x).2 := by
  fun_induction cerase m x <;> grind [NoDup, hasKey_cerase]

theorem cerase_spec (m : CMap α) (x : α) (h : NoDup m) :
    (cerase m x).1 = (if hasKey m x then some (cget m x) else none) ∧
    NoDup (cerase m x).2 ∧ hasKey (cerase m x).2 x = false ∧
    (∀ y, cget (cerase m x).2 y = if y = x then 0 else cget m y) ∧
    (∀ y, hasKey (cerase m x).2 y = (hasKey m y && !decide (y = x))) :=
  ⟨cerase_fst m x, nodup_cerase m x h, by rw [hasKey_cerase m x x h]; simp,
   fun y => cget_cerase m x y h, fun y => hasKey_cerase m x y h⟩

theorem cerase_sub (m : CMap α) (x : α) : ∀ kc ∈ (cerase m x).2, kc ∈ m := by
  induction m with
  | nil => simp [cerase]
  | cons kc t ih =>
    obtain ⟨k, c⟩ := kc
    simp only [cerase]
    split
    · intro kc hkc; exact List.mem_cons_of_mem _ hkc
    · intro kc hkc
      rcases List.mem_cons.mp hkc with rfl | hkc
      · exact List.mem_cons_self
      · exact List.mem_cons_of_mem _ (ih kc hkc)

/-! ### changes: items, counts, totals -/

omit [DecidableEq α] in
theorem mkChange_spec (f : Nat) (x : α) (n : Nat) (d : Dir) :
    changeItem (mkChange f x n d) = x ∧ changeCount (mkChange f x n d) = n ∧
    isInsert (mkChange f x n d) = decide (d = .ins) := by
  cases d <;> simp only [mkChange] <;> split <;> (try split) <;> simp_all [changeItem, changeCount, isInsert]

/-- total count of the entries of `es` that mention `y` -/
def total (es : List (Change α)) (y : α) : Nat :=
  (es.map fun e => if changeItem e = y then changeCount e else 0).sum

def inserted (es : List (Change α)) (y : α) : Nat := total (es.filter isInsert) y
def removed (es : List (Change α)) (y : α) : Nat := total (es.filter fun e => !isInsert e) y

@[simp] theorem total_nil (y : α) : total ([] : List (Change α)) y = 0 := rfl
theorem total_cons (e : Change α) (es : List (Change α)) (y : α) :
    total (e :: es) y = (if changeItem e = y then changeCount e else 0) + total es y := by simp [total]
theorem total_append (a b : List (Change α)) (y : α) : total (a ++ b) y = total a y + total b y := by
  simp [total, List.sum_append]

theorem applyRemovals_spec (m : CMap α) (es : List (Change α)) (h : NoDup m) :
    NoDup (applyRemovals m es) ∧ ∀ y, cget (applyRemovals m es) y = cget m y - total es y := by
  induction es generalizing m with
  | nil => exact ⟨h, by simp [applyRemovals]⟩
  | cons e es ih =>
    obtain ⟨a1, a2⟩ := ih (csub m (changeItem e) (changeCount e)) (nodup_csub _ _ _ h)
    refine ⟨a1, ?_⟩
    intro y
    simp only [applyRemovals, a2, cget_csub _ _ _ _ h, total_cons]
    by_cases e2 : y = changeItem e
    · have : changeItem e = y := e2.symm
      simp [e2]; omega
    · have : ¬ changeItem e = y := fun e3 => e2 e3.symm
      simp [e2, this]

theorem applyInsertions_spec (m : CMap α) (es : List (Change α)) (h : NoDup m) :
    NoDup (applyInsertions m es) ∧ ∀ y, cget (applyInsertions m es) y = cget m y + total es y := by
  induction es generalizing m with
  | nil => exact ⟨h, by simp [applyInsertions]⟩
  | cons e es ih =>
    obtain ⟨a1, a2⟩ := ih (cadd m (changeItem e) (changeCount e)) (nodup_cadd _ _ _ h)
    refine ⟨a1, ?_⟩
    intro y
    simp only [applyInsertions, a2, cget_cadd, total_cons]
    by_cases e2 : y = changeItem e
    · have : changeItem e = y := e2.symm
      simp [e2]; omega
    · have : ¬ changeItem e = y := fun e3 => e2 e3.symm
      simp [e2, this]

/-- **C19 core**: applying ANY change list to ANY base: per item, base count minus removed (saturating) plus inserted -/
theorem count_apply_modify (base : List α) (es : List (Change α)) (y : α) :
    (apply base (.modify es)).count y = (base.count y - removed es y) + inserted es y := by
  obtain ⟨c1, _, c3⟩ := collect_spec base
  obtain ⟨r1, r2⟩ := applyRemovals_spec (collect base) (es.filter fun e => !isInsert e) c1
  obtain ⟨i1, i2⟩ := applyInsertions_spec _ (es.filter isInsert) r1
  simp only [apply]
  rw [count_expand _ _ i1, i2, r2, c3]
  rfl

end UArr

namespace UArr
variable {α : Type} [DecidableEq α]

/-! ### the comparison loop -/

theorem inserted_cons (e : Change α) (es : List (Change α)) (y : α) :
    inserted (e :: es) y = (if isInsert e ∧ changeItem e = y then changeCount e else 0) + inserted es y := by
  unfold inserted
  by_cases h : isInsert e = true
  · simp [List.filter_cons, h, total_cons]
  · simp [List.filter_cons, h]

theorem removed_cons (e : Change α) (es : List (Change α)) (y : α) :
    removed (e :: es) y = (if ¬ isInsert e ∧ changeItem e = y then changeCount e else 0) + removed es y := by
  unfold removed
  by_cases h : isInsert e = true
  · simp [List.filter_cons, h]
  · simp [List.filter_cons, h, total_cons]

theorem nodup_keys (m : CMap α) : NoDup m ↔ (m.map (·.1)).Nodup := by
  induction m with
  | nil => simp [NoDup]
  | cons kc t ih =>
    obtain ⟨k, c⟩ := kc
    simp only [NoDup, List.map_cons, List.nodup_cons, ih]
    have hm := hasKey_iff_mem t k
    constructor
    · intro h
      refine ⟨?_, h.2⟩
      intro hmem
      have := hm.mpr hmem
      rw [h.1] at this; cases this
    · intro h
      refine ⟨?_, h.2⟩
      cases hk : hasKey t k
      · rfl
      · exact absurd (hm.mp hk) h.1

omit [DecidableEq α] in
theorem pos_of_sub {m m' : CMap α} (h : ∀ kc ∈ m', kc ∈ m) (hp : Pos m) : Pos m' := fun kc hkc => hp kc (h kc hkc)

theorem inserted_append (a b : List (Change α)) (y : α) : inserted (a ++ b) y = inserted a y + inserted b y := by
  simp [inserted, List.filter_append, total_append]
theorem removed_append (a b : List (Change α)) (y : α) : removed (a ++ b) y = removed a y + removed b y := by
  simp [removed, List.filter_append, total_append]

/-- one iteration of the loop: the entries it emits for the key `k` of `current` -/
theorem loop1_head (f : Nat) (k : α) (cc : Nat) (hcc : 0 < cc) (cur prev : CMap α) :
    ∃ (hd : List (Change α)),
      loop1 f ((k, cc) :: cur) prev =
        (hd ++ (loop1 f cur (cerase prev k).2).1, (loop1 f cur (cerase prev k).2).2.1,
         (loop1 f cur (cerase prev k).2).2.2) ∧
      (∀ y, inserted hd y = if y = k then cc - cget prev k else 0) ∧
      (∀ y, removed hd y = if y = k then cget prev k - cc else 0) ∧
      (hd.map changeItem).Sublist [k] ∧ (∀ e ∈ hd, 0 < changeCount e) := by
  simp only [loop1, cerase_fst]
  cases hpk : hasKey prev k with
  | false =>
    have hpk0 : cget prev k = 0 := cget_of_not_hasKey prev k hpk
    obtain ⟨m1, m2, m3⟩ := mkChange_spec f k cc Dir.ins
    have hA : mkAssert cc = true := by simp [mkAssert]; omega
    refine ⟨[mkChange f k cc .ins], by simp [hA], ?_, ?_, by simp [m1], ?_⟩
    · intro y; simp only [inserted_cons, m1, m2, m3, hpk0]; simp [inserted, eq_comm]
    · intro y; simp only [removed_cons, m1, m2, m3, hpk0]; simp [removed]
    · intro e he; simp only [List.mem_singleton] at he; subst he; rw [m2]; exact hcc
  | true =>
    simp only [if_true]
    by_cases hgt : cc > cget prev k
    · obtain ⟨m1, m2, m3⟩ := mkChange_spec f k (cc - cget prev k) Dir.ins
      have hA : mkAssert (cc - cget prev k) = true := by simp [mkAssert]; omega
      refine ⟨[mkChange f k (cc - cget prev k) .ins], by simp [hgt, hA], ?_, ?_, by simp [m1], ?_⟩
      · intro y; simp only [inserted_cons, m1, m2, m3]; simp [inserted, eq_comm]
      · intro y; simp only [removed_cons, m1, m2, m3]; simp [removed]; intro _; omega
      · intro e he; simp only [List.mem_singleton] at he; subst he; rw [m2]; omega
    · by_cases hlt : cc < cget prev k
      · obtain ⟨m1, m2, m3⟩ := mkChange_spec f k (cget prev k - cc) Dir.rem
        have hA : mkAssert (cget prev k - cc) = true := by simp [mkAssert]; omega
        refine ⟨[mkChange f k (cget prev k - cc) .rem], by simp [hgt, hlt, hA], ?_, ?_, by simp [m1], ?_⟩
        · intro y; simp only [inserted_cons, m1, m2, m3]; simp [inserted]; intro _; omega
        · intro y; simp only [removed_cons, m1, m2, m3]; simp [removed, eq_comm]
        · intro e he; simp only [List.mem_singleton] at he; subst he; rw [m2]; omega
      · refine ⟨[], by simp [hgt, hlt], ?_, ?_, by simp, by simp⟩
        · intro y; simp [inserted]; intro _; omega
        · intro y; simp [removed]; intro _; omega

theorem loop1_spec (f : Nat) (cur prev : CMap α) (hc : NoDup cur) (hp : NoDup prev) (pc : Pos cur) (pp : Pos prev) :
    (∀ y, inserted (loop1 f cur prev).1 y = if hasKey cur y then cget cur y - cget prev y else 0) ∧
    (∀ y, removed (loop1 f cur prev).1 y = if hasKey cur y then cget prev y - cget cur y else 0) ∧
    NoDup (loop1 f cur prev).2.1 ∧ Pos (loop1 f cur prev).2.1 ∧
    (∀ y, cget (loop1 f cur prev).2.1 y = if hasKey cur y then 0 else cget prev y) ∧
    (∀ y, hasKey (loop1 f cur prev).2.1 y = (hasKey prev y && !hasKey cur y)) ∧
    (loop1 f cur prev).2.2 = true ∧
    ((loop1 f cur prev).1.map changeItem).Sublist (cur.map (·.1)) ∧
    (∀ e ∈ (loop1 f cur prev).1, 0 < changeCount e) := by
  induction cur generalizing prev with
  | nil =>
    refine ⟨by simp [loop1, inserted, hasKey], by simp [loop1, removed, hasKey], hp, pp, by simp [loop1, hasKey], by simp [loop1, hasKey], rfl, by simp [loop1], by simp [loop1]⟩
  | cons kc cur ih =>
    obtain ⟨k, cc⟩ := kc
    obtain ⟨e1, e2, e3, e4, e5⟩ := cerase_spec prev k hp
    have hcc : 0 < cc := pc (k, cc) (List.mem_cons_self)
    have pe : Pos (cerase prev k).2 := pos_of_sub (cerase_sub prev k) pp
    obtain ⟨i1, i2, i3, i4, i5, i6, i7, i8, i9⟩ := ih (cerase prev k).2 hc.2 e2 (fun kc hkc => pc kc (List.mem_cons_of_mem _ hkc)) pe
    have hck : hasKey cur k = false := hc.1
    have hck0 : cget cur k = 0 := cget_of_not_hasKey cur k hck
    obtain ⟨hd, heq, h1, h2, h3, h4⟩ := loop1_head f k cc hcc cur prev
    rw [heq]
    refine ⟨?_, ?_, i3, i4, ?_, ?_, i7, ?_, ?_⟩
    · intro y
      simp only [inserted_append, h1, i1, e4]
      by_cases hy : y = k
      · subst hy; simp [hasKey, cget, hck]
      · have hy' : ¬ k = y := fun e => hy e.symm
        simp [hasKey, cget, hy, hy']
    · intro y
      simp only [removed_append, h2, i2, e4]
      by_cases hy : y = k
      · subst hy; simp [hasKey, cget, hck]
      · have hy' : ¬ k = y := fun e => hy e.symm
        simp [hasKey, cget, hy, hy']
    · intro y
      simp only [i5, e4]
      by_cases hy : y = k
      · subst hy; simp [hasKey]
      · have hy' : ¬ k = y := fun e => hy e.symm
        simp [hasKey, hy, hy']
    · intro y
      simp only [i6, e5]
      by_cases hy : y = k
      · subst hy; simp [hasKey]
      · have hy' : ¬ k = y := fun e => hy e.symm
        simp [hasKey, hy, hy']
    · simp only [List.map_append, List.map_cons]
      exact List.Sublist.append h3 i8
    · intro e he
      rcases List.mem_append.mp he with he | he
      · exact h4 e he
      · exact i9 e he

end UArr

namespace UArr
variable {α : Type} [DecidableEq α]

/-! ### the leftover removals and the whole comparison -/

theorem rest_spec (f : Nat) (m : CMap α) (h : NoDup m) (hp : Pos m) :
    (∀ y, inserted (m.map fun (k, v) => mkChange f k v .rem) y = 0) ∧
    (∀ y, removed (m.map fun (k, v) => mkChange f k v .rem) y = cget m y) ∧
    ((m.map fun (k, v) => mkChange f k v .rem).map changeItem = m.map (·.1)) ∧
    (∀ e ∈ (m.map fun (k, v) => mkChange f k v .rem), 0 < changeCount e) ∧
    (m.all fun (_, v) => mkAssert v) = true := by
  induction m with
  | nil => simp [inserted, removed, cget]
  | cons kc t ih =>
    obtain ⟨k, c⟩ := kc
    obtain ⟨a1, a2, a3, a4, a5⟩ := ih h.2 (fun kc hkc => hp kc (List.mem_cons_of_mem _ hkc))
    obtain ⟨m1, m2, m3⟩ := mkChange_spec f k c Dir.rem
    have hc : 0 < c := hp (k, c) (List.mem_cons_self)
    refine ⟨?_, ?_, ?_, ?_, ?_⟩
    · intro y; simp only [List.map_cons, inserted_cons, m1, m2, m3, a1]; simp
    · intro y
      simp only [List.map_cons, removed_cons, m1, m2, m3, a2, cget]
      by_cases e : k = y
      · subst e; simp [cget_of_not_hasKey t k h.1]
      · simp [e]
    · simp only [List.map_cons, m1, a3]
    · intro e he
      simp only [List.map_cons] at he
      rcases List.mem_cons.mp he with rfl | he
      · rw [m2]; exact hc
      · exact a4 e he
    · have hA : mkAssert c = true := by simp [mkAssert]; omega
      simp only [List.all_cons, hA, Bool.true_and]; exact a5

/-- the change list `unordered_hashcmp` builds when it does not replace -/
def modifyEntries (f : Nat) (prev cur : List α) : List (Change α) :=
  (loop1 f (collect cur) (collect prev)).1 ++
    (loop1 f (collect cur) (collect prev)).2.1.map fun (k, v) => mkChange f k v .rem

theorem modifyEntries_spec (f : Nat) (prev cur : List α) :
    (∀ y, inserted (modifyEntries f prev cur) y = cur.count y - prev.count y) ∧
    (∀ y, removed (modifyEntries f prev cur) y = prev.count y - cur.count y) ∧
    ((modifyEntries f prev cur).map changeItem).Nodup ∧
    (∀ e ∈ modifyEntries f prev cur, 0 < changeCount e) ∧
    ((loop1 f (collect cur) (collect prev)).2.2 &&
      (loop1 f (collect cur) (collect prev)).2.1.all fun (_, v) => mkAssert v) = true := by
  obtain ⟨c1, c2, c3⟩ := collect_spec cur
  obtain ⟨p1, p2, p3⟩ := collect_spec prev
  obtain ⟨l1, l2, l3, l4, l5, l6, l7, l8, l9⟩ := loop1_spec f (collect cur) (collect prev) c1 p1 c2 p2
  obtain ⟨r1, r2, r3, r4, r5⟩ := rest_spec f _ l3 l4
  have hkey : ∀ y, hasKey (collect cur) y = false → cur.count y = 0 := by
    intro y hy; rw [← c3]; exact cget_of_not_hasKey _ _ hy
  refine ⟨?_, ?_, ?_, ?_, by rw [l7, r5]; rfl⟩
  · intro y
    simp only [modifyEntries, inserted_append, l1, r1, c3, p3]
    cases hk : hasKey (collect cur) y
    · simp [hkey y hk]
    · simp
  · intro y
    simp only [modifyEntries, removed_append, l2, r2, l5, c3, p3]
    cases hk : hasKey (collect cur) y
    · simp [hkey y hk]
    · simp
  · simp only [modifyEntries, List.map_append, r3]
    rw [List.nodup_append]
    refine ⟨l8.nodup ((nodup_keys _).mp c1), (nodup_keys _).mp l3, ?_⟩
    intro a ha b hb e
    subst e
    have h1 : hasKey (collect cur) a = true := (hasKey_iff_mem _ _).mpr (l8.subset ha)
    have h2 : hasKey (loop1 f (collect cur) (collect prev)).2.1 a = true := (hasKey_iff_mem _ _).mpr hb
    rw [l6, h1] at h2; simp at h2
  · intro e he
    rcases List.mem_append.mp he with he | he
    · exact l9 e he
    · exact r4 e he

theorem hashcmpA_eq (f : Nat) (prev cur : List α) :
    hashcmpA f prev cur =
      if ((collect cur).length : Int) < ((collect prev).length : Int) - ((collect cur).length : Int)
      then (some (.replace (expand (collect cur))), true)
      else ((if (modifyEntries f prev cur).isEmpty then none else some (.modify (modifyEntries f prev cur))),
            (loop1 f (collect cur) (collect prev)).2.2 &&
              (loop1 f (collect cur) (collect prev)).2.1.all fun (_, v) => mkAssert v) := rfl

/-- entries with positive counts and zero totals: there are none -/
theorem eq_nil_of_totals (es : List (Change α)) (hpos : ∀ e ∈ es, 0 < changeCount e)
    (h : ∀ y, inserted es y = 0 ∧ removed es y = 0) : es = [] := by
  cases es with
  | nil => rfl
  | cons e t =>
    exfalso
    have hp := hpos e (List.mem_cons_self)
    have := h (changeItem e)
    rw [inserted_cons, removed_cons] at this
    by_cases hi : isInsert e = true
    · simp [hi] at this; omega
    · simp [hi] at this; omega

/-- number of distinct items: the collected map has one entry per distinct item -/
theorem collect_length_congr (a b : List α) (h : ∀ y, a.count y = b.count y) : (collect a).length = (collect b).length := by
  obtain ⟨a1, _, a3⟩ := collect_spec a
  obtain ⟨b1, b2, b3⟩ := collect_spec b
  obtain ⟨_, a2, _⟩ := collect_spec a
  have hperm : ((collect a).map (·.1)).Perm ((collect b).map (·.1)) := by
    rw [List.perm_ext_iff_of_nodup ((nodup_keys _).mp a1) ((nodup_keys _).mp b1)]
    intro y
    rw [← hasKey_iff_mem, ← hasKey_iff_mem]
    constructor
    · intro hy
      have := cget_pos_of_hasKey _ _ a2 hy
      rw [a3, h y, ← b3] at this
      exact hasKey_of_cget_pos _ _ this
    · intro hy
      have := cget_pos_of_hasKey _ _ b2 hy
      rw [b3, ← h y, ← a3] at this
      exact hasKey_of_cget_pos _ _ this
  simpa using hperm.length_eq

end UArr
