import SdModel.Model.Rope

/-! Helper lemmas for C09 (rope ≈ growable array). -/
namespace Rope
variable {α : Type}

/-- arithmetic side conditions on the constants extracted from the source -/
structure PWF (P : Params) : Prop where
  base_pos : 0 < P.BASE
  base_lt : P.BASE < P.MAX
  high_lt : P.HIGH < P.MAX
  chunk_pos : 0 < P.CHUNK
  chunk_lt : P.CHUNK < P.MAX

/-- representation invariant: every chunk holds between 1 and MAX-1 elements -/
def RInv (P : Params) (r : Chunks α) : Prop := ∀ c ∈ r, 1 ≤ c.length ∧ c.length + 1 ≤ P.MAX

/-- all chunks are within capacity (possibly empty): what holds in the middle of an operation -/
def Bounded (P : Params) (r : Chunks α) : Prop := ∀ c ∈ r, c.length + 1 ≤ P.MAX

theorem RInv.bounded {P : Params} {r : Chunks α} (h : RInv P r) : Bounded P r := fun c hc => (h c hc).2

@[simp] theorem flat_nil : flat ([] : Chunks α) = [] := rfl
@[simp] theorem flat_cons (c : List α) (r : Chunks α) : flat (c :: r) = c ++ flat r := rfl
@[simp] theorem flat_append (a b : Chunks α) : flat (a ++ b) = flat a ++ flat b := by simp [flat]

/-! ### rebalance: the loop preserves the flattening -/

theorem takeFromLater_zero (l : Chunks α) : takeFromLater 0 l = ([], l) := by
  cases l <;> simp [takeFromLater]

theorem takeFromLater_flat (n : Nat) (l : Chunks α) :
    (takeFromLater n l).1 ++ flat (takeFromLater n l).2 = flat l := by
  induction l generalizing n with
  | nil => simp [takeFromLater]
  | cons c cs ih =>
    simp only [takeFromLater]
    split
    · simp
    · have := ih (n - min n c.length)
      simp only [flat_cons, List.append_assoc] at *
      by_cases h : n ≤ c.length
      · have hk : min n c.length = n := Nat.min_eq_left h
        simp [hk, takeFromLater_zero]
        rw [← List.append_assoc, List.take_append_drop]
      · have hk : min n c.length = c.length := Nat.min_eq_right (by omega)
        rw [hk] at this ⊢
        simp [this]

theorem takeFromLater_fst_len (n : Nat) (l : Chunks α) : (takeFromLater n l).1.length ≤ n := by
  induction l generalizing n with
  | nil => simp [takeFromLater]
  | cons c cs ih =>
    simp only [takeFromLater]
    split
    · simp
    · have := ih (n - min n c.length)
      simp only [List.length_append, List.length_take]; omega

theorem takeFromLater_bounded (M n : Nat) (l : Chunks α) (h : ∀ c ∈ l, c.length ≤ M) :
    ∀ c ∈ (takeFromLater n l).2, c.length ≤ M := by
  induction l generalizing n with
  | nil => simp [takeFromLater]
  | cons c cs ih =>
    simp only [takeFromLater]
    split
    · exact h
    · intro d hd
      rcases List.mem_cons.mp hd with rfl | hd
      · have := h c (by simp); simp only [List.length_drop]; omega
      · exact ih _ (fun c hc => h c (by simp [hc])) d hd

theorem less_case (B : Nat) (carry c : List α) (rest : Chunks α) :
    let all := carry ++ c
    let t := takeFromLater (B - (all.take B).length) rest
    all.take B ++ t.1 ++ (all.drop B ++ flat t.2) = carry ++ c ++ flat rest := by
  intro all t
  have ht := takeFromLater_flat (B - (all.take B).length) rest
  by_cases hlen : all.length ≤ B
  · have h1 : all.take B = all := List.take_of_length_le hlen
    have h2 : all.drop B = [] := List.drop_of_length_le hlen
    show all.take B ++ (takeFromLater (B - (all.take B).length) rest).1 ++ (all.drop B ++ flat (takeFromLater (B - (all.take B).length) rest).2) = all ++ flat rest
    rw [h2, List.nil_append, List.append_assoc, ht, h1]
  · have hl : (all.take B).length = B := by simp; omega
    have h0 : t = ([], rest) := by simp [t, hl, takeFromLater_zero]
    rw [h0]
    show all.take B ++ [] ++ (all.drop B ++ flat rest) = all ++ flat rest
    rw [List.append_nil, ← List.append_assoc, List.take_append_drop]

theorem rebalLoop_flat (P : Params) (carry : List α) (rest : Chunks α) :
    flat (rebalLoop P carry rest).1 ++ (rebalLoop P carry rest).2 = carry ++ flat rest := by
  fun_induction rebalLoop P carry rest
  case case1 => simp
  case case2 carry rest r ih => simpa [r] using ih
  case case3 => simp_all
  case case4 carry c rest hc hbrk hlt all hold carry' t r ih =>
    by_cases hce : carry = []
    · subst hce
      have ht := takeFromLater_flat (P.BASE - c.length) rest
      simp only [hold, carry', t, r, all, dite_true, List.nil_append, flat_cons, List.append_assoc] at *
      rw [ih, ht]
    · have := less_case P.BASE carry c rest
      simp only [hold, carry', t, r, all, hce, dite_false, flat_cons, List.append_assoc] at *
      rw [ih]; exact this
  case case5 carry c rest hc hbrk hlt heq r ih =>
    obtain ⟨_, h⟩ := heq; subst h
    simp only [r, flat_cons, List.append_assoc, List.nil_append] at *
    rw [ih]
  case case6 carry c rest hc hbrk hlt heq hne all r ih =>
    simp only [all, r, flat_cons, List.append_assoc] at *
    rw [ih, ← List.append_assoc, ← List.append_assoc, List.take_append_drop]
  case case7 carry c rest hc hbrk hlt heq hne r ih =>
    have : carry = [] := by simpa using hne
    subst this
    simp only [r, flat_cons, List.append_assoc, List.nil_append] at *
    rw [ih, ← List.append_assoc, List.take_append_drop]

/-- every chunk the loop leaves behind is within `M` when the inputs are, `BASE ≤ M` and `HIGH ≤ M`
(a chunk the loop `break`s on has at most `HIGH` elements; every processed chunk at most `BASE`) -/
theorem rebalLoop_bounded (P : Params) (M : Nat) (hB : P.BASE ≤ M) (carry : List α) (rest : Chunks α)
    (h : ∀ c ∈ rest, c.length ≤ M) : ∀ c ∈ (rebalLoop P carry rest).1, c.length ≤ M := by
  fun_induction rebalLoop P carry rest
  case case1 => simp
  case case2 carry rest r ih =>
    intro d hd
    rcases List.mem_cons.mp hd with rfl | hd
    · simp
    · exact ih (fun c hc => h c (by simp [hc])) d hd
  case case3 => exact h
  case case4 carry c rest hc hbrk hlt all hold carry' t r ih =>
    intro d hd
    rcases List.mem_cons.mp hd with rfl | hd
    · have h1 := takeFromLater_fst_len (P.BASE - hold.length) rest
      have h2 : hold.length ≤ P.BASE := by
        simp only [hold]; split
        · omega
        · simp [List.length_take]; omega
      simp only [List.length_append]; simp only [t] at *; omega
    · exact ih (takeFromLater_bounded M _ rest (fun c hc => h c (by simp [hc]))) d hd
  case case5 carry c rest hc hbrk hlt heq r ih =>
    intro d hd
    rcases List.mem_cons.mp hd with rfl | hd
    · omega
    · exact ih (fun c hc => h c (by simp [hc])) d hd
  case case6 carry c rest hc hbrk hlt heq hne all r ih =>
    intro d hd
    rcases List.mem_cons.mp hd with rfl | hd
    · simp [List.length_take]; omega
    · exact ih (fun c hc => h c (by simp [hc])) d hd
  case case7 carry c rest hc hbrk hlt heq hne r ih =>
    intro d hd
    rcases List.mem_cons.mp hd with rfl | hd
    · simp [List.length_take]; omega
    · exact ih (fun c hc => h c (by simp [hc])) d hd

end Rope

namespace Rope
variable {α : Type}

/-! ### rebalance: `retain`, last-chunk fix-up, pushes -/

theorem flat_filter_nonempty (r : Chunks α) : flat (r.filter (fun c => !c.isEmpty)) = flat r := by
  induction r with
  | nil => rfl
  | cons c t ih =>
    cases c with
    | nil => simpa using ih
    | cons a c => simp [List.filter_cons, ih]

theorem mem_filter_nonempty (r : Chunks α) (c : List α) : c ∈ r.filter (fun c => !c.isEmpty) ↔ c ∈ r ∧ 1 ≤ c.length := by
  simp only [List.mem_filter, Bool.not_eq_true', List.isEmpty_eq_false_iff, ne_eq]
  constructor
  · rintro ⟨h1, h2⟩; exact ⟨h1, by cases c <;> simp_all⟩
  · rintro ⟨h1, h2⟩; exact ⟨h1, by intro e; subst e; simp at h2⟩

theorem fixLast_flat (P : Params) (r : Chunks α) (carry : List α) :
    flat (fixLast P r carry).1 ++ (fixLast P r carry).2 = flat r ++ carry := by
  fun_induction fixLast P r carry
  case case1 => simp
  case case2 l carry k => simp [List.append_assoc]
  case case3 c cs carry hne r ih => simp only [r, flat_cons, List.append_assoc] at *; rw [ih]

theorem fixLast_bounded (P : Params) (M : Nat) (hB : P.BASE ≤ M) (r : Chunks α) (carry : List α)
    (h : ∀ c ∈ r, 1 ≤ c.length ∧ c.length ≤ M) : ∀ c ∈ (fixLast P r carry).1, 1 ≤ c.length ∧ c.length ≤ M := by
  fun_induction fixLast P r carry
  case case1 => simp
  case case2 l carry k =>
    intro d hd
    have := h l (by simp)
    simp only [List.mem_singleton] at hd; subst hd
    simp only [List.length_append, List.length_take, k]; omega
  case case3 c cs carry hne r ih =>
    intro d hd
    rcases List.mem_cons.mp hd with rfl | hd
    · exact h _ (by simp)
    · exact ih (fun c hc => h c (by simp [hc])) d hd

theorem pushCarry_flat (P : Params) (hB : 0 < P.BASE) (fuel : Nat) (carry : List α) (hf : carry.length < fuel) :
    flat (pushCarry P fuel carry) = carry := by
  induction fuel generalizing carry with
  | zero => omega
  | succ fuel ih =>
    simp only [pushCarry]
    split
    · rename_i hlt
      rw [flat_cons, ih _ (by simp only [List.length_drop]; omega), List.take_append_drop]
    · split
      · rename_i h; simp [h]
      · simp

theorem pushCarry_bounded (P : Params) (hB : 0 < P.BASE) (fuel : Nat) (carry : List α) :
    ∀ c ∈ pushCarry P fuel carry, 1 ≤ c.length ∧ c.length ≤ P.BASE := by
  induction fuel generalizing carry with
  | zero => simp [pushCarry]
  | succ fuel ih =>
    simp only [pushCarry]
    split
    · rename_i hlt
      intro c hc
      rcases List.mem_cons.mp hc with rfl | hc
      · simp only [List.length_take]; omega
      · exact ih _ c hc
    · split
      · simp
      · rename_i h1 h2
        intro c hc
        simp only [List.mem_singleton] at hc; subst hc
        have : c.length ≠ 0 := fun e => h2 (List.length_eq_zero_iff.mp e)
        omega

theorem finish_flat (P : Params) (hB : 0 < P.BASE) (chunks : Chunks α) (carry : List α) :
    flat (finish P chunks carry) = flat chunks ++ carry := by
  unfold finish
  split
  · rename_i h; simp [h, flat_filter_nonempty]
  · simp only [flat_append]
    rw [pushCarry_flat P hB _ _ (Nat.lt_succ_self _), fixLast_flat, flat_filter_nonempty]

theorem finish_inv (P : Params) (hw : PWF P) (chunks : Chunks α) (carry : List α)
    (h : ∀ c ∈ chunks, c.length + 1 ≤ P.MAX) : RInv P (finish P chunks carry) := by
  have hk : ∀ c ∈ chunks.filter (fun c => !c.isEmpty), 1 ≤ c.length ∧ c.length ≤ P.MAX - 1 := by
    intro c hc
    obtain ⟨h1, h2⟩ := (mem_filter_nonempty chunks c).mp hc
    exact ⟨h2, by have := h c h1; omega⟩
  have hb := hw.base_lt
  unfold finish
  split
  · intro c hc; have := hk c hc; omega
  · intro c hc
    rcases List.mem_append.mp hc with hc | hc
    · have := fixLast_bounded P (P.MAX - 1) (by omega) _ carry hk c hc; omega
    · have := pushCarry_bounded P hw.base_pos _ _ c hc; omega

theorem rebalance_flat (P : Params) (hw : PWF P) (r : Chunks α) (k : Nat) : flat (rebalance P r k) = flat r := by
  unfold rebalance
  simp only []
  rw [finish_flat P hw.base_pos, flat_append, List.append_assoc, rebalLoop_flat]
  simp only [List.nil_append]
  rw [← flat_append, List.take_append_drop]

/-- rebalancing from `k` re-establishes the invariant when every chunk is within capacity -/
theorem rebalance_inv (P : Params) (hw : PWF P) (r : Chunks α) (k : Nat) (h : Bounded P r) :
    RInv P (rebalance P r k) := by
  unfold rebalance
  apply finish_inv P hw
  intro c hc
  rcases List.mem_append.mp hc with hc | hc
  · exact h c (List.mem_of_mem_take hc)
  · have := rebalLoop_bounded P (P.MAX - 1) (by have := hw.base_lt; omega) [] (r.drop k)
      (fun c hc => by have := h c (List.mem_of_mem_drop hc); omega) c hc
    have := hw.base_lt; omega

/-- the same when the chunk AT `k` is exactly full (`MAX` elements, right after an insert) -/
theorem rebalance_inv_full (P : Params) (hw : PWF P) (pre : Chunks α) (c : List α) (post : Chunks α)
    (hpre : Bounded P pre) (hc : c.length = P.MAX) (hpost : Bounded P post) :
    RInv P (rebalance P (pre ++ c :: post) pre.length) := by
  unfold rebalance
  apply finish_inv P hw
  have hb := hw.base_lt
  have hh := hw.high_lt
  have hbp := hw.base_pos
  simp only [List.take_left', List.drop_left']
  have hne : c ≠ [] := by intro e; subst e; simp at hc; omega
  have hstep : rebalLoop P [] (c :: post) =
      (c.take P.BASE :: (rebalLoop P (c.drop P.BASE) post).1, (rebalLoop P (c.drop P.BASE) post).2) := by
    rw [rebalLoop]
    simp only [hne, if_false]
    rw [if_neg (by omega), if_neg (by omega), if_neg (by omega)]
    simp
  rw [hstep]
  intro d hd
  rcases List.mem_append.mp hd with hd | hd
  · exact hpre d hd
  · rcases List.mem_cons.mp hd with rfl | hd
    · simp only [List.length_take]; omega
    · have := rebalLoop_bounded P (P.MAX - 1) (by omega) (c.drop P.BASE) post
        (fun c hc => by have := hpost c hc; omega) d hd
      omega

end Rope

namespace Rope
variable {α : Type}

/-! ### index lookup -/

theorem kwc_spec (r : Chunks α) (i idx seen : Nat) (hi : seen ≤ i) :
    (i - seen < (flat r).length → ∃ pre ch post, r = pre ++ ch :: post ∧
        kwc r i idx seen = (idx + pre.length, seen + (flat pre).length) ∧
        seen + (flat pre).length ≤ i ∧ i < seen + (flat pre).length + ch.length) ∧
    ((flat r).length ≤ i - seen → kwc r i idx seen = (idx + r.length, seen + (flat r).length)) := by
  induction r generalizing idx seen with
  | nil => simp [kwc]
  | cons c cs ih =>
    simp only [kwc, flat_cons, List.length_append]
    by_cases h : seen + c.length > i
    · simp only [h, if_true]
      refine ⟨fun _ => ⟨[], c, cs, rfl, by simp, by simp; omega, by simp; omega⟩, fun h' => by omega⟩
    · simp only [h, if_false]
      obtain ⟨ih1, ih2⟩ := ih (idx + 1) (seen + c.length) (by omega)
      constructor
      · intro hlt
        obtain ⟨pre, ch, post, e, hk, h1, h2⟩ := ih1 (by omega)
        refine ⟨c :: pre, ch, post, by simp [e], ?_, ?_, ?_⟩
        · rw [hk]; simp; omega
        · simp; omega
        · simp; omega
      · intro hge
        rw [ih2 (by omega)]; simp; omega

theorem keyWithCount_lt (r : Chunks α) (i : Nat) (hi : i < (flat r).length) :
    ∃ pre ch post, r = pre ++ ch :: post ∧ keyWithCount r i = (pre.length, (flat pre).length) ∧
      (flat pre).length ≤ i ∧ i < (flat pre).length + ch.length := by
  obtain ⟨pre, ch, post, e, hk, h1, h2⟩ := (kwc_spec r i 0 0 (Nat.zero_le _)).1 (by simpa using hi)
  exact ⟨pre, ch, post, e, by simpa [keyWithCount] using hk, by simpa using h1, by simpa using h2⟩

theorem keyWithCount_ge (r : Chunks α) (i : Nat) (hi : (flat r).length ≤ i) :
    keyWithCount r i = (r.length, (flat r).length) := by
  have := (kwc_spec r i 0 0 (Nat.zero_le _)).2 (by simpa using hi)
  simpa [keyWithCount] using this

theorem len_eq (r : Chunks α) : len r = (flat r).length := by
  have : ∀ n, r.foldl (fun n c => n + c.length) n = n + (flat r).length := by
    induction r with
    | nil => simp
    | cons c cs ih => intro n; simp [List.foldl_cons, ih]; omega
  simpa [len] using this 0

theorem getElem?_mid (pre ch post : List α) (i : Nat) (h1 : pre.length ≤ i) (h2 : i < pre.length + ch.length) :
    (pre ++ ch ++ post)[i]? = ch[i - pre.length]? := by
  rw [List.append_assoc, List.getElem?_append_right h1, List.getElem?_append_left (by omega)]

theorem index_ok (r : Chunks α) (i : Nat) (hi : i < (flat r).length) : index r i = .ok ((flat r)[i]) := by
  obtain ⟨pre, ch, post, e, hk, h1, h2⟩ := keyWithCount_lt r i hi
  subst e
  simp only [index, hk, List.getElem?_append_right (Nat.le_refl _), Nat.sub_self, List.getElem?_cons_zero]
  have h3 : i - (flat pre).length < ch.length := by omega
  have : (flat (pre ++ ch :: post))[i]? = ch[i - (flat pre).length]? := by
    have := getElem?_mid (flat pre) ch (flat post) i h1 h2
    simpa [List.append_assoc] using this
  simp only [cIndex, List.getElem?_eq_getElem h3]
  congr 1
  have h4 := List.getElem?_eq_getElem hi
  rw [this, List.getElem?_eq_getElem h3] at h4
  exact (Option.some.inj h4)

theorem index_panics (r : Chunks α) (i : Nat) (hi : (flat r).length ≤ i) : ∃ e, index r i = .error e := by
  simp only [index, keyWithCount_ge r i hi, List.getElem?_eq_none (Nat.le_refl _)]
  exact ⟨_, rfl⟩

theorem set_refines (P : Params) (r : Chunks α) (i : Nat) (v : α) (hI : RInv P r) (hi : i < (flat r).length) :
    ∃ r', set r i v = .ok r' ∧ RInv P r' ∧ flat r' = (flat r).set i v := by
  obtain ⟨pre, ch, post, e, hk, h1, h2⟩ := keyWithCount_lt r i hi
  subst e
  have h3 : i - (flat pre).length < ch.length := by omega
  refine ⟨pre ++ ch.set (i - (flat pre).length) v :: post, ?_, ?_, ?_⟩
  · simp only [set, hk, List.getElem?_append_right (Nat.le_refl _), Nat.sub_self, List.getElem?_cons_zero, cSet, h3, if_true, modifyChunk]
    simp
  · intro c hc
    simp only [List.mem_append, List.mem_cons] at hc
    rcases hc with hc | rfl | hc
    · exact hI c (by simp [hc])
    · have := hI ch (by simp); simpa using this
    · exact hI c (by simp [hc])
  · simp only [flat_append, flat_cons]
    rw [List.set_append_right _ _ h1, List.set_append_left _ _ h3]

end Rope

namespace Rope
variable {α : Type}

/-! ### insert / remove -/

theorem insertIdx_eq (l : List α) (i : Nat) (x : α) (h : i ≤ l.length) : l.insertIdx i x = l.take i ++ x :: l.drop i := by
  induction l generalizing i with
  | nil => have : i = 0 := by simpa using h
           subst this; simp
  | cons a t ih =>
    cases i with
    | zero => simp
    | succ i => simp [List.insertIdx_succ_cons, ih i (by simpa using h)]

theorem insertIdx_mid (A B C : List α) (p : Nat) (x : α) (hp : p ≤ B.length) :
    (A ++ B ++ C).insertIdx (A.length + p) x = A ++ (B.take p ++ x :: B.drop p) ++ C := by
  rw [insertIdx_eq _ _ _ (by simp; omega)]
  simp [List.take_append, List.drop_append, List.take_of_length_le, List.drop_of_length_le, hp]

theorem eraseIdx_mid (A B C : List α) (p : Nat) (hp : p < B.length) :
    (A ++ B ++ C).eraseIdx (A.length + p) = A ++ (B.take p ++ B.drop (p+1)) ++ C := by
  rw [List.eraseIdx_eq_take_drop_succ]
  have h1 : p - B.length = 0 := by omega
  have h2 : A.length + p + 1 - A.length = p + 1 := by omega
  have h3 : p + 1 - B.length = 0 := by omega
  have h4 : A.length ≤ A.length + p + 1 := by omega
  simp [List.take_append, List.drop_append, List.take_of_length_le, List.drop_of_length_le h4, h1, h2, h3]

theorem insert_refines (P : Params) (hw : PWF P) (r : Chunks α) (i : Nat) (x : α) (hI : RInv P r)
    (hi : i ≤ (flat r).length) :
    ∃ r', insert P r i x = .ok r' ∧ RInv P r' ∧ flat r' = (flat r).insertIdx i x := by
  have hb := hw.base_lt
  have hbp := hw.base_pos
  by_cases hlt : i < (flat r).length
  · obtain ⟨pre, ch, post, e, hk, h1, h2⟩ := keyWithCount_lt r i hlt
    subst e
    have hch := hI ch (by simp)
    have hp : i - (flat pre).length ≤ ch.length := by omega
    have hne : ¬ pre.length = (pre ++ ch :: post).length := by simp
    have hflat : flat (pre ++ (ch.take (i - (flat pre).length) ++ x :: ch.drop (i - (flat pre).length)) :: post)
        = (flat (pre ++ ch :: post)).insertIdx i x := by
      have := insertIdx_mid (flat pre) ch (flat post) (i - (flat pre).length) x hp
      have e : (flat pre).length + (i - (flat pre).length) = i := by omega
      rw [e] at this
      simp only [flat_append, flat_cons]
      rw [← List.append_assoc (flat pre) ch, this]; simp
    have hpreB : Bounded P pre := fun c hc => (hI c (by simp [hc])).2
    have hpostB : Bounded P post := fun c hc => (hI c (by simp [hc])).2
    simp only [insert, hk, hne, if_false, List.getElem?_append_right (Nat.le_refl _), Nat.sub_self,
      List.getElem?_cons_zero, cInsert]
    rw [if_neg (by omega), if_neg (by omega), if_neg (by omega)]
    simp only [modifyChunk, List.set_append_right _ _ (Nat.le_refl _), Nat.sub_self, List.set_cons_zero]
    split
    · rename_i hfull
      exact ⟨_, rfl, rebalance_inv_full P hw pre _ post hpreB hfull hpostB, by rw [rebalance_flat P hw, hflat]⟩
    · rename_i hnf
      refine ⟨_, rfl, ?_, hflat⟩
      intro c hc
      simp only [List.mem_append, List.mem_cons] at hc
      rcases hc with hc | rfl | hc
      · exact hI c (by simp [hc])
      · simp only [List.length_append, List.length_take, List.length_cons, List.length_drop] at hnf ⊢
        omega
      · exact hI c (by simp [hc])
  · have hie : i = (flat r).length := by omega
    subst hie
    have h1 : (r ++ [[]])[r.length]? = some ([] : List α) := by simp
    simp only [insert, keyWithCount_ge r _ (Nat.le_refl _), if_true, h1, Nat.sub_self, cInsert]
    rw [if_neg (by omega), if_neg (by simp; omega), if_neg (by simp)]
    simp only [modifyChunk, List.take_nil, List.drop_nil, List.nil_append, List.length_singleton]
    rw [if_neg (by omega)]
    refine ⟨_, rfl, ?_, ?_⟩
    · intro c hc
      have : (r ++ [[]]).set r.length [x] = r ++ [[x]] := by simp
      rw [this] at hc
      rcases List.mem_append.mp hc with hc | hc
      · exact hI c hc
      · simp only [List.mem_singleton] at hc; subst hc; simp; omega
    · have : (r ++ [[]]).set r.length [x] = r ++ [[x]] := by simp
      rw [this, List.insertIdx_length_self]; simp

theorem remove_refines (P : Params) (hw : PWF P) (r : Chunks α) (i : Nat) (hI : RInv P r)
    (hi : i < (flat r).length) :
    ∃ r', remove P r i = .ok r' ∧ RInv P r' ∧ flat r' = (flat r).eraseIdx i := by
  obtain ⟨pre, ch, post, e, hk, h1, h2⟩ := keyWithCount_lt r i hi
  subst e
  have hch := hI ch (by simp)
  have hp : i - (flat pre).length < ch.length := by omega
  have hflat : flat (pre ++ (ch.take (i - (flat pre).length) ++ ch.drop (i - (flat pre).length + 1)) :: post)
      = (flat (pre ++ ch :: post)).eraseIdx i := by
    have := eraseIdx_mid (flat pre) ch (flat post) (i - (flat pre).length) hp
    have e : (flat pre).length + (i - (flat pre).length) = i := by omega
    rw [e] at this
    simp only [flat_append, flat_cons]
    rw [← List.append_assoc (flat pre) ch, this]; simp
  simp only [remove, hk, List.getElem?_append_right (Nat.le_refl _), Nat.sub_self, List.getElem?_cons_zero, cRemove, hp, if_true]
  simp only [modifyChunk, List.set_append_right _ _ (Nat.le_refl _), Nat.sub_self, List.set_cons_zero]
  have hB : Bounded P (pre ++ (ch.take (i - (flat pre).length) ++ ch.drop (i - (flat pre).length + 1)) :: post) := by
    intro c hc
    simp only [List.mem_append, List.mem_cons] at hc
    rcases hc with hc | rfl | hc
    · exact (hI c (by simp [hc])).2
    · simp only [List.length_append, List.length_take, List.length_drop]; omega
    · exact (hI c (by simp [hc])).2
  split
  · exact ⟨_, rfl, rebalance_inv P hw _ _ hB, by rw [rebalance_flat P hw, hflat]⟩
  · rename_i hnu
    refine ⟨_, rfl, ?_, hflat⟩
    intro c hc
    refine ⟨?_, hB c hc⟩
    simp only [List.mem_append, List.mem_cons] at hc
    rcases hc with hc | rfl | hc
    · exact (hI c (by simp [hc])).1
    · omega
    · exact (hI c (by simp [hc])).1

end Rope

namespace Rope
variable {α : Type}

/-! ### drain -/

theorem take_mid (A B C : List α) (i : Nat) (h1 : A.length ≤ i) (h2 : i ≤ A.length + B.length) :
    (A ++ B ++ C).take i = A ++ B.take (i - A.length) := by
  rw [List.append_assoc, List.take_append, List.take_of_length_le h1, List.take_append]
  have : i - A.length - B.length = 0 := by omega
  simp [this]

theorem drop_mid (A B C : List α) (i : Nat) (h1 : A.length ≤ i) (h2 : i ≤ A.length + B.length) :
    (A ++ B ++ C).drop i = B.drop (i - A.length) ++ C := by
  rw [List.append_assoc, List.drop_append, List.drop_of_length_le h1, List.drop_append]
  have : i - A.length - B.length = 0 := by omega
  simp [this]

theorem drain_refines (P : Params) (hw : PWF P) (r : Chunks α) (l h : Nat) (hI : RInv P r)
    (hlh : l ≤ h) (hh : h < (flat r).length) :
    ∃ r', drain P r l h = .ok r' ∧ RInv P r' ∧ flat r' = (flat r).take l ++ (flat r).drop (h + 1) := by
  obtain ⟨pre, cl, rest1, e, hk, h1, h2⟩ := keyWithCount_lt r l (by omega)
  subst e
  have hnotgt : ¬ (flat pre).length > h := by omega
  have hdrop : (pre ++ cl :: rest1).drop pre.length = cl :: rest1 := by simp
  have hk2 : keyWithCountFromPrev (pre ++ cl :: rest1) h pre.length (flat pre).length
      = kwc (cl :: rest1) h pre.length (flat pre).length := by
    simp only [keyWithCountFromPrev, hnotgt, if_false, hdrop]
  obtain ⟨pre2, cr, post, e2, hkr, h3, h4⟩ :=
    (kwc_spec (cl :: rest1) h pre.length (flat pre).length (by omega)).1 (by
      simp only [flat_append, flat_cons, List.length_append] at hh ⊢; omega)
  have hBpre : ∀ c ∈ pre, 1 ≤ c.length ∧ c.length + 1 ≤ P.MAX := fun c hc => hI c (by simp [hc])
  cases pre2 with
  | nil =>
    -- same chunk
    simp only [List.nil_append, List.cons.injEq] at e2
    obtain ⟨rfl, rfl⟩ := e2
    simp only [List.length_nil, Nat.add_zero, flat_nil] at hkr h3 h4
    have hcl := hI cl (by simp)
    have hBpost : ∀ c ∈ rest1, 1 ≤ c.length ∧ c.length + 1 ≤ P.MAX := fun c hc => hI c (by simp [hc])
    have hflat : flat (pre ++ (cl.take (l - (flat pre).length) ++ cl.drop (h - (flat pre).length + 1)) :: rest1)
        = (flat (pre ++ cl :: rest1)).take l ++ (flat (pre ++ cl :: rest1)).drop (h + 1) := by
      simp only [flat_append, flat_cons]
      rw [← List.append_assoc (flat pre) cl, take_mid _ _ _ l h1 (by omega), drop_mid _ _ _ (h+1) (by omega) (by omega)]
      have : h + 1 - (flat pre).length = h - (flat pre).length + 1 := by omega
      rw [this]; simp
    simp only [drain, hk, hk2, hkr, if_true, List.getElem?_append_right (Nat.le_refl _), Nat.sub_self,
      List.getElem?_cons_zero, modifyChunk, List.set_append_right _ _ (Nat.le_refl _), List.set_cons_zero]
    have hB : Bounded P (pre ++ (cl.take (l - (flat pre).length) ++ cl.drop (h - (flat pre).length + 1)) :: rest1) := by
      intro c hc
      simp only [List.mem_append, List.mem_cons] at hc
      rcases hc with hc | rfl | hc
      · exact (hBpre c hc).2
      · simp only [List.length_append, List.length_take, List.length_drop]; omega
      · exact (hBpost c hc).2
    split
    · exact ⟨_, rfl, rebalance_inv P hw _ _ hB, by rw [rebalance_flat P hw, hflat]⟩
    · rename_i hnu
      refine ⟨_, rfl, ?_, hflat⟩
      intro c hc
      refine ⟨?_, hB c hc⟩
      simp only [List.mem_append, List.mem_cons] at hc
      rcases hc with hc | rfl | hc
      · exact (hBpre c hc).1
      · omega
      · exact (hBpost c hc).1
  | cons c0 mid =>
    simp only [List.cons_append, List.cons.injEq] at e2
    obtain ⟨rfl, rfl⟩ := e2
    simp only [List.length_cons, flat_cons, List.length_append] at hkr h3 h4
    have hcl := hI cl (by simp)
    have hcr := hI cr (by simp)
    have hBpost : ∀ c ∈ post, 1 ≤ c.length ∧ c.length + 1 ≤ P.MAX := fun c hc => hI c (by simp [hc])
    have hne : ¬ pre.length = pre.length + (mid.length + 1) := by omega
    have hg1 : (pre ++ cl :: (mid ++ cr :: post))[pre.length]? = some cl := by simp
    have hg2 : (pre ++ cl :: (mid ++ cr :: post))[pre.length + (mid.length + 1)]? = some cr := by
      rw [List.getElem?_append_right (by omega)]
      have : pre.length + (mid.length + 1) - pre.length = mid.length + 1 := by omega
      rw [this, List.getElem?_cons_succ, List.getElem?_append_right (Nat.le_refl _)]; simp
    have hsurg : dropChunks (((pre ++ cl :: (mid ++ cr :: post)).set pre.length (cl.take (l - (flat pre).length))).set
        (pre.length + (mid.length + 1)) (cr.drop (h - ((flat pre).length + (cl.length + (flat mid).length)) + 1)))
        (pre.length + 1) (pre.length + (mid.length + 1))
        = pre ++ cl.take (l - (flat pre).length) :: cr.drop (h - ((flat pre).length + (cl.length + (flat mid).length)) + 1) :: post := by
      simp only [dropChunks, List.set_append_right _ _ (Nat.le_refl _), Nat.sub_self, List.set_cons_zero]
      rw [List.set_append_right _ _ (by omega)]
      have e1 : pre.length + (mid.length + 1) - pre.length = mid.length + 1 := by omega
      rw [e1, List.set_cons_succ, List.set_append_right _ _ (Nat.le_refl _), Nat.sub_self, List.set_cons_zero]
      rw [List.take_append, List.drop_append]
      have e2 : pre.length + 1 - pre.length = 1 := by omega
      have e3 : pre.length + (mid.length + 1) - pre.length = mid.length + 1 := by omega
      have t1 : pre.take (pre.length + 1) = pre := List.take_of_length_le (by omega)
      have t2 : pre.drop (pre.length + (mid.length + 1)) = [] := List.drop_of_length_le (by omega)
      rw [t1, t2, e2, e3]
      simp [List.drop_append]
    have hflat : flat (pre ++ cl.take (l - (flat pre).length) :: cr.drop (h - ((flat pre).length + (cl.length + (flat mid).length)) + 1) :: post)
        = (flat (pre ++ cl :: (mid ++ cr :: post))).take l ++ (flat (pre ++ cl :: (mid ++ cr :: post))).drop (h + 1) := by
      simp only [flat_append, flat_cons]
      have t1 := take_mid (flat pre) cl (flat mid ++ (cr ++ flat post)) l h1 (by omega)
      have t2 := drop_mid (flat pre ++ cl ++ flat mid) cr (flat post) (h + 1) (by simp; omega) (by simp; omega)
      simp only [List.append_assoc, List.length_append] at t1 t2
      rw [t1, t2]
      have : h + 1 - ((flat pre).length + (cl.length + (flat mid).length)) = h - ((flat pre).length + (cl.length + (flat mid).length)) + 1 := by omega
      rw [this]; simp
    have hB : Bounded P (pre ++ cl.take (l - (flat pre).length) :: cr.drop (h - ((flat pre).length + (cl.length + (flat mid).length)) + 1) :: post) := by
      intro c hc
      simp only [List.mem_append, List.mem_cons] at hc
      rcases hc with hc | rfl | rfl | hc
      · exact (hBpre c hc).2
      · simp only [List.length_take]; omega
      · simp only [List.length_drop]; omega
      · exact (hBpost c hc).2
    simp only [drain, hk, hk2, hkr, hne, if_false, hg1, hg2, modifyChunk]
    rw [if_neg (by omega), hsurg]
    split
    · exact ⟨_, rfl, rebalance_inv P hw _ _ hB, by rw [rebalance_flat P hw, hflat]⟩
    · rename_i hnu
      refine ⟨_, rfl, ?_, hflat⟩
      intro c hc
      refine ⟨?_, hB c hc⟩
      simp only [List.mem_append, List.mem_cons] at hc
      rcases hc with hc | rfl | rfl | hc
      · exact (hBpre c hc).1
      · omega
      · omega
      · exact (hBpost c hc).1

end Rope

namespace Rope
variable {α : Type}

/-! ### swap -/

/-- exchange two positions of a list (the reference semantics of `Vec::swap`) -/
def listSwap (L : List α) (a b : Nat) : List α :=
  match L[a]?, L[b]? with
  | some x, some y => (L.set a y).set b x
  | _, _ => L

theorem listSwap_comm (L : List α) (a b : Nat) : listSwap L a b = listSwap L b a := by
  unfold listSwap
  cases ha : L[a]? with
  | none => cases hb : L[b]? <;> simp
  | some x =>
    cases hb : L[b]? with
    | none => simp
    | some y =>
      simp only []
      by_cases e : a = b
      · subst e; rw [ha] at hb; cases hb; rfl
      · exact List.set_comm _ _ e

theorem set_mid (A B C : List α) (i : Nat) (v : α) (h1 : A.length ≤ i) (h2 : i < A.length + B.length) :
    (A ++ B ++ C).set i v = A ++ B.set (i - A.length) v ++ C := by
  rw [List.append_assoc, List.set_append_right _ _ h1, List.set_append_left _ _ (by omega), List.append_assoc]

theorem swap_refines (P : Params) (r : Chunks α) (a b : Nat) (hI : RInv P r)
    (ha : a < (flat r).length) (hb : b < (flat r).length) :
    ∃ r', swap r a b = .ok r' ∧ RInv P r' ∧ flat r' = listSwap (flat r) a b := by
  -- reduce to a' = min ≤ b' = max
  have key : ∀ a' b', a' ≤ b' → b' < (flat r).length →
      ∃ r', (let (lk, lc) := keyWithCount r a'
             let (rk, rc) := keyWithCountFromPrev r b' lk lc
             if lk = rk then
               match r[lk]? with
               | none => .error "unwrap on None"
               | some c =>
                 if a' = b' then .ok r else
                 match c[a' - lc]?, c[b' - lc]? with
                 | some x, some y => .ok (modifyChunk r lk ((c.set (a' - lc) y).set (b' - lc) x))
                 | _, _ => .error "unable to find item"
             else
               match r[lk]?, r[rk]? with
               | some cl, some cr =>
                 match cl[a' - lc]?, cr[b' - rc]? with
                 | some x, some y =>
                   .ok (modifyChunk (modifyChunk r lk (cl.set (a' - lc) y)) rk (cr.set (b' - rc) x))
                 | _, _ => .error "chunk index"
               | _, _ => .error "split_at_mut / index out of bounds" : Except String (Chunks α)) = .ok r' ∧
        RInv P r' ∧ flat r' = listSwap (flat r) a' b' := by
    intro a' b' hab hb'
    obtain ⟨pre, cl, rest1, e, hk, h1, h2⟩ := keyWithCount_lt r a' (by omega)
    subst e
    have hnotgt : ¬ (flat pre).length > b' := by omega
    have hdrop : (pre ++ cl :: rest1).drop pre.length = cl :: rest1 := by simp
    have hk2 : keyWithCountFromPrev (pre ++ cl :: rest1) b' pre.length (flat pre).length
        = kwc (cl :: rest1) b' pre.length (flat pre).length := by
      simp only [keyWithCountFromPrev, hnotgt, if_false, hdrop]
    obtain ⟨pre2, cr, post, e2, hkr, h3, h4⟩ :=
      (kwc_spec (cl :: rest1) b' pre.length (flat pre).length (by omega)).1 (by
        simp only [flat_append, flat_cons, List.length_append] at hb' ⊢; omega)
    have hxa : (flat (pre ++ cl :: rest1))[a']? = cl[a' - (flat pre).length]? := by
      simp only [flat_append, flat_cons]
      rw [← List.append_assoc]; exact getElem?_mid _ _ _ _ h1 h2
    cases pre2 with
    | nil =>
      simp only [List.nil_append, List.cons.injEq] at e2
      obtain ⟨rfl, rfl⟩ := e2
      simp only [List.length_nil, Nat.add_zero, flat_nil] at hkr h3 h4
      have hxb : (flat (pre ++ cl :: rest1))[b']? = cl[b' - (flat pre).length]? := by
        simp only [flat_append, flat_cons]
        rw [← List.append_assoc]; exact getElem?_mid _ _ _ _ h3 h4
      simp only [hk, hk2, hkr, if_true, List.getElem?_append_right (Nat.le_refl _), Nat.sub_self, List.getElem?_cons_zero]
      by_cases hee : a' = b'
      · subst hee
        refine ⟨_, by simp, hI, ?_⟩
        unfold listSwap
        cases hx : (flat (pre ++ cl :: rest1))[a']? with
        | none => rfl
        | some x =>
          simp only []
          obtain ⟨hlt, hx'⟩ := List.getElem?_eq_some_iff.mp hx
          rw [List.set_set, ← hx', List.set_getElem_self]
      · have ha2 : a' - (flat pre).length < cl.length := by omega
        have hb2 : b' - (flat pre).length < cl.length := by omega
        simp only [hee, if_false, List.getElem?_eq_getElem ha2, List.getElem?_eq_getElem hb2, modifyChunk,
          List.set_append_right _ _ (Nat.le_refl _), Nat.sub_self, List.set_cons_zero]
        refine ⟨_, rfl, ?_, ?_⟩
        · intro c hc
          simp only [List.mem_append, List.mem_cons] at hc
          rcases hc with hc | rfl | hc
          · exact hI c (by simp [hc])
          · have := hI cl (by simp); simpa using this
          · exact hI c (by simp [hc])
        · unfold listSwap
          rw [hxa, hxb, List.getElem?_eq_getElem ha2, List.getElem?_eq_getElem hb2]
          simp only [flat_append, flat_cons]
          rw [← List.append_assoc (flat pre) cl, set_mid _ _ _ _ _ h1 h2, set_mid _ _ _ _ _ (by omega) (by simp; omega)]
          simp
    | cons c0 mid =>
      simp only [List.cons_append, List.cons.injEq] at e2
      obtain ⟨rfl, rfl⟩ := e2
      simp only [List.length_cons, flat_cons, List.length_append] at hkr h3 h4
      have hne : ¬ pre.length = pre.length + (mid.length + 1) := by omega
      have hg1 : (pre ++ cl :: (mid ++ cr :: post))[pre.length]? = some cl := by simp
      have hg2 : (pre ++ cl :: (mid ++ cr :: post))[pre.length + (mid.length + 1)]? = some cr := by
        rw [List.getElem?_append_right (by omega)]
        have : pre.length + (mid.length + 1) - pre.length = mid.length + 1 := by omega
        rw [this, List.getElem?_cons_succ, List.getElem?_append_right (Nat.le_refl _)]; simp
      have ha2 : a' - (flat pre).length < cl.length := by omega
      have hb2 : b' - ((flat pre).length + (cl.length + (flat mid).length)) < cr.length := by omega
      have hxb : (flat (pre ++ cl :: (mid ++ cr :: post)))[b']? = cr[b' - ((flat pre).length + (cl.length + (flat mid).length))]? := by
        simp only [flat_append, flat_cons]
        have := getElem?_mid (flat pre ++ cl ++ flat mid) cr (flat post) b' (by simp; omega) (by simp; omega)
        simp only [List.append_assoc, List.length_append] at this
        exact this
      simp only [hk, hk2, hkr, hne, if_false, hg1, hg2, List.getElem?_eq_getElem ha2, List.getElem?_eq_getElem hb2, modifyChunk]
      refine ⟨_, rfl, ?_, ?_⟩
      · intro c hc
        have hc1 := List.mem_or_eq_of_mem_set hc
        rcases hc1 with hc1 | rfl
        · have hc2 := List.mem_or_eq_of_mem_set hc1
          rcases hc2 with hc2 | rfl
          · exact hI c hc2
          · have := hI cl (by simp); simpa using this
        · have := hI cr (by simp); simpa using this
      · unfold listSwap
        rw [hxa, hxb, List.getElem?_eq_getElem ha2, List.getElem?_eq_getElem hb2]
        simp only []
        rw [List.set_append_right _ _ (Nat.le_refl _), Nat.sub_self, List.set_cons_zero,
          List.set_append_right _ _ (by omega)]
        have e1 : pre.length + (mid.length + 1) - pre.length = mid.length + 1 := by omega
        rw [e1, List.set_cons_succ, List.set_append_right _ _ (Nat.le_refl _), Nat.sub_self, List.set_cons_zero]
        simp only [flat_append, flat_cons]
        have s1 := set_mid (flat pre) cl (flat mid ++ (cr ++ flat post)) a' (cr[b' - ((flat pre).length + (cl.length + (flat mid).length))]) h1 h2
        simp only [List.append_assoc] at s1
        rw [s1]
        have s2 := set_mid (flat pre ++ cl.set (a' - (flat pre).length) (cr[b' - ((flat pre).length + (cl.length + (flat mid).length))]) ++ flat mid) cr (flat post) b'
          (cl[a' - (flat pre).length]) (by simp; omega) (by simp; omega)
        simp only [List.append_assoc, List.length_append, List.length_set] at s2
        rw [s2]
  have hmin : min a b ≤ max a b := by omega
  have hmax : max a b < (flat r).length := by omega
  obtain ⟨r', h1, h2, h3⟩ := key (min a b) (max a b) hmin hmax
  refine ⟨r', h1, h2, ?_⟩
  rw [h3]
  by_cases hab : a ≤ b
  · rw [Nat.min_eq_left hab, Nat.max_eq_right hab]
  · rw [Nat.min_eq_right (by omega), Nat.max_eq_left (by omega)]; exact listSwap_comm _ _ _

end Rope

namespace Rope
variable {α : Type}

/-! ### iteration, construction -/

theorem iterCollect_spec (r : Chunks α) (hne : ∀ c ∈ r, c ≠ []) (fuel key inKey : Nat) (c : List α)
    (hk : r[key]? = some c) (hin : inKey < c.length)
    (hf : ((flat (r.drop key)).drop inKey).length < fuel) :
    iterCollect r fuel ⟨key, inKey, false⟩ = .ok ((flat (r.drop key)).drop inKey) := by
  induction fuel generalizing key inKey c with
  | zero => omega
  | succ fuel ih =>
    have hkl : key < r.length := (List.getElem?_eq_some_iff.mp hk).1
    have hdrop : r.drop key = c :: r.drop (key + 1) := by
      rw [List.drop_eq_getElem_cons hkl]
      congr 1
      exact (List.getElem?_eq_some_iff.mp hk).2
    have hflat : (flat (r.drop key)).drop inKey = c[inKey] :: (c.drop (inKey + 1) ++ flat (r.drop (key + 1))) := by
      rw [hdrop, flat_cons, List.drop_append_of_le_length (by omega)]
      conv => lhs; rw [List.drop_eq_getElem_cons hin]
      rfl
    rw [hflat] at hf ⊢
    simp only [List.length_cons, List.length_append, List.length_drop] at hf
    simp only [iterCollect, iterNext, Bool.false_eq_true, if_false, hk, List.getElem?_eq_getElem hin]
    by_cases hlast : inKey + 1 ≥ c.length
    · have hd : c.drop (inKey + 1) = [] := List.drop_of_length_le hlast
      simp only [hlast, if_true, hd, List.nil_append]
      by_cases hend : key + 1 ≥ r.length
      · have : r.drop (key + 1) = [] := List.drop_of_length_le hend
        simp only [hend, decide_true, this, flat_nil]
        cases fuel with
        | zero => simp [iterCollect]
        | succ f => simp [iterCollect, iterNext]
      · have hlt : key + 1 < r.length := by omega
        have hne' : r[key + 1] ≠ [] := hne _ (List.getElem_mem _)
        have hpos : 0 < (r[key + 1]).length := List.length_pos_iff.mpr hne'
        have := ih (key + 1) 0 (r[key + 1]) (List.getElem?_eq_getElem hlt) hpos (by
          simp only [List.drop_zero]; omega)
        simp only [hend, decide_false]
        rw [this]; simp
    · have hlt : inKey + 1 < c.length := by omega
      simp only [hlast, if_false]
      have hkk : ¬ key ≥ r.length := by omega
      have := ih key (inKey + 1) c hk hlt (by
        rw [hdrop, flat_cons, List.drop_append_of_le_length (by omega)]
        simp only [List.length_append, List.length_drop]; omega)
      simp only [hkk, decide_false]
      rw [this, hdrop, flat_cons, List.drop_append_of_le_length (by omega)]

theorem iter_eq_flat (P : Params) (r : Chunks α) (hI : RInv P r) : iter r = .ok (flat r) := by
  have hne : ∀ c ∈ r, c ≠ [] := by
    intro c hc e; have := (hI c hc).1; subst e; simp at this
  cases r with
  | nil => simp [iter, iterInit, len, iterCollect, iterNext]
  | cons c t =>
    have hc : c ≠ [] := hne c (by simp)
    have hpos : 0 < c.length := List.length_pos_iff.mpr hc
    have hemp : c.isEmpty = false := by cases c <;> simp_all
    have := iterCollect_spec (c :: t) hne (len (c :: t) + 1) 0 0 c (by simp) hpos (by
      simp only [List.drop_zero, len_eq]; omega)
    simpa [iter, iterInit, hemp] using this

theorem chunksOf_spec (n : Nat) (hn : 0 < n) (fuel : Nat) (l : List α) (hf : l.length < fuel) :
    flat (chunksOf fuel n l) = l ∧ ∀ c ∈ chunksOf fuel n l, 1 ≤ c.length ∧ c.length ≤ n := by
  induction fuel generalizing l with
  | zero => omega
  | succ fuel ih =>
    simp only [chunksOf]
    split
    · rename_i h; subst h; simp
    · rename_i hne
      have hpos : 0 < l.length := List.length_pos_iff.mpr hne
      split
      · rename_i hshort
        simp only [flat_cons, flat_nil, List.append_nil, List.mem_singleton]
        have hlen : l.length < n := by
          simp only [List.length_take] at hshort; omega
        refine ⟨List.take_of_length_le (by omega), ?_⟩
        intro c hc; subst hc
        simp only [List.length_take]; omega
      · rename_i hfull
        have hfull' : (l.take n).length = n := by simpa using hfull
        have hlen : n ≤ l.length := by simp only [List.length_take] at hfull'; omega
        obtain ⟨h1, h2⟩ := ih (l.drop n) (by simp only [List.length_drop]; omega)
        refine ⟨by rw [flat_cons, h1, List.take_append_drop], ?_⟩
        intro c hc
        rcases List.mem_cons.mp hc with rfl | hc
        · omega
        · exact h2 c hc

theorem fromIter_spec (P : Params) (hw : PWF P) (l : List α) : RInv P (fromIter P l) ∧ flat (fromIter P l) = l := by
  obtain ⟨h1, h2⟩ := chunksOf_spec P.CHUNK hw.chunk_pos (l.length + 1) l (Nat.lt_succ_self _)
  refine ⟨?_, h1⟩
  intro c hc
  have := h2 c hc
  have := hw.chunk_lt
  exact ⟨by omega, by omega⟩

theorem new_spec (P : Params) : RInv P (new false : Chunks α) ∧ flat (new false : Chunks α) = [] := by
  simp [new, RInv]

end Rope
