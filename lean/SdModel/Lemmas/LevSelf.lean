import SdModel.Lemmas.Lev

/-!
The converse direction for C07 / C04: when source and target are the same list (and `eq` is reflexive),
`hirschberg` and `levenshtein` return no diff at all.  For the divide-and-conquer driver this needs that the split
point chosen from the two last rows is exactly the diagonal one: the summed cost is 0 there and positive everywhere
before it, whatever the cell rule's tie-breaking and whichever neighbour it reads `insert`/`delete` from.
-/
namespace Lev
open Script
variable {α : Type}

/-- what the argument needs of a cell rule -/
structure ZeroRule (mk : CellRule α) : Prop where
  noop : ∀ (eq : α → α → Bool) (C : Costs) x y d u l, eq x y = true → mk eq C x y d u l = ⟨.noop, d.cost⟩
  zero : ∀ (eq : α → α → Bool) (C : Costs) x y d u l, 1 ≤ C.D → 1 ≤ C.R → 1 ≤ C.I →
    (mk eq C x y d u l).cost = 0 → d.cost = 0

theorem zeroRule_mkCell : ZeroRule (α := α) mkCell where
  noop := by intro eq C x y d u l h; simp [mkCell, h]
  zero := by
    intro eq C x y d u l hD hR hI h
    unfold mkCell at h
    split at h
    · exact h
    · simp only at h
      split at h
      · simp at h; omega
      · split at h <;> (simp at h; omega)

theorem zeroRule_mkCellLR : ZeroRule (α := α) mkCellLR where
  noop := by intro eq C x y d u l h; simp [mkCellLR, h]
  zero := by
    intro eq C x y d u l hD hR hI h
    unfold mkCellLR at h
    split at h
    · exact h
    · simp only at h
      split at h
      · simp at h; omega
      · split at h <;> (simp at h; omega)

theorem cellG_cons_cons (mk : CellRule α) (eq : α → α → Bool) (C : Costs) (x y : α) (tr sr : List α) :
    cellG mk eq C (x :: tr) (y :: sr)
      = mk eq C x y (cellG mk eq C tr sr) (cellG mk eq C tr (y :: sr)) (cellG mk eq C (x :: tr) sr) := by
  rw [cellG]

/-- cost 0 forces equal lengths -/
theorem cellG_zero_len (mk : CellRule α) (hmk : ZeroRule mk) (eq : α → α → Bool) (C : Costs)
    (hD : 1 ≤ C.D) (hR : 1 ≤ C.R) (hI : 1 ≤ C.I) :
    ∀ (tr sr : List α), (cellG mk eq C tr sr).cost = 0 → tr.length = sr.length := by
  intro tr
  induction tr with
  | nil =>
    intro sr h
    rw [cellG] at h
    rcases Nat.mul_eq_zero.mp h with h | h
    · simp [h]
    · omega
  | cons x tr ih =>
    intro sr
    cases sr with
    | nil =>
      intro h
      rw [cellG] at h
      rcases Nat.mul_eq_zero.mp h with h | h <;> omega
    | cons y sr =>
      intro h
      rw [cellG_cons_cons] at h
      have := ih sr (hmk.zero eq C x y _ _ _ hD hR hI h)
      simp [this]

/-- on identical lists the cell is a cost-0 `noop` -/
theorem cellG_self (mk : CellRule α) (hmk : ZeroRule mk) (eq : α → α → Bool) (hrefl : ∀ x, eq x x = true) (C : Costs) :
    ∀ l : List α, (cellG mk eq C l l).cost = 0 ∧ (l ≠ [] → (cellG mk eq C l l).tag = .noop) := by
  intro l
  induction l with
  | nil => rw [cellG]; simp
  | cons x l ih =>
    rw [cellG_cons_cons, hmk.noop eq C x x _ _ _ (hrefl x)]
    exact ⟨ih.1, fun _ => rfl⟩

/-! ### first minimum -/

theorem argminAux_zero (vs : List Nat) (i besti : Nat) : argminAux vs i 0 besti = besti := by
  induction vs generalizing i with
  | nil => rfl
  | cons v vs ih => simp [argminAux, ih]

theorem argminAux_first_zero (vs : List Nat) : ∀ (i best besti k : Nat), 0 < best → vs[k]? = some 0 →
    (∀ j v, j < k → vs[j]? = some v → 0 < v) → argminAux vs i best besti = i + k := by
  induction vs with
  | nil => intro i best besti k _ h; simp at h
  | cons v vs ih =>
    intro i best besti k hb hk hlt
    cases k with
    | zero =>
      simp only [List.getElem?_cons_zero, Option.some.injEq] at hk
      subst hk
      simp [argminAux, hb, argminAux_zero]
    | succ k =>
      have hv : 0 < v := hlt 0 v (by omega) (by simp)
      have hlt' : ∀ j w, j < k → vs[j]? = some w → 0 < w := fun j w hj hw => hlt (j + 1) w (by omega) (by simpa using hw)
      simp only [List.getElem?_cons_succ] at hk
      simp only [argminAux]
      split
      · rw [ih (i + 1) v i k hv hk hlt']; omega
      · rw [ih (i + 1) best besti k hb hk hlt']; omega

theorem argmin_first_zero (vs : List Nat) (k : Nat) (hk : vs[k]? = some 0)
    (hlt : ∀ j v, j < k → vs[j]? = some v → 0 < v) : argmin vs = k := by
  cases vs with
  | nil => simp at hk
  | cons v vs =>
    cases k with
    | zero =>
      simp only [List.getElem?_cons_zero, Option.some.injEq] at hk
      subst hk
      simp [argmin, argminAux_zero]
    | succ k =>
      have hv : 0 < v := hlt 0 v (by omega) (by simp)
      have hlt' : ∀ j w, j < k → vs[j]? = some w → 0 < w := fun j w hj hw => hlt (j + 1) w (by omega) (by simpa using hw)
      simp only [List.getElem?_cons_succ] at hk
      simp only [argmin]
      rw [argminAux_first_zero vs 1 v 0 k hv hk hlt']; omega

/-! ### the rows -/

theorem rowOfG_length (mk : CellRule α) (eq : α → α → Bool) (C : Costs) (s tr : List α) :
    (rowOfG mk eq C s tr).length = s.length + 1 := by
  have h1 := rowOfG_get mk eq C s tr s.length
  have h2 := rowOfG_get mk eq C s tr (s.length + 1)
  simp only [Nat.le_refl, if_true] at h1
  rw [if_neg (by omega)] at h2
  have a := List.getElem?_eq_none_iff.mp h2
  have b : s.length < (rowOfG mk eq C s tr).length := by
    rcases Nat.lt_or_ge s.length (rowOfG mk eq C s tr).length with h | h
    · exact h
    · rw [List.getElem?_eq_none_iff.mpr h] at h1; cases h1
  omega

/-- the split offset for a list against itself is the diagonal one -/
theorem splitOffset_self (eq : α → α → Bool) (hrefl : ∀ x, eq x x = true) (C : Costs)
    (hD : 1 ≤ C.D) (hR : 1 ≤ C.R) (hI : 1 ≤ C.I) (l : List α) (m : Nat) (hm : m ≤ l.length) :
    splitOffset (lastRowFwd eq C (l.take m) l) (lastRowRev eq C (l.drop m) l) = m := by
  unfold splitOffset
  apply argmin_first_zero
  · -- the value at `m` is 0
    have hl : (lastRowFwd eq C (l.take m) l)[m]? = some (cellG mkCellLR eq C (l.take m).reverse (l.take m).reverse) := by
      simp only [lastRowFwd, rowOfLR]
      rw [rowOfG_get, if_pos hm]
    have hlen : (lastRowRev eq C (l.drop m) l).length = l.length + 1 := by
      simp only [lastRowRev, rowOfLR]; rw [rowOfG_length]; simp
    have hr : (lastRowRev eq C (l.drop m) l).reverse[m]? = some (cellG mkCellLR eq C (l.drop m) (l.drop m)) := by
      rw [List.getElem?_reverse (by omega), hlen]
      simp only [lastRowRev, rowOfLR]
      rw [rowOfG_get, if_pos (by simp)]
      congr 2
      rw [List.take_reverse, List.reverse_reverse]
      congr 1
      omega
    have z1 := (cellG_self mkCellLR zeroRule_mkCellLR eq hrefl C (l.take m).reverse).1
    have z2 := (cellG_self mkCellLR zeroRule_mkCellLR eq hrefl C (l.drop m)).1
    have hz := (List.getElem?_zip_eq_some (l₁ := lastRowFwd eq C (l.take m) l) (l₂ := (lastRowRev eq C (l.drop m) l).reverse)
      (i := m) (z := (cellG mkCellLR eq C (l.take m).reverse (l.take m).reverse, cellG mkCellLR eq C (l.drop m) (l.drop m)))).mpr ⟨hl, hr⟩
    rw [List.getElem?_map, hz]
    simp [z1, z2]
  · -- positive before `m`
    intro j v hj hv
    rw [List.getElem?_map] at hv
    cases hz : ((lastRowFwd eq C (l.take m) l).zip (lastRowRev eq C (l.drop m) l).reverse)[j]? with
    | none => rw [hz] at hv; cases hv
    | some lr =>
      obtain ⟨a, b⟩ := lr
      rw [hz] at hv
      simp only [Option.map_some, Option.some.injEq] at hv
      obtain ⟨ha, _⟩ := List.getElem?_zip_eq_some.mp hz
      simp only [lastRowFwd, rowOfLR] at ha
      rw [rowOfG_get, if_pos (by omega)] at ha
      simp only [Option.some.injEq] at ha
      have hne : a.cost ≠ 0 := by
        intro h0
        rw [← ha] at h0
        have := cellG_zero_len mkCellLR zeroRule_mkCellLR eq C hD hR hI _ _ h0
        simp at this
        omega
      omega

/-! ### the full-table algorithm on identical segments -/

theorem levImpl_self (eq : α → α → Bool) (hrefl : ∀ x, eq x x = true) (C : Costs) (t : List α) (ts te : Nat) :
    levImpl eq C t t ts te ts te = [] := by
  simp only [levImpl]
  generalize hseg : seg t ts te = l
  have hlook : ∀ i, i ≤ l.length → lookup (fullTable eq C l l) i i = cell eq C (l.take i).reverse (l.take i).reverse :=
    fun i hi => lookup_fullTable eq C l l i i hi hi
  have htot : (lookup (fullTable eq C l l) l.length l.length).cost = 0 := by
    rw [hlook _ (Nat.le_refl _)]
    exact (cellG_self mkCell zeroRule_mkCell eq hrefl C _).1
  rw [htot]
  cases hrev : l.reverse with
  | nil => rw [bt]; rfl
  | cons x r =>
    have hlen : l.length = r.length + 1 := by
      have := congrArg List.length hrev; simpa using this
    rw [bt]
    have : (lookup (fullTable eq C l l) (r.length + 1) (r.length + 1)).tag = .noop := by
      rw [← hlen, hlook _ (Nat.le_refl _)]
      apply (cellG_self mkCell zeroRule_mkCell eq hrefl C _).2
      simp [hrev]
    simp [this]

/-- `hirschberg_impl` on identical segments produces nothing -/
theorem hirschImpl_self (eq : α → α → Bool) (hrefl : ∀ x, eq x x = true) (C : Costs)
    (hD : 1 ≤ C.D) (hR : 1 ≤ C.R) (hI : 1 ≤ C.I) (cutoff : Nat) (t s : List α) (ts te ss se : Nat) :
    t = s → ts = ss → te = se → ts ≤ te → te ≤ t.length → hirschImpl eq C cutoff t s ts te ss se = [] := by
  fun_induction hirschImpl eq C cutoff t s ts te ss se with
  | case1 => intros; rfl
  | case2 te ss se h1 =>
    intro _ h2 h3 _ _
    exact absurd ⟨rfl, by omega⟩ h1
  | case3 ts te ss h1 h2 =>
    intro _ h3 h4 _ _
    omega
  | case4 ts te ss se h1 h2 h3 h4 =>
    intro hs h5 h6 _ _
    subst hs h5 h6
    rw [levImpl_self eq hrefl]; rfl
  | case5 ts te ss se h1 h2 h3 h4 tsplit left right ssplit ihl ihr =>
    intro hs h5 h6 hle hlen
    subst hs h5 h6
    have htp1 : ts ≤ tsplit := by simp only [tsplit]; omega
    have htp2 : tsplit ≤ te := by simp only [tsplit]; omega
    have e1 : seg t ts tsplit = (seg t ts te).take (tsplit - ts) := by
      simp only [seg, List.take_take]; congr 1; omega
    have e2 : seg t tsplit te = (seg t ts te).drop (tsplit - ts) := by
      simp only [seg, List.drop_take, List.drop_drop]
      congr 1
      · omega
      · congr 1; omega
    have hoff : splitOffset left right = tsplit - ts := by
      simp only [left, right]
      rw [e1, e2]
      apply splitOffset_self eq hrefl C hD hR hI
      rw [seg_length t ts te hlen]; omega
    have hss : tsplit = ssplit := by
      simp only [ssplit, hoff]; omega
    rw [ihl rfl rfl hss htp1 (by omega), ihr rfl hss rfl htp2 hlen]
    rfl

/-- public entry points: identical arguments give `None` -/
theorem hirschberg_self (eq : α → α → Bool) (hrefl : ∀ x, eq x x = true) (C : Costs)
    (hD : 1 ≤ C.D) (hR : 1 ≤ C.R) (hI : 1 ≤ C.I) (cutoff : Nat) (t : List α) : hirschberg eq C cutoff t t = none := by
  simp only [hirschberg]
  rw [hirschImpl_self eq hrefl C hD hR hI cutoff t t 0 t.length 0 t.length rfl rfl rfl (Nat.zero_le _) (Nat.le_refl _)]

theorem levenshtein_self (eq : α → α → Bool) (hrefl : ∀ x, eq x x = true) (C : Costs) (t : List α) :
    levenshtein eq C t t = none := by
  simp only [levenshtein]
  rw [levImpl_self eq hrefl]

end Lev
