import SdModel.Lemmas.DeriveKinds

/-!
The knot: relations for every type descriptor by structural recursion, and the proof that the generated
semantics of EVERY derivable type (any nesting depth, any mix of templates, any skip pattern) satisfies `TySpec`.
-/
namespace Derive

mutual
/-- well-typedness, follower equivalence and post-condition of a derived type -/
def relTy : Ty → TyRel
  | .struct fs => structRel (relFields fs)
  | .enum => enumRel
def relFields : FieldTys → FS
  | .nil => []
  | .cons skip k rest => (skip, semKind k, relKind k) :: relFields rest
def relKind : Kind → FieldRel
  | .plain => plainRel
  | .recurse t => recurseRel (relTy t)
  | .recurseOpt t => roptRel (relTy t)
  | .ordered => orderedRel
  | .unordArr => unordRel
  | .map _ => mapRel
  | .recMap ko t => recMapRel ko (relTy t)
end

theorem fieldsOf_rel : ∀ fs : FieldTys, fieldsOf (relFields fs) = semFields fs
  | .nil => by simp [relFields, semFields, fieldsOf]
  | .cons skip k rest => by
    have := fieldsOf_rel rest
    simp only [fieldsOf] at this
    simp [relFields, semFields, fieldsOf, this]

mutual
theorem spec_ty : ∀ t : Ty, TySpec (semTy t) (relTy t)
  | .struct fs => by
    rw [semTy, relTy, ← fieldsOf_rel]
    exact struct_spec _ (spec_fields fs)
  | .enum => by rw [semTy, relTy]; exact enum_spec
theorem spec_fields : ∀ fs : FieldTys, ∀ x ∈ relFields fs, FieldSpec x.2.1 x.2.2
  | .nil => by intro x hx; simp [relFields] at hx
  | .cons skip k rest => by
    intro x hx
    simp only [relFields, List.mem_cons] at hx
    rcases hx with rfl | hx
    · exact spec_kind k
    · exact spec_fields rest x hx
theorem spec_kind : ∀ k : Kind, FieldSpec (semKind k) (relKind k)
  | .plain => by rw [semKind, relKind]; exact plain_spec
  | .recurse t => by rw [semKind, relKind]; exact recurse_spec _ _ (spec_ty t)
  | .recurseOpt t => by rw [semKind, relKind]; exact ropt_spec _ _ (spec_ty t)
  | .ordered => by rw [semKind, relKind]; exact ordered_spec
  | .unordArr => by rw [semKind, relKind]; exact unord_spec
  | .map ko => by rw [semKind, relKind]; exact map_spec ko
  | .recMap ko t => by rw [semKind, relKind]; exact recmap_spec ko _ _ (spec_ty t)
end

end Derive
