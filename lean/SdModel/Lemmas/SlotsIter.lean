import SdModel.Lemmas.Slots

/-!
Iteration over a slot array (C10): the lookup table `get_lookups` builds lists the storage cells in logical
order, so borrowed iteration, owning iteration from the front, from the back, and any interleaving of the two
behave like a double-ended queue over the logical sequence.
-/
namespace Slots
variable {α : Type}

/-! ### the sort used by `get_lookups` -/

/-- `a ≤ b` on lookup keys (`none` first) -/
def kle (a b : Option Nat) : Prop := keyLt b a = false

theorem keyLt_asymm (a b : Option Nat) (h : keyLt a b = true) : keyLt b a = false := by
  cases a <;> cases b <;> simp_all [keyLt] <;> omega

theorem kle_trans (a b c : Option Nat) (h1 : kle a b) (h2 : kle b c) : kle a c := by
  cases a <;> cases b <;> cases c <;> simp_all [kle, keyLt] <;> omega

theorem kle_antisymm (a b : Option Nat) (h1 : kle a b) (h2 : kle b a) : a = b := by
  cases a <;> cases b <;> simp_all [kle, keyLt] <;> omega

theorem kle_of_keyLt (a b : Option Nat) (h : keyLt a b = true) : kle a b := keyLt_asymm a b h

theorem insLookup_perm (x : Nat × Option Nat) (l : List (Nat × Option Nat)) : (insLookup x l).Perm (x :: l) := by
  induction l with
  | nil => simp [insLookup]
  | cons y t ih =>
    simp only [insLookup]
    split
    · exact List.Perm.refl _
    · exact (List.Perm.cons y ih).trans (List.Perm.swap x y t)

theorem sortLookup_perm (l : List (Nat × Option Nat)) : (sortLookup l).Perm l := by
  induction l with
  | nil => exact List.Perm.refl _
  | cons x t ih => exact (insLookup_perm x _).trans (List.Perm.cons x ih)

def KLe (a b : Nat × Option Nat) : Prop := kle a.2 b.2

theorem insLookup_sorted (x : Nat × Option Nat) (l : List (Nat × Option Nat)) (h : l.Pairwise KLe) :
    (insLookup x l).Pairwise KLe := by
  induction l with
  | nil => simp [insLookup]
  | cons y t ih =>
    simp only [insLookup]
    rw [List.pairwise_cons] at h
    split
    · rename_i hlt
      refine List.pairwise_cons.mpr ⟨?_, List.pairwise_cons.mpr h⟩
      intro z hz
      rcases List.mem_cons.mp hz with rfl | hz
      · exact kle_of_keyLt _ _ hlt
      · exact kle_trans _ _ _ (kle_of_keyLt _ _ hlt) (h.1 z hz)
    · rename_i hnl
      refine List.pairwise_cons.mpr ⟨?_, ih h.2⟩
      intro z hz
      have := (insLookup_perm x t).mem_iff.mp hz
      rcases List.mem_cons.mp this with rfl | hz
      · show keyLt z.2 y.2 = false
        simpa using hnl
      · exact h.1 z hz

theorem sortLookup_sorted (l : List (Nat × Option Nat)) : (sortLookup l).Pairwise KLe := by
  induction l with
  | nil => simp [sortLookup]
  | cons x t ih => exact insLookup_sorted x _ ih

/-! ### the key list of a chunk satisfying the invariant -/

def keyOf (c : Cell α) : Option Nat := c.map (·.1)

theorem keys_perm (cs : List (Cell α)) :
    (cs.map keyOf).Perm (List.replicate (nfree cs) none ++ (idxs cs).map some) := by
  induction cs with
  | nil => simp [nfree]
  | cons c t ih =>
    cases c with
    | none =>
      simp only [List.map_cons, keyOf, Option.map_none, nfree, List.replicate_succ, List.cons_append, idxs_none]
      exact List.Perm.cons _ ih
    | some x =>
      obtain ⟨j, v⟩ := x
      simp only [List.map_cons, keyOf, Option.map_some, nfree, idxs_some]
      exact (List.Perm.cons _ ih).trans List.perm_middle.symm

/-- the sorted key sequence: the free cells first, then logical 0, 1, 2, … -/
def sortedKeys (m c : Nat) : List (Option Nat) := List.replicate m none ++ (List.range c).map some

theorem sortedKeys_sorted (m c : Nat) : (sortedKeys m c).Pairwise kle := by
  simp only [sortedKeys, List.pairwise_append, List.pairwise_map]
  refine ⟨?_, ?_, ?_⟩
  · rw [List.pairwise_replicate]; right; simp [kle, keyLt]
  · apply List.Pairwise.imp _ List.pairwise_lt_range
    intro a b hab
    simp only [kle, keyLt]
    simp only [decide_eq_false_iff_not]; omega
  · intro a ha b hb
    rw [List.mem_replicate] at ha
    obtain ⟨_, rfl⟩ := ha
    obtain ⟨j, _, rfl⟩ := List.mem_map.mp hb
    simp [kle, keyLt]

theorem sortedKeys_get (m c : Nat) (j : Nat) :
    (sortedKeys m c)[j]? = if j < m then some none else if j < m + c then some (some (j - m)) else none := by
  simp only [sortedKeys]
  by_cases h1 : j < m
  · rw [List.getElem?_append_left (by simpa using h1)]
    simp [h1]
  · rw [List.getElem?_append_right (by simpa using h1)]
    simp only [List.length_replicate, h1, if_false, List.getElem?_map]
    by_cases h2 : j < m + c
    · rw [List.getElem?_range (by omega)]; simp [h2]
    · rw [List.getElem?_eq_none (by simp; omega)]; simp [h2]

/-- the list `get_lookups` sorts -/
def rawLookups (cs : List (Cell α)) : List (Nat × Option Nat) := cs.zipIdx.map fun (c, i) => (i, c.map (·.1))

theorem rawLookups_keys (cs : List (Cell α)) : (rawLookups cs).map (·.2) = cs.map keyOf := by
  simp only [rawLookups, List.map_map]
  have : ((fun (x : Nat × Option Nat) => x.2) ∘ fun (x : Cell α × Nat) => (x.2, x.1.map (·.1))) = keyOf ∘ Prod.fst := by
    funext x; rfl
  rw [this, ← List.map_map, List.zipIdx_map_fst]

theorem rawLookups_fst (cs : List (Cell α)) : (rawLookups cs).map (·.1) = List.range cs.length := by
  simp only [rawLookups, List.map_map]
  have : ((fun (x : Nat × Option Nat) => x.1) ∘ fun (x : Cell α × Nat) => (x.2, x.1.map (·.1))) = Prod.snd := by
    funext x; rfl
  rw [this, List.zipIdx_map_snd, List.range_eq_range']

theorem mem_rawLookups (cs : List (Cell α)) (st : Nat) (k : Option Nat) :
    (st, k) ∈ rawLookups cs ↔ ∃ c, cs[st]? = some c ∧ k = keyOf c := by
  simp only [rawLookups, List.mem_map]
  constructor
  · rintro ⟨⟨c, i⟩, hm, he⟩
    simp only [Prod.mk.injEq] at he
    obtain ⟨rfl, rfl⟩ := he
    exact ⟨c, List.mem_zipIdx_iff_getElem?.mp hm, rfl⟩
  · rintro ⟨c, hc, rfl⟩
    exact ⟨(c, st), List.mem_zipIdx_iff_getElem?.mpr hc, rfl⟩

/-- the sorted table: keys are exactly `sortedKeys`, storage indices are pairwise distinct -/
theorem sorted_table {N : Nat} {s : AM α} (hI : Inv N s) :
    ((sortLookup (rawLookups s.cells)).map (·.2)) = sortedKeys (N - s.cnt) s.cnt ∧
    ((sortLookup (rawLookups s.cells)).map (·.1)).Nodup ∧
    (sortLookup (rawLookups s.cells)).length = N := by
  have hp := sortLookup_perm (rawLookups s.cells)
  refine ⟨?_, ?_, ?_⟩
  · apply List.Perm.eq_of_pairwise (le := kle)
    · intro a b _ _ h1 h2; exact kle_antisymm a b h1 h2
    · rw [List.pairwise_map]; exact sortLookup_sorted _
    · exact sortedKeys_sorted _ _
    · refine (hp.map _).trans ?_
      rw [rawLookups_keys]
      refine (keys_perm s.cells).trans ?_
      have hn : nfree s.cells = N - s.cnt := by
        have := nfree_eq s.cells
        rw [hI.idxs_length, hI.1] at this; omega
      rw [hn]
      exact List.Perm.append_left _ (hI.perm.map _)
  · have := (hp.map (·.1)).nodup_iff.mpr (by rw [rawLookups_fst]; exact List.nodup_range)
    exact this
  · rw [hp.length_eq]
    simp [rawLookups, hI.1]

theorem nodup_map_getElem?_inj {β γ : Type} (f : β → γ) (l : List β) (h : (l.map f).Nodup) (a b : Nat) (x y : β)
    (ha : l[a]? = some x) (hb : l[b]? = some y) (hxy : f x = f y) : a = b := by
  induction l generalizing a b with
  | nil => simp at ha
  | cons z t ih =>
    simp only [List.map_cons, List.nodup_cons] at h
    cases a with
    | zero =>
      cases b with
      | zero => rfl
      | succ b =>
        simp only [List.getElem?_cons_zero, Option.some.injEq] at ha
        simp only [List.getElem?_cons_succ] at hb
        subst ha
        exact absurd (hxy ▸ List.mem_map_of_mem (List.mem_of_getElem? hb)) h.1
    | succ a =>
      cases b with
      | zero =>
        simp only [List.getElem?_cons_zero, Option.some.injEq] at hb
        simp only [List.getElem?_cons_succ] at ha
        subst hb
        exact absurd (hxy ▸ List.mem_map_of_mem (List.mem_of_getElem? ha)) h.1
      | succ b =>
        simp only [List.getElem?_cons_succ] at ha hb
        rw [ih h.2 a b ha hb]

theorem getLookups_eq (cs : List (Cell α)) :
    getLookups cs =
      (List.range cs.length).map fun i =>
        ((sortLookup (rawLookups cs))[((sortLookup (rawLookups cs)).findIdx? fun x => x.2.isSome).getD 0 + i]?).map (·.1) := rfl

theorem cellVal_none_of_empty (cs : List (Cell α)) (h : idxs cs = []) (st : Nat) : cellVal cs st = none := by
  simp only [cellVal]
  cases hc : cs[st]? with
  | none => rfl
  | some c =>
    cases c with
    | none => rfl
    | some x =>
      obtain ⟨j, v⟩ := x
      have : j ∈ idxs cs := by
        simp only [idxs, List.mem_filterMap]
        exact ⟨some (j, v), List.mem_of_getElem? hc, rfl⟩
      rw [h] at this; cases this

/-- **what the lookup table is**, for a chunk satisfying the invariant and representing `l` -/
theorem lookups_spec {N : Nat} {s : AM α} (hI : Inv N s) {l : List α} (hR : Refines s l) :
    (∀ i, i < s.cnt → ∃ st, (getLookups s.cells)[i]? = some (some st) ∧ cellVal s.cells st = l[i]? ∧ (l[i]?).isSome) ∧
    (∀ i, s.cnt ≤ i → iterAt s.cells (getLookups s.cells) i = none) ∧
    (∀ i j st, i < s.cnt → j < s.cnt → (getLookups s.cells)[i]? = some (some st) →
      (getLookups s.cells)[j]? = some (some st) → i = j) := by
  obtain ⟨hk, hnd, hlen⟩ := sorted_table hI
  have hcN : s.cnt ≤ N := hI.cnt_le
  generalize htmp : sortLookup (rawLookups s.cells) = tmp at hk hnd hlen
  have key_at : ∀ j : Nat, (tmp[j]?).map (fun (x : Nat × Option Nat) => x.2) = (sortedKeys (N - s.cnt) s.cnt)[j]? := by
    intro j; rw [← List.getElem?_map, hk]
  have hstart : 0 < s.cnt → (tmp.findIdx? fun x => x.2.isSome).getD 0 = N - s.cnt := by
    intro hpos
    have : tmp.findIdx? (fun x => x.2.isSome) = some (N - s.cnt) := by
      rw [List.findIdx?_eq_some_iff_getElem]
      refine ⟨by omega, ?_, ?_⟩
      · have := key_at (N - s.cnt)
        rw [List.getElem?_eq_getElem (by omega), sortedKeys_get] at this
        simp only [Nat.lt_irrefl, if_false, Option.map_some] at this
        rw [if_pos (by omega)] at this
        simp only [Option.some.injEq] at this
        rw [this]; rfl
      · intro j hj
        have := key_at j
        rw [List.getElem?_eq_getElem (by omega), sortedKeys_get, if_pos hj] at this
        simp only [Option.map_some, Option.some.injEq] at this
        rw [this]; simp
    rw [this]; rfl
  have lk_at : ∀ i : Nat, 0 < s.cnt → i < N → (getLookups s.cells)[i]? = some ((tmp[N - s.cnt + i]?).map (fun (x : Nat × Option Nat) => x.1)) := by
    intro i hpos hi
    rw [getLookups_eq, htmp, hstart hpos, List.getElem?_map, List.getElem?_range (by rw [hI.1]; exact hi)]
    rfl
  -- the entry for logical position i
  have entry : ∀ i : Nat, i < s.cnt → ∃ st, tmp[N - s.cnt + i]? = some (st, some i) := by
    intro i hi
    have := key_at (N - s.cnt + i)
    rw [sortedKeys_get, if_neg (by omega), if_pos (by omega)] at this
    cases ht : tmp[N - s.cnt + i]? with
    | none => rw [ht] at this; cases this
    | some x =>
      obtain ⟨st, k⟩ := x
      rw [ht] at this
      simp only [Option.map_some, Option.some.injEq] at this
      have hk' : k = some i := by rw [this]; congr 1; omega
      exact ⟨st, by rw [hk']⟩
  refine ⟨?_, ?_, ?_⟩
  · intro i hi
    obtain ⟨st, hst⟩ := entry i hi
    refine ⟨st, by rw [lk_at i (by omega) (by omega), hst]; rfl, ?_⟩
    have hmem : (st, some i) ∈ rawLookups s.cells := by
      rw [← (sortLookup_perm (rawLookups s.cells)).mem_iff, htmp]
      exact List.mem_of_getElem? hst
    obtain ⟨c, hc, hkc⟩ := (mem_rawLookups s.cells st (some i)).mp hmem
    cases c with
    | none => simp [keyOf] at hkc
    | some x =>
      obtain ⟨j, v⟩ := x
      simp only [keyOf, Option.map_some, Option.some.injEq] at hkc
      subst hkc
      have hg : getL s.cells i = some v :=
        (mem_iff_getL s.cells i v (by rw [hI.2.2 i]; split <;> omega)).mp (List.mem_of_getElem? hc)
      have : cellVal s.cells st = some v := by simp [cellVal, hc]
      rw [this, ← hR.2 i, hg]
      exact ⟨rfl, rfl⟩
  · intro i hi
    by_cases hpos : 0 < s.cnt
    · simp only [iterAt]
      by_cases hiN : i < N
      · rw [lk_at i hpos hiN, List.getElem?_eq_none (by omega)]
        rfl
      · have : (getLookups s.cells)[i]? = none := by
          apply List.getElem?_eq_none
          rw [getLookups_eq]; simp only [List.length_map, List.length_range, hI.1]; omega
        rw [this]
    · have h0 : idxs s.cells = [] := by
        have := hI.idxs_length
        exact List.length_eq_zero_iff.mp (by omega)
      simp only [iterAt]
      split
      · exact cellVal_none_of_empty s.cells h0 _
      · rfl
  · intro i j st hi hj h1 h2
    obtain ⟨st1, e1⟩ := entry i hi
    obtain ⟨st2, e2⟩ := entry j hj
    rw [lk_at i (by omega) (by omega), e1] at h1
    rw [lk_at j (by omega) (by omega), e2] at h2
    simp only [Option.map_some, Option.some.injEq] at h1 h2
    have := nodup_map_getElem?_inj (fun (x : Nat × Option Nat) => x.1) tmp hnd _ _ _ _ e1 e2 (by simp [h1, h2])
    omega


/-! ### borrowed iteration -/

theorem iterFrom_spec {N : Nat} {s : AM α} (hI : Inv N s) {l : List α} (hR : Refines s l) :
    ∀ fuel pos, pos ≤ s.cnt → s.cnt - pos < fuel →
      iterFrom s.cells (getLookups s.cells) fuel pos = l.drop pos := by
  obtain ⟨h1, h2, _⟩ := lookups_spec hI hR
  intro fuel
  induction fuel with
  | zero => intro pos _ h; omega
  | succ fuel ih =>
    intro pos hp hf
    simp only [iterFrom]
    by_cases hlt : pos < s.cnt
    · obtain ⟨st, e1, e2, e3⟩ := h1 pos hlt
      have hpl : pos < l.length := by rw [← hR.1]; exact hlt
      have : iterAt s.cells (getLookups s.cells) pos = some l[pos] := by
        simp only [iterAt, e1, e2, List.getElem?_eq_getElem hpl]
      rw [this]
      simp only []
      rw [ih (pos + 1) (by omega) (by omega)]
      exact (List.drop_eq_getElem_cons hpl).symm
    · have : pos = s.cnt := by omega
      rw [h2 pos (by omega)]
      simp only []
      rw [List.drop_eq_nil_of_le (by rw [← hR.1]; omega)]

/-- `(&chunk).into_iter()` yields the logical sequence -/
theorem iter_refines {N : Nat} {s : AM α} (hI : Inv N s) {l : List α} (hR : Refines s l) : iter s = l := by
  have := iterFrom_spec hI hR (s.cells.length + 1) 0 (Nat.zero_le _) (by have := hI.cnt_le; rw [hI.1]; omega)
  simpa [iter] using this

/-! ### the owning, double-ended iterator -/

theorem getElem?_clearAt (cs : List (Cell α)) (st st' : Nat) :
    (clearAt cs st)[st']? = if st' = st then (cs[st]?).map (fun _ => none) else cs[st']? := by
  induction cs generalizing st st' with
  | nil => simp [clearAt]
  | cons c t ih =>
    cases st with
    | zero =>
      cases st' with
      | zero => simp [clearAt]
      | succ k => simp [clearAt]
    | succ n =>
      cases st' with
      | zero => simp [clearAt]
      | succ k => simp only [clearAt, List.getElem?_cons_succ, ih]; simp

theorem cellVal_clearAt_same (cs : List (Cell α)) (st : Nat) : cellVal (clearAt cs st) st = none := by
  simp only [cellVal, getElem?_clearAt, if_true]
  cases cs[st]? <;> rfl

theorem cellVal_clearAt_ne (cs : List (Cell α)) (st st' : Nat) (h : st' ≠ st) :
    cellVal (clearAt cs st) st' = cellVal cs st' := by
  simp only [cellVal, getElem?_clearAt, h, if_false]

theorem cellVal_clearAt_none (cs : List (Cell α)) (st st' : Nat) (h : cellVal cs st' = none) :
    cellVal (clearAt cs st) st' = none := by
  by_cases e : st' = st
  · subst e; exact cellVal_clearAt_same cs st'
  · rw [cellVal_clearAt_ne cs st st' e, h]

/-- iterator state: `lookups` untouched, the live cells are exactly the logical positions in `[lo, hi)` -/
structure OInv (lk : List (Option Nat)) (l : List α) (it : OIter α) (lo hi : Nat) : Prop where
  lk_eq : it.lookups = lk
  pos_eq : it.pos = lo
  rev_eq : it.revPos + 1 = hi ∨ (it.revPos = 0 ∧ hi = 0)
  hi_le : hi ≤ l.length
  live : ∀ i, iterAt it.cells lk i = if lo ≤ i ∧ i < hi then l[i]? else none

theorem intoIter_inv {N : Nat} {s : AM α} (hI : Inv N s) {l : List α} (hR : Refines s l) :
    OInv (getLookups s.cells) l (intoIter s) 0 s.cnt := by
  obtain ⟨h1, h2, _⟩ := lookups_spec hI hR
  refine ⟨rfl, rfl, ?_, by rw [hR.1]; exact Nat.le_refl _, fun i => ?_⟩
  · simp only [intoIter]
    by_cases h : s.cnt = 0
    · right; omega
    · left; omega
  · simp only [intoIter, Nat.zero_le, true_and]
    by_cases hi : i < s.cnt
    · obtain ⟨st, e1, e2, _⟩ := h1 i hi
      simp only [iterAt, e1, e2, hi, if_true]
    · simp only [hi, if_false]; exact h2 i (by omega)

/-- clearing the cell of logical position `j` -/
theorem live_clear {N : Nat} {s : AM α} (hI : Inv N s) {l : List α} (hR : Refines s l)
    (cells : List (Cell α)) (lo hi : Nat) (hhi : hi ≤ l.length)
    (hlive : ∀ i, iterAt cells (getLookups s.cells) i = if lo ≤ i ∧ i < hi then l[i]? else none)
    (j st : Nat) (hj : j < s.cnt) (hst : (getLookups s.cells)[j]? = some (some st)) (i : Nat) :
    iterAt (clearAt cells st) (getLookups s.cells) i = if i = j then none else iterAt cells (getLookups s.cells) i := by
  obtain ⟨h1, _, h3⟩ := lookups_spec hI hR
  by_cases hij : i = j
  · subst hij
    simp only [iterAt, hst, if_true]
    exact cellVal_clearAt_same cells st
  · simp only [hij, if_false]
    by_cases hic : i < s.cnt
    · obtain ⟨st', e1, _, _⟩ := h1 i hic
      have hne : st' ≠ st := by
        intro e; subst e
        exact hij (h3 i j st' hic hj e1 hst)
      simp only [iterAt, e1]
      exact cellVal_clearAt_ne cells st st' hne
    · have hnone : iterAt cells (getLookups s.cells) i = none := by
        rw [hlive i, if_neg (by rw [hR.1] at hic; omega)]
      rw [hnone]
      simp only [iterAt] at hnone ⊢
      split
      · rename_i st' e
        rw [e] at hnone
        exact cellVal_clearAt_none cells st st' hnone
      · rfl

theorem next_spec {N : Nat} {s : AM α} (hI : Inv N s) {l : List α} (hR : Refines s l)
    (it : OIter α) (lo hi : Nat) (hinv : OInv (getLookups s.cells) l it lo hi) :
    if lo < hi then (it.next).1 = l[lo]? ∧ OInv (getLookups s.cells) l (it.next).2 (lo + 1) hi
    else (it.next).1 = none ∧ (it.next).2 = it := by
  obtain ⟨h1, _, _⟩ := lookups_spec hI hR
  have hl := hinv.live lo
  split
  · rename_i hlt
    have hlo : lo < s.cnt := by rw [hR.1]; have := hinv.hi_le; omega
    obtain ⟨st, e1, _, _⟩ := h1 lo hlo
    rw [if_pos ⟨Nat.le_refl _, hlt⟩] at hl
    have hll : lo < l.length := by have := hinv.hi_le; omega
    simp only [iterAt, e1, List.getElem?_eq_getElem hll] at hl
    simp only [OIter.next, hinv.lk_eq, hinv.pos_eq, e1, hl]
    refine ⟨(List.getElem?_eq_getElem hll).symm, ⟨rfl, rfl, hinv.rev_eq, hinv.hi_le, fun i => ?_⟩⟩
    rw [live_clear hI hR it.cells lo hi hinv.hi_le hinv.live lo st hlo e1 i, hinv.live i]
    by_cases e : i = lo
    · subst e; rw [if_pos rfl, if_neg (by omega)]
    · simp only [e, if_false]
      by_cases c : lo ≤ i ∧ i < hi
      · rw [if_pos c, if_pos ⟨by omega, c.2⟩]
      · rw [if_neg c, if_neg (by omega)]
  · rename_i hge
    rw [if_neg (by omega)] at hl
    simp only [OIter.next, hinv.lk_eq, hinv.pos_eq]
    simp only [iterAt] at hl
    split
    · rename_i st e
      rw [e] at hl
      simp only [] at hl
      rw [hl]
      exact ⟨rfl, rfl⟩
    · exact ⟨rfl, rfl⟩

theorem nextBack_spec {N : Nat} {s : AM α} (hI : Inv N s) {l : List α} (hR : Refines s l)
    (it : OIter α) (lo hi : Nat) (hinv : OInv (getLookups s.cells) l it lo hi) :
    if lo < hi then (it.nextBackG false).1 = l[hi - 1]? ∧ OInv (getLookups s.cells) l (it.nextBackG false).2 lo (hi - 1)
    else (it.nextBackG false).1 = none ∧ (it.nextBackG false).2 = it := by
  obtain ⟨h1, _, _⟩ := lookups_spec hI hR
  split
  · rename_i hlt
    have hrev : it.revPos = hi - 1 := by
      rcases hinv.rev_eq with h | h <;> omega
    have hl := hinv.live (hi - 1)
    have hlo : hi - 1 < s.cnt := by rw [hR.1]; have := hinv.hi_le; omega
    obtain ⟨st, e1, _, _⟩ := h1 (hi - 1) hlo
    rw [if_pos ⟨by omega, by omega⟩] at hl
    have hll : hi - 1 < l.length := by have := hinv.hi_le; omega
    simp only [iterAt, e1, List.getElem?_eq_getElem hll] at hl
    simp only [OIter.nextBackG, hinv.lk_eq, hrev, e1, hl]
    refine ⟨(List.getElem?_eq_getElem hll).symm, ⟨rfl, hinv.pos_eq, ?_, by have := hinv.hi_le; omega, fun i => ?_⟩⟩
    · simp only [Bool.false_eq_true, if_false]
      by_cases h0 : hi - 1 = 0
      · right; omega
      · left; omega
    · rw [live_clear hI hR it.cells lo hi hinv.hi_le hinv.live (hi - 1) st hlo e1 i, hinv.live i]
      by_cases e : i = hi - 1
      · subst e; rw [if_pos rfl, if_neg (by omega)]
      · simp only [e, if_false]
        by_cases c : lo ≤ i ∧ i < hi
        · rw [if_pos c, if_pos ⟨c.1, by omega⟩]
        · rw [if_neg c, if_neg (by omega)]
  · rename_i hge
    have hl := hinv.live it.revPos
    have : ¬ (lo ≤ it.revPos ∧ it.revPos < hi) := by
      rcases hinv.rev_eq with h | h <;> omega
    rw [if_neg this] at hl
    simp only [OIter.nextBackG, hinv.lk_eq]
    simp only [iterAt] at hl
    split
    · rename_i st e
      rw [e] at hl
      simp only [] at hl
      rw [hl]
      exact ⟨rfl, rfl⟩
    · exact ⟨rfl, rfl⟩

/-- a double-ended queue over the logical sequence: two cursors, window `[lo, hi)` -/
def dq (l : List α) : Nat → Nat → List Bool → List (Option α)
  | _, _, [] => []
  | lo, hi, false :: bs => if lo < hi then l[lo]? :: dq l (lo + 1) hi bs else none :: dq l lo hi bs
  | lo, hi, true :: bs => if lo < hi then l[hi - 1]? :: dq l lo (hi - 1) bs else none :: dq l lo hi bs

theorem run_spec {N : Nat} {s : AM α} (hI : Inv N s) {l : List α} (hR : Refines s l) (bs : List Bool) :
    ∀ (it : OIter α) (lo hi : Nat), OInv (getLookups s.cells) l it lo hi → it.run false bs = dq l lo hi bs := by
  induction bs with
  | nil => intro it lo hi _; rfl
  | cons b bs ih =>
    intro it lo hi hinv
    cases b with
    | false =>
      have := next_spec hI hR it lo hi hinv
      simp only [OIter.run, dq, Bool.false_eq_true, if_false]
      split at this
      · rename_i hlt
        rw [if_pos hlt, this.1, ih _ _ _ this.2]
      · rename_i hge
        rw [if_neg hge, this.1, this.2, ih _ _ _ hinv]
    | true =>
      have := nextBack_spec hI hR it lo hi hinv
      simp only [OIter.run, dq, if_true]
      split at this
      · rename_i hlt
        rw [if_pos hlt, this.1, ih _ _ _ this.2]
      · rename_i hge
        rw [if_neg hge, this.1, this.2, ih _ _ _ hinv]

theorem drainFwd_spec {N : Nat} {s : AM α} (hI : Inv N s) {l : List α} (hR : Refines s l) :
    ∀ (fuel : Nat) (it : OIter α) (lo hi : Nat), OInv (getLookups s.cells) l it lo hi → hi - lo < fuel →
      OIter.drainFwd fuel it = (l.take hi).drop lo := by
  intro fuel
  induction fuel with
  | zero => intro it lo hi _ h; omega
  | succ fuel ih =>
    intro it lo hi hinv hf
    have := next_spec hI hR it lo hi hinv
    simp only [OIter.drainFwd]
    split at this
    · rename_i hlt
      have hll : lo < l.length := by have := hinv.hi_le; omega
      obtain ⟨a1, a2⟩ := this
      rw [List.getElem?_eq_getElem hll] at a1
      have e : it.next = (some l[lo], it.next.2) := by rw [← a1]
      rw [e]
      simp only []
      rw [ih _ _ _ a2 (by omega)]
      have hlt' : lo < (l.take hi).length := by simp; omega
      rw [List.drop_eq_getElem_cons hlt']
      simp
    · rename_i hge
      have e : it.next = (none, it.next.2) := by rw [← this.1]
      rw [e]
      simp only []
      rw [List.drop_eq_nil_of_le (by simp; omega)]

theorem drainBack_spec {N : Nat} {s : AM α} (hI : Inv N s) {l : List α} (hR : Refines s l) :
    ∀ (fuel : Nat) (it : OIter α) (lo hi : Nat), OInv (getLookups s.cells) l it lo hi → hi - lo < fuel →
      OIter.drainBack false fuel it = ((l.take hi).drop lo).reverse := by
  intro fuel
  induction fuel with
  | zero => intro it lo hi _ h; omega
  | succ fuel ih =>
    intro it lo hi hinv hf
    have := nextBack_spec hI hR it lo hi hinv
    simp only [OIter.drainBack]
    split at this
    · rename_i hlt
      have hll : hi - 1 < l.length := by have := hinv.hi_le; omega
      obtain ⟨a1, a2⟩ := this
      rw [List.getElem?_eq_getElem hll] at a1
      have e : it.nextBackG false = (some l[hi - 1], (it.nextBackG false).2) := by rw [← a1]
      rw [e]
      simp only []
      rw [ih _ _ _ a2 (by omega)]
      have htake : l.take hi = l.take (hi - 1) ++ [l[hi - 1]] := by
        have : hi = hi - 1 + 1 := by omega
        conv => lhs; rw [this]
        rw [List.take_add_one, List.getElem?_eq_getElem hll]; rfl
      rw [htake, List.drop_append_of_le_length (by simp; omega)]
      simp
    · rename_i hge
      have e : it.nextBackG false = (none, (it.nextBackG false).2) := by rw [← this.1]
      rw [e]
      simp only []
      rw [List.drop_eq_nil_of_le (by simp; omega)]
      rfl

end Slots
