import SdModel.Model.RMap

/-!
Lemmas for the recursive map-like back end (C13): per-key characterisation of `hashcmp` and `apply` for maps
(association lists with pairwise distinct keys), for an arbitrary nested interface `N` and ANY base map
(so the follower statements of C02 are instances).
-/
namespace RMap
variable {κ ν δ : Type} [DecidableEq κ]

def keys (m : KV κ ν) : List κ := m.map (·.1)
def NoDupK (m : KV κ ν) : Prop := (keys m).Nodup

@[simp] theorem keys_nil : keys ([] : KV κ ν) = [] := rfl
@[simp] theorem keys_cons (k : κ) (v : ν) (m : KV κ ν) : keys ((k, v) :: m) = k :: keys m := rfl

theorem kget_none_iff (m : KV κ ν) (k : κ) : kget m k = none ↔ k ∉ keys m := by
  induction m with
  | nil => simp [kget]
  | cons kv m ih =>
    obtain ⟨k', v⟩ := kv
    simp only [kget, keys_cons, List.mem_cons, not_or]
    by_cases h : k' = k
    · simp [h]
    · simp only [h, if_false, ih]
      constructor
      · intro h2; exact ⟨fun e => h e.symm, h2⟩
      · intro h2; exact h2.2

theorem kget_isSome_iff (m : KV κ ν) (k : κ) : (kget m k).isSome ↔ k ∈ keys m := by
  cases h : kget m k with
  | none => simp [(kget_none_iff m k).mp h]
  | some v =>
    simp only [Option.isSome_some, true_iff]
    apply Classical.byContradiction
    intro hn
    rw [(kget_none_iff m k).mpr hn] at h; cases h

theorem kget_mem (m : KV κ ν) (k : κ) (v : ν) (h : kget m k = some v) : (k, v) ∈ m := by
  induction m with
  | nil => simp [kget] at h
  | cons kv m ih =>
    obtain ⟨k', w⟩ := kv
    simp only [kget] at h
    by_cases hk : k' = k
    · simp only [hk, if_true, Option.some.injEq] at h; subst hk h; exact List.mem_cons_self
    · simp only [hk, if_false] at h; exact List.mem_cons_of_mem _ (ih h)

theorem kget_of_mem (m : KV κ ν) (hm : NoDupK m) (k : κ) (v : ν) (h : (k, v) ∈ m) : kget m k = some v := by
  induction m with
  | nil => cases h
  | cons kv m ih =>
    obtain ⟨k', w⟩ := kv
    simp only [NoDupK, keys_cons, List.nodup_cons] at hm
    simp only [kget]
    rcases List.mem_cons.mp h with h | h
    · cases h; simp
    · have : k' ≠ k := by
        rintro rfl
        exact hm.1 (List.mem_map_of_mem (f := (·.1)) h)
      simp only [this, if_false]
      exact ih hm.2 h

/-! ### `kput`, `collect` -/

theorem kget_kput (m : KV κ ν) (k' k : κ) (v : ν) : kget (kput m k' v) k = if k' = k then some v else kget m k := by
  induction m with
  | nil => simp [kput, kget]
  | cons kv m ih =>
    obtain ⟨k0, w⟩ := kv
    simp only [kput]
    by_cases h0 : k0 = k'
    · subst h0
      simp only [if_true, kget]
      by_cases h1 : k0 = k <;> simp [h1]
    · simp only [h0, if_false, kget, ih]
      by_cases h1 : k0 = k
      · subst h1; simp [Ne.symm h0]
      · simp [h1]

theorem keys_kput (m : KV κ ν) (k : κ) (v : ν) : keys (kput m k v) = if k ∈ keys m then keys m else keys m ++ [k] := by
  induction m with
  | nil => simp [kput]
  | cons kv m ih =>
    obtain ⟨k0, w⟩ := kv
    simp only [kput]
    by_cases h0 : k0 = k
    · subst h0; simp
    · simp only [h0, if_false, keys_cons, ih, List.mem_cons]
      have : ¬ k = k0 := fun e => h0 e.symm
      by_cases h1 : k ∈ keys m <;> simp [h1, this]

theorem nodup_kput (m : KV κ ν) (k : κ) (v : ν) (h : NoDupK m) : NoDupK (kput m k v) := by
  simp only [NoDupK, keys_kput]
  split
  · exact h
  · rename_i hk
    rw [List.nodup_append]
    refine ⟨h, by simp, ?_⟩
    intro a ha b hb
    simp only [List.mem_singleton] at hb
    subst hb
    rintro rfl; exact hk ha

theorem kput_fresh (m : KV κ ν) (k : κ) (v : ν) (h : k ∉ keys m) : kput m k v = m ++ [(k, v)] := by
  induction m with
  | nil => rfl
  | cons kv m ih =>
    obtain ⟨k0, w⟩ := kv
    simp only [keys_cons, List.mem_cons, not_or] at h
    have : ¬ k0 = k := fun e => h.1 e.symm
    simp only [kput, this, if_false, ih h.2, List.cons_append]

theorem foldl_kput_unique (l m : KV κ ν) (h : NoDupK (m ++ l)) :
    l.foldl (fun m kv => kput m kv.1 kv.2) m = m ++ l := by
  induction l generalizing m with
  | nil => simp
  | cons kv l ih =>
    obtain ⟨k, v⟩ := kv
    simp only [List.foldl_cons]
    have hk : k ∉ keys m := by
      simp only [NoDupK, keys, List.map_append, List.map_cons, List.nodup_append] at h
      intro hm
      exact h.2.2 k hm k List.mem_cons_self rfl
    rw [kput_fresh m k v hk, ih]
    · simp
    · simpa using h

/-- a list with distinct keys is its own collected map -/
theorem collect_unique (l : KV κ ν) (h : NoDupK l) : collect l = l := by
  have := foldl_kput_unique l [] (by simpa using h)
  simpa [collect] using this

/-! ### `kerase` / `kremove`, `kmodify`, filtering by key -/

theorem kget_filter (m : KV κ ν) (p : κ → Bool) (k : κ) :
    kget (m.filter fun kv => p kv.1) k = if p k then kget m k else none := by
  induction m with
  | nil => simp [kget]
  | cons kv m ih =>
    obtain ⟨k0, w⟩ := kv
    simp only [List.filter_cons]
    by_cases h0 : p k0 = true
    · simp only [h0, if_true, kget, ih]
      by_cases h1 : k0 = k
      · subst h1; simp [h0]
      · simp [h1]
    · simp only [h0]
      simp only [Bool.false_eq_true, if_false, ih, kget]
      by_cases h1 : k0 = k
      · subst h1; simp [h0]
      · simp [h1]

theorem keys_filter_sub (m : KV κ ν) (p : κ × ν → Bool) : (keys (m.filter p)).Sublist (keys m) :=
  (List.filter_sublist).map _

theorem nodup_filter (m : KV κ ν) (p : κ × ν → Bool) (h : NoDupK m) : NoDupK (m.filter p) :=
  List.Nodup.sublist (keys_filter_sub m p) h

theorem kerase_spec (m : KV κ ν) (k : κ) (h : NoDupK m) :
    (kerase m k).1 = kget m k ∧ (kerase m k).2 = m.filter (fun kv => !decide (kv.1 = k)) := by
  induction m with
  | nil => simp [kerase, kget]
  | cons kv m ih =>
    obtain ⟨k0, w⟩ := kv
    simp only [NoDupK, keys_cons, List.nodup_cons] at h
    simp only [kerase, kget, List.filter_cons]
    by_cases h0 : k0 = k
    · subst h0
      simp only [if_true, decide_true, Bool.not_true, Bool.false_eq_true, if_false, true_and]
      symm
      rw [List.filter_eq_self]
      intro a ha
      have : a.1 ≠ k0 := by
        rintro rfl
        exact h.1 (List.mem_map_of_mem (f := (·.1)) ha)
      simp [this]
    · obtain ⟨i1, i2⟩ := ih h.2
      simp [h0, i1, i2]

theorem kget_kremove (m : KV κ ν) (k' k : κ) (h : NoDupK m) :
    kget (kremove m k') k = if k' = k then none else kget m k := by
  simp only [kremove, (kerase_spec m k' h).2]
  rw [kget_filter m (fun x => !decide (x = k')) k]
  by_cases h1 : k' = k
  · subst h1; simp
  · have : ¬ k = k' := fun e => h1 e.symm
    simp [h1, this]

theorem nodup_kremove (m : KV κ ν) (k : κ) (h : NoDupK m) : NoDupK (kremove m k) := by
  simp only [kremove, (kerase_spec m k h).2]
  exact nodup_filter m _ h

theorem keys_kmodify (m : KV κ ν) (k : κ) (f : ν → ν) : keys (kmodify m k f) = keys m := by
  simp only [keys, kmodify, List.map_map]
  apply List.map_congr_left
  intro x _
  simp only [Function.comp]
  split <;> rfl

theorem kget_kmodify (m : KV κ ν) (k' k : κ) (f : ν → ν) :
    kget (kmodify m k' f) k = (kget m k).map (fun v => if k' = k then f v else v) := by
  induction m with
  | nil => simp [kmodify, kget]
  | cons kv m ih =>
    obtain ⟨k0, w⟩ := kv
    simp only [kmodify, List.map_cons] at ih ⊢
    by_cases h0 : k0 = k'
    · subst h0
      simp only [if_true, kget]
      by_cases h1 : k0 = k
      · simp [h1]
      · simp [h1, ih]
    · simp only [h0, if_false, kget]
      by_cases h1 : k0 = k
      · subst h1; simp [Ne.symm h0]
      · simp [h1, ih]

/-! ### what a change list does, per key -/

def isRem (k : κ) : Change κ ν δ → Bool
  | .remove k' => decide (k' = k)
  | _ => false

/-- the nested patches addressed to key `k`, in order -/
def chgV (N : Nested ν δ) (es : List (Change κ ν δ)) (k : κ) (v : ν) : ν :=
  es.foldl (fun v e => match e with
    | .change k' d => if k' = k then N.applyMut v d else v
    | _ => v) v

/-- the last inserted value for key `k`, else `init` -/
def insV (es : List (Change κ ν δ)) (k : κ) (init : Option ν) : Option ν :=
  es.foldl (fun acc e => match e with
    | .insert k' v => if k' = k then some v else acc
    | _ => acc) init

@[simp] theorem chgV_nil (N : Nested ν δ) (k : κ) (v : ν) : chgV N ([] : List (Change κ ν δ)) k v = v := rfl
@[simp] theorem chgV_cons_change (N : Nested ν δ) (k' : κ) (d : δ) (es : List (Change κ ν δ)) (k : κ) (v : ν) :
    chgV N (.change k' d :: es) k v = chgV N es k (if k' = k then N.applyMut v d else v) := rfl
@[simp] theorem chgV_cons_insert (N : Nested ν δ) (k' : κ) (w : ν) (es : List (Change κ ν δ)) (k : κ) (v : ν) :
    chgV N (.insert k' w :: es) k v = chgV N es k v := rfl
@[simp] theorem chgV_cons_remove (N : Nested ν δ) (k' : κ) (es : List (Change κ ν δ)) (k : κ) (v : ν) :
    chgV N (.remove k' :: es) k v = chgV N es k v := rfl
@[simp] theorem insV_nil (k : κ) (i : Option ν) : insV ([] : List (Change κ ν δ)) k i = i := rfl
@[simp] theorem insV_cons_insert (k' : κ) (w : ν) (es : List (Change κ ν δ)) (k : κ) (i : Option ν) :
    insV (.insert k' w :: es) k i = insV es k (if k' = k then some w else i) := rfl
@[simp] theorem insV_cons_change (k' : κ) (d : δ) (es : List (Change κ ν δ)) (k : κ) (i : Option ν) :
    insV (.change k' d :: es) k i = insV es k i := rfl
@[simp] theorem insV_cons_remove (k' : κ) (es : List (Change κ ν δ)) (k : κ) (i : Option ν) :
    insV (.remove k' :: es : List (Change κ ν δ)) k i = insV es k i := rfl

theorem filterMap_congr' {α β : Type} (f g : α → Option β) (l : List α) (h : ∀ x ∈ l, f x = g x) :
    l.filterMap f = l.filterMap g := by
  induction l with
  | nil => rfl
  | cons x l ih =>
    simp only [List.filterMap_cons, h x List.mem_cons_self]
    rw [ih fun y hy => h y (List.mem_cons_of_mem _ hy)]

theorem apply_modify_eq (N : Nested ν δ) (base : KV κ ν) (es : List (Change κ ν δ)) :
    apply N base (.modify es) = es.foldl insStep (es.foldl (chgStep N) (es.foldl remStep (collect base))) := rfl

theorem fold_rem (es : List (Change κ ν δ)) (m : KV κ ν) (h : NoDupK m) :
    NoDupK (es.foldl remStep m) ∧ ∀ k, kget (es.foldl remStep m) k = if es.any (isRem k) then none else kget m k := by
  induction es generalizing m with
  | nil => simp [h]
  | cons e es ih =>
    cases e with
    | remove k' =>
      obtain ⟨i1, i2⟩ := ih (kremove m k') (nodup_kremove m k' h)
      refine ⟨i1, fun k => ?_⟩
      simp only [List.foldl_cons, remStep, List.any_cons, isRem]
      rw [i2 k, kget_kremove m k' k h]
      by_cases hk : k' = k <;> simp [hk]
    | insert k' v =>
      obtain ⟨i1, i2⟩ := ih m h
      exact ⟨i1, fun k => by simp only [List.foldl_cons, remStep, List.any_cons, isRem, Bool.false_or]; exact i2 k⟩
    | change k' d =>
      obtain ⟨i1, i2⟩ := ih m h
      exact ⟨i1, fun k => by simp only [List.foldl_cons, remStep, List.any_cons, isRem, Bool.false_or]; exact i2 k⟩

theorem fold_chg (N : Nested ν δ) (es : List (Change κ ν δ)) (m : KV κ ν) :
    keys (es.foldl (chgStep N) m) = keys m ∧ ∀ k, kget (es.foldl (chgStep N) m) k = (kget m k).map (chgV N es k) := by
  induction es generalizing m with
  | nil => exact ⟨rfl, fun k => by simp only [List.foldl_nil]; cases kget m k <;> rfl⟩
  | cons e es ih =>
    cases e with
    | change k' d =>
      obtain ⟨i1, i2⟩ := ih (kmodify m k' (fun v => N.applyMut v d))
      refine ⟨by simp only [List.foldl_cons, chgStep]; rw [i1, keys_kmodify], fun k => ?_⟩
      simp only [List.foldl_cons, chgStep]
      rw [i2 k, kget_kmodify]
      cases kget m k with
      | none => rfl
      | some v => simp
    | insert k' v =>
      obtain ⟨i1, i2⟩ := ih m
      exact ⟨i1, fun k => by simp only [List.foldl_cons, chgStep]; rw [i2 k]; cases kget m k <;> simp⟩
    | remove k' =>
      obtain ⟨i1, i2⟩ := ih m
      exact ⟨i1, fun k => by simp only [List.foldl_cons, chgStep]; rw [i2 k]; cases kget m k <;> simp⟩

theorem fold_ins (es : List (Change κ ν δ)) (m : KV κ ν) (h : NoDupK m) :
    NoDupK (es.foldl insStep m) ∧ ∀ k, kget (es.foldl insStep m) k = insV es k (kget m k) := by
  induction es generalizing m with
  | nil => exact ⟨h, fun k => rfl⟩
  | cons e es ih =>
    cases e with
    | insert k' v =>
      obtain ⟨i1, i2⟩ := ih (kput m k' v) (nodup_kput m k' v h)
      refine ⟨i1, fun k => ?_⟩
      simp only [List.foldl_cons, insStep]
      rw [i2 k, kget_kput]
      simp
    | change k' d =>
      obtain ⟨i1, i2⟩ := ih m h
      exact ⟨i1, fun k => by simp only [List.foldl_cons, insStep]; rw [i2 k]; simp⟩
    | remove k' =>
      obtain ⟨i1, i2⟩ := ih m h
      exact ⟨i1, fun k => by simp only [List.foldl_cons, insStep]; rw [i2 k]; simp⟩

/-- **apply, per key**, for any base with distinct keys and any change list -/
theorem apply_modify_kget (N : Nested ν δ) (base : KV κ ν) (hb : NoDupK base) (es : List (Change κ ν δ)) :
    NoDupK (apply N base (.modify es)) ∧
    ∀ k, kget (apply N base (.modify es)) k =
      insV es k ((if es.any (isRem k) then none else kget base k).map (chgV N es k)) := by
  rw [apply_modify_eq, collect_unique base hb]
  obtain ⟨r1, r2⟩ := fold_rem es base hb
  obtain ⟨c1, c2⟩ := fold_chg N es (es.foldl remStep base)
  have hc : NoDupK (es.foldl (chgStep N) (es.foldl remStep base)) := by simp only [NoDupK, c1]; exact r1
  obtain ⟨i1, i2⟩ := fold_ins es _ hc
  refine ⟨i1, fun k => ?_⟩
  rw [i2 k, c2 k, r2 k]

/-! ### the change list `hashcmp` builds -/

/-- the entry the loop emits for a key of `previous` -/
def entryOf (N : Nested ν δ) (keyOnly : Bool) (cur : KV κ ν) (kv : κ × ν) : Option (Change κ ν δ) :=
  match kget cur kv.1 with
  | none => some (.remove kv.1)
  | some cv => if !keyOnly && !(N.veq kv.2 cv) then some (.change kv.1 (N.diff kv.2 cv)) else none

theorem loopP_spec (N : Nested ν δ) (keyOnly : Bool) (a : KV κ ν) (ha : NoDupK a) :
    ∀ cur : KV κ ν, NoDupK cur →
      (loopP N keyOnly a cur).1 = a.filterMap (entryOf N keyOnly cur) ∧
      (loopP N keyOnly a cur).2 = cur.filter (fun kv => !decide (kv.1 ∈ keys a)) := by
  induction a with
  | nil => intro cur _; simp only [loopP, keys, List.filterMap_nil, List.map_nil, List.not_mem_nil, decide_false, Bool.not_false, true_and]; rw [List.filter_eq_self.mpr (fun _ _ => rfl)]
  | cons kv a ih =>
    obtain ⟨k, pv⟩ := kv
    intro cur hc
    simp only [NoDupK, keys_cons, List.nodup_cons] at ha
    obtain ⟨e1, e2⟩ := kerase_spec cur k hc
    have hc' : NoDupK (kerase cur k).2 := by rw [e2]; exact nodup_filter cur _ hc
    obtain ⟨i1, i2⟩ := ih ha.2 (kerase cur k).2 hc'
    have hcongr : a.filterMap (entryOf N keyOnly (kerase cur k).2) = a.filterMap (entryOf N keyOnly cur) := by
      apply filterMap_congr'
      intro x hx
      have hne : x.1 ≠ k := by
        rintro rfl
        exact ha.1 (List.mem_map_of_mem (f := (·.1)) hx)
      simp only [entryOf, e2]
      rw [kget_filter cur (fun y => !decide (y = k)) x.1]
      simp [hne]
    have hfilt : (kerase cur k).2.filter (fun kv => !decide (kv.1 ∈ keys a))
        = cur.filter (fun kv => !decide (kv.1 ∈ keys ((k, pv) :: a))) := by
      rw [e2, List.filter_filter]
      apply List.filter_congr
      intro x _
      simp only [keys_cons, List.mem_cons]
      by_cases hx : x.1 = k <;> simp [hx]
    simp only [loopP, List.filterMap_cons]
    rw [e1]
    cases hk : kget cur k with
    | none =>
      simp only [entryOf, hk]
      exact ⟨by rw [i1, hcongr], by rw [i2, hfilt]⟩
    | some cv =>
      simp only [entryOf, hk]
      split
      · exact ⟨by rw [i1, hcongr], by rw [i2, hfilt]⟩
      · exact ⟨by rw [i1, hcongr], by rw [i2, hfilt]⟩

/-- the change list of the non-replacement branch -/
def entriesOf (N : Nested ν δ) (keyOnly : Bool) (a b : KV κ ν) : List (Change κ ν δ) :=
  a.filterMap (entryOf N keyOnly b) ++ (b.filter (fun kv => !decide (kv.1 ∈ keys a))).map fun (k, v) => Change.insert k v

theorem hashcmp_eq (N : Nested ν δ) (a b : KV κ ν) (ha : NoDupK a) (hb : NoDupK b) (keyOnly : Bool) :
    hashcmp N a b keyOnly =
      if (b.length : Int) < (a.length : Int) - (b.length : Int) then some (.replace b)
      else if (entriesOf N keyOnly a b).isEmpty then none else some (.modify (entriesOf N keyOnly a b)) := by
  simp only [hashcmp, collect_unique a ha, collect_unique b hb]
  obtain ⟨l1, l2⟩ := loopP_spec N keyOnly a ha b hb
  rw [l1, l2]; rfl

/-! per-key effect of `entriesOf` -/

theorem any_isRem_entries (N : Nested ν δ) (keyOnly : Bool) (a b : KV κ ν) (k : κ) :
    (entriesOf N keyOnly a b).any (isRem k) = true ↔ (k ∈ keys a ∧ kget b k = none) := by
  simp only [entriesOf, List.any_append, Bool.or_eq_true, List.any_eq_true, List.mem_filterMap, List.mem_map]
  constructor
  · rintro (⟨e, ⟨x, hx, hxe⟩, he⟩ | ⟨e, ⟨x, _, hxe⟩, he⟩)
    · simp only [entryOf] at hxe
      split at hxe
      · rename_i hn
        cases hxe
        simp only [isRem, decide_eq_true_eq] at he
        subst he
        exact ⟨List.mem_map_of_mem (f := (·.1)) hx, hn⟩
      · split at hxe
        · cases hxe; simp [isRem] at he
        · cases hxe
    · subst hxe; simp [isRem] at he
  · rintro ⟨hk, hn⟩
    left
    simp only [keys, List.mem_map] at hk
    obtain ⟨x, hx, rfl⟩ := hk
    exact ⟨.remove x.1, ⟨x, hx, by simp [entryOf, hn]⟩, by simp [isRem]⟩

theorem chgV_append (N : Nested ν δ) (es es' : List (Change κ ν δ)) (k : κ) (v : ν) :
    chgV N (es ++ es') k v = chgV N es' k (chgV N es k v) := by
  simp [chgV, List.foldl_append]

theorem chgV_inserts (N : Nested ν δ) (l : KV κ ν) (k : κ) (v : ν) :
    chgV N (l.map fun (k, v) => (Change.insert k v : Change κ ν δ)) k v = v := by
  induction l generalizing v with
  | nil => rfl
  | cons x l ih => simpa [chgV] using ih v

/-- the three shapes of an emitted entry -/
theorem entryOf_cases (N : Nested ν δ) (keyOnly : Bool) (b : KV κ ν) (k0 : κ) (pv : ν) :
    (kget b k0 = none ∧ entryOf N keyOnly b (k0, pv) = some (.remove k0)) ∨
    (∃ cv, kget b k0 = some cv ∧ (!keyOnly && !(N.veq pv cv)) = true ∧
      entryOf N keyOnly b (k0, pv) = some (.change k0 (N.diff pv cv))) ∨
    (∃ cv, kget b k0 = some cv ∧ (!keyOnly && !(N.veq pv cv)) = false ∧ entryOf N keyOnly b (k0, pv) = none) := by
  cases hb : kget b k0 with
  | none => left; simp [entryOf, hb]
  | some cv =>
    right
    cases hc : (!keyOnly && !(N.veq pv cv)) with
    | true => left; exact ⟨cv, rfl, hc, by simp only [entryOf, hb, hc, if_true]⟩
    | false => right; exact ⟨cv, rfl, hc, by simp only [entryOf, hb, hc, Bool.false_eq_true, if_false]⟩

theorem chgV_absent (N : Nested ν δ) (keyOnly : Bool) (b a : KV κ ν) (k : κ) (hk : k ∉ keys a) (v : ν) :
    chgV N (a.filterMap (entryOf N keyOnly b)) k v = v := by
  induction a generalizing v with
  | nil => rfl
  | cons x a ih =>
    obtain ⟨k0, pv⟩ := x
    simp only [keys_cons, List.mem_cons, not_or] at hk
    have hne : ¬ k0 = k := fun e => hk.1 e.symm
    rcases entryOf_cases N keyOnly b k0 pv with ⟨_, hx⟩ | ⟨cv, _, _, hx⟩ | ⟨cv, _, _, hx⟩
    · rw [List.filterMap_cons, hx]; simpa using ih hk.2 v
    · rw [List.filterMap_cons, hx]; simpa [hne] using ih hk.2 v
    · rw [List.filterMap_cons, hx]; exact ih hk.2 v

/-- the nested patch a retained key receives -/
def patchOf (N : Nested ν δ) (keyOnly : Bool) (pv cv : ν) (v : ν) : ν :=
  if !keyOnly && !(N.veq pv cv) then N.applyMut v (N.diff pv cv) else v

theorem chgV_entries (N : Nested ν δ) (keyOnly : Bool) (a b : KV κ ν) (ha : NoDupK a) (k : κ) (v : ν) :
    chgV N (entriesOf N keyOnly a b) k v =
      match kget a k, kget b k with
      | some pv, some cv => patchOf N keyOnly pv cv v
      | _, _ => v := by
  simp only [entriesOf, chgV_append, chgV_inserts]
  induction a generalizing v with
  | nil => simp [kget]
  | cons x a ih =>
    obtain ⟨k0, pv⟩ := x
    simp only [NoDupK, keys_cons, List.nodup_cons] at ha
    simp only [kget]
    by_cases h0 : k0 = k
    · subst h0
      simp only [if_true]
      rcases entryOf_cases N keyOnly b k0 pv with ⟨hb, hx⟩ | ⟨cv, hb, hc, hx⟩ | ⟨cv, hb, hc, hx⟩
      · rw [List.filterMap_cons, hx, hb]
        simpa using chgV_absent N keyOnly b a k0 ha.1 v
      · rw [List.filterMap_cons, hx, hb]
        simp only [chgV_cons_change, if_true, patchOf, hc]
        exact chgV_absent N keyOnly b a k0 ha.1 _
      · rw [List.filterMap_cons, hx, hb]
        simp only [patchOf, hc, Bool.false_eq_true, if_false]
        exact chgV_absent N keyOnly b a k0 ha.1 v
    · simp only [h0, if_false]
      rw [← ih ha.2 v]
      rcases entryOf_cases N keyOnly b k0 pv with ⟨_, hx⟩ | ⟨cv, _, _, hx⟩ | ⟨cv, _, _, hx⟩
      · rw [List.filterMap_cons, hx]; simp
      · rw [List.filterMap_cons, hx]; simp [h0]
      · rw [List.filterMap_cons, hx]

theorem insV_append (es es' : List (Change κ ν δ)) (k : κ) (i : Option ν) :
    insV (es ++ es') k i = insV es' k (insV es k i) := by
  simp [insV, List.foldl_append]

theorem insV_noins (N : Nested ν δ) (keyOnly : Bool) (b a : KV κ ν) (k : κ) (i : Option ν) :
    insV (a.filterMap (entryOf N keyOnly b)) k i = i := by
  induction a with
  | nil => rfl
  | cons x a ih =>
    obtain ⟨k0, pv⟩ := x
    rcases entryOf_cases N keyOnly b k0 pv with ⟨_, hx⟩ | ⟨cv, _, _, hx⟩ | ⟨cv, _, _, hx⟩
    · rw [List.filterMap_cons, hx]; simpa using ih
    · rw [List.filterMap_cons, hx]; simpa using ih
    · rw [List.filterMap_cons, hx]; exact ih

theorem insV_inserts (l : KV κ ν) (hl : NoDupK l) (k : κ) (i : Option ν) :
    insV (l.map fun (k, v) => (Change.insert k v : Change κ ν δ)) k i = (kget l k).or i := by
  induction l generalizing i with
  | nil => simp [insV, kget]
  | cons x l ih =>
    obtain ⟨k0, w⟩ := x
    simp only [NoDupK, keys_cons, List.nodup_cons] at hl
    simp only [List.map_cons, kget]
    have step : insV ((Change.insert k0 w : Change κ ν δ) :: l.map fun (k, v) => (Change.insert k v : Change κ ν δ)) k i
        = insV (l.map fun (k, v) => (Change.insert k v : Change κ ν δ)) k (if k0 = k then some w else i) := by
      simp [insV]
    rw [step, ih hl.2]
    by_cases h0 : k0 = k
    · subst h0
      rw [(kget_none_iff l k0).mpr hl.1]; simp
    · simp [h0]

theorem insV_entries (N : Nested ν δ) (keyOnly : Bool) (a b : KV κ ν) (hb : NoDupK b) (k : κ) (i : Option ν) :
    insV (entriesOf N keyOnly a b) k i = (if k ∈ keys a then none else kget b k).or i := by
  simp only [entriesOf, insV_append, insV_noins]
  rw [insV_inserts _ (nodup_filter b _ hb)]
  rw [kget_filter b (fun x => !decide (x ∈ keys a)) k]
  by_cases h : k ∈ keys a <;> simp [h]

/-- **the result of applying the computed change list to ANY base, key by key** -/
theorem apply_entries_kget (N : Nested ν δ) (keyOnly : Bool) (a b f : KV κ ν)
    (ha : NoDupK a) (hb : NoDupK b) (hf : NoDupK f) (k : κ) :
    kget (apply N f (.modify (entriesOf N keyOnly a b))) k =
      match kget a k, kget b k with
      | none, some cv => some cv                                        -- new key: current's value
      | none, none => kget f k
      | some _, none => none                                            -- removed key
      | some pv, some cv => (kget f k).map (patchOf N keyOnly pv cv)    -- retained key: patched in place
    := by
  rw [(apply_modify_kget N f hf _).2 k, insV_entries N keyOnly a b hb]
  have hr := any_isRem_entries N keyOnly a b k
  cases hak : kget a k with
  | none =>
    have hka : k ∉ keys a := (kget_none_iff a k).mp hak
    have hnr : (entriesOf N keyOnly a b).any (isRem k) = false := by
      cases h : (entriesOf N keyOnly a b).any (isRem k) with
      | false => rfl
      | true => exact absurd (hr.mp h).1 hka
    rw [hnr]
    simp only [hka, if_false, Bool.false_eq_true]
    cases hbk : kget b k with
    | some cv => simp
    | none =>
      simp only [Option.none_or]
      cases hfk : kget f k with
      | none => rfl
      | some v =>
        simp only [Option.map_some]
        rw [chgV_entries N keyOnly a b ha k v, hak]
  | some pv =>
    have hka : k ∈ keys a := (kget_isSome_iff a k).mp (by rw [hak]; rfl)
    simp only [hka, if_true, Option.none_or]
    cases hbk : kget b k with
    | none =>
      have : (entriesOf N keyOnly a b).any (isRem k) = true := hr.mpr ⟨hka, hbk⟩
      simp [this]
    | some cv =>
      have hnr : (entriesOf N keyOnly a b).any (isRem k) = false := by
        cases h : (entriesOf N keyOnly a b).any (isRem k) with
        | false => rfl
        | true => have := (hr.mp h).2; rw [hbk] at this; cases this
      rw [hnr]
      simp only [Bool.false_eq_true, if_false]
      cases hfk : kget f k with
      | none => rfl
      | some v =>
        simp only [Option.map_some]
        rw [chgV_entries N keyOnly a b ha k v, hak, hbk]

/-- the change list is empty exactly when the key sets agree and (unless key-only) retained values are `veq` -/
theorem entries_nil_iff (N : Nested ν δ) (keyOnly : Bool) (a b : KV κ ν) (ha : NoDupK a) :
    entriesOf N keyOnly a b = [] ↔
      (∀ k, (kget a k).isSome = (kget b k).isSome) ∧
      (keyOnly = false → ∀ k pv cv, kget a k = some pv → kget b k = some cv → N.veq pv cv = true) := by
  simp only [entriesOf, List.append_eq_nil_iff, List.filterMap_eq_nil_iff, List.map_eq_nil_iff, List.filter_eq_nil_iff]
  constructor
  · rintro ⟨hA, hB⟩
    have hA' : ∀ k pv, kget a k = some pv → ∃ cv, kget b k = some cv ∧ (!keyOnly && !(N.veq pv cv)) = false := by
      intro k pv hk
      have := hA (k, pv) (kget_mem a k pv hk)
      rcases entryOf_cases N keyOnly b k pv with ⟨_, hx⟩ | ⟨cv, _, _, hx⟩ | ⟨cv, hb, hc, _⟩
      · rw [hx] at this; cases this
      · rw [hx] at this; cases this
      · exact ⟨cv, hb, hc⟩
    constructor
    · intro k
      cases hk : kget a k with
      | some pv =>
        obtain ⟨cv, hb, _⟩ := hA' k pv hk
        simp [hb]
      | none =>
        cases hbk : kget b k with
        | none => rfl
        | some cv =>
          have := hB (k, cv) (kget_mem b k cv hbk)
          simp only [Bool.not_eq_true', Bool.not_eq_false, decide_eq_true_eq] at this
          exact absurd this ((kget_none_iff a k).mp hk)
    · intro hko k pv cv hk hbk
      obtain ⟨cv', hb', hc⟩ := hA' k pv hk
      rw [hbk] at hb'; cases hb'
      subst hko
      simpa using hc
  · rintro ⟨h1, h2⟩
    constructor
    · rintro ⟨k, pv⟩ hx
      have hk := kget_of_mem a ha k pv hx
      have hs := h1 k
      rw [hk] at hs
      cases hbk : kget b k with
      | none => rw [hbk] at hs; cases hs
      | some cv =>
        simp only [entryOf, hbk]
        cases keyOnly with
        | true => simp
        | false => simp [h2 rfl k pv cv hk hbk]
    · rintro ⟨k, cv⟩ hx
      have hkb : k ∈ keys b := List.mem_map_of_mem (f := (·.1)) hx
      have : (kget a k).isSome := by rw [h1 k]; exact (kget_isSome_iff b k).mpr hkb
      simp only [Bool.not_eq_true', Bool.not_eq_false, decide_eq_true_eq]
      exact (kget_isSome_iff a k).mp this

end RMap
