import SdModel.Lemmas.Derive
import SdModel.Lemmas.RMap
import SdModel.Props.C07
import SdModel.Props.C11
import SdModel.Props.C12
import SdModel.Props.C19
import SdModel.Props.C20

/-!
The eight field templates and the enum template each satisfy the specification of `Lemmas/Derive.lean`
(using the collection-level theorems C07, C11, C12, C19, C20 and the recursive-map lemmas), and the knot:
by structural recursion over type descriptors, EVERY derivable type satisfies `TySpec`.
-/
namespace Derive

/-- applying the empty diff: what a follower equivalent to `a` looks like against `a` itself -/
theorem TySpec.stay {S : TySem} {R : TyRel} (h : TySpec S R) (a f : Val) (ha : R.wt a) (hf : R.wt f) (he : R.equiv a f)
    (hr : veq a a = true) : R.post f a f := by
  obtain ⟨r, h1, _, h3⟩ := h.follow a a f ha ha hf he
  rw [h.self a ha hr] at h1
  simp only [TySem.apply, Except.ok.injEq] at h1
  subst h1; exact h3

/-- a follower equivalent to `a`, when `a == b` under the derived `PartialEq`: nothing is sent and the follower stays -/
theorem TySpec.veq_stay {S : TySem} {R : TyRel} (h : TySpec S R) (a b f : Val) (ha : R.wt a) (hb : R.wt b) (hf : R.wt f)
    (hv : veq a b = true) (he : R.equiv a f) : R.post f b f := by
  obtain ⟨r, h1, _, h3⟩ := h.follow a b f ha hb hf he
  rw [h.veq_nodiff a b ha hb hv] at h1
  simp only [TySem.apply, Except.ok.injEq] at h1
  subst h1; exact h3

/-! ### plain fields (compared with the field type's own `==`) -/

def plainRel : FieldRel where
  wt _ := True
  same a b := veq a b = true
  equiv a f := a = f ∨ veq a f = true
  post f b r := r = b ∨ (r = f ∧ veq b f = true)

theorem plain_spec : FieldSpec plainField plainRel where
  refl _ _ := .inl rfl
  same_refl _ _ h := h
  none_iff a b _ _ := by
    simp only [plainField, plainRel]
    cases veq a b <;> simp
  follow a b f p _ _ _ _ hd := by
    simp only [plainField] at hd
    split at hd
    · cases hd
    · cases hd; exact ⟨b, rfl, trivial, .inl rfl⟩
  stay a b f _ _ _ he hd := by
    simp only [plainField] at hd
    split at hd
    · rename_i h
      rcases he with rfl | he
      · exact .inr ⟨rfl, veq_symm' h⟩
      · exact .inr ⟨rfl, veq_tri h he⟩
    · cases hd
  post_equiv f b r _ _ _ hp := by
    rcases hp with rfl | ⟨rfl, h⟩
    · exact .inl rfl
    · exact .inr h
  ref_eq _ _ := rfl
  veq_same _ _ _ _ h := h

/-! ### enums (whole-value comparison with the enum's own `==`) -/

def enumRel : TyRel where
  wt _ := True
  equiv a f := a = f ∨ veq a f = true
  post f b r := r = b ∨ (r = f ∧ veq b f = true)

theorem enum_spec : TySpec enumSem enumRel where
  refl _ _ := .inl rfl
  self a _ ha := by simp only [enumSem]; rw [show veq a a = true from ha]; rfl
  follow a b f _ _ _ he := by
    by_cases h : veq a b = true
    · refine ⟨f, by simp [enumSem, TySem.apply, h], trivial, .inr ⟨rfl, ?_⟩⟩
      rcases he with rfl | he
      · exact veq_symm' h
      · exact veq_tri h he
    · exact ⟨b, by simp [enumSem, TySem.apply, h], trivial, .inl rfl⟩
  post_equiv f b r _ _ _ hp := by
    rcases hp with rfl | ⟨rfl, h⟩
    · exact .inl rfl
    · exact .inr h
  ref_eq _ _ := rfl
  veq_nodiff a b _ _ h := by simp [enumSem, h]

/-! ### nested (`recurse`) fields -/

def recurseRel (R : TyRel) : FieldRel where
  wt := R.wt
  same a b := veq a b = true
  equiv := R.equiv
  post := R.post

theorem recurse_spec (S : TySem) (R : TyRel) (hS : TySpec S R) : FieldSpec (recurseField S) (recurseRel R) where
  refl := hS.refl
  same_refl _ _ h := h
  none_iff a b _ _ := by
    simp only [recurseField, recurseRel]
    cases veq a b <;> simp
  follow a b f p ha hb hf he hd := by
    simp only [recurseField] at hd
    split at hd
    · cases hd
    · cases hd
      exact hS.follow a b f ha hb hf he
  stay a b f ha hb hf he hd := by
    simp only [recurseField] at hd
    split at hd
    · rename_i h
      exact hS.veq_stay a b f ha hb hf h he
    · cases hd
  post_equiv := hS.post_equiv
  ref_eq a b := by simp only [recurseField, hS.ref_eq]
  veq_same _ _ _ _ h := h

/-! ### `recurse` on an `Option` -/

def roptRel (R : TyRel) : FieldRel where
  wt v := v = .onone ∨ ∃ x, v = .osome x ∧ R.wt x
  same a b := veq a b = true
  equiv a f := (a = .onone ∧ f = .onone) ∨ ∃ x y, a = .osome x ∧ f = .osome y ∧ R.equiv x y
  post f b r := (b = .onone ∧ r = .onone) ∨
    ∃ y, b = .osome y ∧ ((f = .onone ∧ r = .osome y) ∨ ∃ x z, f = .osome x ∧ r = .osome z ∧ R.post x y z)

theorem ropt_spec (S : TySem) (R : TyRel) (hS : TySpec S R) : FieldSpec (recurseOptField S) (roptRel R) where
  refl a ha := by
    rcases ha with rfl | ⟨x, rfl, hx⟩
    · exact .inl ⟨rfl, rfl⟩
    · exact .inr ⟨x, x, rfl, rfl, hS.refl x hx⟩
  same_refl _ _ h := h
  none_iff a b ha hb := by
    rcases ha with rfl | ⟨x, rfl, _⟩ <;> rcases hb with rfl | ⟨y, rfl, _⟩ <;> simp only [recurseOptField, roptRel, veq]
    all_goals first
      | simp; done
      | (cases veq x y <;> simp)
  follow a b f p ha hb hf he hd := by
    rcases he with ⟨rfl, rfl⟩ | ⟨x, x', rfl, rfl, hxx⟩
    · rcases hb with rfl | ⟨y, rfl, hy⟩
      · simp [recurseOptField] at hd
      · simp only [recurseOptField, Option.some.injEq] at hd
        subst hd
        exact ⟨.osome y, rfl, .inr ⟨y, rfl, hy⟩, .inr ⟨y, rfl, .inl ⟨rfl, rfl⟩⟩⟩
    · have hx : R.wt x := by rcases ha with h | ⟨_, h, hw⟩; cases h; cases h; exact hw
      have hx' : R.wt x' := by rcases hf with h | ⟨_, h, hw⟩; cases h; cases h; exact hw
      rcases hb with rfl | ⟨y, rfl, hy⟩
      · simp only [recurseOptField, Option.some.injEq] at hd
        subst hd
        exact ⟨.onone, rfl, .inl rfl, .inl ⟨rfl, rfl⟩⟩
      · simp only [recurseOptField] at hd
        split at hd
        · cases hd
        · cases hd
          obtain ⟨z, hz1, hz2, hz3⟩ := hS.follow x y x' hx hy hx' hxx
          refine ⟨.osome z, ?_, .inr ⟨z, rfl, hz2⟩, .inr ⟨y, rfl, .inr ⟨x', z, rfl, rfl, hz3⟩⟩⟩
          simp only [recurseOptField, applyMut_eq_apply, hz1]
  stay a b f ha hb hf he hd := by
    rcases he with ⟨rfl, rfl⟩ | ⟨x, x', rfl, rfl, hxx⟩
    · rcases hb with rfl | ⟨y, rfl, _⟩
      · exact .inl ⟨rfl, rfl⟩
      · simp [recurseOptField] at hd
    · have hx : R.wt x := by rcases ha with h | ⟨_, h, hw⟩; cases h; cases h; exact hw
      have hx' : R.wt x' := by rcases hf with h | ⟨_, h, hw⟩; cases h; cases h; exact hw
      rcases hb with rfl | ⟨y, rfl, hy⟩
      · simp [recurseOptField] at hd
      · simp only [recurseOptField] at hd
        split at hd
        · rename_i h
          exact .inr ⟨y, rfl, .inr ⟨x', x', rfl, rfl, hS.veq_stay x y x' hx hy hx' h hxx⟩⟩
        · cases hd
  post_equiv f b r hf hb hr hp := by
    rcases hp with ⟨rfl, rfl⟩ | ⟨y, rfl, h⟩
    · exact .inl ⟨rfl, rfl⟩
    · have hy : R.wt y := by rcases hb with h | ⟨_, h, hw⟩; cases h; cases h; exact hw
      rcases h with ⟨rfl, rfl⟩ | ⟨x, z, rfl, rfl, hpz⟩
      · exact .inr ⟨y, y, rfl, rfl, hS.refl y hy⟩
      · have hx : R.wt x := by rcases hf with h | ⟨_, h, hw⟩; cases h; cases h; exact hw
        have hz : R.wt z := by rcases hr with h | ⟨_, h, hw⟩; cases h; cases h; exact hw
        exact .inr ⟨y, z, rfl, rfl, hS.post_equiv x y z hx hy hz hpz⟩
  ref_eq a b := by
    cases a <;> cases b <;> simp only [recurseOptField, hS.ref_eq]
  veq_same _ _ _ _ h := h

/-! ### ordered collections -/

def orderedRel : FieldRel where
  wt v := ∃ l, v = .list l
  same a b := a = b
  equiv a f := a = f
  post _ b r := r = b

theorem eqNat_eq : eqNat = fun a b => decide (a = b) := by
  funext a b
  simp only [eqNat]
  by_cases h : a = b
  · subst h; simp
  · simp [h]

theorem costs_eq : costs = C07.costs := rfl

theorem ordered_spec : FieldSpec orderedField orderedRel where
  refl _ _ := rfl
  same_refl _ _ _ := rfl
  none_iff a b ha hb := by
    obtain ⟨al, rfl⟩ := ha
    obtain ⟨bl, rfl⟩ := hb
    simp only [orderedField, asList, Option.map_eq_none_iff, orderedRel, eqNat_eq, costs_eq]
    rw [C07.absent_iff_eq]
    constructor
    · rintro rfl; rfl
    · intro h; cases h; rfl
  follow a b f p ha hb hf he hd := by
    obtain ⟨al, rfl⟩ := ha
    obtain ⟨bl, rfl⟩ := hb
    simp only [orderedRel] at he
    subst he
    simp only [orderedField, asList, eqNat_eq, costs_eq] at hd
    cases hh : Lev.hirschberg (fun a b => decide (a = b)) C07.costs Gen.levCutoff bl al with
    | none => rw [hh] at hd; cases hd
    | some d =>
      rw [hh] at hd
      simp only [Option.map_some, Option.some.injEq] at hd
      subst hd
      obtain ⟨r, hr1, hr2⟩ := C07.roundtrip_on_rope _ bl al d (.inl hh)
      have := C07.PW_eq_of_lawful r bl hr2
      subst this
      exact ⟨.list r, by simp only [orderedField, asList, hr1], ⟨r, rfl⟩, rfl⟩
  stay a b f ha hb _ he hd := by
    obtain ⟨al, rfl⟩ := ha
    obtain ⟨bl, rfl⟩ := hb
    simp only [orderedRel] at he ⊢
    subst he
    simp only [orderedField, asList, Option.map_eq_none_iff, eqNat_eq, costs_eq] at hd
    rw [C07.absent_iff_eq] at hd
    rw [hd]
  post_equiv _ _ _ _ _ _ h := by simp only [orderedRel] at h ⊢; exact h.symm
  ref_eq _ _ := rfl
  veq_same a b ha hb h := by
    obtain ⟨al, rfl⟩ := ha
    obtain ⟨bl, rfl⟩ := hb
    simp only [veq, beq_iff_eq] at h
    simp [orderedRel, h]

/-! ### unordered collections (multisets) -/

def unordRel : FieldRel where
  wt v := ∃ l, v = .list l
  same a b := ∀ x, (asList a).count x = (asList b).count x
  equiv a f := ∀ x, (asList a).count x = (asList f).count x
  post _ b r := ∃ l, r = .list l ∧ ∀ x, l.count x = (asList b).count x

/-- the result of applying a diff depends on the base only through its counts -/
theorem uarr_apply_congr (base base' : List Nat) (d : UArr.Diff Nat) (h : ∀ x, base.count x = base'.count x) (x : Nat) :
    (UArr.apply base d).count x = (UArr.apply base' d).count x := by
  cases d with
  | replace r => rfl
  | modify es => exact C19.arr_order_free base base' es es h (List.Perm.refl _) x

theorem unord_spec : FieldSpec unordField unordRel where
  refl _ _ _ := rfl
  same_refl _ _ _ _ := rfl
  none_iff a b _ _ := by
    simp only [unordField, Option.map_eq_none_iff, unordRel]
    exact C11.absent_iff (asList a) (asList b)
  follow a b f p _ _ _ he hd := by
    simp only [unordField] at hd
    cases hh : UArr.hashcmp Gen.fewMax (asList a) (asList b) with
    | none => rw [hh] at hd; cases hd
    | some d =>
      rw [hh] at hd
      simp only [Option.map_some, Option.some.injEq] at hd
      subst hd
      refine ⟨.list (UArr.apply (asList f) d), rfl, ⟨_, rfl⟩, _, rfl, fun x => ?_⟩
      rw [← uarr_apply_congr (asList a) (asList f) d he x]
      exact C11.roundtrip (asList a) (asList b) d hh x
  stay a b f _ _ hf he hd := by
    simp only [unordField, Option.map_eq_none_iff] at hd
    have hab := (C11.absent_iff (asList a) (asList b)).mp hd
    obtain ⟨fl, rfl⟩ := hf
    exact ⟨fl, rfl, fun x => by rw [← hab x]; exact (he x).symm⟩
  post_equiv f b r _ _ _ hp := by
    obtain ⟨l, rfl, hl⟩ := hp
    intro x; exact (hl x).symm
  ref_eq _ _ := rfl
  veq_same a b ha hb h := by
    obtain ⟨al, rfl⟩ := ha
    obtain ⟨bl, rfl⟩ := hb
    simp only [veq, beq_iff_eq] at h
    subst h; intro x; rfl

/-! ### flat maps (both `map_equality` modes: with unique keys the two collectors coincide) -/

def mapRel : FieldRel where
  wt v := ∃ l, v = .pairs l ∧ UMap.UniqueKeys l
  same a b := ∀ k, UMap.plookup (asPairs a) k = UMap.plookup (asPairs b) k
  equiv a f := ∀ k, UMap.plookup (asPairs a) k = UMap.plookup (asPairs f) k
  post _ b r := ∃ l, r = .pairs l ∧ UMap.UniqueKeys l ∧ ∀ k, UMap.plookup l k = UMap.plookup (asPairs b) k

theorem dedupKeysAux_unique (seen : List Nat) (l : List (Nat × Nat)) (hu : UMap.UniqueKeys l)
    (hs : ∀ kv ∈ l, kv.1 ∉ seen) : dedupKeysAux seen l = l := by
  induction l generalizing seen with
  | nil => rfl
  | cons kv t ih =>
    obtain ⟨k, v⟩ := kv
    simp only [UMap.UniqueKeys, List.map_cons, List.nodup_cons] at hu
    have hk : seen.contains k = false := by
      have := hs (k, v) List.mem_cons_self
      simpa using this
    simp only [dedupKeysAux, hk, Bool.false_eq_true, if_false]
    rw [ih (k :: seen) hu.2]
    intro kv' hkv'
    simp only [List.mem_cons, not_or]
    refine ⟨?_, hs kv' (List.mem_cons_of_mem _ hkv')⟩
    intro e
    exact hu.1 (e ▸ List.mem_map_of_mem (f := (·.1)) hkv')

theorem dedupKeys_unique (l : List (Nat × Nat)) (hu : UMap.UniqueKeys l) : dedupKeys l = l :=
  dedupKeysAux_unique [] l hu (by simp)

theorem map_spec (ko : Bool) : FieldSpec (mapField ko) mapRel where
  refl _ _ _ := rfl
  same_refl _ _ _ _ := rfl
  none_iff a b ha hb := by
    obtain ⟨al, rfl, hal⟩ := ha
    obtain ⟨bl, rfl, hbl⟩ := hb
    simp only [mapField, Option.map_eq_none_iff, mapRel, asPairs]
    exact C12.absent_iff al bl hal hbl ko
  follow a b f p ha hb hf he hd := by
    obtain ⟨al, rfl, hal⟩ := ha
    obtain ⟨bl, rfl, hbl⟩ := hb
    obtain ⟨fl, rfl, hfl⟩ := hf
    simp only [mapField, asPairs] at hd
    cases hh : UMap.hashcmp al bl ko with
    | none => rw [hh] at hd; cases hd
    | some d =>
      rw [hh] at hd
      simp only [Option.map_some, Option.some.injEq] at hd
      subst hd
      obtain ⟨u, v⟩ := C12.roundtrip_follower al bl fl hal hbl hfl (fun k => (he k).symm) ko d hh
      exact ⟨.pairs (UMap.apply fl d), by simp only [mapField, asPairs, dedupKeys_unique _ u], ⟨_, rfl, u⟩, _, rfl, u, v⟩
  stay a b f ha hb hf he hd := by
    obtain ⟨al, rfl, hal⟩ := ha
    obtain ⟨bl, rfl, hbl⟩ := hb
    obtain ⟨fl, rfl, hfl⟩ := hf
    simp only [mapField, Option.map_eq_none_iff, asPairs] at hd
    have hab := (C12.absent_iff al bl hal hbl ko).mp hd
    exact ⟨fl, rfl, hfl, fun k => ((he k).symm.trans (hab k) : UMap.plookup fl k = UMap.plookup bl k)⟩
  post_equiv f b r _ _ _ hp := by
    obtain ⟨l, rfl, _, hl⟩ := hp
    intro k; exact (hl k).symm
  ref_eq _ _ := rfl
  veq_same a b ha hb h := by
    obtain ⟨al, rfl, _⟩ := ha
    obtain ⟨bl, rfl, _⟩ := hb
    simp only [veq, beq_iff_eq] at h
    subst h; intro k; rfl

/-! ### recursive maps (values derive `Difference` themselves) -/

open RMap in
theorem toList_ofList (l : List (Nat × Val)) : (RMapV.ofList l).toList = l := by
  induction l with
  | nil => rfl
  | cons x l ih => obtain ⟨k, v⟩ := x; simp [RMapV.ofList, RMapV.toList, ih]

section RecMap
open RMap

def rmWt (R : TyRel) (v : Val) : Prop :=
  ∃ m, v = .rmap m ∧ NoDupK m.toList ∧ ∀ k w, kget m.toList k = some w → R.wt w

def recMapRel (ko : Bool) (R : TyRel) : FieldRel where
  wt := rmWt R
  same a b := (∀ k, (kget (asRMap a) k).isSome = (kget (asRMap b) k).isSome) ∧
    (ko = false → ∀ k pv cv, kget (asRMap a) k = some pv → kget (asRMap b) k = some cv → veq pv cv = true)
  equiv a f := (∀ k, (kget (asRMap a) k).isSome = (kget (asRMap f) k).isSome) ∧
    (ko = false → ∀ k av fv, kget (asRMap a) k = some av → kget (asRMap f) k = some fv → R.equiv av fv)
  post f b r := (∀ k, (kget (asRMap r) k).isSome = (kget (asRMap b) k).isSome) ∧
    ∀ k cv rv, kget (asRMap b) k = some cv → kget (asRMap r) k = some rv →
      rv = cv ∨ ∃ fv, kget (asRMap f) k = some fv ∧ (if ko then rv = fv else R.post fv cv rv)

theorem length_eq_of_keys (a b : KV Nat Val) (ha : NoDupK a) (hb : NoDupK b)
    (h : ∀ k, (kget a k).isSome = (kget b k).isSome) : a.length = b.length := by
  have hp : (keys a).Perm (keys b) := by
    rw [List.perm_ext_iff_of_nodup ha hb]
    intro k
    rw [← kget_isSome_iff, ← kget_isSome_iff, h k]
  have := hp.length_eq
  simpa [keys] using this

theorem nested_veq (S : TySem) (a b : Val) : (nestedOf S).veq a b = veq a b := rfl

/-- the in-place patch of a retained key's value, in key-and-value mode -/
theorem patch_ok (S : TySem) (R : TyRel) (hS : TySpec S R) (pv cv fv : Val) (hp : R.wt pv) (hc : R.wt cv) (hf : R.wt fv)
    (he : R.equiv pv fv) :
    (∃ z, S.applyMut fv (S.diffRef pv cv) = .ok z) ∧
    R.wt (patchOf (nestedOf S) false pv cv fv) ∧ R.post fv cv (patchOf (nestedOf S) false pv cv fv) := by
  obtain ⟨z, hz1, hz2, hz3⟩ := hS.follow pv cv fv hp hc hf he
  have hz : S.applyMut fv (S.diffRef pv cv) = .ok z := by rw [applyMut_eq_apply, hS.ref_eq]; exact hz1
  refine ⟨⟨z, hz⟩, ?_⟩
  by_cases h : veq pv cv = true
  · have : patchOf (nestedOf S) false pv cv fv = fv := by simp [patchOf, nestedOf, h]
    rw [this]
    exact ⟨hf, hS.veq_stay pv cv fv hp hc hf h he⟩
  · have : patchOf (nestedOf S) false pv cv fv = z := by
      simp only [patchOf, nestedOf, Bool.not_false, Bool.true_and, hz]
      simp [h]
    rw [this]
    exact ⟨hz2, hz3⟩

theorem patch_keyOnly (S : TySem) (pv cv fv : Val) : patchOf (nestedOf S) true pv cv fv = fv := by simp [patchOf]

theorem rmapPanics_false (S : TySem) (fl : KV Nat Val) (hfl : NoDupK fl) (es : List (RMap.Change Nat Val Entries))
    (h : ∀ k d fv, RMap.Change.change k d ∈ es → kget fl k = some fv → ∃ z, S.applyMut fv d = .ok z) :
    rmapPanics S fl (.modify es) = false := by
  simp only [rmapPanics]
  rw [List.any_eq_false]
  intro e he
  cases e with
  | insert k v => simp
  | remove k => simp
  | change k d =>
    simp only []
    rw [collect_unique fl hfl]
    have := (fold_rem es fl hfl).2 k
    cases hk : kget (es.foldl remStep fl) k with
    | none => simp
    | some v =>
      rw [hk] at this
      split at this
      · cases this
      · obtain ⟨z, hz⟩ := h k d v he this.symm
        simp [hz]

theorem veqm_refl : ∀ (m : RMapV), (∀ kv ∈ m.toList, veq kv.2 kv.2 = true) → veqm m m = true
  | .nil, _ => rfl
  | .cons k v rest, h => by
    simp only [veqm, Bool.and_eq_true, beq_self_eq_true, true_and]
    exact ⟨h (k, v) (by simp [RMapV.toList]), veqm_refl rest (fun kv hkv => h kv (by simp [RMapV.toList, hkv]))⟩

/-- `==` maps agree key by key -/
theorem veqm_kget : ∀ (a b : RMapV), veqm a b = true → ∀ k,
    match kget a.toList k, kget b.toList k with
    | some x, some y => veq x y = true
    | none, none => True
    | _, _ => False
  | .nil, .nil, _, k => by simp [RMapV.toList, kget]
  | .nil, .cons _ _ _, h, _ => by simp [veqm] at h
  | .cons _ _ _, .nil, h, _ => by simp [veqm] at h
  | .cons ka va ra, .cons kb vb rb, h, k => by
    simp only [veqm, Bool.and_eq_true, beq_iff_eq] at h
    obtain ⟨⟨rfl, hv⟩, hr⟩ := h
    simp only [RMapV.toList, kget]
    by_cases hk : ka = k
    · simp [hk, hv]
    · simp only [hk, if_false]
      exact veqm_kget ra rb hr k

theorem recmap_veq_same (ko : Bool) (R : TyRel) (a b : Val) (ha : (recMapRel ko R).wt a) (hb : (recMapRel ko R).wt b)
    (h : veq a b = true) : (recMapRel ko R).same a b := by
  obtain ⟨am, rfl, _, _⟩ := ha
  obtain ⟨bm, rfl, _, _⟩ := hb
  simp only [veq] at h
  have hk := veqm_kget am bm h
  simp only [recMapRel, asRMap]
  refine ⟨fun k => ?_, fun _ k pv cv h1 h2 => ?_⟩
  · have := hk k
    cases h1 : kget am.toList k <;> cases h2 : kget bm.toList k <;> simp_all
  · have := hk k
    rw [h1, h2] at this
    exact this

theorem recmap_spec (ko : Bool) (S : TySem) (R : TyRel) (hS : TySpec S R) :
    FieldSpec (recMapField ko S) (recMapRel ko R) where
  refl a ha := by
    obtain ⟨m, rfl, _, hv⟩ := ha
    refine ⟨fun _ => rfl, fun _ k av fv h1 h2 => ?_⟩
    rw [h1] at h2; cases h2
    exact hS.refl av (hv k av h1)
  same_refl a ha h := recmap_veq_same ko R a a ha ha h
  none_iff a b ha hb := by
    obtain ⟨am, rfl, han, _⟩ := ha
    obtain ⟨bm, rfl, hbn, _⟩ := hb
    simp only [recMapField, asRMap, Option.map_eq_none_iff, recMapRel]
    rw [hashcmp_eq _ _ _ han hbn]
    constructor
    · intro h
      split at h
      · cases h
      · split at h
        · rename_i hemp
          have hnil : entriesOf (nestedOf S) ko am.toList bm.toList = [] := by simpa using hemp
          obtain ⟨h1, h2⟩ := (entries_nil_iff _ ko _ _ han).mp hnil
          exact ⟨h1, fun hko k pv cv ha hb => h2 hko k pv cv ha hb⟩
        · cases h
    · rintro ⟨h1, h2⟩
      have hlen := length_eq_of_keys _ _ han hbn h1
      rw [if_neg (by omega)]
      have hnil : entriesOf (nestedOf S) ko am.toList bm.toList = [] :=
        (entries_nil_iff _ ko _ _ han).mpr ⟨h1, fun hko k pv cv ha hb => h2 hko k pv cv ha hb⟩
      simp [hnil]
  follow a b f p ha hb hf he hd := by
    obtain ⟨am, rfl, han, hav⟩ := ha
    obtain ⟨bm, rfl, hbn, hbv⟩ := hb
    obtain ⟨fm, rfl, hfn, hfv⟩ := hf
    obtain ⟨hek, hev⟩ := he
    simp only [asRMap] at hek hev
    simp only [recMapField, asRMap] at hd
    rw [hashcmp_eq _ _ _ han hbn] at hd
    split at hd
    · -- full replacement
      simp only [Option.map_some, Option.some.injEq] at hd
      subst hd
      refine ⟨.rmap (RMapV.ofList bm.toList), by simp [recMapField, rmapPanics, RMap.apply], ?_, ?_⟩
      · exact ⟨_, rfl, by rw [toList_ofList]; exact hbn, by rw [toList_ofList]; exact hbv⟩
      · simp only [recMapRel, asRMap, toList_ofList]
        exact ⟨fun _ => by first | rfl | trivial, fun k cv rv h1 h2 => .inl (by rw [h1] at h2; cases h2; rfl)⟩
    · split at hd
      · cases hd
      · simp only [Option.map_some, Option.some.injEq] at hd
        subst hd
        -- what every retained key's patch looks like
        have hpatch : ∀ k pv cv fv, kget am.toList k = some pv → kget bm.toList k = some cv → kget fm.toList k = some fv →
            (ko = false → (∃ z, S.applyMut fv (S.diffRef pv cv) = .ok z) ∧
              R.wt (patchOf (nestedOf S) false pv cv fv) ∧ R.post fv cv (patchOf (nestedOf S) false pv cv fv)) := by
          intro k pv cv fv h1 h2 h3 hko
          exact patch_ok S R hS pv cv fv (hav k pv h1) (hbv k cv h2) (hfv k fv h3) (hev hko k pv fv h1 h3)
        have hnp : rmapPanics S fm.toList (.modify (entriesOf (nestedOf S) ko am.toList bm.toList)) = false := by
          apply rmapPanics_false S _ hfn
          intro k d fv hmem hfk
          simp only [entriesOf, List.mem_append, List.mem_filterMap, List.mem_map] at hmem
          rcases hmem with ⟨⟨k0, pv⟩, hx, hxe⟩ | ⟨x, _, hxe⟩
          · rcases entryOf_cases (nestedOf S) ko bm.toList k0 pv with ⟨_, hx2⟩ | ⟨cv, hb2, hc2, hx2⟩ | ⟨cv, _, _, hx2⟩
            · rw [hx2] at hxe; cases hxe
            · rw [hx2] at hxe
              simp only [Option.some.injEq, RMap.Change.change.injEq] at hxe
              obtain ⟨rfl, rfl⟩ := hxe
              have hko : ko = false := by cases ko <;> simp_all
              exact (hpatch k0 pv cv fv (kget_of_mem _ han k0 pv hx) hb2 hfk hko).1
            · rw [hx2] at hxe; cases hxe
          · cases hxe
        have hkey := fun k => apply_entries_kget (nestedOf S) ko am.toList bm.toList fm.toList han hbn hfn k
        have hnd := (apply_modify_kget (nestedOf S) fm.toList hfn (entriesOf (nestedOf S) ko am.toList bm.toList)).1
        refine ⟨.rmap (RMapV.ofList (RMap.apply (nestedOf S) fm.toList (.modify (entriesOf (nestedOf S) ko am.toList bm.toList)))),
          by simp only [recMapField, asRMap, hnp]; rfl, ?_, ?_⟩
        · refine ⟨_, rfl, by rw [toList_ofList]; exact hnd, ?_⟩
          rw [toList_ofList]
          intro k w hw
          rw [hkey k] at hw
          cases hak : kget am.toList k with
          | none =>
            rw [hak] at hw
            cases hbk : kget bm.toList k with
            | some cv => rw [hbk] at hw; simp only [Option.some.injEq] at hw; subst hw; exact hbv k cv hbk
            | none => rw [hbk] at hw; simp only [] at hw; exact hfv k w hw
          | some pv =>
            rw [hak] at hw
            cases hbk : kget bm.toList k with
            | none => rw [hbk] at hw; cases hw
            | some cv =>
              rw [hbk] at hw
              simp only [] at hw
              cases hfk : kget fm.toList k with
              | none => rw [hfk] at hw; cases hw
              | some fv =>
                rw [hfk] at hw
                simp only [Option.map_some, Option.some.injEq] at hw
                subst hw
                cases ko with
                | true => rw [patch_keyOnly]; exact hfv k fv hfk
                | false => exact (hpatch k pv cv fv hak hbk hfk rfl).2.1
        · simp only [recMapRel, asRMap, toList_ofList]
          constructor
          · intro k
            rw [hkey k]
            have hk := hek k
            cases hak : kget am.toList k with
            | none =>
              rw [hak] at hk
              cases hbk : kget bm.toList k with
              | some cv => rfl
              | none =>
                simp only []
                cases hfk : kget fm.toList k with
                | none => rfl
                | some _ => rw [hfk] at hk; cases hk
            | some pv =>
              rw [hak] at hk
              cases hbk : kget bm.toList k with
              | none => rfl
              | some cv =>
                simp only []
                cases hfk : kget fm.toList k with
                | none => rw [hfk] at hk; cases hk
                | some _ => rfl
          · intro k cv rv hbk hrk
            rw [hkey k, hbk] at hrk
            cases hak : kget am.toList k with
            | none => rw [hak] at hrk; simp only [Option.some.injEq] at hrk; exact .inl hrk.symm
            | some pv =>
              rw [hak] at hrk
              simp only [] at hrk
              cases hfk : kget fm.toList k with
              | none => rw [hfk] at hrk; cases hrk
              | some fv =>
                rw [hfk] at hrk
                simp only [Option.map_some, Option.some.injEq] at hrk
                subst hrk
                refine .inr ⟨fv, rfl, ?_⟩
                cases ko with
                | true => simp [patch_keyOnly]
                | false => simpa using (hpatch k pv cv fv hak hbk hfk rfl).2.2
  stay a b f ha hb hf he hd := by
    obtain ⟨am, rfl, han, hav⟩ := ha
    obtain ⟨bm, rfl, hbn, hbv⟩ := hb
    obtain ⟨fm, rfl, hfn, hfv⟩ := hf
    obtain ⟨hek, hev⟩ := he
    simp only [asRMap] at hek hev
    -- `diff = none` means `same`
    have hsame : (∀ k, (kget am.toList k).isSome = (kget bm.toList k).isSome) ∧
        (ko = false → ∀ k pv cv, kget am.toList k = some pv → kget bm.toList k = some cv → veq pv cv = true) := by
      simp only [recMapField, asRMap, Option.map_eq_none_iff] at hd
      rw [hashcmp_eq _ _ _ han hbn] at hd
      split at hd
      · cases hd
      · split at hd
        · rename_i hemp
          have hnil : entriesOf (nestedOf S) ko am.toList bm.toList = [] := by simpa using hemp
          obtain ⟨h1, h2⟩ := (entries_nil_iff _ ko _ _ han).mp hnil
          exact ⟨h1, fun hko k pv cv ha hb => h2 hko k pv cv ha hb⟩
        · cases hd
    simp only [recMapRel, asRMap]
    refine ⟨fun k => by rw [← hek k, hsame.1 k], fun k cv rv hbk hfk => .inr ⟨rv, hfk, ?_⟩⟩
    cases ko with
    | true => simp
    | false =>
      simp only [Bool.false_eq_true, if_false]
      have hs := hsame.1 k
      rw [hbk] at hs
      cases hak : kget am.toList k with
      | none => rw [hak] at hs; cases hs
      | some pv =>
        have hvq : veq pv cv = true := hsame.2 rfl k pv cv hak hbk
        exact hS.veq_stay pv cv rv (hav k pv hak) (hbv k cv hbk) (hfv k rv hfk) hvq (hev rfl k pv rv hak hfk)
  post_equiv f b r hf hb hr hp := by
    obtain ⟨bm, rfl, _, hbv⟩ := hb
    obtain ⟨fm, rfl, _, hfv⟩ := hf
    obtain ⟨rm, rfl, _, hrv⟩ := hr
    obtain ⟨hk, hv⟩ := hp
    simp only [asRMap] at hk hv
    refine ⟨fun k => (hk k).symm, fun hko k cv rv hbk hrk => ?_⟩
    simp only [asRMap] at hbk hrk
    rcases hv k cv rv hbk hrk with rfl | ⟨fv, hfk, h⟩
    · exact hS.refl rv (hrv k rv hrk)
    · subst hko
      simp only [Bool.false_eq_true, if_false] at h
      exact hS.post_equiv fv cv rv (hfv k fv hfk) (hbv k cv hbk) (hrv k rv hrk) h
  ref_eq _ _ := rfl
  veq_same := recmap_veq_same ko R

end RecMap

end Derive
