import SdModel.Model.Derive
import SdModel.Lemmas.Veq

/-!
Framework for the derive-level theorems (C01–C06, C13, C15).

* `FieldRel` : typing and the three relations of one field template (strategy equality `same`, follower
  relation `equiv`, and `post f b r` = "r is what applying diff(a, b) to the base f must look like").
* `FieldSpec F R` : what a template has to satisfy.  `TySpec S R` : the same at the level of a derived type.
* assembly: a struct whose fields satisfy `FieldSpec` satisfies `TySpec` (only recursion: over the field list).
The templates themselves and the knot (induction over type descriptors) are in `Lemmas/DeriveKinds.lean`.
-/
namespace Derive

structure FieldRel where
  wt : Val → Prop
  same : Val → Val → Prop
  equiv : Val → Val → Prop           -- `equiv leader follower`
  post : Val → Val → Val → Prop      -- `post base target result`

structure FieldSpec (F : FieldSem) (R : FieldRel) : Prop where
  refl : ∀ a, R.wt a → R.equiv a a
  /-- `a.diff(&a)` is empty when `==` is reflexive on `a` (no `NaN` inside) -/
  same_refl : ∀ a, R.wt a → veq a a = true → R.same a a
  none_iff : ∀ a b, R.wt a → R.wt b → (F.diff a b = none ↔ R.same a b)
  follow : ∀ a b f p, R.wt a → R.wt b → R.wt f → R.equiv a f → F.diff a b = some p →
    ∃ r, F.apply f p = .ok r ∧ R.wt r ∧ R.post f b r
  stay : ∀ a b f, R.wt a → R.wt b → R.wt f → R.equiv a f → F.diff a b = none → R.post f b f
  post_equiv : ∀ f b r, R.wt f → R.wt b → R.wt r → R.post f b r → R.equiv b r
  ref_eq : ∀ a b, F.diffRef a b = F.diff a b
  /-- values that are `==` are equal in the sense of the strategy -/
  veq_same : ∀ a b, R.wt a → R.wt b → veq a b = true → R.same a b

structure TyRel where
  wt : Val → Prop
  equiv : Val → Val → Prop
  post : Val → Val → Val → Prop

structure TySpec (S : TySem) (R : TyRel) : Prop where
  refl : ∀ a, R.wt a → R.equiv a a
  self : ∀ a, R.wt a → veq a a = true → S.diff a a = []
  follow : ∀ a b f, R.wt a → R.wt b → R.wt f → R.equiv a f →
    ∃ r, S.apply f (S.diff a b) = .ok r ∧ R.wt r ∧ R.post f b r
  post_equiv : ∀ f b r, R.wt f → R.wt b → R.wt r → R.post f b r → R.equiv b r
  ref_eq : ∀ a b, S.diffRef a b = S.diff a b
  /-- values that are `==` (under the derived `PartialEq`, which also looks at skipped fields) have an empty diff -/
  veq_nodiff : ∀ a b, R.wt a → R.wt b → veq a b = true → S.diff a b = []

/-! ### the three default methods are the same fold (C06) -/

theorem applyMut_eq_apply (S : TySem) (x : Val) (es : Entries) : S.applyMut x es = S.apply x es := by
  induction es generalizing x with
  | nil => rfl
  | cons e es ih =>
    simp only [TySem.applyMut, TySem.apply]
    cases S.applySingle x e with
    | ok x' => exact ih x'
    | error m => rfl

theorem applyRef_eq_apply (S : TySem) (x : Val) (es : Entries) : S.applyRef x es = S.apply x es := rfl

/-! ### struct level -/

abbrev FS := List (Bool × FieldSem × FieldRel)

def fieldsOf (fs : FS) : Fields := fs.map fun x => (x.1, x.2.1)

def SWT : FS → Vals → Prop
  | [], .nil => True
  | (_, _, R) :: fs, .cons v vs => R.wt v ∧ SWT fs vs
  | _, _ => False

def SEquiv : FS → Vals → Vals → Prop
  | [], .nil, .nil => True
  | (skip, _, R) :: fs, .cons a as, .cons f fr => (skip = true ∨ R.equiv a f) ∧ SEquiv fs as fr
  | _, _, _ => False

def SPost : FS → Vals → Vals → Vals → Prop
  | [], .nil, .nil, .nil => True
  | (skip, _, R) :: fs, .cons f fr, .cons b bs, .cons r rs => (if skip = true then r = f else R.post f b r) ∧ SPost fs fr bs rs
  | _, _, _, _ => False

def structRel (fs : FS) : TyRel where
  wt v := ∃ vs, v = .strct vs ∧ SWT fs vs
  equiv a f := ∃ x y, a = .strct x ∧ f = .strct y ∧ SEquiv fs x y
  post f b r := ∃ x y z, f = .strct x ∧ b = .strct y ∧ r = .strct z ∧ SPost fs x y z

/-- entries whose field index is ≥ lo -/
def AllGe (lo : Nat) : Entries → Prop
  | [] => True
  | (j, _) :: rest => lo ≤ j ∧ AllGe lo rest

theorem AllGe.mono {lo lo' : Nat} (h : lo' ≤ lo) : ∀ es, AllGe lo es → AllGe lo' es
  | [], _ => trivial
  | (_, _) :: rest, ⟨h1, h2⟩ => ⟨Nat.le_trans h h1, AllGe.mono h rest h2⟩

theorem sdiffG_allGe (sel : FieldSem → Val → Val → Option Payload) (fs : Fields) (i : Nat) (a b : Vals) :
    AllGe i (sdiffG sel fs i a b) := by
  fun_induction sdiffG sel fs i a b
  all_goals first
    | trivial
    | exact AllGe.mono (Nat.le_succ _) _ ‹_›
    | exact ⟨Nat.le_refl _, AllGe.mono (Nat.le_succ _) _ ‹_›⟩

/-- apply a list of entries at struct level (the fold `structSem.apply` performs, on `Vals`) -/
def sapplyG (fs : Fields) (i : Nat) : Vals → Entries → Except String Vals
  | vs, [] => .ok vs
  | vs, e :: rest => match sapplyOne fs i e vs with
    | .ok vs' => sapplyG fs i vs' rest
    | .error m => .error m

theorem structSem_apply (fs : Fields) (vs : Vals) (es : Entries) :
    (structSem fs).apply (.strct vs) es = (sapplyG fs 0 vs es).map .strct := by
  induction es generalizing vs with
  | nil => rfl
  | cons e es ih =>
    simp only [TySem.apply, structSem, sapplyG]
    cases h : sapplyOne fs 0 e vs with
    | ok vs' => simp only [h]; exact ih vs'
    | error m => simp only [h]; rfl

/-- frame: entries for later fields do not touch (nor are disturbed by) the head field -/
theorem sapplyG_cons_of_allGe (sk : Bool) (F : FieldSem) (fs : Fields) (i : Nat) (v : Val) (vs : Vals) :
    ∀ es, AllGe (i + 1) es →
      sapplyG ((sk, F) :: fs) i (.cons v vs) es = (sapplyG fs (i + 1) vs es).map (Vals.cons v) := by
  intro es
  induction es generalizing vs with
  | nil => intro _; rfl
  | cons e rest ih =>
    obtain ⟨j, p⟩ := e
    rintro ⟨h1, h2⟩
    have hne : ¬ i = j := by omega
    simp only [sapplyG, sapplyOne, hne, if_false]
    cases h : sapplyOne fs (i + 1) (j, p) vs with
    | ok vs' => simp only [h]; exact ih vs' h2
    | error m => simp only [h]; rfl

end Derive

namespace Derive

/-! ### assembly: fields satisfying `FieldSpec` give a struct satisfying `TySpec` -/

theorem sdiffG_ref (fs : FS) (hs : ∀ x ∈ fs, FieldSpec x.2.1 x.2.2) (i : Nat) (a b : Vals) :
    sdiffG (·.diffRef) (fieldsOf fs) i a b = sdiffG (·.diff) (fieldsOf fs) i a b := by
  induction fs generalizing i a b with
  | nil => simp [fieldsOf, sdiffG]
  | cons x fs ih =>
    obtain ⟨sk, F, R⟩ := x
    cases a with
    | nil => simp [fieldsOf, sdiffG]
    | cons a0 as =>
      cases b with
      | nil => simp [fieldsOf, sdiffG]
      | cons b0 bs =>
        have := ih (fun x hx => hs x (List.mem_cons_of_mem _ hx)) (i + 1) as bs
        simp only [fieldsOf, List.map_cons, sdiffG] at this ⊢
        rw [this, (hs (sk, F, R) List.mem_cons_self).ref_eq]

theorem struct_follow_vals (fs : FS) (hs : ∀ x ∈ fs, FieldSpec x.2.1 x.2.2) :
    ∀ (i : Nat) (a b f : Vals), SWT fs a → SWT fs b → SWT fs f → SEquiv fs a f →
      ∃ r, sapplyG (fieldsOf fs) i f (sdiffG (·.diff) (fieldsOf fs) i a b) = .ok r ∧ SWT fs r ∧ SPost fs f b r := by
  induction fs with
  | nil =>
    intro i a b f ha hb hf _
    cases a <;> cases b <;> cases f <;> simp_all [SWT, fieldsOf, sdiffG, sapplyG, SPost]
  | cons x fs ih =>
    obtain ⟨sk, F, R⟩ := x
    intro i a b f ha hb hf he
    cases a with
    | nil => simp [SWT] at ha
    | cons a0 as =>
    cases b with
    | nil => simp [SWT] at hb
    | cons b0 bs =>
    cases f with
    | nil => simp [SWT] at hf
    | cons f0 fr =>
    have hF := hs (sk, F, R) List.mem_cons_self
    obtain ⟨r', hr1, hr2, hr3⟩ := ih (fun x hx => hs x (List.mem_cons_of_mem _ hx)) (i + 1) as bs fr ha.2 hb.2 hf.2 he.2
    have hge := sdiffG_allGe (·.diff) (fieldsOf fs) (i + 1) as bs
    simp only [fieldsOf, List.map_cons, sdiffG] at hr1 hge ⊢
    by_cases hsk : sk = true
    · subst hsk
      simp only [if_true]
      rw [sapplyG_cons_of_allGe _ _ _ _ _ _ _ hge, hr1]
      exact ⟨.cons f0 r', rfl, ⟨hf.1, hr2⟩, by simp [SPost, hr3]⟩
    · have hsk' : sk = false := by simpa using hsk
      subst hsk'
      have heq : R.equiv a0 f0 := by
        rcases he.1 with h | h
        · cases h
        · exact h
      simp only [Bool.false_eq_true, if_false]
      cases hd : F.diff a0 b0 with
      | none =>
        simp only []
        rw [sapplyG_cons_of_allGe _ _ _ _ _ _ _ hge, hr1]
        refine ⟨.cons f0 r', rfl, ⟨hf.1, hr2⟩, ?_⟩
        simp only [SPost, Bool.false_eq_true, if_false]
        exact ⟨hF.stay a0 b0 f0 ha.1 hb.1 hf.1 heq hd, hr3⟩
      | some p =>
        obtain ⟨r0, ha0, hw0, hp0⟩ := hF.follow a0 b0 f0 p ha.1 hb.1 hf.1 heq hd
        have hone : sapplyOne ((false, F) :: List.map (fun x => (x.fst, x.snd.fst)) fs) i (i, p) (Vals.cons f0 fr)
            = .ok (Vals.cons r0 fr) := by
          simp only [sapplyOne, if_true, Bool.false_eq_true, if_false]
          rw [ha0]
        simp only [sapplyG, hone]
        rw [sapplyG_cons_of_allGe _ _ _ _ _ _ _ hge, hr1]
        refine ⟨.cons r0 r', rfl, ⟨hw0, hr2⟩, ?_⟩
        simp only [SPost, Bool.false_eq_true, if_false]
        exact ⟨hp0, hr3⟩

theorem sequiv_refl (fs : FS) (hs : ∀ x ∈ fs, FieldSpec x.2.1 x.2.2) (vs : Vals) (hw : SWT fs vs) : SEquiv fs vs vs := by
  induction fs generalizing vs with
  | nil => cases vs <;> simp_all [SWT, SEquiv]
  | cons x fs ih =>
    obtain ⟨sk, F, R⟩ := x
    cases vs with
    | nil => simp [SWT] at hw
    | cons v vs =>
      exact ⟨Or.inr ((hs (sk, F, R) List.mem_cons_self).refl v hw.1), ih (fun x hx => hs x (List.mem_cons_of_mem _ hx)) vs hw.2⟩

theorem spost_sequiv (fs : FS) (hs : ∀ x ∈ fs, FieldSpec x.2.1 x.2.2) (x y z : Vals)
    (hx : SWT fs x) (hy : SWT fs y) (hz : SWT fs z) (hp : SPost fs x y z) : SEquiv fs y z := by
  induction fs generalizing x y z with
  | nil => cases x <;> cases y <;> cases z <;> simp_all [SWT, SPost, SEquiv]
  | cons x0 fs ih =>
    obtain ⟨sk, F, R⟩ := x0
    cases x with
    | nil => simp [SWT] at hx
    | cons f0 fr =>
    cases y with
    | nil => simp [SWT] at hy
    | cons b0 bs =>
    cases z with
    | nil => simp [SWT] at hz
    | cons r0 rs =>
      refine ⟨?_, ih (fun x hx => hs x (List.mem_cons_of_mem _ hx)) fr bs rs hx.2 hy.2 hz.2 hp.2⟩
      by_cases hsk : sk = true
      · exact Or.inl hsk
      · have := hp.1
        simp only [hsk] at this
        exact Or.inr ((hs (sk, F, R) List.mem_cons_self).post_equiv f0 b0 r0 hx.1 hy.1 hz.1 this)

theorem sdiffG_veqs (fs : FS) (hs : ∀ x ∈ fs, FieldSpec x.2.1 x.2.2) (i : Nat) (a b : Vals)
    (ha : SWT fs a) (hb : SWT fs b) (he : veqs a b = true) : sdiffG (·.diff) (fieldsOf fs) i a b = [] := by
  induction fs generalizing i a b with
  | nil => simp [fieldsOf, sdiffG]
  | cons x fs ih =>
    obtain ⟨sk, F, R⟩ := x
    cases a with
    | nil => simp [fieldsOf, sdiffG]
    | cons a0 as =>
      cases b with
      | nil => simp [fieldsOf, sdiffG]
      | cons b0 bs =>
        simp only [veqs, Bool.and_eq_true] at he
        have hF := hs (sk, F, R) List.mem_cons_self
        have h0 : F.diff a0 b0 = none := (hF.none_iff a0 b0 ha.1 hb.1).mpr (hF.veq_same a0 b0 ha.1 hb.1 he.1)
        have := ih (fun x hx => hs x (List.mem_cons_of_mem _ hx)) (i + 1) as bs ha.2 hb.2 he.2
        simp only [fieldsOf, List.map_cons, sdiffG, h0] at this ⊢
        simp [this]

theorem struct_spec (fs : FS) (hs : ∀ x ∈ fs, FieldSpec x.2.1 x.2.2) :
    TySpec (structSem (fieldsOf fs)) (structRel fs) where
  veq_nodiff := by
    rintro a b ⟨x, rfl, hx⟩ ⟨y, rfl, hy⟩ he
    simp only [veq] at he
    simp only [structSem]
    exact sdiffG_veqs fs hs 0 x y hx hy he
  refl := by
    rintro a ⟨vs, rfl, hw⟩
    exact ⟨vs, vs, rfl, rfl, sequiv_refl fs hs vs hw⟩
  self := by
    rintro a ⟨vs, rfl, hw⟩ hv
    simp only [veq] at hv
    simp only [structSem]
    exact sdiffG_veqs fs hs 0 vs vs hw hw hv
  follow := by
    rintro a b f ⟨x, rfl, hx⟩ ⟨y, rfl, hy⟩ ⟨z, rfl, hz⟩ ⟨x', z', e1, e2, he⟩
    cases e1; cases e2
    obtain ⟨r, h1, h2, h3⟩ := struct_follow_vals fs hs 0 x y z hx hy hz he
    refine ⟨.strct r, ?_, ⟨r, rfl, h2⟩, ⟨z, y, r, rfl, rfl, rfl, h3⟩⟩
    rw [structSem_apply]
    show (sapplyG (fieldsOf fs) 0 z (sdiffG (·.diff) (fieldsOf fs) 0 x y)).map Val.strct = _
    rw [h1]; rfl
  post_equiv := by
    rintro f b r ⟨x, rfl, hx⟩ ⟨y, rfl, hy⟩ ⟨z, rfl, hz⟩ ⟨x', y', z', e1, e2, e3, hp⟩
    cases e1; cases e2; cases e3
    exact ⟨y, z, rfl, rfl, spost_sequiv fs hs x y z hx hy hz hp⟩
  ref_eq := by
    intro a b
    simp only [structSem]
    cases a <;> cases b <;> try rfl
    exact sdiffG_ref fs hs 0 _ _

end Derive
