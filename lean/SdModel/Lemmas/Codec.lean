import SdModel.Model.Codec

/-! Helper lemmas for the wire-format theorems (C08, C14). -/
namespace Codec

theorem readLE_le (k n : Nat) (rest : Bytes) (h : n < 256 ^ k) : readLE k (le k n ++ rest) = some (n, rest) := by
  induction k generalizing n with
  | zero => simp at h; subst h; simp [readLE, le]
  | succ k ih =>
    have h2 : n / 256 < 256 ^ k := by
      rw [Nat.div_lt_iff_lt_mul (by decide)]; rw [Nat.pow_succ] at h; exact h
    simp only [le, List.cons_append, readLE, ih _ h2]
    congr 1
    have := Nat.mod_add_div n 256
    simp only [Prod.mk.injEq, and_true]; omega

theorem le_length (k n : Nat) : (le k n).length = k := by
  induction k generalizing n with
  | zero => rfl
  | succ k ih => simp [le, ih]

theorem decElem_enc (v : Nat) (rest : Bytes) (h : v < 2 ^ 32) : decElem (encElem v ++ rest) = some (v, rest) :=
  readLE_le 4 v rest (by simpa using h)

theorem decUsize_enc (v : Nat) (rest : Bytes) (h : v < 2 ^ 64) : decUsize (encUsize v ++ rest) = some (v, rest) :=
  readLE_le 8 v rest (by simpa using h)

theorem decOptUsize_enc (f : Fmt) (o : Option Nat) (rest : Bytes) (h : ∀ v, o = some v → v < 2 ^ 64) :
    decOptUsize f (encOptUsize o ++ rest) = some (o, rest) := by
  cases o with
  | none => simp [encOptUsize, decOptUsize]
  | some v => simp [encOptUsize, decOptUsize, decUsize_enc v rest (h v rfl)]

theorem decTag_enc (f : Fmt) (t : Nat) (rest : Bytes) (h : t < 256) : decTag f (encTag f t ++ rest) = some (t, rest) := by
  cases f
  · exact readLE_le 1 t rest (by simpa using h)
  · exact readLE_le 4 t rest (by have : (256:Nat) ^ 4 = 4294967296 := by decide
                                 omega)

theorem decN_enc {β : Type} (e : β → Bytes) (d : Bytes → Option (β × Bytes)) (wf : β → Prop)
    (h : ∀ x rest, wf x → d (e x ++ rest) = some (x, rest)) (l : List β) (hl : ∀ x ∈ l, wf x) (rest : Bytes) :
    decN d l.length ((l.map e).flatten ++ rest) = some (l, rest) := by
  induction l with
  | nil => simp [decN]
  | cons x t ih =>
    simp only [List.length_cons, List.map_cons, List.flatten_cons, List.append_assoc, decN,
      h x _ (hl x (by simp)), ih (fun y hy => hl y (by simp [hy]))]

theorem decList_enc {β : Type} (e : β → Bytes) (d : Bytes → Option (β × Bytes)) (wf : β → Prop)
    (h : ∀ x rest, wf x → d (e x ++ rest) = some (x, rest)) (l : List β) (hl : ∀ x ∈ l, wf x)
    (hlen : l.length < 2 ^ 64) (rest : Bytes) :
    decList d (encList e l ++ rest) = some (l, rest) := by
  simp only [decList, encList, List.append_assoc, decUsize_enc _ _ hlen, decN_enc e d wf h l hl rest]

/-- what a script entry must satisfy to fit the wire types (`u32` elements, `usize` = 64-bit indices) -/
def WFChange : Script.Change Nat → Prop
  | .replace v i => v < 2 ^ 32 ∧ i < 2 ^ 64
  | .insert v i => v < 2 ^ 32 ∧ i < 2 ^ 64
  | .delete i r => i < 2 ^ 64 ∧ ∀ v, r = some v → v < 2 ^ 64
  | .swap a b => a < 2 ^ 64 ∧ b < 2 ^ 64

/-- side condition on the tables of a format: tags fit, and the decode table inverts the encode table -/
def TablesOK (f : Fmt) : Prop :=
  ∀ k, k < 4 → tagOf (tables f).1 k < 256 ∧ ctorOf (tables f).2.2 (tagOf (tables f).1 k) = some k

theorem decChange_enc (f : Fmt) (hT : TablesOK f) (c : Script.Change Nat) (rest : Bytes) (hc : WFChange c) :
    decChange f (encChange f c ++ rest) = some (c, rest) := by
  cases c with
  | replace v i =>
    obtain ⟨h1, h2⟩ := hT 0 (by decide)
    simp only [encChange, encChangeWith, ctorIdx, List.append_assoc, decChange, decTag_enc f _ _ h1, h2,
      decElem_enc v _ hc.1, decUsize_enc i _ hc.2, Option.map_some]
  | insert v i =>
    obtain ⟨h1, h2⟩ := hT 1 (by decide)
    simp only [encChange, encChangeWith, ctorIdx, List.append_assoc, decChange, decTag_enc f _ _ h1, h2,
      decElem_enc v _ hc.1, decUsize_enc i _ hc.2, Option.map_some]
  | delete i r =>
    obtain ⟨h1, h2⟩ := hT 2 (by decide)
    simp only [encChange, encChangeWith, ctorIdx, List.append_assoc, decChange, decTag_enc f _ _ h1, h2,
      decUsize_enc i _ hc.1, decOptUsize_enc f r _ hc.2, Option.map_some]
  | swap a b =>
    obtain ⟨h1, h2⟩ := hT 3 (by decide)
    simp only [encChange, encChangeWith, ctorIdx, List.append_assoc, decChange, decTag_enc f _ _ h1, h2,
      decUsize_enc a _ hc.1, decUsize_enc b _ hc.2, Option.map_some]

theorem decScript_enc (f : Fmt) (hT : TablesOK f) (s : List (Script.Change Nat)) (hs : ∀ c ∈ s, WFChange c)
    (hlen : s.length < 2 ^ 64) (rest : Bytes) :
    decScript f (encScript f s ++ rest) = some (s, rest) :=
  decList_enc (encChange f) (decChange f) WFChange (fun c r h => decChange_enc f hT c r h) s hs hlen rest

end Codec
