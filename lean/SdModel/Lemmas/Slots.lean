import SdModel.Model.Slots

/-! Helper lemmas for C10 (slot array ≈ bounded sequence). -/
namespace Slots
variable {α : Type}

/-- invariant: capacity, and every logical index below `cnt` occurs exactly once, none above -/
def Inv (N : Nat) (s : AM α) : Prop :=
  s.cells.length = N ∧ N ≤ 255 ∧ ∀ i, (idxs s.cells).count i = if i < s.cnt then 1 else 0

/-- `s` represents the sequence `l` -/
def Refines (s : AM α) (l : List α) : Prop :=
  s.cnt = l.length ∧ ∀ i, getL s.cells i = l[i]?

/-! ### basic facts about `idxs`, `getL`, `hasFree` -/

@[simp] theorem idxs_nil : idxs ([] : List (Cell α)) = [] := rfl
@[simp] theorem idxs_none (t : List (Cell α)) : idxs (none :: t) = idxs t := by simp [idxs]
@[simp] theorem idxs_some (j : Nat) (v : α) (t : List (Cell α)) : idxs (some (j, v) :: t) = j :: idxs t := by
  simp [idxs]

@[simp] theorem getL_nil (i : Nat) : getL ([] : List (Cell α)) i = none := rfl
@[simp] theorem getL_none (t : List (Cell α)) (i : Nat) : getL (none :: t) i = getL t i := by
  simp only [getL, List.findSome?_cons, pick]
theorem getL_some (j : Nat) (v : α) (t : List (Cell α)) (i : Nat) :
    getL (some (j, v) :: t) i = if j = i then some v else getL t i := by
  simp only [getL, List.findSome?_cons, pick]
  split <;> simp_all

theorem getL_isSome_iff (cs : List (Cell α)) (i : Nat) : (getL cs i).isSome ↔ i ∈ idxs cs := by
  induction cs with
  | nil => simp
  | cons c t ih =>
    cases c with
    | none => simpa using ih
    | some x =>
      obtain ⟨j, v⟩ := x
      rw [getL_some, idxs_some, List.mem_cons]
      by_cases h : j = i
      · simp [h]
      · have h' : ¬ i = j := fun e => h e.symm
        simp [h, h', ih]

theorem getL_eq_none_of_count (cs : List (Cell α)) (i : Nat) (h : (idxs cs).count i = 0) : getL cs i = none := by
  have : ¬ i ∈ idxs cs := by simpa [List.count_eq_zero] using h
  have h2 := (not_congr (getL_isSome_iff cs i)).mpr this
  simpa using h2

theorem hasFree_iff (cs : List (Cell α)) : hasFree cs = true ↔ (idxs cs).length < cs.length := by
  induction cs with
  | nil => simp [hasFree]
  | cons c t ih =>
    cases c with
    | none =>
      have : (idxs t).length ≤ t.length := by simp [idxs]; exact List.length_filterMap_le _ _
      simp [hasFree]; omega
    | some x => obtain ⟨j, v⟩ := x; simp [hasFree, ih]

theorem idxs_length_le (cs : List (Cell α)) : (idxs cs).length ≤ cs.length := by
  simp [idxs]; exact List.length_filterMap_le _ _

/-- under the invariant the indices are a permutation of `range cnt` -/
theorem Inv.perm {N : Nat} {s : AM α} (h : Inv N s) : (idxs s.cells).Perm (List.range s.cnt) := by
  rw [List.perm_iff_count]
  intro a
  rw [h.2.2 a, List.count_range]

theorem Inv.idxs_length {N : Nat} {s : AM α} (h : Inv N s) : (idxs s.cells).length = s.cnt := by
  simpa using h.perm.length_eq

theorem Inv.cnt_le {N : Nat} {s : AM α} (h : Inv N s) : s.cnt ≤ N := by
  have := idxs_length_le s.cells
  rw [h.idxs_length, h.1] at this; exact this

theorem Inv.getL_none {N : Nat} {s : AM α} (h : Inv N s) (i : Nat) (hi : s.cnt ≤ i) : getL s.cells i = none := by
  apply getL_eq_none_of_count
  rw [h.2.2 i]; simp; omega

theorem Inv.getL_some {N : Nat} {s : AM α} (h : Inv N s) (i : Nat) (hi : i < s.cnt) : ∃ v, getL s.cells i = some v := by
  have : i ∈ idxs s.cells := by
    have := h.2.2 i
    simp [hi] at this
    exact List.count_pos_iff.mp (by omega)
  have := (getL_isSome_iff s.cells i).mpr this
  exact Option.isSome_iff_exists.mp this

/-- every state satisfying the invariant represents some sequence -/
theorem Inv.exists_refines {N : Nat} {s : AM α} (h : Inv N s) : ∃ l, Refines s l := by
  have key : ∀ k, k ≤ s.cnt → ∃ l : List α, l.length = k ∧ ∀ i, i < k → getL s.cells i = l[i]? := by
    intro k
    induction k with
    | zero => intro _; exact ⟨[], rfl, by intro i hi; omega⟩
    | succ k ih =>
      intro hk
      obtain ⟨l, hl, hp⟩ := ih (by omega)
      obtain ⟨v, hv⟩ := h.getL_some k (by omega)
      refine ⟨l ++ [v], by simp [hl], ?_⟩
      intro i hi
      by_cases hik : i < k
      · rw [hp i hik, List.getElem?_append_left (by omega)]
      · have : i = k := by omega
        subst this
        rw [hv, List.getElem?_append_right (by omega)]; simp [hl]
  obtain ⟨l, hl, hp⟩ := key s.cnt (Nat.le_refl _)
  refine ⟨l, hl.symm, ?_⟩
  intro i
  by_cases hi : i < s.cnt
  · exact hp i hi
  · rw [h.getL_none i (by omega)]
    exact (List.getElem?_eq_none (by omega)).symm

theorem filterMap_getElem?_range_aux (l pre : List α) :
    (List.range' pre.length l.length).filterMap (fun i => (pre ++ l)[i]?) = l := by
  induction l generalizing pre with
  | nil => simp
  | cons a t ih =>
    have h := ih (pre ++ [a])
    simp only [List.length_append, List.length_singleton, List.append_assoc, List.singleton_append] at h
    simp only [List.length_cons, List.range'_succ, List.filterMap_cons]
    rw [List.getElem?_append_right (Nat.le_refl _)]
    simp [h]

theorem filterMap_getElem?_range (l : List α) : (List.range l.length).filterMap (fun i => l[i]?) = l := by
  have := filterMap_getElem?_range_aux l []
  simpa [List.range_eq_range'] using this

/-- the computable abstraction agrees with any represented sequence -/
theorem abs_of_refines {s : AM α} {l : List α} (h : Refines s l) : abs s = l := by
  unfold abs
  rw [h.1]
  have : (fun i => getL s.cells i) = (fun i => l[i]?) := funext h.2
  rw [show getL s.cells = fun i => getL s.cells i from rfl, this]
  exact filterMap_getElem?_range l

end Slots

namespace Slots
variable {α : Type}

/-! ### insert -/

theorem pick_bump (p i : Nat) (c : Cell α) :
    pick i (bump p c) = if i < p then pick i c else if i = p then none else pick (i-1) c := by
  cases c with
  | none => simp [bump, pick]
  | some x =>
    obtain ⟨j, v⟩ := x
    simp only [bump, pick]
    grind [pick]

theorem getL_map_bump (p i : Nat) (cs : List (Cell α)) :
    getL (cs.map (bump p)) i = if i < p then getL cs i else if i = p then none else getL cs (i-1) := by
  induction cs with
  | nil => simp [getL]
  | cons c t ih =>
    simp only [getL, List.map, List.findSome?_cons] at *
    rw [pick_bump, ih]
    grind

theorem getL_put (x : Nat × α) (i : Nat) (cs : List (Cell α)) (hfree : hasFree cs = true)
    (hno : getL cs x.1 = none) :
    getL (putFirstEmpty x cs) i = if i = x.1 then some x.2 else getL cs i := by
  induction cs with
  | nil => simp [hasFree] at hfree
  | cons c t ih =>
    cases c with
    | none =>
      obtain ⟨j, v⟩ := x
      simp only [putFirstEmpty, getL_some, getL_none]
      by_cases h : j = i <;> simp [h, eq_comm]
      intro h'; exact absurd h'.symm h
    | some y =>
      obtain ⟨j, w⟩ := y
      simp only [putFirstEmpty, getL_some, hasFree] at *
      by_cases h : j = i
      · subst h
        have : ¬ j = x.1 := by intro e; rw [e] at hno; simp at hno
        simp [this]
      · simp only [h, if_false] at *
        have hno' : getL t x.1 = none := by
          by_cases e : j = x.1 <;> simp_all
        exact ih hfree hno'

theorem count_idxs_map_bump (p i : Nat) (cs : List (Cell α)) :
    (idxs (cs.map (bump p))).count i =
      if i < p then (idxs cs).count i else if i = p then 0 else (idxs cs).count (i-1) := by
  induction cs with
  | nil => simp
  | cons c t ih =>
    cases c with
    | none => simpa [bump] using ih
    | some x =>
      obtain ⟨j, v⟩ := x
      simp only [List.map, bump]
      split <;> simp only [idxs_some, List.count_cons, ih] <;> grind

theorem count_idxs_put (x : Nat × α) (i : Nat) (cs : List (Cell α)) (hfree : hasFree cs = true) :
    (idxs (putFirstEmpty x cs)).count i = (idxs cs).count i + (if x.1 = i then 1 else 0) := by
  induction cs with
  | nil => simp [hasFree] at hfree
  | cons c t ih =>
    cases c with
    | none => obtain ⟨j, v⟩ := x; simp [putFirstEmpty, List.count_cons]
    | some y =>
      obtain ⟨j, w⟩ := y
      simp only [putFirstEmpty, idxs_some, List.count_cons, hasFree] at *
      rw [ih hfree]; omega

@[simp] theorem length_putFirstEmpty (x : Nat × α) (cs : List (Cell α)) : (putFirstEmpty x cs).length = cs.length := by
  induction cs with
  | nil => rfl
  | cons c t ih => cases c <;> simp [putFirstEmpty, ih]

theorem idxs_map_bump_length (p : Nat) (cs : List (Cell α)) :
    (idxs (cs.map (bump p))).length = (idxs cs).length := by
  induction cs with
  | nil => simp
  | cons c t ih =>
    cases c with
    | none => simpa [bump] using ih
    | some x =>
      obtain ⟨j, w⟩ := x
      simp only [List.map, bump]
      split <;> simp [ih]

theorem u8_of_lt {p : Nat} (h : p < 256) : u8 p = p := Nat.mod_eq_of_lt h

theorem insert_refines {N : Nat} {s : AM α} {l : List α} (hI : Inv N s) (hR : Refines s l)
    (p : Nat) (v : α) (hp : p ≤ s.cnt) (hc : s.cnt < N) :
    ∃ s', insert s p v = .ok s' ∧ Inv N s' ∧ Refines s' (l.insertIdx p v) := by
  obtain ⟨hlen, hN, hcount⟩ := hI
  have hfree : hasFree s.cells = true := by
    rw [hasFree_iff, Inv.idxs_length ⟨hlen, hN, hcount⟩, hlen]; exact hc
  have hfree' : hasFree (s.cells.map (bump p)) = true := by
    rw [hasFree_iff] at *
    simpa [idxs_map_bump_length] using hfree
  have hpN : p < s.cells.length := by omega
  have hu : u8 p = p := u8_of_lt (by omega)
  refine ⟨⟨putFirstEmpty (p, v) (s.cells.map (bump p)), s.cnt + 1⟩, ?_, ?_, ?_⟩
  · simp [insert, hpN, hfree, hu]
  · refine ⟨by simp [hlen], hN, ?_⟩
    intro i
    simp only []
    rw [count_idxs_put _ _ _ hfree', count_idxs_map_bump, hcount, hcount]
    grind
  · have hpl : p ≤ l.length := by rw [← hR.1]; exact hp
    refine ⟨by simp [List.length_insertIdx, hpl, hR.1], ?_⟩
    intro i
    have hno : getL (s.cells.map (bump p)) p = none := by rw [getL_map_bump]; simp
    simp only []
    rw [getL_put (p, v) i _ hfree' hno, getL_map_bump, List.getElem?_insertIdx, hR.2, hR.2]
    grind

end Slots

namespace Slots
variable {α : Type}

/-! ### remove -/

theorem takeFirst_spec (i : Nat) (cs : List (Cell α)) (v : α) (h : getL cs i = some v) (h1 : (idxs cs).count i ≤ 1) :
    ∃ cs', takeFirst i cs = some (v, cs') ∧ cs'.length = cs.length ∧
      (∀ k, (idxs cs').count k = (idxs cs).count k - (if k = i then 1 else 0)) ∧
      (∀ k, getL cs' k = if k = i then none else getL cs k) := by
  induction cs with
  | nil => simp at h
  | cons c t ih =>
    cases c with
    | none =>
      simp only [getL_none, idxs_none] at h h1
      obtain ⟨cs', e, hl, hc, hg⟩ := ih h h1
      exact ⟨none :: cs', by simp [takeFirst, e], by simp [hl], by simpa using hc, by simpa using hg⟩
    | some x =>
      obtain ⟨j, w⟩ := x
      rw [getL_some] at h
      by_cases hj : j = i
      · subst hj
        simp only [if_true, Option.some.injEq] at h
        subst h
        refine ⟨none :: t, by simp [takeFirst], by simp, ?_, ?_⟩
        · intro k; simp only [idxs_none, idxs_some, List.count_cons]; grind
        · intro k
          simp only [getL_none, getL_some]
          have : (idxs t).count j = 0 := by simp only [idxs_some, List.count_cons] at h1; grind
          by_cases hk : k = j
          · subst hk; simp [getL_eq_none_of_count _ _ this]
          · have : ¬ j = k := fun e => hk e.symm
            simp [hk, this]
      · simp only [hj, if_false] at h
        have h1' : (idxs t).count i ≤ 1 := by simp only [idxs_some, List.count_cons] at h1; grind
        obtain ⟨cs', e, hl, hc, hg⟩ := ih h h1'
        refine ⟨some (j, w) :: cs', by simp [takeFirst, hj, e], by simp [hl], ?_, ?_⟩
        · intro k; simp only [idxs_some, List.count_cons, hc]; grind
        · intro k; simp only [getL_some, hg]; grind

theorem pick_lower (p k : Nat) (c : Cell α) (hc : ∀ v, c ≠ some (p, v)) :
    pick k (lower p c) = if k < p then pick k c else pick (k+1) c := by
  cases c with
  | none => simp [lower, pick]
  | some x =>
    obtain ⟨j, v⟩ := x
    have : j ≠ p := by intro e; exact hc v (by rw [e])
    simp only [lower, pick]
    grind [pick]

theorem getL_map_lower (p k : Nat) (cs : List (Cell α)) (h0 : (idxs cs).count p = 0) :
    getL (cs.map (lower p)) k = if k < p then getL cs k else getL cs (k+1) := by
  induction cs with
  | nil => simp
  | cons c t ih =>
    have hc : ∀ v, c ≠ some (p, v) := by
      intro v e; subst e; simp at h0
    have h0' : (idxs t).count p = 0 := by
      cases c with
      | none => simpa using h0
      | some x => obtain ⟨j, w⟩ := x; simp only [idxs_some, List.count_cons] at h0; omega
    simp only [getL, List.map, List.findSome?_cons] at *
    rw [pick_lower p k c hc, ih h0']
    grind

theorem count_idxs_map_lower (p k : Nat) (cs : List (Cell α)) (h0 : (idxs cs).count p = 0) :
    (idxs (cs.map (lower p))).count k = if k < p then (idxs cs).count k else (idxs cs).count (k+1) := by
  induction cs with
  | nil => simp
  | cons c t ih =>
    cases c with
    | none => simpa [lower] using ih (by simpa using h0)
    | some x =>
      obtain ⟨j, v⟩ := x
      have hj : j ≠ p := by intro e; subst e; simp at h0
      have h0' : (idxs t).count p = 0 := by simp only [idxs_some, List.count_cons] at h0; omega
      simp only [List.map, lower]
      split <;> simp only [idxs_some, List.count_cons, ih h0'] <;> grind

theorem remove_refines {N : Nat} {s : AM α} {l : List α} (hI : Inv N s) (hR : Refines s l)
    (p : Nat) (hp : p < s.cnt) :
    ∃ x s', remove s p = .ok (x, s') ∧ l[p]? = some x ∧ Inv N s' ∧ Refines s' (l.eraseIdx p) := by
  have hcnt := hI.cnt_le
  obtain ⟨hlen, hN, hcount⟩ := hI
  have hu : u8 p = p := u8_of_lt (by omega)
  obtain ⟨x, hx⟩ := Inv.getL_some ⟨hlen, hN, hcount⟩ p hp
  have hc1 : (idxs s.cells).count p ≤ 1 := by rw [hcount]; split <;> omega
  obtain ⟨cs', e, hl, hc, hg⟩ := takeFirst_spec p s.cells x hx hc1
  have h0 : (idxs cs').count p = 0 := by rw [hc, hcount]; simp [hp]
  refine ⟨x, ⟨cs'.map (lower p), s.cnt - 1⟩, ?_, ?_, ?_, ?_⟩
  · simp [remove, hu, e]
  · rw [← hR.2, hx]
  · refine ⟨by simp [hl, hlen], hN, ?_⟩
    intro i
    simp only []
    rw [count_idxs_map_lower p i cs' h0, hc, hc, hcount, hcount]
    grind
  · have hpl : p < l.length := by rw [← hR.1]; exact hp
    refine ⟨by simp [List.length_eraseIdx, hpl, hR.1], ?_⟩
    intro i
    simp only []
    rw [getL_map_lower p i cs' h0, hg, hg, List.getElem?_eraseIdx, hR.2, hR.2]
    grind

/-! ### index / assignment -/

theorem index_ok {s : AM α} {l : List α} (hR : Refines s l) (i : Nat) (hi : i < l.length) :
    index s i = .ok l[i] := by
  simp only [index, hR.2, List.getElem?_eq_getElem hi]

theorem index_panics {s : AM α} {l : List α} (hR : Refines s l) (i : Nat) (hi : l.length ≤ i) :
    ∃ e, index s i = .error e := by
  simp only [index, hR.2, List.getElem?_eq_none hi]
  exact ⟨_, rfl⟩

theorem getL_setL (cs : List (Cell α)) (i : Nat) (v : α) (cs' : List (Cell α)) (h : setL cs i v = some cs') :
    cs'.length = cs.length ∧ idxs cs' = idxs cs ∧ ∀ k, getL cs' k = if k = i then some v else getL cs k := by
  induction cs generalizing cs' with
  | nil => simp [setL] at h
  | cons c t ih =>
    cases c with
    | none =>
      simp only [setL, Option.map_eq_some_iff] at h
      obtain ⟨t', ht, rfl⟩ := h
      obtain ⟨a, b, c⟩ := ih t' ht
      exact ⟨by simp [a], by simp [b], by simpa using c⟩
    | some x =>
      obtain ⟨j, w⟩ := x
      simp only [setL] at h
      split at h
      · rename_i hj; subst hj
        cases h
        refine ⟨rfl, by simp, ?_⟩
        intro k; simp only [getL_some]; grind
      · rename_i hj
        simp only [Option.map_eq_some_iff] at h
        obtain ⟨t', ht, rfl⟩ := h
        obtain ⟨a, b, c⟩ := ih t' ht
        refine ⟨by simp [a], by simp [b], ?_⟩
        intro k; simp only [getL_some, c]; grind

theorem setL_isSome (cs : List (Cell α)) (i : Nat) (v : α) (h : (getL cs i).isSome) : ∃ cs', setL cs i v = some cs' := by
  induction cs with
  | nil => simp at h
  | cons c t ih =>
    cases c with
    | none =>
      obtain ⟨t', ht⟩ := ih (by simpa using h)
      exact ⟨none :: t', by simp [setL, ht]⟩
    | some x =>
      obtain ⟨j, w⟩ := x
      by_cases hj : j = i
      · exact ⟨some (j, v) :: t, by simp [setL, hj]⟩
      · rw [getL_some] at h; simp only [hj, if_false] at h
        obtain ⟨t', ht⟩ := ih h
        exact ⟨some (j, w) :: t', by simp [setL, hj, ht]⟩

theorem set_refines {N : Nat} {s : AM α} {l : List α} (hI : Inv N s) (hR : Refines s l)
    (i : Nat) (v : α) (hi : i < s.cnt) :
    ∃ s', set s i v = .ok s' ∧ Inv N s' ∧ Refines s' (l.set i v) := by
  obtain ⟨x, hx⟩ := hI.getL_some i hi
  obtain ⟨cs', e⟩ := setL_isSome s.cells i v (by simp [hx])
  obtain ⟨a, b, c⟩ := getL_setL s.cells i v cs' e
  refine ⟨⟨cs', s.cnt⟩, by simp [set, e], ⟨by simp [a, hI.1], hI.2.1, by simpa [b] using hI.2.2⟩, ?_⟩
  refine ⟨by simp [hR.1], ?_⟩
  intro k
  simp only []
  rw [c, List.getElem?_set, hR.2]
  have : i < l.length := by rw [← hR.1]; exact hi
  grind

end Slots

namespace Slots
variable {α : Type}

/-! ### construction, extend -/

theorem getL_append_nones (cs : List (Cell α)) (n i : Nat) : getL (cs ++ List.replicate n none) i = getL cs i := by
  induction cs with
  | nil => induction n with
    | zero => simp
    | succ n ih => simpa [List.replicate_succ] using ih
  | cons c t ih =>
    cases c with
    | none => simpa using ih
    | some x => obtain ⟨j, w⟩ := x; simp [getL_some, ih]

theorem idxs_append_nones (cs : List (Cell α)) (n : Nat) : idxs (cs ++ List.replicate n none) = idxs cs := by
  simp [idxs, List.filterMap_append]

theorem fromIter_cells (l : List α) (k : Nat) (hk : k + l.length ≤ 256) :
    idxs ((l.zipIdx k).map fun (v, i) => some (u8 i, v)) = List.range' k l.length ∧
    ∀ i, getL ((l.zipIdx k).map fun (v, i) => some (u8 i, v)) i = if k ≤ i then l[i-k]? else none := by
  induction l generalizing k with
  | nil => simp
  | cons a t ih =>
    obtain ⟨h1, h2⟩ := ih (k+1) (by simp at hk; omega)
    have hu : u8 k = k := u8_of_lt (by simp at hk; omega)
    constructor
    · simp [List.zipIdx_cons, hu, h1, List.range'_succ]
    · intro i
      simp only [List.zipIdx_cons, List.map_cons, hu, getL_some, h2]
      by_cases e : k = i
      · subst e; simp
      · by_cases hlt : k + 1 ≤ i
        · have : i - k = (i - (k+1)) + 1 := by omega
          simp [e, hlt, this]; omega
        · simp [e, hlt]; omega

theorem fromIter_refines (N : Nat) (l : List α) (hN : N ≤ 255) (hl : l.length ≤ N) :
    ∃ s, fromIter N l = .ok s ∧ Inv N s ∧ Refines s l := by
  obtain ⟨h1, h2⟩ := fromIter_cells l 0 (by omega)
  refine ⟨_, by simp only [fromIter]; rw [if_neg (by omega), if_neg (by omega)], ?_, ?_⟩
  · refine ⟨by simp; omega, hN, ?_⟩
    intro i
    simp only [idxs_append_nones]
    rw [show (List.zipIdx l) = List.zipIdx l 0 from rfl, h1]
    simp [List.count_range']
  · refine ⟨rfl, ?_⟩
    intro i
    simp only [getL_append_nones]
    rw [show (List.zipIdx l) = List.zipIdx l 0 from rfl, h2]; simp

theorem new_refines (N : Nat) (hN : N ≤ 255) : ∃ s : AM α, new N = .ok s ∧ Inv N s ∧ Refines s [] := by
  refine ⟨⟨List.replicate N none, 0⟩, by simp only [new]; rw [if_neg (by omega)], ⟨by simp, hN, ?_⟩, rfl, ?_⟩
  · intro i; have := idxs_append_nones ([] : List (Cell α)) N; simp at this; simp [this]
  · intro i; have := getL_append_nones ([] : List (Cell α)) N i; simpa using this

def nfree : List (Cell α) → Nat
  | [] => 0
  | none :: t => nfree t + 1
  | some _ :: t => nfree t

theorem nfree_eq (cs : List (Cell α)) : nfree cs + (idxs cs).length = cs.length := by
  induction cs with
  | nil => rfl
  | cons c t ih => cases c with
    | none => simp [nfree]; omega
    | some x => obtain ⟨j, w⟩ := x; simp [nfree]; omega

theorem fillFree_spec (cs : List (Cell α)) (vs : List α) (k : Nat) (hk : k + vs.length ≤ 256)
    (hlt : ∀ j ∈ idxs cs, j < k) :
    let m := min vs.length (nfree cs)
    (fillFree cs vs k).2 = k + m ∧ (fillFree cs vs k).1.length = cs.length ∧
    (∀ i, (idxs (fillFree cs vs k).1).count i = (idxs cs).count i + (if k ≤ i ∧ i < k + m then 1 else 0)) ∧
    (∀ i, getL (fillFree cs vs k).1 i = if k ≤ i ∧ i < k + m then vs[i-k]? else getL cs i) := by
  induction cs generalizing vs k with
  | nil =>
    simp [fillFree, nfree]
    intro i h1 h2; omega
  | cons c t ih =>
    cases vs with
    | nil =>
      simp only [List.length_nil, Nat.zero_min, Nat.add_zero]
      refine ⟨by simp [fillFree], by simp [fillFree], ?_, ?_⟩ <;> intro i <;> simp [fillFree] <;> omega
    | cons v vs =>
      cases c with
      | none =>
        have hk' : k + 1 + vs.length ≤ 256 := by simp at hk; omega
        have hlt' : ∀ j ∈ idxs t, j < k + 1 := fun j hj => Nat.lt_succ_of_lt (hlt j (by simpa using hj))
        obtain ⟨a, b, c, d⟩ := ih vs (k+1) hk' hlt'
        have hu : u8 k = k := u8_of_lt (by simp at hk; omega)
        simp only [fillFree, nfree, List.length_cons, hu] at *
        have hm : min (vs.length + 1) (nfree t + 1) = min vs.length (nfree t) + 1 := by omega
        refine ⟨by rw [a, hm]; omega, by simp [b], ?_, ?_⟩
        · intro i; simp only [idxs_some, idxs_none, List.count_cons, c, hm]; grind
        · intro i
          simp only [getL_some, getL_none, d, hm]
          by_cases e : k = i
          · subst e; simp
          · by_cases h1 : k + 1 ≤ i ∧ i < k + 1 + min vs.length (nfree t)
            · have : i - k = (i - (k+1)) + 1 := by omega
              have h2 : k ≤ i ∧ i < k + (min vs.length (nfree t) + 1) := by omega
              simp [e, h1, h2, this]
            · have h2 : ¬ (k ≤ i ∧ i < k + (min vs.length (nfree t) + 1)) := by omega
              simp [e, h1, h2]
      | some x =>
        obtain ⟨j, w⟩ := x
        have hj : j < k := hlt j (by simp)
        have hlt' : ∀ j ∈ idxs t, j < k := fun j hj => hlt j (by simp [hj])
        obtain ⟨a, b, c, d⟩ := ih (v :: vs) k hk hlt'
        simp only [fillFree, nfree] at *
        refine ⟨a, by simp [b], ?_, ?_⟩
        · intro i; simp only [idxs_some, List.count_cons, c]; grind
        · intro i
          simp only [getL_some, d]
          by_cases e : j = i
          · subst e
            have hnk : ¬ k ≤ j := by omega
            simp [hnk]
          · simp [e]

theorem extend_refines {N : Nat} {s : AM α} {l : List α} (hI : Inv N s) (hR : Refines s l)
    (vs : List α) (hc : s.cnt + vs.length ≤ N) :
    Inv N (extend s vs) ∧ Refines (extend s vs) (l ++ vs) := by
  have hcnt := hI.idxs_length
  have hfree : nfree s.cells = N - s.cnt := by have := nfree_eq s.cells; rw [hcnt, hI.1] at this; omega
  have hlt : ∀ j ∈ idxs s.cells, j < s.cnt := by
    intro j hj
    have := hI.2.2 j
    by_cases h : j < s.cnt
    · exact h
    · simp [h] at this; exact absurd hj (List.count_eq_zero.mp this)
  obtain ⟨a, b, c, d⟩ := fillFree_spec s.cells vs s.cnt (by have := hI.2.1; omega) hlt
  have hm : min vs.length (nfree s.cells) = vs.length := by rw [hfree]; omega
  simp only [hm] at a c d
  refine ⟨⟨by simp [extend, b, hI.1], hI.2.1, ?_⟩, ?_, ?_⟩
  · intro i
    show (idxs (fillFree s.cells vs s.cnt).1).count i = if i < (fillFree s.cells vs s.cnt).2 then 1 else 0
    rw [c, hI.2.2, a]; grind
  · show (fillFree s.cells vs s.cnt).2 = _
    rw [a, hR.1]; simp
  · intro i
    simp only [extend]
    rw [d, hR.2, List.getElem?_append, hR.1]
    grind

end Slots

namespace Slots
variable {α : Type}

/-! ### swap -/

/-- exchange the logical indices `a` and `b` -/
def swN (a b i : Nat) : Nat := if i = a then b else if i = b then a else i

def sw (a b : Nat) : Cell α → Cell α
  | some (j, v) => some (swN a b j, v)
  | none => none

theorem swN_comm (a b i : Nat) : swN a b i = swN b a i := by unfold swN; grind
theorem sw_comm (a b : Nat) (c : Cell α) : sw a b c = sw b a c := by
  cases c with
  | none => rfl
  | some x => obtain ⟨j, v⟩ := x; simp [sw, swN_comm]

theorem setIdxAt_single (a b : Nat) (cs : List (Cell α)) (k : Nat) (hk : posOf b cs = some k)
    (ha : (idxs cs).count a = 0) (hb : (idxs cs).count b ≤ 1) :
    setIdxAt cs k a = cs.map (sw a b) := by
  induction cs generalizing k with
  | nil => simp [posOf] at hk
  | cons c t ih =>
    cases c with
    | none =>
      simp only [posOf, Option.map_eq_some_iff] at hk
      obtain ⟨k', hk', rfl⟩ := hk
      simp only [setIdxAt, List.map_cons, sw]
      rw [ih k' hk' (by simpa using ha) (by simpa using hb)]
    | some x =>
      obtain ⟨j, w⟩ := x
      simp only [idxs_some, List.count_cons] at ha hb
      simp only [posOf] at hk
      split at hk
      · rename_i hj; subst hj; cases hk
        have hb0 : (idxs t).count j = 0 := by simp at hb; omega
        have ha0 : (idxs t).count a = 0 := by omega
        have hfix : t.map (sw a j) = t := by
          have : ∀ c ∈ t, sw a j c = c := by
            intro c hc
            cases c with
            | none => rfl
            | some y =>
              obtain ⟨i, u⟩ := y
              have h1 : i ∈ idxs t := by simp only [idxs, List.mem_filterMap]; exact ⟨some (i,u), hc, rfl⟩
              have : i ≠ a := by intro e; subst e; exact absurd h1 (List.count_eq_zero.mp ha0)
              have : i ≠ j := by intro e; subst e; exact absurd h1 (List.count_eq_zero.mp hb0)
              simp [sw, swN, *]
          calc t.map (sw a j) = t.map id := List.map_congr_left this
            _ = t := List.map_id t
        simp [setIdxAt, sw, swN, hfix]
        intro e; simp [e]
      · rename_i hj
        simp only [Option.map_eq_some_iff] at hk
        obtain ⟨k', hk', rfl⟩ := hk
        have hja : j ≠ a := by intro e; subst e; simp at ha
        have hbe : (j == b) = false := by simp [hj]
        have hae : (j == a) = false := by simp [hja]
        simp only [hbe, hae] at ha hb
        simp only [setIdxAt, List.map_cons, sw, swN, hj, hja, if_false]
        rw [ih k' hk' (by simpa using ha) (by simpa using hb)]

theorem swap_cells (a b : Nat) (hab : a ≠ b) (cs : List (Cell α)) (pa pb : Nat)
    (hpa : posOf a cs = some pa) (hpb : posOf b cs = some pb)
    (ha : (idxs cs).count a ≤ 1) (hb : (idxs cs).count b ≤ 1) :
    pa ≠ pb ∧ setIdxAt (setIdxAt cs pa b) pb a = cs.map (sw a b) := by
  induction cs generalizing pa pb with
  | nil => simp [posOf] at hpa
  | cons c t ih =>
    cases c with
    | none =>
      simp only [posOf, Option.map_eq_some_iff] at hpa hpb
      obtain ⟨pa', hpa', rfl⟩ := hpa
      obtain ⟨pb', hpb', rfl⟩ := hpb
      obtain ⟨h1, h2⟩ := ih pa' pb' hpa' hpb' (by simpa using ha) (by simpa using hb)
      exact ⟨by omega, by simp only [setIdxAt, List.map_cons, sw]; rw [h2]⟩
    | some x =>
      obtain ⟨j, w⟩ := x
      simp only [idxs_some, List.count_cons] at ha hb
      simp only [posOf] at hpa hpb
      by_cases hja : j = a
      · subst hja
        have hjb : ¬ j = b := hab
        simp only [if_true, hjb, if_false, Option.map_eq_some_iff] at hpa hpb
        cases hpa
        obtain ⟨pb', hpb', rfl⟩ := hpb
        have ha0 : (idxs t).count j = 0 := by simp at ha; omega
        have hb1 : (idxs t).count b ≤ 1 := by
          have : (j == b) = false := by simp [hjb]
          simpa [this] using hb
        refine ⟨by omega, ?_⟩
        simp only [setIdxAt, List.map_cons, sw, swN, if_true]
        rw [setIdxAt_single j b t pb' hpb' ha0 hb1]
      · by_cases hjb : j = b
        · subst hjb
          simp only [hja, if_false, if_true, Option.map_eq_some_iff] at hpa hpb
          cases hpb
          obtain ⟨pa', hpa', rfl⟩ := hpa
          have hb0 : (idxs t).count j = 0 := by simp at hb; omega
          have ha1 : (idxs t).count a ≤ 1 := by
            have : (j == a) = false := by simp [hja]
            simpa [this] using ha
          refine ⟨by omega, ?_⟩
          simp only [setIdxAt, List.map_cons, sw, swN, hja, if_false, if_true]
          rw [setIdxAt_single j a t pa' hpa' hb0 ha1]
          congr 1
          exact List.map_congr_left (fun c _ => sw_comm j a c)
        · simp only [hja, hjb, if_false, Option.map_eq_some_iff] at hpa hpb
          obtain ⟨pa', hpa', rfl⟩ := hpa
          obtain ⟨pb', hpb', rfl⟩ := hpb
          have e1 : (j == a) = false := by simp [hja]
          have e2 : (j == b) = false := by simp [hjb]
          simp only [e1, e2] at ha hb
          obtain ⟨h1, h2⟩ := ih pa' pb' hpa' hpb' (by simpa using ha) (by simpa using hb)
          refine ⟨by omega, ?_⟩
          simp only [setIdxAt, List.map_cons, sw, swN, hja, hjb, if_false]
          rw [h2]

theorem posOf_isSome (i : Nat) (cs : List (Cell α)) (h : i ∈ idxs cs) : ∃ k, posOf i cs = some k := by
  induction cs with
  | nil => simp at h
  | cons c t ih =>
    cases c with
    | none => obtain ⟨k, hk⟩ := ih (by simpa using h); exact ⟨k+1, by simp [posOf, hk]⟩
    | some x =>
      obtain ⟨j, w⟩ := x
      by_cases hj : j = i
      · exact ⟨0, by simp [posOf, hj]⟩
      · have : i ∈ idxs t := by
          simp only [idxs_some, List.mem_cons] at h
          rcases h with h | h
          · exact absurd h.symm hj
          · exact h
        obtain ⟨k, hk⟩ := ih this
        exact ⟨k+1, by simp [posOf, hj, hk]⟩

theorem pick_sw (a b i : Nat) (c : Cell α) : pick i (sw a b c) = pick (swN a b i) c := by
  cases c with
  | none => rfl
  | some x => obtain ⟨j, v⟩ := x; simp only [sw, pick, swN]; grind

theorem getL_map_sw (a b i : Nat) (cs : List (Cell α)) : getL (cs.map (sw a b)) i = getL cs (swN a b i) := by
  induction cs with
  | nil => rfl
  | cons c t ih =>
    simp only [getL, List.map, List.findSome?_cons] at *
    rw [pick_sw, ih]

theorem count_idxs_map_sw (a b i : Nat) (cs : List (Cell α)) :
    (idxs (cs.map (sw a b))).count i = (idxs cs).count (swN a b i) := by
  induction cs with
  | nil => rfl
  | cons c t ih =>
    cases c with
    | none => simpa [sw] using ih
    | some x =>
      obtain ⟨j, v⟩ := x
      simp only [List.map, sw, idxs_some, List.count_cons, ih, swN]; grind

theorem swap_refines {N : Nat} {s : AM α} {l : List α} (hI : Inv N s) (hR : Refines s l)
    (a b : Nat) (ha : a < s.cnt) (hb : b < s.cnt) :
    ∃ s', swap s a b = .ok s' ∧ Inv N s' ∧
      Refines s' ((l.set a (l[b]'(by rw [← hR.1]; exact hb))).set b (l[a]'(by rw [← hR.1]; exact ha))) := by
  have hla : a < l.length := by rw [← hR.1]; exact ha
  have hlb : b < l.length := by rw [← hR.1]; exact hb
  by_cases hab : a = b
  · subst hab
    refine ⟨s, by simp [swap], hI, hR.1.trans (by simp), ?_⟩
    intro i; rw [hR.2]; simp only [List.getElem?_set]; grind
  · have hcnt := hI.cnt_le
    have hua : u8 a = a := u8_of_lt (by have := hI.2.1; omega)
    have hub : u8 b = b := u8_of_lt (by have := hI.2.1; omega)
    have hma : a ∈ idxs s.cells := List.count_pos_iff.mp (by rw [hI.2.2]; simp [ha])
    have hmb : b ∈ idxs s.cells := List.count_pos_iff.mp (by rw [hI.2.2]; simp [hb])
    obtain ⟨pa, hpa⟩ := posOf_isSome a s.cells hma
    obtain ⟨pb, hpb⟩ := posOf_isSome b s.cells hmb
    obtain ⟨hne, hcells⟩ := swap_cells a b hab s.cells pa pb hpa hpb (by rw [hI.2.2]; split <;> omega) (by rw [hI.2.2]; split <;> omega)
    refine ⟨⟨s.cells.map (sw a b), s.cnt⟩, ?_, ?_, ?_⟩
    · simp [swap, hab, hua, hub, hpa, hpb, hne, hcells]
    · refine ⟨by simp [hI.1], hI.2.1, ?_⟩
      intro i; simp only []; rw [count_idxs_map_sw, hI.2.2]; unfold swN; grind
    · refine ⟨by simp [hR.1], ?_⟩
      intro i
      simp only []
      rw [getL_map_sw, hR.2]
      simp only [List.getElem?_set, swN]
      grind

end Slots

namespace Slots
variable {α : Type}

/-! ### sorting pairs with distinct keys -/

def KeysLt (a b : Nat × α) : Prop := a.1 < b.1

theorem insSorted_perm (x : Nat × α) (l : List (Nat × α)) : (insSorted x l).Perm (x :: l) := by
  induction l with
  | nil => simp [insSorted]
  | cons y t ih =>
    simp only [insSorted]
    split
    · exact List.Perm.refl _
    · exact (List.Perm.cons y ih).trans (List.Perm.swap x y t)

theorem sortByIdx_perm (l : List (Nat × α)) : (sortByIdx l).Perm l := by
  induction l with
  | nil => exact List.Perm.refl _
  | cons x t ih => exact (insSorted_perm x _).trans (List.Perm.cons x ih)

theorem insSorted_pairwise (x : Nat × α) (l : List (Nat × α)) (h : l.Pairwise KeysLt)
    (hx : ∀ y ∈ l, y.1 ≠ x.1) : (insSorted x l).Pairwise KeysLt := by
  induction l with
  | nil => simp [insSorted]
  | cons y t ih =>
    simp only [insSorted]
    rw [List.pairwise_cons] at h
    split
    · rename_i hle
      have hlt : x.1 < y.1 := by have := hx y (by simp); omega
      refine List.pairwise_cons.mpr ⟨?_, List.pairwise_cons.mpr h⟩
      intro z hz
      rcases List.mem_cons.mp hz with rfl | hz
      · exact hlt
      · exact Nat.lt_trans hlt (h.1 z hz)
    · rename_i hle
      refine List.pairwise_cons.mpr ⟨?_, ih h.2 (fun z hz => hx z (by simp [hz]))⟩
      intro z hz
      have := (insSorted_perm x t).mem_iff.mp hz
      rcases List.mem_cons.mp this with rfl | hz
      · show y.1 < z.1; omega
      · exact h.1 z hz

theorem sortByIdx_pairwise (l : List (Nat × α)) (h : (l.map (·.1)).Nodup) : (sortByIdx l).Pairwise KeysLt := by
  induction l with
  | nil => simp [sortByIdx]
  | cons x t ih =>
    simp only [List.map_cons, List.nodup_cons] at h
    apply insSorted_pairwise x _ (ih h.2)
    intro y hy e
    have : y ∈ t := (sortByIdx_perm t).mem_iff.mp hy
    exact h.1 (by rw [← e]; exact List.mem_map_of_mem this)

/-- two key-increasing lists that are permutations of each other are equal -/
theorem eq_of_perm_of_keysLt (l₁ l₂ : List (Nat × α)) (hp : l₁.Perm l₂)
    (h₁ : l₁.Pairwise KeysLt) (h₂ : l₂.Pairwise KeysLt) : l₁ = l₂ := by
  induction l₁ generalizing l₂ with
  | nil => exact (List.perm_nil.mp hp.symm).symm ▸ rfl
  | cons x t ih =>
    cases l₂ with
    | nil => exact absurd hp.length_eq (by simp)
    | cons y u =>
      rw [List.pairwise_cons] at h₁ h₂
      have hxy : x = y := by
        have hx : x ∈ y :: u := hp.mem_iff.mp (by simp)
        have hy : y ∈ x :: t := hp.mem_iff.mpr (by simp)
        rcases List.mem_cons.mp hx with e | hx'
        · exact e
        · rcases List.mem_cons.mp hy with e | hy'
          · exact e.symm
          · have a := h₂.1 x hx'
            have b := h₁.1 y hy'
            unfold KeysLt at a b; omega
      subst hxy
      rw [ih u (List.Perm.cons_inv hp) h₁.2 h₂.2]

end Slots

namespace Slots
variable {α : Type}

/-! ### drain -/

def removedOf (r : Rng) (cs : List (Cell α)) : List (Nat × α) := cs.filterMap fun c => if inRange r c then c else none
def keptOf (r : Rng) (cs : List (Cell α)) : List (Cell α) := cs.map fun c => if inRange r c then none else c

theorem getL_keptOf (r : Rng) (cs : List (Cell α)) (i : Nat) :
    getL (keptOf r cs) i = if r.contains i then none else getL cs i := by
  induction cs with
  | nil => simp [keptOf]
  | cons c t ih =>
    cases c with
    | none => simpa [keptOf, inRange] using ih
    | some x =>
      obtain ⟨j, v⟩ := x
      simp only [keptOf, List.map_cons, inRange] at *
      by_cases hj : r.contains j
      · simp only [hj, if_true, getL_none, getL_some, ih]
        by_cases e : j = i
        · subst e; simp [hj]
        · simp [e]
      · simp only [hj, Bool.false_eq_true, if_false, getL_some, ih]
        by_cases e : j = i
        · subst e; simp [hj]
        · simp [e]

theorem count_idxs_keptOf (r : Rng) (cs : List (Cell α)) (i : Nat) :
    (idxs (keptOf r cs)).count i = if r.contains i then 0 else (idxs cs).count i := by
  induction cs with
  | nil => simp [keptOf]
  | cons c t ih =>
    cases c with
    | none => simpa [keptOf, inRange] using ih
    | some x =>
      obtain ⟨j, v⟩ := x
      simp only [keptOf, List.map_cons, inRange] at *
      by_cases hj : r.contains j
      · simp only [hj, if_true, idxs_none, idxs_some, List.count_cons, ih]
        by_cases e : j = i
        · subst e; simp [hj]
        · simp [e]
      · simp only [hj, Bool.false_eq_true, if_false, idxs_some, List.count_cons, ih]
        by_cases e : j = i
        · subst e; simp [hj]
        · simp [e]

@[simp] theorem length_keptOf (r : Rng) (cs : List (Cell α)) : (keptOf r cs).length = cs.length := by simp [keptOf]

theorem mem_removedOf (r : Rng) (cs : List (Cell α)) (j : Nat) (v : α) :
    (j, v) ∈ removedOf r cs ↔ r.contains j = true ∧ some (j, v) ∈ cs := by
  simp only [removedOf, List.mem_filterMap]
  constructor
  · rintro ⟨c, hc, h⟩
    split at h
    · rename_i hr; subst h; exact ⟨by simpa [inRange] using hr, hc⟩
    · cases h
  · rintro ⟨hr, hc⟩
    exact ⟨some (j, v), hc, by simp [inRange, hr]⟩

theorem removedOf_keys_sublist (r : Rng) (cs : List (Cell α)) : ((removedOf r cs).map (·.1)).Sublist (idxs cs) := by
  induction cs with
  | nil => simp [removedOf]
  | cons c t ih =>
    cases c with
    | none => simpa [removedOf, inRange] using ih
    | some x =>
      obtain ⟨j, v⟩ := x
      by_cases hr : inRange r (some (j, v)) = true
      · simp only [removedOf, List.filterMap_cons, hr, if_true, List.map_cons, idxs_some] at *
        exact ih.cons₂ j
      · simp only [removedOf, List.filterMap_cons, hr, if_false, idxs_some] at *
        exact ih.cons j

theorem mem_iff_getL (cs : List (Cell α)) (j : Nat) (v : α) (h : (idxs cs).count j ≤ 1) :
    some (j, v) ∈ cs ↔ getL cs j = some v := by
  induction cs with
  | nil => simp
  | cons c t ih =>
    cases c with
    | none => simpa using ih (by simpa using h)
    | some x =>
      obtain ⟨k, w⟩ := x
      simp only [idxs_some, List.count_cons] at h
      rw [getL_some, List.mem_cons]
      by_cases e : k = j
      · subst e
        have h0 : (idxs t).count k = 0 := by simp at h; omega
        have hnm : ∀ u, some (k, u) ∉ t := by
          intro u hu
          have : k ∈ idxs t := by simp only [idxs, List.mem_filterMap]; exact ⟨_, hu, rfl⟩
          exact absurd this (List.count_eq_zero.mp h0)
        simp only [if_true, Option.some.injEq, Prod.mk.injEq, true_and]
        constructor
        · rintro (e | e)
          · exact e.symm
          · exact absurd e (hnm v)
        · intro e; exact Or.inl e.symm
      · have : (k == j) = false := by simp [e]
        simp only [this, Bool.false_eq_true, if_false, Nat.add_zero] at h
        simp only [e, if_false, Option.some.injEq, Prod.mk.injEq]
        rw [← ih h]
        constructor
        · rintro (⟨e', _⟩ | h')
          · exact absurd e'.symm e
          · exact h'
        · intro h'; exact Or.inr h'

theorem maxIdx_spec (ps : List (Nat × α)) :
    (ps = [] → maxIdx ps = none) ∧
    (ps ≠ [] → ∃ m, maxIdx ps = some m ∧ (∃ p ∈ ps, p.1 = m) ∧ ∀ p ∈ ps, p.1 ≤ m) := by
  induction ps with
  | nil => simp [maxIdx]
  | cons x t ih =>
    refine ⟨by simp, fun _ => ?_⟩
    by_cases ht : t = []
    · subst ht; exact ⟨x.1, by simp [maxIdx], ⟨x, by simp, rfl⟩, by simp⟩
    · obtain ⟨m, hm, ⟨p, hp, hpm⟩, hall⟩ := ih.2 ht
      refine ⟨max x.1 m, by simp [maxIdx, hm], ?_, ?_⟩
      · by_cases hx : m ≤ x.1
        · exact ⟨x, by simp, by omega⟩
        · exact ⟨p, by simp [hp], by omega⟩
      · intro q hq
        rcases List.mem_cons.mp hq with rfl | hq
        · omega
        · have := hall q hq; omega

theorem pick_lowerBy (mx n i : Nat) (c : Cell α) (hc : ∀ j v, c = some (j, v) → j + n ≤ mx ∨ mx < j) (hn : n ≤ mx + 1) :
    pick i (lowerBy mx n c) = if i + n ≤ mx then pick i c else pick (i + n) c := by
  cases c with
  | none => simp [lowerBy, pick]
  | some x =>
    obtain ⟨j, v⟩ := x
    have := hc j v rfl
    simp only [lowerBy, pick]
    grind [pick]

theorem getL_map_lowerBy (mx n i : Nat) (cs : List (Cell α)) (hc : ∀ j ∈ idxs cs, j + n ≤ mx ∨ mx < j) (hn : n ≤ mx + 1) :
    getL (cs.map (lowerBy mx n)) i = if i + n ≤ mx then getL cs i else getL cs (i + n) := by
  induction cs with
  | nil => simp
  | cons c t ih =>
    have hc1 : ∀ j v, c = some (j, v) → j + n ≤ mx ∨ mx < j := by
      intro j v e; subst e; exact hc j (by simp)
    have hc2 : ∀ j ∈ idxs t, j + n ≤ mx ∨ mx < j := by
      intro j hj; apply hc
      cases c with
      | none => simpa using hj
      | some x => obtain ⟨k, w⟩ := x; simp [hj]
    simp only [getL, List.map, List.findSome?_cons] at *
    rw [pick_lowerBy mx n i c hc1 hn, ih hc2]
    grind

theorem count_idxs_map_lowerBy (mx n i : Nat) (cs : List (Cell α)) (hc : ∀ j ∈ idxs cs, j + n ≤ mx ∨ mx < j) (hn : n ≤ mx + 1) :
    (idxs (cs.map (lowerBy mx n))).count i = if i + n ≤ mx then (idxs cs).count i else (idxs cs).count (i + n) := by
  induction cs with
  | nil => simp
  | cons c t ih =>
    cases c with
    | none => simpa [lowerBy] using ih (by simpa using hc)
    | some x =>
      obtain ⟨j, v⟩ := x
      have hj := hc j (by simp)
      have hc2 : ∀ j ∈ idxs t, j + n ≤ mx ∨ mx < j := fun k hk => hc k (by simp [hk])
      simp only [List.map, lowerBy]
      split <;> simp only [idxs_some, List.count_cons, ih hc2] <;> grind

/-- the sequence of `(logical index, value)` pairs for `l[lo .. lo+n)` -/
def targetOf (l : List α) (lo n : Nat) : List (Nat × α) :=
  (((l.drop lo).take n).zipIdx lo).map fun (v, i) => (i, v)

theorem mem_zipIdx_swap (l : List α) (k j : Nat) (v : α) :
    (j, v) ∈ (l.zipIdx k).map (fun (v, i) => (i, v)) ↔ k ≤ j ∧ l[j - k]? = some v := by
  induction l generalizing k with
  | nil => simp
  | cons a t ih =>
    simp only [List.zipIdx_cons, List.map_cons, List.mem_cons, Prod.mk.injEq, ih]
    constructor
    · rintro (⟨rfl, rfl⟩ | ⟨h1, h2⟩)
      · simp
      · refine ⟨by omega, ?_⟩
        have : j - k = (j - (k+1)) + 1 := by omega
        rw [this]; simpa using h2
    · rintro ⟨h1, h2⟩
      by_cases e : j = k
      · subst e; simp at h2; exact Or.inl ⟨rfl, h2.symm⟩
      · refine Or.inr ⟨by omega, ?_⟩
        have : j - k = (j - (k+1)) + 1 := by omega
        rw [this] at h2; simpa using h2

theorem pairwise_zipIdx_swap (l : List α) (k : Nat) : ((l.zipIdx k).map (fun (v, i) => (i, v))).Pairwise KeysLt := by
  induction l generalizing k with
  | nil => simp
  | cons a t ih =>
    simp only [List.zipIdx_cons, List.map_cons]
    refine List.pairwise_cons.mpr ⟨?_, ih (k+1)⟩
    intro p hp
    obtain ⟨j, v⟩ := p
    have := (mem_zipIdx_swap t (k+1) j v).mp hp
    show k < j; omega

theorem pairwise_keysLt_nodup (l : List (Nat × α)) (h : l.Pairwise KeysLt) : l.Nodup := by
  refine List.Pairwise.imp ?_ h
  intro a b hab e; subst e; exact Nat.lt_irrefl _ hab

end Slots

namespace Slots
variable {α : Type}

def hiN (r : Rng) (cnt : Nat) : Nat := match r.hi with | none => cnt | some h => min h cnt

theorem contains_iff (r : Rng) (cnt j : Nat) (hj : j < cnt) : r.contains j = true ↔ r.lo ≤ j ∧ j < hiN r cnt := by
  unfold Rng.contains hiN
  cases r.hi <;> simp <;> omega

theorem contains_ge (r : Rng) (cnt j : Nat) (h : r.contains j = true) (hj : hiN r cnt ≤ j) (hlo : r.lo ≤ hiN r cnt) : cnt ≤ j := by
  unfold Rng.contains hiN at *
  cases hh : r.hi <;> simp [hh] at * <;> omega

theorem targetOf_map_snd (l : List α) (k : Nat) : ((l.zipIdx k).map (fun (v, i) => (i, v))).map (·.2) = l := by
  induction l generalizing k with
  | nil => rfl
  | cons a t ih => simp [List.zipIdx_cons, ih]

theorem drain_refines {N : Nat} {s : AM α} {l : List α} (hI : Inv N s) (hR : Refines s l) (r : Rng)
    (hlo : r.lo ≤ hiN r s.cnt) :
    ∃ s', drain s r = .ok ((l.drop r.lo).take (hiN r s.cnt - r.lo), s') ∧ Inv N s' ∧
      Refines s' (l.take r.lo ++ l.drop (hiN r s.cnt)) := by
  have hcntN := hI.cnt_le
  have hN := hI.2.1
  have hH : hiN r s.cnt ≤ s.cnt := by unfold hiN; cases r.hi <;> simp <;> omega
  generalize hHdef : hiN r s.cnt = H at *
  generalize hndef : H - r.lo = n at *
  have hlen : l.length = s.cnt := hR.1.symm
  have hnod : (idxs s.cells).Nodup := hI.perm.nodup_iff.mpr List.nodup_range
  have hc1 : ∀ j, (idxs s.cells).count j ≤ 1 := by intro j; rw [hI.2.2]; split <;> omega
  -- removed ~ target
  have hrem_nodup : (removedOf r s.cells).Nodup :=
    List.Pairwise.of_map (·.1) (fun a b hab e => hab (by rw [e])) ((removedOf_keys_sublist r s.cells).nodup hnod)
  have htgt_pw : (targetOf l r.lo n).Pairwise KeysLt := pairwise_zipIdx_swap _ _
  have hperm : (removedOf r s.cells).Perm (targetOf l r.lo n) := by
    rw [List.perm_ext_iff_of_nodup hrem_nodup (pairwise_keysLt_nodup _ htgt_pw)]
    rintro ⟨j, v⟩
    rw [mem_removedOf, mem_iff_getL _ _ _ (hc1 j), hR.2]
    unfold targetOf
    rw [mem_zipIdx_swap, List.getElem?_take, List.getElem?_drop]
    constructor
    · rintro ⟨h1, h2⟩
      have hj : j < s.cnt := by rw [← hlen]; exact (List.getElem?_eq_some_iff.mp h2).1
      have := (contains_iff r s.cnt j hj).mp h1
      rw [hHdef] at this
      have e : r.lo + (j - r.lo) = j := by omega
      rw [if_pos (by omega), e]
      exact ⟨by omega, h2⟩
    · rintro ⟨h1, h2⟩
      split at h2
      · rename_i hlt
        have e : r.lo + (j - r.lo) = j := by omega
        rw [e] at h2
        have hj : j < s.cnt := by rw [← hlen]; exact (List.getElem?_eq_some_iff.mp h2).1
        refine ⟨(contains_iff r s.cnt j hj).mpr ?_, h2⟩
        rw [hHdef]; omega
      · cases h2
  have hsorted : sortByIdx (removedOf r s.cells) = targetOf l r.lo n :=
    eq_of_perm_of_keysLt _ _ ((sortByIdx_perm _).trans hperm)
      (sortByIdx_pairwise _ ((removedOf_keys_sublist r s.cells).nodup hnod)) htgt_pw
  have hremlen : (removedOf r s.cells).length = n := by
    rw [hperm.length_eq]; unfold targetOf; simp; omega
  have hvals : (sortByIdx (removedOf r s.cells)).map (·.2) = (l.drop r.lo).take n := by
    rw [hsorted]; exact targetOf_map_snd _ _
  -- keys of the kept cells
  have hkeys : ∀ j ∈ idxs (keptOf r s.cells), j < r.lo ∨ (H ≤ j ∧ j < s.cnt) := by
    intro j hj
    have hpos : 0 < (idxs (keptOf r s.cells)).count j := List.count_pos_iff.mpr hj
    rw [count_idxs_keptOf, hI.2.2] at hpos
    by_cases hr : r.contains j = true
    · simp [hr] at hpos
    · by_cases hjc : j < s.cnt
      · have := (not_congr (contains_iff r s.cnt j hjc)).mp hr
        rw [hHdef] at this; omega
      · simp [hr, hjc] at hpos
  -- pointwise description of the final cells
  have hfinal : ∃ cs', (match maxIdx (removedOf r s.cells) with
        | none => keptOf r s.cells
        | some mx => (keptOf r s.cells).map (lowerBy mx (u8 n))) = cs' ∧ cs'.length = s.cells.length ∧
      (∀ i, getL cs' i = if i < r.lo then getL s.cells i else getL s.cells (i + n)) ∧
      (∀ i, (idxs cs').count i = if i < r.lo then (idxs s.cells).count i else (idxs s.cells).count (i + n)) := by
    have hgk : ∀ i, H ≤ i → getL (keptOf r s.cells) i = getL s.cells i := by
      intro i hi
      rw [getL_keptOf]
      by_cases hr : r.contains i = true
      · have := contains_ge r s.cnt i hr (by rw [hHdef]; exact hi) (by rw [hHdef]; exact hlo)
        simp [hr, hI.getL_none i this]
      · simp [hr]
    have hck : ∀ i, H ≤ i → (idxs (keptOf r s.cells)).count i = (idxs s.cells).count i := by
      intro i hi
      rw [count_idxs_keptOf]
      by_cases hr : r.contains i = true
      · have := contains_ge r s.cnt i hr (by rw [hHdef]; exact hi) (by rw [hHdef]; exact hlo)
        simp [hr, hI.2.2, this]
      · simp [hr]
    have hgl : ∀ i, i < r.lo → getL (keptOf r s.cells) i = getL s.cells i := by
      intro i hi
      rw [getL_keptOf]
      have : ¬ r.contains i = true := by
        intro h; unfold Rng.contains at h; simp at h; omega
      simp [this]
    have hcl : ∀ i, i < r.lo → (idxs (keptOf r s.cells)).count i = (idxs s.cells).count i := by
      intro i hi
      rw [count_idxs_keptOf]
      have : ¬ r.contains i = true := by
        intro h; unfold Rng.contains at h; simp at h; omega
      simp [this]
    by_cases hn0 : n = 0
    · have hnil : removedOf r s.cells = [] := List.length_eq_zero_iff.mp (by rw [hremlen, hn0])
      have hHlo : H = r.lo := by omega
      refine ⟨keptOf r s.cells, by rw [hnil]; simp [maxIdx], by simp, ?_, ?_⟩
      · intro i
        by_cases hi : i < r.lo
        · simp [hi, hgl i hi]
        · simp [hi, hn0, hgk i (by omega)]
      · intro i
        by_cases hi : i < r.lo
        · simp [hi, hcl i hi]
        · simp [hi, hn0, hck i (by omega)]
    · have hne : removedOf r s.cells ≠ [] := by
        intro e; rw [e] at hremlen; simp at hremlen; omega
      obtain ⟨m, hm, ⟨p, hp, hpm⟩, hall⟩ := (maxIdx_spec (removedOf r s.cells)).2 hne
      have hmem : ∀ q : Nat × α, q ∈ removedOf r s.cells ↔ q ∈ targetOf l r.lo n := fun q => hperm.mem_iff
      have hkeyrange : ∀ q ∈ targetOf l r.lo n, r.lo ≤ q.1 ∧ q.1 < r.lo + n := by
        rintro ⟨j, v⟩ hq
        unfold targetOf at hq
        rw [mem_zipIdx_swap, List.getElem?_take] at hq
        refine ⟨hq.1, ?_⟩
        by_cases h : j - r.lo < n
        · omega
        · simp [h] at hq
      have hm_le : m < r.lo + n := by
        have := (hkeyrange p ((hmem p).mp hp)).2; omega
      have hm_ge : r.lo + n - 1 ≤ m := by
        have hlast : (r.lo + n - 1, l[r.lo + n - 1]'(by omega)) ∈ targetOf l r.lo n := by
          unfold targetOf
          rw [mem_zipIdx_swap, List.getElem?_take, List.getElem?_drop]
          refine ⟨by omega, ?_⟩
          rw [if_pos (by omega)]
          have : r.lo + (r.lo + n - 1 - r.lo) = r.lo + n - 1 := by omega
          rw [this]; exact List.getElem?_eq_getElem _
        exact hall _ ((hmem _).mpr hlast)
      have hmx : m = H - 1 := by omega
      have hun : u8 n = n := u8_of_lt (by omega)
      have hcond : ∀ j ∈ idxs (keptOf r s.cells), j + n ≤ m ∨ m < j := by
        intro j hj; rcases hkeys j hj with h | h <;> omega
      refine ⟨(keptOf r s.cells).map (lowerBy m n), by rw [hm, hun], by simp, ?_, ?_⟩
      · intro i
        rw [getL_map_lowerBy m n i _ hcond (by omega)]
        by_cases hi : i < r.lo
        · rw [if_pos (by omega), if_pos hi, hgl i hi]
        · rw [if_neg (by omega), if_neg hi, hgk (i + n) (by omega)]
      · intro i
        rw [count_idxs_map_lowerBy m n i _ hcond (by omega)]
        by_cases hi : i < r.lo
        · rw [if_pos (by omega), if_pos hi, hcl i hi]
        · rw [if_neg (by omega), if_neg hi, hck (i + n) (by omega)]
  obtain ⟨cs', hcs', hl', hg', hc'⟩ := hfinal
  refine ⟨⟨cs', s.cnt - n⟩, ?_, ?_, ?_⟩
  · simp only [drain]
    rw [if_neg (by rw [hI.1]; omega)]
    show Except.ok ((sortByIdx (removedOf r s.cells)).map (·.2),
        (⟨match maxIdx (removedOf r s.cells) with
          | none => keptOf r s.cells
          | some mx => (keptOf r s.cells).map (lowerBy mx (u8 (removedOf r s.cells).length)),
          s.cnt - (removedOf r s.cells).length⟩ : AM α)) = _
    rw [hremlen, hvals, hcs']
  · refine ⟨by rw [hl', hI.1], hN, ?_⟩
    intro i
    show (idxs cs').count i = if i < s.cnt - n then 1 else 0
    rw [hc', hI.2.2, hI.2.2]
    grind
  · refine ⟨?_, ?_⟩
    · show s.cnt - n = _
      simp [List.length_append, List.length_take, List.length_drop]; omega
    · intro i
      show getL cs' i = _
      rw [hg', hR.2, hR.2, List.getElem?_append, List.getElem?_take, List.getElem?_drop, List.length_take]
      have : min r.lo l.length = r.lo := by omega
      rw [this]
      by_cases hi : i < r.lo
      · simp [hi]
      · simp [hi]; congr 1; omega

end Slots
