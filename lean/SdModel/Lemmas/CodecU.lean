import SdModel.Lemmas.Codec

/-! Round-trip lemmas for the unordered array-like and flat map-like wire codecs (C14). -/
namespace Codec

/-- a table triple is usable for `n` constructors: tags fit a byte, decoding inverts encoding -/
def TabOK (tb : List Nat × List Nat × List (Nat × Nat)) (n : Nat) : Prop :=
  ∀ k, k < n → tagOf tb.1 k < 256 ∧ ctorOf tb.2.2 (tagOf tb.1 k) = some k

theorem decU8_enc (v : Nat) (rest : Bytes) (h : v < 256) : decU8 (encU8 v ++ rest) = some (v, rest) :=
  readLE_le 1 v rest (by simpa using h)

/-- what fits the wire types: `u32` items, `usize` / `u8` counts -/
def WFUChange : UArr.Change Nat → Prop
  | .insertMany x n | .removeMany x n => x < 2 ^ 32 ∧ n < 2 ^ 64
  | .insertFew x n | .removeFew x n => x < 2 ^ 32 ∧ n < 256
  | .insertSingle x | .removeSingle x => x < 2 ^ 32

theorem decUChange_enc (f : Fmt) (hT : TabOK (tablesUArrChange f) 6) (c : UArr.Change Nat) (rest : Bytes) (hc : WFUChange c) :
    decUChange f (encUChange f c ++ rest) = some (c, rest) := by
  cases c with
  | insertMany x n =>
    obtain ⟨h1, h2⟩ := hT 0 (by decide)
    simp only [encUChange, encUChangeWith, uctorIdx, List.append_assoc, decUChange, decTag_enc f _ _ h1, h2,
      decElem_enc x _ hc.1, decUsize_enc n _ hc.2, Option.map_some]
  | removeMany x n =>
    obtain ⟨h1, h2⟩ := hT 1 (by decide)
    simp only [encUChange, encUChangeWith, uctorIdx, List.append_assoc, decUChange, decTag_enc f _ _ h1, h2,
      decElem_enc x _ hc.1, decUsize_enc n _ hc.2, Option.map_some]
  | insertFew x n =>
    obtain ⟨h1, h2⟩ := hT 2 (by decide)
    simp only [encUChange, encUChangeWith, uctorIdx, List.append_assoc, decUChange, decTag_enc f _ _ h1, h2,
      decElem_enc x _ hc.1, decU8_enc n _ hc.2, Option.map_some]
  | removeFew x n =>
    obtain ⟨h1, h2⟩ := hT 3 (by decide)
    simp only [encUChange, encUChangeWith, uctorIdx, List.append_assoc, decUChange, decTag_enc f _ _ h1, h2,
      decElem_enc x _ hc.1, decU8_enc n _ hc.2, Option.map_some]
  | insertSingle x =>
    obtain ⟨h1, h2⟩ := hT 4 (by decide)
    simp only [encUChange, encUChangeWith, uctorIdx, List.append_assoc, decUChange, decTag_enc f _ _ h1, h2,
      decElem_enc x _ hc, Option.map_some]
  | removeSingle x =>
    obtain ⟨h1, h2⟩ := hT 5 (by decide)
    simp only [encUChange, encUChangeWith, uctorIdx, List.append_assoc, decUChange, decTag_enc f _ _ h1, h2,
      decElem_enc x _ hc, Option.map_some]

def WFUDiff : UArr.Diff Nat → Prop
  | .replace l => (∀ x ∈ l, x < 2 ^ 32) ∧ l.length < 2 ^ 64
  | .modify es => (∀ c ∈ es, WFUChange c) ∧ es.length < 2 ^ 64

theorem decUDiff_enc (f : Fmt) (hC : TabOK (tablesUArrChange f) 6) (hD : TabOK (tablesUArrDiff f) 2)
    (d : UArr.Diff Nat) (rest : Bytes) (hd : WFUDiff d) :
    decUDiff f (encUDiff f d ++ rest) = some (d, rest) := by
  cases d with
  | replace l =>
    obtain ⟨h1, h2⟩ := hD 0 (by decide)
    simp only [encUDiff, encUDiffWith, udiffIdx, List.append_assoc, decUDiff, decTag_enc f _ _ h1, h2]
    rw [decList_enc encElem decElem (· < 2 ^ 32) (fun x r h => decElem_enc x r h) l hd.1 hd.2 rest]
    rfl
  | modify es =>
    obtain ⟨h1, h2⟩ := hD 1 (by decide)
    simp only [encUDiff, encUDiffWith, udiffIdx, List.append_assoc, decUDiff, decTag_enc f _ _ h1, h2]
    rw [decList_enc (encUChange f) (decUChange f) WFUChange (fun c r h => decUChange_enc f hC c r h) es hd.1 hd.2 rest]
    rfl

/-! flat map-like -/

def WFMChange : UMap.Change Nat Nat → Prop
  | .insertMany k v n => k < 2 ^ 32 ∧ v < 2 ^ 32 ∧ n < 2 ^ 64
  | .removeMany k n => k < 2 ^ 32 ∧ n < 2 ^ 64
  | .insertSingle k v => k < 2 ^ 32 ∧ v < 2 ^ 32
  | .removeSingle k => k < 2 ^ 32

theorem decMChange_enc (f : Fmt) (hT : TabOK (tablesUMapChange f) 4) (c : UMap.Change Nat Nat) (rest : Bytes) (hc : WFMChange c) :
    decMChange f (encMChange f c ++ rest) = some (c, rest) := by
  cases c with
  | insertMany k v n =>
    obtain ⟨h1, h2⟩ := hT 0 (by decide)
    simp only [encMChange, encMChangeWith, mctorIdx, List.append_assoc, decMChange, decTag_enc f _ _ h1, h2,
      decElem_enc k _ hc.1, decElem_enc v _ hc.2.1, decUsize_enc n _ hc.2.2, Option.map_some]
  | removeMany k n =>
    obtain ⟨h1, h2⟩ := hT 1 (by decide)
    simp only [encMChange, encMChangeWith, mctorIdx, List.append_assoc, decMChange, decTag_enc f _ _ h1, h2,
      decElem_enc k _ hc.1, decUsize_enc n _ hc.2, Option.map_some]
  | insertSingle k v =>
    obtain ⟨h1, h2⟩ := hT 2 (by decide)
    simp only [encMChange, encMChangeWith, mctorIdx, List.append_assoc, decMChange, decTag_enc f _ _ h1, h2,
      decElem_enc k _ hc.1, decElem_enc v _ hc.2, Option.map_some]
  | removeSingle k =>
    obtain ⟨h1, h2⟩ := hT 3 (by decide)
    simp only [encMChange, encMChangeWith, mctorIdx, List.append_assoc, decMChange, decTag_enc f _ _ h1, h2,
      decElem_enc k _ hc, Option.map_some]

theorem decPair_enc (kv : Nat × Nat) (rest : Bytes) (h : kv.1 < 2 ^ 32 ∧ kv.2 < 2 ^ 32) :
    decPair (encPair kv ++ rest) = some (kv, rest) := by
  simp only [encPair, decPair, List.append_assoc, decElem_enc kv.1 _ h.1, decElem_enc kv.2 _ h.2, Option.map_some]

def WFMDiff : UMap.Diff Nat Nat → Prop
  | .replace l => (∀ kv ∈ l, kv.1 < 2 ^ 32 ∧ kv.2 < 2 ^ 32) ∧ l.length < 2 ^ 64
  | .modify es => (∀ c ∈ es, WFMChange c) ∧ es.length < 2 ^ 64

theorem decMDiff_enc (f : Fmt) (hC : TabOK (tablesUMapChange f) 4) (hD : TabOK (tablesUMapDiff f) 2)
    (d : UMap.Diff Nat Nat) (rest : Bytes) (hd : WFMDiff d) :
    decMDiff f (encMDiff f d ++ rest) = some (d, rest) := by
  cases d with
  | replace l =>
    obtain ⟨h1, h2⟩ := hD 0 (by decide)
    simp only [encMDiff, encMDiffWith, mdiffIdx, List.append_assoc, decMDiff, decTag_enc f _ _ h1, h2]
    rw [decList_enc encPair decPair (fun kv => kv.1 < 2 ^ 32 ∧ kv.2 < 2 ^ 32) (fun x r h => decPair_enc x r h) l hd.1 hd.2 rest]
    rfl
  | modify es =>
    obtain ⟨h1, h2⟩ := hD 1 (by decide)
    simp only [encMDiff, encMDiffWith, mdiffIdx, List.append_assoc, decMDiff, decTag_enc f _ _ h1, h2]
    rw [decList_enc (encMChange f) (decMChange f) WFMChange (fun c r h => decMChange_enc f hC c r h) es hd.1 hd.2 rest]
    rfl


/-! recursive map-like, generic in the nested codecs -/

/-- the law a nested codec must satisfy on the values that occur -/
def Cdc.Law {β : Type} (c : Cdc β) (wf : β → Prop) : Prop := ∀ x rest, wf x → c.dec (c.enc x ++ rest) = some (x, rest)

variable {ν δ : Type}

def WFRChange (wv : ν → Prop) (wd : δ → Prop) : RMap.Change Nat ν δ → Prop
  | .insert k v => k < 2 ^ 32 ∧ wv v
  | .remove k => k < 2 ^ 32
  | .change k d => k < 2 ^ 32 ∧ wd d

theorem decRChange_enc (f : Fmt) (hT : TabOK (tablesRMapChange f) 3) (V : Cdc ν) (D : Cdc δ) (wv : ν → Prop) (wd : δ → Prop)
    (hV : V.Law wv) (hD : D.Law wd) (c : RMap.Change Nat ν δ) (rest : Bytes) (hc : WFRChange wv wd c) :
    decRChange f V D (encRChange f V D c ++ rest) = some (c, rest) := by
  cases c with
  | insert k v =>
    obtain ⟨h1, h2⟩ := hT 0 (by decide)
    simp only [encRChange, encRChangeWith, rctorIdx, List.append_assoc, decRChange, decTag_enc f _ _ h1, h2,
      decElem_enc k _ hc.1, hV v rest hc.2, Option.map_some]
  | remove k =>
    obtain ⟨h1, h2⟩ := hT 1 (by decide)
    simp only [encRChange, encRChangeWith, rctorIdx, List.append_assoc, decRChange, decTag_enc f _ _ h1, h2,
      decElem_enc k _ hc, Option.map_some]
  | change k d =>
    obtain ⟨h1, h2⟩ := hT 2 (by decide)
    simp only [encRChange, encRChangeWith, rctorIdx, List.append_assoc, decRChange, decTag_enc f _ _ h1, h2,
      decElem_enc k _ hc.1, hD d rest hc.2, Option.map_some]

theorem decKV_enc (V : Cdc ν) (wv : ν → Prop) (hV : V.Law wv) (kv : Nat × ν) (rest : Bytes) (h : kv.1 < 2 ^ 32 ∧ wv kv.2) :
    decKV V (encKV V kv ++ rest) = some (kv, rest) := by
  simp only [encKV, decKV, List.append_assoc, decElem_enc kv.1 _ h.1, hV kv.2 rest h.2, Option.map_some]

def WFRDiff (wv : ν → Prop) (wd : δ → Prop) : RMap.Diff Nat ν δ → Prop
  | .replace l => (∀ kv ∈ l, kv.1 < 2 ^ 32 ∧ wv kv.2) ∧ l.length < 2 ^ 64
  | .modify es => (∀ c ∈ es, WFRChange wv wd c) ∧ es.length < 2 ^ 64

theorem decRDiff_enc (f : Fmt) (hC : TabOK (tablesRMapChange f) 3) (hDt : TabOK (tablesRMapDiff f) 2)
    (V : Cdc ν) (D : Cdc δ) (wv : ν → Prop) (wd : δ → Prop) (hV : V.Law wv) (hD : D.Law wd)
    (d : RMap.Diff Nat ν δ) (rest : Bytes) (hd : WFRDiff wv wd d) :
    decRDiff f V D (encRDiff f V D d ++ rest) = some (d, rest) := by
  cases d with
  | replace l =>
    obtain ⟨h1, h2⟩ := hDt 0 (by decide)
    simp only [encRDiff, encRDiffWith, rdiffIdx, List.append_assoc, decRDiff, decTag_enc f _ _ h1, h2]
    rw [decList_enc (encKV V) (decKV V) (fun kv => kv.1 < 2 ^ 32 ∧ wv kv.2) (fun x r h => decKV_enc V wv hV x r h) l hd.1 hd.2 rest]
    rfl
  | modify es =>
    obtain ⟨h1, h2⟩ := hDt 1 (by decide)
    simp only [encRDiff, encRDiffWith, rdiffIdx, List.append_assoc, decRDiff, decTag_enc f _ _ h1, h2]
    rw [decList_enc (encRChange f V D) (decRChange f V D) (WFRChange wv wd)
      (fun c r h => decRChange_enc f hC V D wv wd hV hD c r h) es hd.1 hd.2 rest]
    rfl

/-! derived struct diffs: entries framed by the rank of their field among the unskipped ones -/

theorem rank_le (skips : List Bool) (j : Nat) : rank skips j ≤ j := by
  induction skips generalizing j with
  | nil => simp [rank]
  | cons b t ih =>
    cases j with
    | zero => simp [rank]
    | succ j => have := ih j; simp only [rank]; split <;> omega

/-- the discriminant identifies the field: `unrank` inverts `rank` on unskipped positions -/
theorem unrank_rank (skips : List Bool) (j : Nat) (h : skips[j]? = some false) : unrank skips (rank skips j) = some j := by
  induction skips generalizing j with
  | nil => simp at h
  | cons b t ih =>
    cases j with
    | zero =>
      simp only [List.getElem?_cons_zero, Option.some.injEq] at h
      subst h; simp [rank, unrank]
    | succ j =>
      simp only [List.getElem?_cons_succ] at h
      cases b with
      | true => simp [rank, unrank, ih j h]
      | false =>
        simp only [rank, Bool.false_eq_true, if_false]
        rw [show 1 + rank t j = rank t j + 1 by omega]
        simp [unrank, ih j h]

/-- two different unskipped fields never share a discriminant -/
theorem rank_inj (skips : List Bool) (i j : Nat) (hi : skips[i]? = some false) (hj : skips[j]? = some false)
    (h : rank skips i = rank skips j) : i = j := by
  have h1 := unrank_rank skips i hi
  have h2 := unrank_rank skips j hj
  rw [h] at h1; rw [h1] at h2; exact Option.some.inj h2

theorem decDTag_enc (f : Fmt) (t : Nat) (rest : Bytes) (h : t < 2 ^ 16) : decDTag f (encDTag f t ++ rest) = some (t, rest) := by
  cases f
  · exact readLE_le 2 t rest (by have : (256:Nat) ^ 2 = 2 ^ 16 := by decide
                                 omega)
  · exact readLE_le 4 t rest (by have : (256:Nat) ^ 4 = 4294967296 := by decide
                                 have : (2:Nat) ^ 16 = 65536 := by decide
                                 omega)

variable {π : Type}

/-- an entry is well-formed: it addresses an unskipped field and its payload satisfies that field's law -/
def WFEntry (skips : List Bool) (wf : Nat → π → Prop) (e : Nat × π) : Prop := skips[e.1]? = some false ∧ wf e.1 e.2

theorem decEntry_enc (f : Fmt) (skips : List Bool) (hs : skips.length < 2 ^ 16) (P : Nat → Cdc π) (wf : Nat → π → Prop)
    (hP : ∀ j, (P j).Law (wf j)) (e : Nat × π) (rest : Bytes) (he : WFEntry skips wf e) :
    decEntry f skips P (encEntry f skips P e ++ rest) = some (e, rest) := by
  obtain ⟨j, p⟩ := e
  obtain ⟨h1, h2⟩ := he
  have hj : j < skips.length := by
    rcases Nat.lt_or_ge j skips.length with h | h
    · exact h
    · simp [List.getElem?_eq_none h] at h1
  have hr : rank skips j < 2 ^ 16 := Nat.lt_of_le_of_lt (rank_le skips j) (Nat.lt_trans hj hs)
  simp only [encEntry, List.append_assoc, decEntry, decDTag_enc f _ _ hr, unrank_rank skips j h1, hP j p rest h2, Option.map_some]

/-- **derived struct diffs survive the wire**: decode ∘ encode = id for every entry list addressing unskipped fields,
for ANY payload codecs that are themselves inverse pairs, both formats -/
theorem decEntries_enc (f : Fmt) (skips : List Bool) (hs : skips.length < 2 ^ 16) (P : Nat → Cdc π) (wf : Nat → π → Prop)
    (hP : ∀ j, (P j).Law (wf j)) (es : List (Nat × π)) (hes : ∀ e ∈ es, WFEntry skips wf e) (hlen : es.length < 2 ^ 64)
    (rest : Bytes) : decEntries f skips P (encEntries f skips P es ++ rest) = some (es, rest) :=
  decList_enc (encEntry f skips P) (decEntry f skips P) (WFEntry skips wf)
    (fun e r h => decEntry_enc f skips hs P wf hP e r h) es hes hlen rest

/-- the borrowed diff enum has its variants in the same order: with payload encoders that write the same bytes, the
serialized `DiffRef` list is byte-identical to the serialized `Diff` list -/
theorem encEntries_ref_eq (f : Fmt) (skips : List Bool) (P Pr : Nat → Cdc π) (h : ∀ j p, (Pr j).enc p = (P j).enc p)
    (es : List (Nat × π)) : encEntries f skips Pr es = encEntries f skips P es := by
  have : encEntry f skips Pr = encEntry f skips P := by
    funext e; simp only [encEntry, h]
  simp only [encEntries, this]

/-! the general form with widths -/

theorem rankW_le (ws : List Nat) (j : Nat) : rankW ws j ≤ (ws.take j).sum := by
  induction ws generalizing j with
  | nil => simp [rankW]
  | cons w t ih =>
    cases j with
    | zero => simp [rankW]
    | succ j => have := ih j; simp only [rankW, List.take_succ_cons, List.sum_cons]; omega

theorem unrankW_rankW (ws : List Nat) (j a w : Nat) (h : ws[j]? = some w) (ha : a < w) :
    unrankW ws (rankW ws j + a) = some (j, a) := by
  induction ws generalizing j with
  | nil => simp at h
  | cons w0 t ih =>
    cases j with
    | zero =>
      simp only [List.getElem?_cons_zero, Option.some.injEq] at h
      subst h
      simp [rankW, unrankW, ha]
    | succ j =>
      simp only [List.getElem?_cons_succ] at h
      have : ¬ (w0 + rankW t j + a < w0) := by omega
      simp only [rankW, unrankW, this, if_false]
      rw [show w0 + rankW t j + a - w0 = rankW t j + a by omega, ih j h]
      rfl

/-- different (field, alternative) pairs never share a discriminant -/
theorem rankW_inj (ws : List Nat) (i a j b wi wj : Nat) (hi : ws[i]? = some wi) (ha : a < wi) (hj : ws[j]? = some wj) (hb : b < wj)
    (h : rankW ws i + a = rankW ws j + b) : i = j ∧ a = b := by
  have h1 := unrankW_rankW ws i a wi hi ha
  have h2 := unrankW_rankW ws j b wj hj hb
  rw [h, h2] at h1
  simpa using h1.symm

theorem rankW_lt (ws : List Nat) (j a w : Nat) (h : ws[j]? = some w) (ha : a < w) : rankW ws j + a < ws.sum := by
  induction ws generalizing j with
  | nil => simp at h
  | cons w0 t ih =>
    cases j with
    | zero =>
      simp only [List.getElem?_cons_zero, Option.some.injEq] at h
      subst h; simp only [rankW, List.sum_cons]; omega
    | succ j =>
      simp only [List.getElem?_cons_succ] at h
      have := ih j h
      simp only [rankW, List.sum_cons]; omega

/-- a discriminant no generated variant has is not accepted: `unrankW` fails exactly from the number of variants on -/
theorem unrankW_none_iff (ws : List Nat) (t : Nat) : unrankW ws t = none ↔ ws.sum ≤ t := by
  induction ws generalizing t with
  | nil => simp [unrankW]
  | cons w r ih =>
    simp only [unrankW, List.sum_cons]
    by_cases h : t < w
    · simp only [h, if_true]
      constructor
      · intro h'; cases h'
      · intro h'; omega
    · simp only [h, if_false, Option.map_eq_none_iff, ih]
      omega

variable {π : Type}

/-- an entry whose discriminant is not that of any generated variant is rejected, whatever follows -/
theorem decEntryW_bad_discriminant (f : Fmt) (ws : List Nat) (P : Nat → Nat → Cdc π) (t : Nat) (rest : Bytes)
    (h1 : ws.sum ≤ t) (h2 : t < 2 ^ 16) : decEntryW f ws P (encDTag f t ++ rest) = none := by
  simp only [decEntryW, decDTag_enc f t rest h2, (unrankW_none_iff ws t).mpr h1]

/-- an entry is well-formed: its alternative exists for its field and its payload satisfies that alternative's law -/
def WFEntryW (ws : List Nat) (wf : Nat → Nat → π → Prop) (e : (Nat × Nat) × π) : Prop :=
  (∃ w, ws[e.1.1]? = some w ∧ e.1.2 < w) ∧ wf e.1.1 e.1.2 e.2

theorem decEntryW_enc (f : Fmt) (ws : List Nat) (hs : ws.sum < 2 ^ 16) (P : Nat → Nat → Cdc π) (wf : Nat → Nat → π → Prop)
    (hP : ∀ j a, (P j a).Law (wf j a)) (e : (Nat × Nat) × π) (rest : Bytes) (he : WFEntryW ws wf e) :
    decEntryW f ws P (encEntryW f ws P e ++ rest) = some (e, rest) := by
  obtain ⟨⟨j, a⟩, p⟩ := e
  obtain ⟨⟨w, h1, h2⟩, h3⟩ := he
  have hr : rankW ws j + a < 2 ^ 16 := Nat.lt_trans (rankW_lt ws j a w h1 h2) hs
  simp only [encEntryW, List.append_assoc, decEntryW, decDTag_enc f _ _ hr, unrankW_rankW ws j a w h1 h2, hP j a p rest h3, Option.map_some]

/-- decode ∘ encode = id for entry lists over (field, alternative), for ANY payload codecs that are inverse pairs -/
theorem decEntriesW_enc (f : Fmt) (ws : List Nat) (hs : ws.sum < 2 ^ 16) (P : Nat → Nat → Cdc π) (wf : Nat → Nat → π → Prop)
    (hP : ∀ j a, (P j a).Law (wf j a)) (es : List ((Nat × Nat) × π)) (hes : ∀ e ∈ es, WFEntryW ws wf e) (hlen : es.length < 2 ^ 64)
    (rest : Bytes) : decEntriesW f ws P (encEntriesW f ws P es ++ rest) = some (es, rest) :=
  decList_enc (encEntryW f ws P) (decEntryW f ws P) (WFEntryW ws wf)
    (fun e r h => decEntryW_enc f ws hs P wf hP e r h) es hes hlen rest

theorem optTag_one (f : Fmt) : optTag f 1 = some true := by simp [optTag]
theorem optTag_zero (f : Fmt) : optTag f 0 = some false := by cases f <;> simp [optTag]

theorem optCdc_law {β : Type} (f : Fmt) (c : Cdc β) (wf : β → Prop) (h : c.Law wf) :
    (optCdc f c).Law (fun o => ∀ x, o = some x → wf x) := by
  intro o rest ho
  cases o with
  | none => simp [optCdc, optTag_zero]
  | some x => simp [optCdc, optTag_one, h x rest (ho x rfl)]

/-- what a payload must be for a field of the given kind -/
def WFPV (isOpt : Bool) : PV → Prop
  | .u v => isOpt = false ∧ v < 2 ^ 32
  | .o none => isOpt = true
  | .o (some v) => isOpt = true ∧ v < 2 ^ 32

theorem pvCdc_law (f : Fmt) (isOpt : Bool) : (pvCdc f isOpt).Law (WFPV isOpt) := by
  intro x rest h
  cases x with
  | u v =>
    obtain ⟨h1, h2⟩ := h
    subst h1
    simp [pvCdc, decElem_enc v rest h2]
  | o v =>
    cases v with
    | none => simp only [WFPV] at h; subst h; simp [pvCdc, optTag_zero]
    | some v =>
      obtain ⟨h1, h2⟩ := h
      subst h1
      simp [pvCdc, optTag_one, decElem_enc v rest h2]

/-! recursive maps of flat values as fields -/

def WFVals : List Bool → List PV → Prop
  | [], [] => True
  | o :: t, v :: vs => WFPV o v ∧ WFVals t vs
  | _, _ => False

theorem valsCdc_law (f : Fmt) (opts : List Bool) : (valsCdc f opts).Law (WFVals opts) := by
  intro vs rest h
  induction opts generalizing vs with
  | nil =>
    cases vs with
    | nil => simp [valsCdc, decVals]
    | cons _ _ => simp [WFVals] at h
  | cons o t ih =>
    cases vs with
    | nil => simp [WFVals] at h
    | cons v vs =>
      obtain ⟨h1, h2⟩ := h
      have e1 : (pvCdc f false).enc v = (pvCdc f o).enc v := rfl
      have := ih vs h2
      simp only [valsCdc] at this ⊢
      simp only [List.map_cons, List.flatten_cons, List.append_assoc, decVals, e1, pvCdc_law f o v _ h1, this, Option.map_some]

def WFLeafEntries (L : LeafTy) (es : List (Nat × PV)) : Prop :=
  (∀ e ∈ es, WFEntry L.skips (fun j => WFPV (L.opts.getD j false)) e) ∧ es.length < 2 ^ 64

theorem leafEntriesCdc_law (f : Fmt) (L : LeafTy) (hL : L.skips.length < 2 ^ 16) :
    (leafEntriesCdc f L).Law (WFLeafEntries L) := by
  intro es rest h
  exact decEntries_enc f L.skips hL _ _ (fun j => pvCdc_law f (L.opts.getD j false)) es h.1 h.2 rest

/-- well-formed payload for alternative `alt` of a field of the given kind -/
def WFPL : FKind → Nat → PL → Prop
  | .flat o, _, .pv p => WFPV o p
  | .nested L, _, .ne es => L.skips.length < 2 ^ 16 ∧ WFLeafEntries L es
  | .optNested L, 0, .on o => L.skips.length < 2 ^ 16 ∧ ∀ es, o = some es → WFLeafEntries L es
  | .optNested L, _ + 1, .full vs => WFVals L.opts vs
  | .ord, _, .sc s => (∀ c ∈ s, WFChange c) ∧ s.length < 2 ^ 64
  | .uarr, _, .ua d => WFUDiff d
  | .umap, _, .um d => WFMDiff d
  | .rmap L, _, .rm d => L.skips.length < 2 ^ 16 ∧ WFRDiff (WFVals L.opts) (WFLeafEntries L) d
  | _, _, _ => False

/-- every extracted discriminant table of the hand-written codecs is inverted by its decode table -/
structure AllTabs (f : Fmt) : Prop where
  script : TablesOK f
  uchange : TabOK (tablesUArrChange f) 6
  udiff : TabOK (tablesUArrDiff f) 2
  mchange : TabOK (tablesUMapChange f) 4
  mdiff : TabOK (tablesUMapDiff f) 2
  rchange : TabOK (tablesRMapChange f) 3
  rdiff : TabOK (tablesRMapDiff f) 2

theorem plCdc_law (f : Fmt) (hT : AllTabs f) (k : FKind) (alt : Nat) : (plCdc f k alt).Law (WFPL k alt) := by
  intro p rest h
  cases k with
  | flat o =>
    cases p <;> try (simp [WFPL] at h; done)
    rename_i p
    simp only [plCdc, pvCdc_law f o p rest h, Option.map_some]
  | nested L =>
    cases p <;> try (simp [WFPL] at h; done)
    rename_i es
    obtain ⟨hL, he⟩ := h
    simp only [plCdc, leafEntriesCdc_law f L hL es rest he, Option.map_some]
  | optNested L =>
    cases alt with
    | zero =>
      cases p <;> try (simp [WFPL] at h; done)
      rename_i o
      obtain ⟨hL, ho⟩ := h
      simp only [plCdc, optCdc_law f _ _ (leafEntriesCdc_law f L hL) o rest ho, Option.map_some]
    | succ a =>
      cases p <;> try (simp [WFPL] at h; done)
      rename_i vs
      simp only [plCdc, valsCdc_law f L.opts vs rest h, Option.map_some]
  | ord =>
    cases p <;> try (simp [WFPL] at h; done)
    rename_i s
    simp only [plCdc, decScript_enc f hT.script s h.1 h.2 rest, Option.map_some]
  | uarr =>
    cases p <;> try (simp [WFPL] at h; done)
    rename_i d
    simp only [plCdc, decUDiff_enc f hT.uchange hT.udiff d rest h, Option.map_some]
  | umap =>
    cases p <;> try (simp [WFPL] at h; done)
    rename_i d
    simp only [plCdc, decMDiff_enc f hT.mchange hT.mdiff d rest h, Option.map_some]
  | rmap L =>
    cases p <;> try (simp [WFPL] at h; done)
    rename_i d
    obtain ⟨hL, hd⟩ := h
    simp only [plCdc, decRDiff_enc f hT.rchange hT.rdiff _ _ _ _ (valsCdc_law f L.opts) (leafEntriesCdc_law f L hL) d rest hd, Option.map_some]

end Codec
