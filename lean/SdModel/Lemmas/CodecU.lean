import SdModel.Lemmas.Codec

/-! Round-trip lemmas for the unordered array-like and flat map-like wire codecs (C14). -/
namespace Codec

/-- a table triple is usable for `n` constructors: tags fit a byte, decoding inverts encoding -/
def TabOK (tb : List Nat × List Nat × List (Nat × Nat)) (n : Nat) : Prop :=
  ∀ k, k < n → tagOf tb.1 k < 256 ∧ ctorOf tb.2.2 (tagOf tb.1 k) = some k

theorem decU8_enc (v : Nat) (rest : Bytes) (h : v < 256) : decU8 (encU8 v ++ rest) = some (v, rest) :=
  readLE_le 1 v rest (by simpa using h)

/-- what fits the wire types: `u32` items, `usize` / `u8` counts -/
def WFUChange : UArr.Change Nat → Prop
  | .insertMany x n | .removeMany x n => x < 2 ^ 32 ∧ n < 2 ^ 64
  | .insertFew x n | .removeFew x n => x < 2 ^ 32 ∧ n < 256
  | .insertSingle x | .removeSingle x => x < 2 ^ 32

theorem decUChange_enc (f : Fmt) (hT : TabOK (tablesUArrChange f) 6) (c : UArr.Change Nat) (rest : Bytes) (hc : WFUChange c) :
    decUChange f (encUChange f c ++ rest) = some (c, rest) := by
  cases c with
  | insertMany x n =>
    obtain ⟨h1, h2⟩ := hT 0 (by decide)
    simp only [encUChange, encUChangeWith, uctorIdx, List.append_assoc, decUChange, decTag_enc f _ _ h1, h2,
      decElem_enc x _ hc.1, decUsize_enc n _ hc.2, Option.map_some]
  | removeMany x n =>
    obtain ⟨h1, h2⟩ := hT 1 (by decide)
    simp only [encUChange, encUChangeWith, uctorIdx, List.append_assoc, decUChange, decTag_enc f _ _ h1, h2,
      decElem_enc x _ hc.1, decUsize_enc n _ hc.2, Option.map_some]
  | insertFew x n =>
    obtain ⟨h1, h2⟩ := hT 2 (by decide)
    simp only [encUChange, encUChangeWith, uctorIdx, List.append_assoc, decUChange, decTag_enc f _ _ h1, h2,
      decElem_enc x _ hc.1, decU8_enc n _ hc.2, Option.map_some]
  | removeFew x n =>
    obtain ⟨h1, h2⟩ := hT 3 (by decide)
    simp only [encUChange, encUChangeWith, uctorIdx, List.append_assoc, decUChange, decTag_enc f _ _ h1, h2,
      decElem_enc x _ hc.1, decU8_enc n _ hc.2, Option.map_some]
  | insertSingle x =>
    obtain ⟨h1, h2⟩ := hT 4 (by decide)
    simp only [encUChange, encUChangeWith, uctorIdx, List.append_assoc, decUChange, decTag_enc f _ _ h1, h2,
      decElem_enc x _ hc, Option.map_some]
  | removeSingle x =>
    obtain ⟨h1, h2⟩ := hT 5 (by decide)
    simp only [encUChange, encUChangeWith, uctorIdx, List.append_assoc, decUChange, decTag_enc f _ _ h1, h2,
      decElem_enc x _ hc, Option.map_some]

def WFUDiff : UArr.Diff Nat → Prop
  | .replace l => (∀ x ∈ l, x < 2 ^ 32) ∧ l.length < 2 ^ 64
  | .modify es => (∀ c ∈ es, WFUChange c) ∧ es.length < 2 ^ 64

theorem decUDiff_enc (f : Fmt) (hC : TabOK (tablesUArrChange f) 6) (hD : TabOK (tablesUArrDiff f) 2)
    (d : UArr.Diff Nat) (rest : Bytes) (hd : WFUDiff d) :
    decUDiff f (encUDiff f d ++ rest) = some (d, rest) := by
  cases d with
  | replace l =>
    obtain ⟨h1, h2⟩ := hD 0 (by decide)
    simp only [encUDiff, encUDiffWith, udiffIdx, List.append_assoc, decUDiff, decTag_enc f _ _ h1, h2]
    rw [decList_enc encElem decElem (· < 2 ^ 32) (fun x r h => decElem_enc x r h) l hd.1 hd.2 rest]
    rfl
  | modify es =>
    obtain ⟨h1, h2⟩ := hD 1 (by decide)
    simp only [encUDiff, encUDiffWith, udiffIdx, List.append_assoc, decUDiff, decTag_enc f _ _ h1, h2]
    rw [decList_enc (encUChange f) (decUChange f) WFUChange (fun c r h => decUChange_enc f hC c r h) es hd.1 hd.2 rest]
    rfl

/-! flat map-like -/

def WFMChange : UMap.Change Nat Nat → Prop
  | .insertMany k v n => k < 2 ^ 32 ∧ v < 2 ^ 32 ∧ n < 2 ^ 64
  | .removeMany k n => k < 2 ^ 32 ∧ n < 2 ^ 64
  | .insertSingle k v => k < 2 ^ 32 ∧ v < 2 ^ 32
  | .removeSingle k => k < 2 ^ 32

theorem decMChange_enc (f : Fmt) (hT : TabOK (tablesUMapChange f) 4) (c : UMap.Change Nat Nat) (rest : Bytes) (hc : WFMChange c) :
    decMChange f (encMChange f c ++ rest) = some (c, rest) := by
  cases c with
  | insertMany k v n =>
    obtain ⟨h1, h2⟩ := hT 0 (by decide)
    simp only [encMChange, encMChangeWith, mctorIdx, List.append_assoc, decMChange, decTag_enc f _ _ h1, h2,
      decElem_enc k _ hc.1, decElem_enc v _ hc.2.1, decUsize_enc n _ hc.2.2, Option.map_some]
  | removeMany k n =>
    obtain ⟨h1, h2⟩ := hT 1 (by decide)
    simp only [encMChange, encMChangeWith, mctorIdx, List.append_assoc, decMChange, decTag_enc f _ _ h1, h2,
      decElem_enc k _ hc.1, decUsize_enc n _ hc.2, Option.map_some]
  | insertSingle k v =>
    obtain ⟨h1, h2⟩ := hT 2 (by decide)
    simp only [encMChange, encMChangeWith, mctorIdx, List.append_assoc, decMChange, decTag_enc f _ _ h1, h2,
      decElem_enc k _ hc.1, decElem_enc v _ hc.2, Option.map_some]
  | removeSingle k =>
    obtain ⟨h1, h2⟩ := hT 3 (by decide)
    simp only [encMChange, encMChangeWith, mctorIdx, List.append_assoc, decMChange, decTag_enc f _ _ h1, h2,
      decElem_enc k _ hc, Option.map_some]

theorem decPair_enc (kv : Nat × Nat) (rest : Bytes) (h : kv.1 < 2 ^ 32 ∧ kv.2 < 2 ^ 32) :
    decPair (encPair kv ++ rest) = some (kv, rest) := by
  simp only [encPair, decPair, List.append_assoc, decElem_enc kv.1 _ h.1, decElem_enc kv.2 _ h.2, Option.map_some]

def WFMDiff : UMap.Diff Nat Nat → Prop
  | .replace l => (∀ kv ∈ l, kv.1 < 2 ^ 32 ∧ kv.2 < 2 ^ 32) ∧ l.length < 2 ^ 64
  | .modify es => (∀ c ∈ es, WFMChange c) ∧ es.length < 2 ^ 64

theorem decMDiff_enc (f : Fmt) (hC : TabOK (tablesUMapChange f) 4) (hD : TabOK (tablesUMapDiff f) 2)
    (d : UMap.Diff Nat Nat) (rest : Bytes) (hd : WFMDiff d) :
    decMDiff f (encMDiff f d ++ rest) = some (d, rest) := by
  cases d with
  | replace l =>
    obtain ⟨h1, h2⟩ := hD 0 (by decide)
    simp only [encMDiff, encMDiffWith, mdiffIdx, List.append_assoc, decMDiff, decTag_enc f _ _ h1, h2]
    rw [decList_enc encPair decPair (fun kv => kv.1 < 2 ^ 32 ∧ kv.2 < 2 ^ 32) (fun x r h => decPair_enc x r h) l hd.1 hd.2 rest]
    rfl
  | modify es =>
    obtain ⟨h1, h2⟩ := hD 1 (by decide)
    simp only [encMDiff, encMDiffWith, mdiffIdx, List.append_assoc, decMDiff, decTag_enc f _ _ h1, h2]
    rw [decList_enc (encMChange f) (decMChange f) WFMChange (fun c r h => decMChange_enc f hC c r h) es hd.1 hd.2 rest]
    rfl


/-! recursive map-like, generic in the nested codecs -/

/-- the law a nested codec must satisfy on the values that occur -/
def Cdc.Law {β : Type} (c : Cdc β) (wf : β → Prop) : Prop := ∀ x rest, wf x → c.dec (c.enc x ++ rest) = some (x, rest)

variable {ν δ : Type}

def WFRChange (wv : ν → Prop) (wd : δ → Prop) : RMap.Change Nat ν δ → Prop
  | .insert k v => k < 2 ^ 32 ∧ wv v
  | .remove k => k < 2 ^ 32
  | .change k d => k < 2 ^ 32 ∧ wd d

theorem decRChange_enc (f : Fmt) (hT : TabOK (tablesRMapChange f) 3) (V : Cdc ν) (D : Cdc δ) (wv : ν → Prop) (wd : δ → Prop)
    (hV : V.Law wv) (hD : D.Law wd) (c : RMap.Change Nat ν δ) (rest : Bytes) (hc : WFRChange wv wd c) :
    decRChange f V D (encRChange f V D c ++ rest) = some (c, rest) := by
  cases c with
  | insert k v =>
    obtain ⟨h1, h2⟩ := hT 0 (by decide)
    simp only [encRChange, encRChangeWith, rctorIdx, List.append_assoc, decRChange, decTag_enc f _ _ h1, h2,
      decElem_enc k _ hc.1, hV v rest hc.2, Option.map_some]
  | remove k =>
    obtain ⟨h1, h2⟩ := hT 1 (by decide)
    simp only [encRChange, encRChangeWith, rctorIdx, List.append_assoc, decRChange, decTag_enc f _ _ h1, h2,
      decElem_enc k _ hc, Option.map_some]
  | change k d =>
    obtain ⟨h1, h2⟩ := hT 2 (by decide)
    simp only [encRChange, encRChangeWith, rctorIdx, List.append_assoc, decRChange, decTag_enc f _ _ h1, h2,
      decElem_enc k _ hc.1, hD d rest hc.2, Option.map_some]

theorem decKV_enc (V : Cdc ν) (wv : ν → Prop) (hV : V.Law wv) (kv : Nat × ν) (rest : Bytes) (h : kv.1 < 2 ^ 32 ∧ wv kv.2) :
    decKV V (encKV V kv ++ rest) = some (kv, rest) := by
  simp only [encKV, decKV, List.append_assoc, decElem_enc kv.1 _ h.1, hV kv.2 rest h.2, Option.map_some]

def WFRDiff (wv : ν → Prop) (wd : δ → Prop) : RMap.Diff Nat ν δ → Prop
  | .replace l => (∀ kv ∈ l, kv.1 < 2 ^ 32 ∧ wv kv.2) ∧ l.length < 2 ^ 64
  | .modify es => (∀ c ∈ es, WFRChange wv wd c) ∧ es.length < 2 ^ 64

theorem decRDiff_enc (f : Fmt) (hC : TabOK (tablesRMapChange f) 3) (hDt : TabOK (tablesRMapDiff f) 2)
    (V : Cdc ν) (D : Cdc δ) (wv : ν → Prop) (wd : δ → Prop) (hV : V.Law wv) (hD : D.Law wd)
    (d : RMap.Diff Nat ν δ) (rest : Bytes) (hd : WFRDiff wv wd d) :
    decRDiff f V D (encRDiff f V D d ++ rest) = some (d, rest) := by
  cases d with
  | replace l =>
    obtain ⟨h1, h2⟩ := hDt 0 (by decide)
    simp only [encRDiff, encRDiffWith, rdiffIdx, List.append_assoc, decRDiff, decTag_enc f _ _ h1, h2]
    rw [decList_enc (encKV V) (decKV V) (fun kv => kv.1 < 2 ^ 32 ∧ wv kv.2) (fun x r h => decKV_enc V wv hV x r h) l hd.1 hd.2 rest]
    rfl
  | modify es =>
    obtain ⟨h1, h2⟩ := hDt 1 (by decide)
    simp only [encRDiff, encRDiffWith, rdiffIdx, List.append_assoc, decRDiff, decTag_enc f _ _ h1, h2]
    rw [decList_enc (encRChange f V D) (decRChange f V D) (WFRChange wv wd)
      (fun c r h => decRChange_enc f hC V D wv wd hV hD c r h) es hd.1 hd.2 rest]
    rfl

end Codec
