import SdModel.Lemmas.Codec

/-! Round-trip lemmas for the unordered array-like and flat map-like wire codecs (C14). -/
namespace Codec

/-- a table triple is usable for `n` constructors: tags fit a byte, decoding inverts encoding -/
def TabOK (tb : List Nat × List Nat × List (Nat × Nat)) (n : Nat) : Prop :=
  ∀ k, k < n → tagOf tb.1 k < 256 ∧ ctorOf tb.2.2 (tagOf tb.1 k) = some k

theorem decU8_enc (v : Nat) (rest : Bytes) (h : v < 256) : decU8 (encU8 v ++ rest) = some (v, rest) :=
  readLE_le 1 v rest (by simpa using h)

/-- what fits the wire types: `u32` items, `usize` / `u8` counts -/
def WFUChange : UArr.Change Nat → Prop
  | .insertMany x n | .removeMany x n => x < 2 ^ 32 ∧ n < 2 ^ 64
  | .insertFew x n | .removeFew x n => x < 2 ^ 32 ∧ n < 256
  | .insertSingle x | .removeSingle x => x < 2 ^ 32

theorem decUChange_enc (f : Fmt) (hT : TabOK (tablesUArrChange f) 6) (c : UArr.Change Nat) (rest : Bytes) (hc : WFUChange c) :
    decUChange f (encUChange f c ++ rest) = some (c, rest) := by
  cases c with
  | insertMany x n =>
    obtain ⟨h1, h2⟩ := hT 0 (by decide)
    simp only [encUChange, encUChangeWith, uctorIdx, List.append_assoc, decUChange, decTag_enc f _ _ h1, h2,
      decElem_enc x _ hc.1, decUsize_enc n _ hc.2, Option.map_some]
  | removeMany x n =>
    obtain ⟨h1, h2⟩ := hT 1 (by decide)
    simp only [encUChange, encUChangeWith, uctorIdx, List.append_assoc, decUChange, decTag_enc f _ _ h1, h2,
      decElem_enc x _ hc.1, decUsize_enc n _ hc.2, Option.map_some]
  | insertFew x n =>
    obtain ⟨h1, h2⟩ := hT 2 (by decide)
    simp only [encUChange, encUChangeWith, uctorIdx, List.append_assoc, decUChange, decTag_enc f _ _ h1, h2,
      decElem_enc x _ hc.1, decU8_enc n _ hc.2, Option.map_some]
  | removeFew x n =>
    obtain ⟨h1, h2⟩ := hT 3 (by decide)
    simp only [encUChange, encUChangeWith, uctorIdx, List.append_assoc, decUChange, decTag_enc f _ _ h1, h2,
      decElem_enc x _ hc.1, decU8_enc n _ hc.2, Option.map_some]
  | insertSingle x =>
    obtain ⟨h1, h2⟩ := hT 4 (by decide)
    simp only [encUChange, encUChangeWith, uctorIdx, List.append_assoc, decUChange, decTag_enc f _ _ h1, h2,
      decElem_enc x _ hc, Option.map_some]
  | removeSingle x =>
    obtain ⟨h1, h2⟩ := hT 5 (by decide)
    simp only [encUChange, encUChangeWith, uctorIdx, List.append_assoc, decUChange, decTag_enc f _ _ h1, h2,
      decElem_enc x _ hc, Option.map_some]

def WFUDiff : UArr.Diff Nat → Prop
  | .replace l => (∀ x ∈ l, x < 2 ^ 32) ∧ l.length < 2 ^ 64
  | .modify es => (∀ c ∈ es, WFUChange c) ∧ es.length < 2 ^ 64

theorem decUDiff_enc (f : Fmt) (hC : TabOK (tablesUArrChange f) 6) (hD : TabOK (tablesUArrDiff f) 2)
    (d : UArr.Diff Nat) (rest : Bytes) (hd : WFUDiff d) :
    decUDiff f (encUDiff f d ++ rest) = some (d, rest) := by
  cases d with
  | replace l =>
    obtain ⟨h1, h2⟩ := hD 0 (by decide)
    simp only [encUDiff, encUDiffWith, udiffIdx, List.append_assoc, decUDiff, decTag_enc f _ _ h1, h2]
    rw [decList_enc encElem decElem (· < 2 ^ 32) (fun x r h => decElem_enc x r h) l hd.1 hd.2 rest]
    rfl
  | modify es =>
    obtain ⟨h1, h2⟩ := hD 1 (by decide)
    simp only [encUDiff, encUDiffWith, udiffIdx, List.append_assoc, decUDiff, decTag_enc f _ _ h1, h2]
    rw [decList_enc (encUChange f) (decUChange f) WFUChange (fun c r h => decUChange_enc f hC c r h) es hd.1 hd.2 rest]
    rfl

/-! flat map-like -/

def WFMChange : UMap.Change Nat Nat → Prop
  | .insertMany k v n => k < 2 ^ 32 ∧ v < 2 ^ 32 ∧ n < 2 ^ 64
  | .removeMany k n => k < 2 ^ 32 ∧ n < 2 ^ 64
  | .insertSingle k v => k < 2 ^ 32 ∧ v < 2 ^ 32
  | .removeSingle k => k < 2 ^ 32

theorem decMChange_enc (f : Fmt) (hT : TabOK (tablesUMapChange f) 4) (c : UMap.Change Nat Nat) (rest : Bytes) (hc : WFMChange c) :
    decMChange f (encMChange f c ++ rest) = some (c, rest) := by
  cases c with
  | insertMany k v n =>
    obtain ⟨h1, h2⟩ := hT 0 (by decide)
    simp only [encMChange, encMChangeWith, mctorIdx, List.append_assoc, decMChange, decTag_enc f _ _ h1, h2,
      decElem_enc k _ hc.1, decElem_enc v _ hc.2.1, decUsize_enc n _ hc.2.2, Option.map_some]
  | removeMany k n =>
    obtain ⟨h1, h2⟩ := hT 1 (by decide)
    simp only [encMChange, encMChangeWith, mctorIdx, List.append_assoc, decMChange, decTag_enc f _ _ h1, h2,
      decElem_enc k _ hc.1, decUsize_enc n _ hc.2, Option.map_some]
  | insertSingle k v =>
    obtain ⟨h1, h2⟩ := hT 2 (by decide)
    simp only [encMChange, encMChangeWith, mctorIdx, List.append_assoc, decMChange, decTag_enc f _ _ h1, h2,
      decElem_enc k _ hc.1, decElem_enc v _ hc.2, Option.map_some]
  | removeSingle k =>
    obtain ⟨h1, h2⟩ := hT 3 (by decide)
    simp only [encMChange, encMChangeWith, mctorIdx, List.append_assoc, decMChange, decTag_enc f _ _ h1, h2,
      decElem_enc k _ hc, Option.map_some]

theorem decPair_enc (kv : Nat × Nat) (rest : Bytes) (h : kv.1 < 2 ^ 32 ∧ kv.2 < 2 ^ 32) :
    decPair (encPair kv ++ rest) = some (kv, rest) := by
  simp only [encPair, decPair, List.append_assoc, decElem_enc kv.1 _ h.1, decElem_enc kv.2 _ h.2, Option.map_some]

def WFMDiff : UMap.Diff Nat Nat → Prop
  | .replace l => (∀ kv ∈ l, kv.1 < 2 ^ 32 ∧ kv.2 < 2 ^ 32) ∧ l.length < 2 ^ 64
  | .modify es => (∀ c ∈ es, WFMChange c) ∧ es.length < 2 ^ 64

theorem decMDiff_enc (f : Fmt) (hC : TabOK (tablesUMapChange f) 4) (hD : TabOK (tablesUMapDiff f) 2)
    (d : UMap.Diff Nat Nat) (rest : Bytes) (hd : WFMDiff d) :
    decMDiff f (encMDiff f d ++ rest) = some (d, rest) := by
  cases d with
  | replace l =>
    obtain ⟨h1, h2⟩ := hD 0 (by decide)
    simp only [encMDiff, encMDiffWith, mdiffIdx, List.append_assoc, decMDiff, decTag_enc f _ _ h1, h2]
    rw [decList_enc encPair decPair (fun kv => kv.1 < 2 ^ 32 ∧ kv.2 < 2 ^ 32) (fun x r h => decPair_enc x r h) l hd.1 hd.2 rest]
    rfl
  | modify es =>
    obtain ⟨h1, h2⟩ := hD 1 (by decide)
    simp only [encMDiff, encMDiffWith, mdiffIdx, List.append_assoc, decMDiff, decTag_enc f _ _ h1, h2]
    rw [decList_enc (encMChange f) (decMChange f) WFMChange (fun c r h => decMChange_enc f hC c r h) es hd.1 hd.2 rest]
    rfl


/-! recursive map-like, generic in the nested codecs -/

/-- the law a nested codec must satisfy on the values that occur -/
def Cdc.Law {β : Type} (c : Cdc β) (wf : β → Prop) : Prop := ∀ x rest, wf x → c.dec (c.enc x ++ rest) = some (x, rest)

variable {ν δ : Type}

def WFRChange (wv : ν → Prop) (wd : δ → Prop) : RMap.Change Nat ν δ → Prop
  | .insert k v => k < 2 ^ 32 ∧ wv v
  | .remove k => k < 2 ^ 32
  | .change k d => k < 2 ^ 32 ∧ wd d

theorem decRChange_enc (f : Fmt) (hT : TabOK (tablesRMapChange f) 3) (V : Cdc ν) (D : Cdc δ) (wv : ν → Prop) (wd : δ → Prop)
    (hV : V.Law wv) (hD : D.Law wd) (c : RMap.Change Nat ν δ) (rest : Bytes) (hc : WFRChange wv wd c) :
    decRChange f V D (encRChange f V D c ++ rest) = some (c, rest) := by
  cases c with
  | insert k v =>
    obtain ⟨h1, h2⟩ := hT 0 (by decide)
    simp only [encRChange, encRChangeWith, rctorIdx, List.append_assoc, decRChange, decTag_enc f _ _ h1, h2,
      decElem_enc k _ hc.1, hV v rest hc.2, Option.map_some]
  | remove k =>
    obtain ⟨h1, h2⟩ := hT 1 (by decide)
    simp only [encRChange, encRChangeWith, rctorIdx, List.append_assoc, decRChange, decTag_enc f _ _ h1, h2,
      decElem_enc k _ hc, Option.map_some]
  | change k d =>
    obtain ⟨h1, h2⟩ := hT 2 (by decide)
    simp only [encRChange, encRChangeWith, rctorIdx, List.append_assoc, decRChange, decTag_enc f _ _ h1, h2,
      decElem_enc k _ hc.1, hD d rest hc.2, Option.map_some]

theorem decKV_enc (V : Cdc ν) (wv : ν → Prop) (hV : V.Law wv) (kv : Nat × ν) (rest : Bytes) (h : kv.1 < 2 ^ 32 ∧ wv kv.2) :
    decKV V (encKV V kv ++ rest) = some (kv, rest) := by
  simp only [encKV, decKV, List.append_assoc, decElem_enc kv.1 _ h.1, hV kv.2 rest h.2, Option.map_some]

def WFRDiff (wv : ν → Prop) (wd : δ → Prop) : RMap.Diff Nat ν δ → Prop
  | .replace l => (∀ kv ∈ l, kv.1 < 2 ^ 32 ∧ wv kv.2) ∧ l.length < 2 ^ 64
  | .modify es => (∀ c ∈ es, WFRChange wv wd c) ∧ es.length < 2 ^ 64

theorem decRDiff_enc (f : Fmt) (hC : TabOK (tablesRMapChange f) 3) (hDt : TabOK (tablesRMapDiff f) 2)
    (V : Cdc ν) (D : Cdc δ) (wv : ν → Prop) (wd : δ → Prop) (hV : V.Law wv) (hD : D.Law wd)
    (d : RMap.Diff Nat ν δ) (rest : Bytes) (hd : WFRDiff wv wd d) :
    decRDiff f V D (encRDiff f V D d ++ rest) = some (d, rest) := by
  cases d with
  | replace l =>
    obtain ⟨h1, h2⟩ := hDt 0 (by decide)
    simp only [encRDiff, encRDiffWith, rdiffIdx, List.append_assoc, decRDiff, decTag_enc f _ _ h1, h2]
    rw [decList_enc (encKV V) (decKV V) (fun kv => kv.1 < 2 ^ 32 ∧ wv kv.2) (fun x r h => decKV_enc V wv hV x r h) l hd.1 hd.2 rest]
    rfl
  | modify es =>
    obtain ⟨h1, h2⟩ := hDt 1 (by decide)
    simp only [encRDiff, encRDiffWith, rdiffIdx, List.append_assoc, decRDiff, decTag_enc f _ _ h1, h2]
    rw [decList_enc (encRChange f V D) (decRChange f V D) (WFRChange wv wd)
      (fun c r h => decRChange_enc f hC V D wv wd hV hD c r h) es hd.1 hd.2 rest]
    rfl

/-! derived struct diffs: entries framed by the rank of their field among the unskipped ones -/

theorem rank_le (skips : List Bool) (j : Nat) : rank skips j ≤ j := by
  induction skips generalizing j with
  | nil => simp [rank]
  | cons b t ih =>
    cases j with
    | zero => simp [rank]
    | succ j => have := ih j; simp only [rank]; split <;> omega

/-- the discriminant identifies the field: `unrank` inverts `rank` on unskipped positions -/
theorem unrank_rank (skips : List Bool) (j : Nat) (h : skips[j]? = some false) : unrank skips (rank skips j) = some j := by
  induction skips generalizing j with
  | nil => simp at h
  | cons b t ih =>
    cases j with
    | zero =>
      simp only [List.getElem?_cons_zero, Option.some.injEq] at h
      subst h; simp [rank, unrank]
    | succ j =>
      simp only [List.getElem?_cons_succ] at h
      cases b with
      | true => simp [rank, unrank, ih j h]
      | false =>
        simp only [rank, Bool.false_eq_true, if_false]
        rw [show 1 + rank t j = rank t j + 1 by omega]
        simp [unrank, ih j h]

/-- two different unskipped fields never share a discriminant -/
theorem rank_inj (skips : List Bool) (i j : Nat) (hi : skips[i]? = some false) (hj : skips[j]? = some false)
    (h : rank skips i = rank skips j) : i = j := by
  have h1 := unrank_rank skips i hi
  have h2 := unrank_rank skips j hj
  rw [h] at h1; rw [h1] at h2; exact Option.some.inj h2

theorem decDTag_enc (f : Fmt) (t : Nat) (rest : Bytes) (h : t < 2 ^ 16) : decDTag f (encDTag f t ++ rest) = some (t, rest) := by
  cases f
  · exact readLE_le 2 t rest (by have : (256:Nat) ^ 2 = 2 ^ 16 := by decide
                                 omega)
  · exact readLE_le 4 t rest (by have : (256:Nat) ^ 4 = 4294967296 := by decide
                                 have : (2:Nat) ^ 16 = 65536 := by decide
                                 omega)

variable {π : Type}

/-- an entry is well-formed: it addresses an unskipped field and its payload satisfies that field's law -/
def WFEntry (skips : List Bool) (wf : Nat → π → Prop) (e : Nat × π) : Prop := skips[e.1]? = some false ∧ wf e.1 e.2

theorem decEntry_enc (f : Fmt) (skips : List Bool) (hs : skips.length < 2 ^ 16) (P : Nat → Cdc π) (wf : Nat → π → Prop)
    (hP : ∀ j, (P j).Law (wf j)) (e : Nat × π) (rest : Bytes) (he : WFEntry skips wf e) :
    decEntry f skips P (encEntry f skips P e ++ rest) = some (e, rest) := by
  obtain ⟨j, p⟩ := e
  obtain ⟨h1, h2⟩ := he
  have hj : j < skips.length := by
    rcases Nat.lt_or_ge j skips.length with h | h
    · exact h
    · simp [List.getElem?_eq_none h] at h1
  have hr : rank skips j < 2 ^ 16 := Nat.lt_of_le_of_lt (rank_le skips j) (Nat.lt_trans hj hs)
  simp only [encEntry, List.append_assoc, decEntry, decDTag_enc f _ _ hr, unrank_rank skips j h1, hP j p rest h2, Option.map_some]

/-- **derived struct diffs survive the wire**: decode ∘ encode = id for every entry list addressing unskipped fields,
for ANY payload codecs that are themselves inverse pairs, both formats -/
theorem decEntries_enc (f : Fmt) (skips : List Bool) (hs : skips.length < 2 ^ 16) (P : Nat → Cdc π) (wf : Nat → π → Prop)
    (hP : ∀ j, (P j).Law (wf j)) (es : List (Nat × π)) (hes : ∀ e ∈ es, WFEntry skips wf e) (hlen : es.length < 2 ^ 64)
    (rest : Bytes) : decEntries f skips P (encEntries f skips P es ++ rest) = some (es, rest) :=
  decList_enc (encEntry f skips P) (decEntry f skips P) (WFEntry skips wf)
    (fun e r h => decEntry_enc f skips hs P wf hP e r h) es hes hlen rest

/-- the borrowed diff enum has its variants in the same order: with payload encoders that write the same bytes, the
serialized `DiffRef` list is byte-identical to the serialized `Diff` list -/
theorem encEntries_ref_eq (f : Fmt) (skips : List Bool) (P Pr : Nat → Cdc π) (h : ∀ j p, (Pr j).enc p = (P j).enc p)
    (es : List (Nat × π)) : encEntries f skips Pr es = encEntries f skips P es := by
  have : encEntry f skips Pr = encEntry f skips P := by
    funext e; simp only [encEntry, h]
  simp only [encEntries, this]

/-- what a payload must be for a field of the given kind -/
def WFPV (isOpt : Bool) : PV → Prop
  | .u v => isOpt = false ∧ v < 2 ^ 32
  | .o none => isOpt = true
  | .o (some v) => isOpt = true ∧ v < 2 ^ 32

theorem pvCdc_law (isOpt : Bool) : (pvCdc isOpt).Law (WFPV isOpt) := by
  intro x rest h
  cases x with
  | u v =>
    obtain ⟨h1, h2⟩ := h
    subst h1
    simp [pvCdc, decElem_enc v rest h2]
  | o v =>
    cases v with
    | none => simp only [WFPV] at h; subst h; simp [pvCdc]
    | some v =>
      obtain ⟨h1, h2⟩ := h
      subst h1
      simp [pvCdc, decElem_enc v rest h2]

/-! recursive maps of flat values as fields -/

def WFVals : List Bool → List PV → Prop
  | [], [] => True
  | o :: t, v :: vs => WFPV o v ∧ WFVals t vs
  | _, _ => False

theorem valsCdc_law (opts : List Bool) : (valsCdc opts).Law (WFVals opts) := by
  intro vs rest h
  induction opts generalizing vs with
  | nil =>
    cases vs with
    | nil => simp [valsCdc, decVals]
    | cons _ _ => simp [WFVals] at h
  | cons o t ih =>
    cases vs with
    | nil => simp [WFVals] at h
    | cons v vs =>
      obtain ⟨h1, h2⟩ := h
      have e1 : (pvCdc false).enc v = (pvCdc o).enc v := rfl
      have := ih vs h2
      simp only [valsCdc] at this ⊢
      simp only [List.map_cons, List.flatten_cons, List.append_assoc, decVals, e1, pvCdc_law o v _ h1, this, Option.map_some]

def WFLeafEntries (L : LeafTy) (es : List (Nat × PV)) : Prop :=
  (∀ e ∈ es, WFEntry L.skips (fun j => WFPV (L.opts.getD j false)) e) ∧ es.length < 2 ^ 64

theorem leafEntriesCdc_law (f : Fmt) (L : LeafTy) (hL : L.skips.length < 2 ^ 16) :
    (leafEntriesCdc f L).Law (WFLeafEntries L) := by
  intro es rest h
  exact decEntries_enc f L.skips hL _ _ (fun j => pvCdc_law (L.opts.getD j false)) es h.1 h.2 rest

/-- well-formed payload for a field of the given kind -/
def WFPL : FKind → PL → Prop
  | .flat o, .pv p => WFPV o p
  | .rmap L, .rm d => L.skips.length < 2 ^ 16 ∧ WFRDiff (WFVals L.opts) (WFLeafEntries L) d
  | _, _ => False

theorem plCdc_law (f : Fmt) (hC : TabOK (tablesRMapChange f) 3) (hDt : TabOK (tablesRMapDiff f) 2) (k : FKind) :
    (plCdc f k).Law (WFPL k) := by
  intro p rest h
  cases k with
  | flat o =>
    cases p with
    | pv p => simp only [plCdc, pvCdc_law o p rest h, Option.map_some]
    | rm d => simp [WFPL] at h
  | rmap L =>
    cases p with
    | pv p => simp [WFPL] at h
    | rm d =>
      obtain ⟨hL, hd⟩ := h
      simp only [plCdc, decRDiff_enc f hC hDt _ _ _ _ (valsCdc_law L.opts) (leafEntriesCdc_law f L hL) d rest hd, Option.map_some]

end Codec
