import SdModel.Lemmas.UArr

/-!
# C19 — unordered patching is total: saturating counts, never a panic   (array-like part)

`UArr.apply` is a total function whose every `get_mut` / subtraction / partition arm is modelled
(the "Sorting failure" arms are unreachable after `partition`, see `Model/UArr.lean`); the theorems give
its exact effect for an ARBITRARY base and an ARBITRARY diff value, not only one computed from that base.
The map-like parts are in `Props/C19Map.lean` once the map models are proved.
-/
namespace C19
open UArr
variable {α : Type} [DecidableEq α]

/-- per item: base count minus removed (not below zero) plus inserted -/
theorem arr_modify (base : List α) (es : List (Change α)) (x : α) :
    (apply base (.modify es)).count x = (base.count x - removed es x) + inserted es x :=
  count_apply_modify base es x

/-- a full replacement yields exactly the carried collection -/
theorem arr_replace (base r : List α) : apply base (.replace r) = r := rfl

/-- the result depends on the base only through its counts, and on the change list only as a multiset:
any iteration order of the hash maps involved gives the same multiset -/
theorem arr_order_free (base base' : List α) (es es' : List (Change α))
    (hb : ∀ x, base.count x = base'.count x) (he : es.Perm es') (x : α) :
    (apply base (.modify es)).count x = (apply base' (.modify es')).count x := by
  rw [arr_modify, arr_modify, hb x]
  have h1 : inserted es x = inserted es' x := by
    unfold inserted total
    exact ((he.filter _).map _).sum_nat
  have h2 : removed es x = removed es' x := by
    unfold removed total
    exact ((he.filter _).map _).sum_nat
  rw [h1, h2]

example : (apply [5, 1] (.modify [.removeSingle 1, .insertSingle 3, .removeFew 2 7])).count 2 = 0 := by decide

end C19
