import SdModel.Lemmas.UArr
import SdModel.Lemmas.UMap

/-!
# C19 — unordered patching is total: saturating counts, never a panic   (array-like part)

`UArr.apply` is a total function whose every `get_mut` / subtraction / partition arm is modelled
(the "Sorting failure" arms are unreachable after `partition`, see `Model/UArr.lean`); the theorems give
its exact effect for an ARBITRARY base and an ARBITRARY diff value, not only one computed from that base.
The flat map-like part is below (`map_total_keys`); the recursive map-like part is `C13.apply_keys`.
-/
namespace C19
open UArr
variable {α : Type} [DecidableEq α]

/-- per item: base count minus removed (not below zero) plus inserted -/
theorem arr_modify (base : List α) (es : List (Change α)) (x : α) :
    (apply base (.modify es)).count x = (base.count x - removed es x) + inserted es x :=
  count_apply_modify base es x

/-- a full replacement yields exactly the carried collection -/
theorem arr_replace (base r : List α) : apply base (.replace r) = r := rfl

/-- the result depends on the base only through its counts, and on the change list only as a multiset:
any iteration order of the hash maps involved gives the same multiset -/
theorem arr_order_free (base base' : List α) (es es' : List (Change α))
    (hb : ∀ x, base.count x = base'.count x) (he : es.Perm es') (x : α) :
    (apply base (.modify es)).count x = (apply base' (.modify es')).count x := by
  rw [arr_modify, arr_modify, hb x]
  have h1 : inserted es x = inserted es' x := by
    unfold inserted total
    exact ((he.filter _).map _).sum_nat
  have h2 : removed es x = removed es' x := by
    unfold removed total
    exact ((he.filter _).map _).sum_nat
  rw [h1, h2]

example : (apply [5, 1] (.modify [.removeSingle 1, .insertSingle 3, .removeFew 2 7])).count 2 = 0 := by decide


/-! ### flat map-like -/
section MapLike
open UMap
variable {κ ν : Type} [DecidableEq κ] [DecidableEq ν]

/-- keys a diff value mentions -/
def keysOfDiff : UMap.Diff κ ν → List κ
  | .replace r => r.map (·.1)
  | .modify es => es.map keyOf

/-- applying ANY flat map-like diff to ANY base map returns normally (`UMap.apply` is total: every `get_mut`,
guard and `unreachable!` arm is modelled) and yields only keys that were in the base or in the diff -/
theorem map_total_keys (base : List (κ × ν)) (d : UMap.Diff κ ν) :
    ∀ kv ∈ UMap.apply base d, kv.1 ∈ base.map (·.1) ∨ kv.1 ∈ keysOfDiff d := by
  intro kv hkv
  obtain ⟨k, v⟩ := kv
  cases d with
  | replace r => right; exact List.mem_map_of_mem (f := (·.1)) hkv
  | modify es =>
    simp only [UMap.apply] at hkv
    obtain ⟨b1, b2⟩ := collectKeyEq_spec base
    obtain ⟨a1, a0, a2⟩ := applyRemovals_spec (collectKeyEq base) (es.filter fun e => !UMap.isInsert e) b1 b2
    obtain ⟨i1, i2⟩ := applyInsertions_spec _ (es.filter UMap.isInsert) a1
    obtain ⟨c, hc⟩ := mem_expand _ k v hkv
    have hsome := mget_isSome_of_mem _ k v c hc
    rw [i2 k] at hsome
    cases hm : mget (applyRemovals (collectKeyEq base) (es.filter fun e => !UMap.isInsert e)) k with
    | some vc =>
      left
      rw [a2 k] at hm
      apply collectKeyEq_keys
      cases hb : mget (collectKeyEq base) k with
      | none => rw [hb] at hm; cases hm
      | some _ => rfl
    | none =>
      right
      rw [hm] at hsome
      simp only [Option.isSome_map] at hsome
      rw [insVal_filter] at hsome
      exact insVal_some_mem es k hsome

end MapLike

end C19
