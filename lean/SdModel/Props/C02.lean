import SdModel.Model.Derive
namespace C02
theorem placeholder : True := trivial
end C02
