import SdModel.Lemmas.DeriveKnot

/-!
# C02 — replication: a follower applying the leader's successive diffs never diverges

`(relTy t).equiv leader follower` : equal on unskipped plain / ordered / enum fields, unordered collections
equal as multisets / maps, nested values equivalent recursively; NOTHING is required of skipped fields or of the
element order of unordered collections (for key-only recursive maps: the key sets agree).
The follower applies `diff(s₀, s₁), diff(s₁, s₂), …` computed by the leader on ITS OWN states.
Theorem: every application returns normally and after every step the follower is again equivalent to the leader —
by induction over a state sequence of arbitrary length; and the follower's own skipped fields never change.
-/
namespace C02
open Derive

/-- the follower's successive states -/
def followers (S : TySem) : Val → Val → List Val → Except String (List Val)
  | _, _, [] => .ok []
  | prev, f, s :: rest =>
    match S.apply f (S.diff prev s) with
    | .ok f' =>
      match followers S s f' rest with
      | .ok fs => .ok (f' :: fs)
      | .error m => .error m
    | .error m => .error m

/-- state by state: the follower is well-typed and equivalent to the leader -/
inductive AllEquiv (R : TyRel) : List Val → List Val → Prop
  | nil : AllEquiv R [] []
  | cons {s f ss fs} : R.equiv s f → R.wt f → AllEquiv R ss fs → AllEquiv R (s :: ss) (f :: fs)

/-- **C02** for any type, any starting pair, any history -/
theorem replication (t : Ty) (states : List Val) (s0 f0 : Val)
    (h0 : (relTy t).wt s0) (hf0 : (relTy t).wt f0) (hs : ∀ s ∈ states, (relTy t).wt s)
    (he : (relTy t).equiv s0 f0) :
    ∃ fs, followers (semTy t) s0 f0 states = .ok fs ∧ AllEquiv (relTy t) states fs := by
  induction states generalizing s0 f0 with
  | nil => exact ⟨[], rfl, .nil⟩
  | cons s rest ih =>
    have hsw := hs s List.mem_cons_self
    obtain ⟨f', h1, h2, h3⟩ := (spec_ty t).follow s0 s f0 h0 hsw hf0 he
    have he' := (spec_ty t).post_equiv f0 s f' hf0 hsw h2 h3
    obtain ⟨fs, h4, h5⟩ := ih s f' hsw h2 (fun x hx => hs x (List.mem_cons_of_mem _ hx)) he'
    exact ⟨f' :: fs, by simp only [followers, h1, h4], .cons he' h2 h5⟩

/-- the same when the leader ships `diff_ref` (converted) instead of `diff` -/
theorem replication_ref (t : Ty) (states : List Val) (s0 f0 : Val)
    (h0 : (relTy t).wt s0) (hf0 : (relTy t).wt f0) (hs : ∀ s ∈ states, (relTy t).wt s)
    (he : (relTy t).equiv s0 f0) :
    ∃ fs, followers { semTy t with diff := (semTy t).diffRef } s0 f0 states = .ok fs ∧ AllEquiv (relTy t) states fs := by
  have : ({ semTy t with diff := (semTy t).diffRef } : TySem) = semTy t := by
    cases hS : semTy t with
    | mk d dr ap =>
      have := (spec_ty t).ref_eq
      rw [hS] at this
      simp only [TySem.mk.injEq, and_true]
      funext a b; exact this a b
  rw [this]; exact replication t states s0 f0 h0 hf0 hs he

/-! ### the follower's skipped fields never change -/

/-- the values of the skipped fields, in declaration order -/
def skippedVals : FS → Vals → List Val
  | (true, _, _) :: fs, .cons v vs => v :: skippedVals fs vs
  | (false, _, _) :: fs, .cons _ vs => skippedVals fs vs
  | _, _ => []

theorem spost_skipped (fs : FS) (x y z : Vals) (h : SPost fs x y z) : skippedVals fs z = skippedVals fs x := by
  induction fs generalizing x y z with
  | nil => cases x <;> cases z <;> rfl
  | cons e fs ih =>
    obtain ⟨sk, F, R⟩ := e
    cases x with
    | nil => cases y <;> cases z <;> simp [SPost] at h
    | cons f fr =>
    cases y with
    | nil => cases z <;> simp [SPost] at h
    | cons b bs =>
    cases z with
    | nil => simp [SPost] at h
    | cons r rs =>
      cases sk with
      | true =>
        simp only [SPost, if_true] at h
        simp only [skippedVals, h.1, ih fr bs rs h.2]
      | false =>
        simp only [SPost] at h
        simp only [skippedVals, ih fr bs rs h.2]

def skippedOf (fs : FieldTys) : Val → List Val
  | .strct vs => skippedVals (relFields fs) vs
  | _ => []

/-- after every step of any history the follower's skipped fields are those it started with -/
theorem follower_skipped_fixed (fts : FieldTys) (states : List Val) (s0 f0 : Val)
    (h0 : (relTy (.struct fts)).wt s0) (hf0 : (relTy (.struct fts)).wt f0) (hs : ∀ s ∈ states, (relTy (.struct fts)).wt s)
    (he : (relTy (.struct fts)).equiv s0 f0) :
    ∃ fs, followers (semTy (.struct fts)) s0 f0 states = .ok fs ∧ ∀ f' ∈ fs, skippedOf fts f' = skippedOf fts f0 := by
  induction states generalizing s0 f0 with
  | nil => exact ⟨[], rfl, by simp⟩
  | cons s rest ih =>
    have hsw := hs s List.mem_cons_self
    obtain ⟨f', h1, h2, h3⟩ := (spec_ty (.struct fts)).follow s0 s f0 h0 hsw hf0 he
    have he' := (spec_ty (.struct fts)).post_equiv f0 s f' hf0 hsw h2 h3
    obtain ⟨fs, h4, h5⟩ := ih s f' hsw h2 (fun x hx => hs x (List.mem_cons_of_mem _ hx)) he'
    have hsk : skippedOf fts f' = skippedOf fts f0 := by
      simp only [relTy, structRel] at h3
      obtain ⟨x, y, z, rfl, rfl, rfl, hp⟩ := h3
      exact spost_skipped _ x y z hp
    refine ⟨f' :: fs, by simp only [followers, h1, h4], ?_⟩
    intro g hg
    rcases List.mem_cons.mp hg with rfl | hg
    · exact hsk
    · rw [h5 g hg, hsk]

end C02
