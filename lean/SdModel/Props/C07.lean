import SdModel.Lemmas.Lev
import SdModel.Lemmas.LevSelf
import SdModel.Props.C08

/-!
# C07 — ordered list diff round trip: source patched with diff(target, source) = target

`Lev.hirschberg` / `Lev.levenshtein` model the two public algorithms (`eq` is an ARBITRARY Boolean relation:
no reflexivity, symmetry or transitivity is assumed, which covers `PartialEq` types such as `f64`).
`Lev.PW eq r t` : `r` and `t` have the same length and every `r[k]` is `t[k]` itself (a written element) or a
kept source element with `eq t[k] r[k] = true` — "equal element-by-element to the target under the element
type's own equality".  The constants (costs, cutoff) are the ones regenerated from the source on this run; the
theorems need only `costs ≥ 1`, which `decide` checks.
-/
namespace C07
open Lev Script
variable {α : Type}

def costs : Costs := ⟨Gen.deleteCost, Gen.replaceCost, Gen.insertCost⟩

/-- side conditions on the constants extracted from the source: every edit costs at least 1
(this is what makes the early exit `changelist.len() == total cost` sound) -/
theorem costs_pos : 1 ≤ costs.D ∧ 1 ≤ costs.R ∧ 1 ≤ costs.I := by decide

theorem seg_full (l : List α) : seg l 0 l.length = l := by simp [seg]

/-- the divide-and-conquer algorithm (the one the derive uses): patched source = target, no index out of range -/
theorem roundtrip_hirschberg (eq : α → α → Bool) (t s : List α) :
    match hirschberg eq costs Gen.levCutoff t s with
    | none => PW eq s t
    | some d => ∃ r, runList d s = some r ∧ PW eq r t := by
  obtain ⟨T', h1, h2⟩ := hirsch_correct eq costs costs_pos.1 costs_pos.2.1 costs_pos.2.2 Gen.levCutoff t s
    0 t.length 0 s.length (Nat.zero_le _) (Nat.zero_le _) (Nat.le_refl _) [] [] rfl
  simp only [seg_full, List.nil_append, List.append_nil] at h1 h2
  cases hh : hirschImpl eq costs Gen.levCutoff t s 0 t.length 0 s.length with
  | nil =>
    rw [hh] at h1
    simp only [List.reverse_nil, runList, Option.some.injEq] at h1
    subst h1
    simp only [hirschberg, hh]; exact h2
  | cons c cs =>
    rw [hh] at h1
    simp only [hirschberg, hh]; exact ⟨T', h1, h2⟩

/-- the full-table algorithm -/
theorem roundtrip_levenshtein (eq : α → α → Bool) (t s : List α) :
    match levenshtein eq costs t s with
    | none => PW eq s t
    | some d => ∃ r, runList d s = some r ∧ PW eq r t := by
  obtain ⟨T', h1, h2⟩ := lev_correct eq costs costs_pos.1 costs_pos.2.1 costs_pos.2.2 t s 0 [] [] rfl
  simp only [List.nil_append, List.append_nil] at h1
  have hl : levImpl eq costs t s 0 t.length 0 s.length =
      bt (fullTable eq costs t s) (lookup (fullTable eq costs t s) t.length s.length).cost 0 t.reverse s.reverse 0 := by
    simp only [levImpl, seg_full]
  cases hh : levImpl eq costs t s 0 t.length 0 s.length with
  | nil =>
    rw [← hl, hh] at h1
    simp only [runList, Option.some.injEq] at h1
    subst h1
    simp only [levenshtein, hh]; exact h2
  | cons c cs =>
    rw [← hl, hh] at h1
    simp only [levenshtein, hh]; exact ⟨T', h1, h2⟩

/-- composition with C08/C09: the REAL application path (collect the source into a rope, apply every change
through the rope, iterate out) gives that same list and never panics — into any collection, since the
result is produced by the rope's consuming iterator -/
theorem roundtrip_on_rope (eq : α → α → Bool) (t s : List α) (d : List (Change α))
    (h : hirschberg eq costs Gen.levCutoff t s = some d ∨ levenshtein eq costs t s = some d) :
    ∃ r, Script.apply Gen.ropeParams d s = .ok r ∧ PW eq r t := by
  rcases h with h | h
  · have := roundtrip_hirschberg eq t s
    rw [h] at this
    obtain ⟨r, h1, h2⟩ := this
    exact ⟨r, C08.script_rope_eq_list d s r h1, h2⟩
  · have := roundtrip_levenshtein eq t s
    rw [h] at this
    obtain ⟨r, h1, h2⟩ := this
    exact ⟨r, C08.script_rope_eq_list d s r h1, h2⟩

/-- `PW` with a reflexive `eq` is element-wise equality under `eq` -/
theorem PW_iff_of_refl (eq : α → α → Bool) (hrefl : ∀ x, eq x x = true) (a b : List α) :
    PW eq a b ↔ a.length = b.length ∧ ∀ k (h1 : k < b.length) (h2 : k < a.length), eq b[k] a[k] = true := by
  constructor
  · intro h
    induction h with
    | nil => simp
    | cons hx _ ih =>
      refine ⟨by simp [ih.1], ?_⟩
      intro k h1 h2
      cases k with
      | zero => rcases hx with rfl | hx; exact hrefl _; exact hx
      | succ k => simpa using ih.2 k (by simpa using h1) (by simpa using h2)
  · intro h
    obtain ⟨hl, hk⟩ := h
    induction a generalizing b with
    | nil => cases b with
      | nil => exact .nil
      | cons _ _ => simp at hl
    | cons x xs ih =>
      cases b with
      | nil => simp at hl
      | cons y ys =>
        refine .cons (.inr (hk 0 (by simp) (by simp))) (ih ys (by simpa using hl) ?_)
        intro k h1 h2
        have := hk (k+1) (by simp only [List.length_cons]; omega) (by simp only [List.length_cons]; omega)
        simp only [List.getElem_cons_succ] at this
        exact this

/-- the diff is absent ONLY when the sequences are element-wise equal (both algorithms) -/
theorem absent_only_if_equal (eq : α → α → Bool) (t s : List α)
    (h : hirschberg eq costs Gen.levCutoff t s = none ∨ levenshtein eq costs t s = none) : PW eq s t := by
  rcases h with h | h
  · have := roundtrip_hirschberg eq t s; rw [h] at this; exact this
  · have := roundtrip_levenshtein eq t s; rw [h] at this; exact this

/-- conversely, for a reflexive element equality identical sequences give NO diff (both algorithms): in the
divide-and-conquer driver the split chosen from the two last rows is the diagonal one at every level -/
theorem absent_if_identical (eq : α → α → Bool) (hrefl : ∀ x, eq x x = true) (t : List α) :
    hirschberg eq costs Gen.levCutoff t t = none ∧ levenshtein eq costs t t = none :=
  ⟨hirschberg_self eq hrefl costs costs_pos.1 costs_pos.2.1 costs_pos.2.2 _ t, levenshtein_self eq hrefl costs t⟩

theorem PW_eq_of_lawful [DecidableEq α] (a b : List α) (h : PW (fun x y => decide (x = y)) a b) : a = b := by
  induction h with
  | nil => rfl
  | cons hx _ ih =>
    rcases hx with rfl | hx
    · rw [ih]
    · simp only [decide_eq_true_eq] at hx; rw [ih, hx]

/-- for a lawful equality (`==` is `=`): the diff is absent exactly when source and target are equal.
(Reflexivity is needed for "if": with `f64`'s `NaN != NaN` the list `[NaN]` differs from itself, and the code
then emits a `Replace`; the correspondence check exercises that case.) -/
theorem absent_iff_eq [DecidableEq α] (t s : List α) :
    hirschberg (fun a b => decide (a = b)) costs Gen.levCutoff t s = none ↔ s = t := by
  constructor
  · intro h
    exact PW_eq_of_lawful s t (absent_only_if_equal (fun a b => decide (a = b)) t s (.inl h))
  · rintro rfl
    exact (absent_if_identical _ (by simp) s).1

end C07
