import SdModel.Model.Lev
import SdModel.Model.Codec
namespace C07
theorem placeholder : True := trivial
end C07
