import SdModel.Props.C11
import SdModel.Props.C19

/-!
# C16 — feature selection never changes diff/apply semantics

The configuration space (6 features, 64 sets) is enumerated by the check; what is PROVED is that the two
semantic degrees of freedom a feature has cannot matter:
* the hasher (`rustc_hash` vs std, per-instance random keys) only changes iteration order: results are
  order-free (`C19.arr_order_free`, and every C11-C13 statement is on counts / per key);
* `debug_asserts` only adds assertions that can never fire (`C11.debug_asserts_unreachable`).
Trait bounds, derive lists and codec impls are validated per configuration, not proved.
-/
namespace C16
open UArr

/-- hasher independence, array-like: any permutation of the inputs' elements and of the change list (= any
iteration order of the hash maps involved) yields the same multiset -/
theorem hasher_independent {α : Type} [DecidableEq α] (base base' : List α) (es es' : List (Change α))
    (hb : base.Perm base') (he : es.Perm es') (x : α) :
    (apply base (.modify es)).count x = (apply base' (.modify es')).count x :=
  C19.arr_order_free base base' es es' (fun y => hb.count_eq y) he x

/-- the round trip holds whatever order the hash maps were built in -/
theorem roundtrip_any_order {α : Type} [DecidableEq α] (prev prev' cur cur' : List α) (hp : prev.Perm prev') (hc : cur.Perm cur')
    (d : Diff α) (h : hashcmp Gen.fewMax prev' cur' = some d) (x : α) : (apply prev d).count x = cur.count x := by
  have h1 := C11.roundtrip prev' cur' d h x
  cases d with
  | replace r => rw [hc.count_eq x]; exact h1
  | modify es =>
    rw [hc.count_eq x, ← h1]
    exact C19.arr_order_free prev prev' es es (fun y => hp.count_eq y) (List.Perm.refl _) x

/-- enabling `debug_asserts` cannot introduce a panic in the comparison -/
theorem debug_asserts_inert {α : Type} [DecidableEq α] (prev cur : List α) : (hashcmpA Gen.fewMax prev cur).2 = true :=
  C11.debug_asserts_unreachable prev cur

end C16
