import SdModel.Props.C11
import SdModel.Props.C19
import SdModel.Props.C12

/-!
# C16 — feature selection never changes diff/apply semantics

The configuration space (6 features, 64 sets) is enumerated by the check; what is PROVED is that the two
semantic degrees of freedom a feature has cannot matter:
* the hasher (`rustc_hash` vs std, per-instance random keys) only changes iteration order: results are
  order-free (`C19.arr_order_free`, and every C11-C13 statement is on counts / per key);
* `debug_asserts` only adds assertions that can never fire (`C11.debug_asserts_unreachable`).
Trait bounds, derive lists and codec impls are validated per configuration, not proved.
-/
namespace C16
open UArr

/-- hasher independence, array-like: any permutation of the inputs' elements and of the change list (= any
iteration order of the hash maps involved) yields the same multiset -/
theorem hasher_independent {α : Type} [DecidableEq α] (base base' : List α) (es es' : List (Change α))
    (hb : base.Perm base') (he : es.Perm es') (x : α) :
    (apply base (.modify es)).count x = (apply base' (.modify es')).count x :=
  C19.arr_order_free base base' es es' (fun y => hb.count_eq y) he x

/-- the round trip holds whatever order the hash maps were built in -/
theorem roundtrip_any_order {α : Type} [DecidableEq α] (prev prev' cur cur' : List α) (hp : prev.Perm prev') (hc : cur.Perm cur')
    (d : Diff α) (h : hashcmp Gen.fewMax prev' cur' = some d) (x : α) : (apply prev d).count x = cur.count x := by
  have h1 := C11.roundtrip prev' cur' d h x
  cases d with
  | replace r => rw [hc.count_eq x]; exact h1
  | modify es =>
    rw [hc.count_eq x, ← h1]
    exact C19.arr_order_free prev prev' es es (fun y => hp.count_eq y) (List.Perm.refl _) x

/-- enabling `debug_asserts` cannot introduce a panic in the comparison -/
theorem debug_asserts_inert {α : Type} [DecidableEq α] (prev cur : List α) : (hashcmpA Gen.fewMax prev cur).2 = true :=
  C11.debug_asserts_unreachable prev cur

/-- the same for the flat map-like comparison (maps: unique keys), both equality modes -/
theorem debug_asserts_inert_map {κ ν : Type} [DecidableEq κ] [DecidableEq ν] (prev cur : List (κ × ν))
    (hp : UMap.UniqueKeys prev) (hc : UMap.UniqueKeys cur) (b : Bool) : (UMap.hashcmpA prev cur b).2 = true := by
  obtain ⟨p1, p2, _, _⟩ := UMap.coll_unique b prev hp
  obtain ⟨c1, c2, _, _⟩ := UMap.coll_unique b cur hc
  rw [UMap.hashcmpA_eq]
  split
  · rfl
  · obtain ⟨_, l2, l3, _, l5, _⟩ := UMap.loop1_spec (UMap.coll b cur) (UMap.coll b prev) c1 p1 c2 p2
    obtain ⟨_, _, _, _, r5⟩ := UMap.rest_spec _ l2 l3
    simp only [l5, r5, Bool.and_self]

/-- hasher independence, flat map-like: the diff computed from (prev, cur) applied to ANY list representing the
same map as prev (any iteration order) gives a map equal to cur -/
theorem hasher_independent_map {κ ν : Type} [DecidableEq κ] [DecidableEq ν] (prev cur base : List (κ × ν))
    (hp : UMap.UniqueKeys prev) (hc : UMap.UniqueKeys cur) (hb : UMap.UniqueKeys base)
    (hbp : ∀ k, UMap.plookup base k = UMap.plookup prev k) (b : Bool) (d : UMap.Diff κ ν)
    (h : UMap.hashcmp prev cur b = some d) (k : κ) : UMap.plookup (UMap.apply base d) k = UMap.plookup cur k :=
  (C12.roundtrip_follower prev cur base hp hc hb hbp b d h).2 k

end C16
