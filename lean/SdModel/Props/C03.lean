import SdModel.Model.Derive
namespace C03
theorem placeholder : True := trivial
end C03
