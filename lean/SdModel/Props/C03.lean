import SdModel.Lemmas.DeriveIdx

/-!
# C03 — diff entries are independent per field; skipped fields are never touched

For a struct with field descriptors `fts` (any templates, any nesting): every entry of `a.diff(&b)` is addressed to
one unskipped field; applying ANY sub-multiset of the entries (no entry twice) in ANY order returns normally and
yields a value whose selected fields satisfy their strategy's post-condition against `b` (C01) and whose every
other field is exactly `a`'s; and NO sequence of `apply_single` calls whatsoever — entries from any source —
changes a skipped field.
-/
namespace C03
open Derive

/-- position-wise invariant while the selected entries are applied one by one: `T` = positions already patched -/
def Inv (fs : FS) (a b x : Vals) (T : List Nat) : Prop :=
  SWT fs x ∧ ∀ j e, fs[j]? = some e → ∃ va vb vx, valAt a j = some va ∧ valAt b j = some vb ∧ valAt x j = some vx ∧
    (if j ∈ T then e.2.2.post va vb vx else vx = va)

theorem inv_init (fs : FS) (a b : Vals) (ha : SWT fs a) (hb : SWT fs b) : Inv fs a b a [] := by
  refine ⟨ha, fun j e hj => ?_⟩
  obtain ⟨va, h1, _⟩ := swt_at fs a ha j e hj
  obtain ⟨vb, h2, _⟩ := swt_at fs b hb j e hj
  exact ⟨va, vb, va, h1, h2, h1, by simp⟩

theorem step (fs : FS) (hs : ∀ x ∈ fs, FieldSpec x.2.1 x.2.2) (a b : Vals) (ha : SWT fs a) (hb : SWT fs b)
    (x : Vals) (T : List Nat) (hinv : Inv fs a b x T) (n : Nat) (p : Payload)
    (hmem : (n, p) ∈ sdiffG (·.diff) (fieldsOf fs) 0 a b) (hn : n ∉ T) :
    ∃ x', sapplyOne (fieldsOf fs) 0 (n, p) x = .ok x' ∧ Inv fs a b x' (n :: T) := by
  obtain ⟨j, F, R, va, vb, e1, e2, e3, e4, e5⟩ := mem_sdiffG _ fs 0 a b n p hmem
  simp only [Nat.zero_add] at e1
  subst e1
  obtain ⟨va', vb', vx, i1, i2, i3, i4⟩ := hinv.2 n _ e2
  rw [e3] at i1; cases i1
  rw [e4] at i2; cases i2
  simp only [hn, if_false] at i4
  subst i4
  obtain ⟨_, w1, w2⟩ := swt_at fs a ha n _ e2
  rw [e3] at w1; cases w1
  obtain ⟨_, w3, w4⟩ := swt_at fs b hb n _ e2
  rw [e4] at w3; cases w3
  have hF := hs _ (List.mem_of_getElem? e2)
  obtain ⟨r0, f1, f2, f3⟩ := hF.follow vx vb vx p w2 w4 w2 (hF.refl vx w2) e5
  have := sapplyOne_at fs 0 x n F R vx r0 p e2 i3 f1
  simp only [Nat.zero_add] at this
  refine ⟨setAt x n r0, this, swt_setAt fs x hinv.1 n _ e2 r0 f2, fun j e hj => ?_⟩
  by_cases hjn : j = n
  · subst hjn
    rw [e2] at hj; cases hj
    exact ⟨vx, vb, r0, e3, e4, valAt_setAt_same x j r0 vx i3, by simp only [List.mem_cons, true_or, if_true]; exact f3⟩
  · obtain ⟨va', vb', vx', i1, i2, i3', i4⟩ := hinv.2 j e hj
    refine ⟨va', vb', vx', i1, i2, by rw [valAt_setAt_ne x n j r0 hjn]; exact i3', ?_⟩
    simp only [List.mem_cons, hjn, false_or]
    exact i4

theorem fold (fs : FS) (hs : ∀ x ∈ fs, FieldSpec x.2.1 x.2.2) (a b : Vals) (ha : SWT fs a) (hb : SWT fs b)
    (es : Entries) : ∀ (x : Vals) (T : List Nat), Inv fs a b x T →
      (∀ e ∈ es, e ∈ sdiffG (·.diff) (fieldsOf fs) 0 a b) → (es.map (·.1)).Nodup → (∀ e ∈ es, e.1 ∉ T) →
      ∃ r, sapplyG (fieldsOf fs) 0 x es = .ok r ∧ Inv fs a b r ((es.map (·.1)).reverse ++ T) := by
  induction es with
  | nil => intro x T h _ _ _; exact ⟨x, rfl, by simpa using h⟩
  | cons e es ih =>
    obtain ⟨n, p⟩ := e
    intro x T hinv hsub hnd hT
    simp only [List.map_cons, List.nodup_cons] at hnd
    obtain ⟨x', s1, s2⟩ := step fs hs a b ha hb x T hinv n p (hsub _ List.mem_cons_self) (hT _ List.mem_cons_self)
    obtain ⟨r, r1, r2⟩ := ih x' (n :: T) s2 (fun e he => hsub e (List.mem_cons_of_mem _ he)) hnd.2 (by
      intro e he
      simp only [List.mem_cons, not_or]
      exact ⟨fun h => hnd.1 (h ▸ List.mem_map_of_mem (f := (·.1)) he), hT e (List.mem_cons_of_mem _ he)⟩)
    refine ⟨r, by simp only [sapplyG, s1, r1], ?_⟩
    simpa using r2

/-- **C03**: any sub-multiset of the entries of `a.diff(&b)`, in any order -/
theorem subset_any_order (fts : FieldTys) (a b : Val)
    (ha : (relTy (.struct fts)).wt a) (hb : (relTy (.struct fts)).wt b) (es : Entries)
    (hsub : ∀ e ∈ es, e ∈ (semTy (.struct fts)).diff a b) (hnd : (es.map (·.1)).Nodup) :
    ∃ x y r, a = .strct x ∧ b = .strct y ∧ (semTy (.struct fts)).apply a es = .ok (.strct r) ∧
      SWT (relFields fts) r ∧
      ∀ j e, (relFields fts)[j]? = some e → ∃ va vb vr, valAt x j = some va ∧ valAt y j = some vb ∧ valAt r j = some vr ∧
        (if j ∈ es.map (·.1) then e.2.2.post va vb vr else vr = va) := by
  simp only [relTy, structRel] at ha hb
  obtain ⟨x, rfl, hx⟩ := ha
  obtain ⟨y, rfl, hy⟩ := hb
  simp only [semTy, ← fieldsOf_rel, structSem] at hsub
  obtain ⟨r, r1, r2⟩ := fold (relFields fts) (spec_fields fts) x y hx hy es x [] (inv_init _ x y hx hy) hsub hnd (by simp)
  refine ⟨x, y, r, rfl, rfl, ?_, r2.1, fun j e hj => ?_⟩
  · rw [semTy, ← fieldsOf_rel, structSem_apply, r1]; rfl
  · obtain ⟨va, vb, vr, h1, h2, h3, h4⟩ := r2.2 j e hj
    refine ⟨va, vb, vr, h1, h2, h3, ?_⟩
    simp only [List.append_nil, List.mem_reverse] at h4
    exact h4

/-- no entry is ever produced for a skipped field: every entry addresses an unskipped field whose values differ -/
theorem entries_address_unskipped (fts : FieldTys) (x y : Vals) (n : Nat) (p : Payload)
    (h : (n, p) ∈ (semTy (.struct fts)).diff (.strct x) (.strct y)) :
    ∃ F R va vb, (relFields fts)[n]? = some (false, F, R) ∧ valAt x n = some va ∧ valAt y n = some vb ∧
      F.diff va vb = some p := by
  simp only [semTy, ← fieldsOf_rel, structSem] at h
  obtain ⟨j, F, R, va, vb, e1, e2, e3, e4, e5⟩ := mem_sdiffG _ _ 0 x y n p h
  simp only [Nat.zero_add] at e1; subst e1
  exact ⟨F, R, va, vb, e2, e3, e4, e5⟩

/-- NO sequence of apply calls changes a skipped field: whatever the entries (from a diff of other values, forged,
repeated), if the application returns then every skipped position holds what it held before; an entry addressed to
a skipped field cannot even be expressed (the variant does not exist: the model rejects it) -/
theorem skipped_never_touched (fts : FieldTys) (x : Vals) (es : Entries) (r : Val)
    (h : (semTy (.struct fts)).apply (.strct x) es = .ok r) :
    ∃ z, r = .strct z ∧ ∀ j F R, (relFields fts)[j]? = some (true, F, R) → valAt z j = valAt x j := by
  rw [semTy, ← fieldsOf_rel, structSem_apply] at h
  induction es generalizing x with
  | nil =>
    simp only [sapplyG, Except.map] at h
    cases h
    exact ⟨x, rfl, fun _ _ _ _ => rfl⟩
  | cons e es ih =>
    obtain ⟨n, p⟩ := e
    simp only [sapplyG] at h
    cases h1 : sapplyOne (fieldsOf (relFields fts)) 0 (n, p) x with
    | error m => rw [h1] at h; cases h
    | ok x' =>
      rw [h1] at h
      obtain ⟨z, hz, hframe⟩ := ih x' h
      obtain ⟨j, F, R, v, v', e1, e2, e3, e4, e5⟩ := sapplyOne_frame _ 0 x x' n p h1
      refine ⟨z, hz, fun j' F' R' hj' => ?_⟩
      rw [hframe j' F' R' hj', e5]
      apply valAt_setAt_ne
      rintro rfl
      rw [e2] at hj'; cases hj'

end C03
