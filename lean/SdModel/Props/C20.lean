import SdModel.Lemmas.UArr
import SdModel.Lemmas.UMap
import SdModel.Gen.Params

/-!
# C20 — unordered diffs carry only what changed; no replacement unless it shrinks   (array-like part)
-/
namespace C20
open UArr
variable {α : Type} [DecidableEq α]

abbrev F := Gen.fewMax

/-- a change list mentions every item at most once (hence at most once per direction and never in both),
with exactly the multiplicity delta, and never an item whose multiplicity is the same on both sides -/
theorem arr_modify (prev cur : List α) (es : List (Change α)) (h : hashcmp F prev cur = some (.modify es)) :
    (es.map changeItem).Nodup ∧
    (∀ e ∈ es, (isInsert e = true → changeCount e = cur.count (changeItem e) - prev.count (changeItem e) ∧
                                  prev.count (changeItem e) < cur.count (changeItem e)) ∧
               (isInsert e = false → changeCount e = prev.count (changeItem e) - cur.count (changeItem e) ∧
                                   cur.count (changeItem e) < prev.count (changeItem e))) ∧
    (∀ x, prev.count x ≠ cur.count x → x ∈ es.map changeItem) := by
  simp only [hashcmp, hashcmpA_eq] at h
  split at h
  · cases h
  · split at h
    · cases h
    · simp only [Option.some.injEq, Diff.modify.injEq] at h
      subst h
      obtain ⟨a, b, c, d, _⟩ := modifyEntries_spec F prev cur
      -- with distinct items, the totals at an entry's item are that entry's count
      have single : ∀ (es : List (Change α)), (es.map changeItem).Nodup → ∀ e ∈ es,
          (isInsert e = true → inserted es (changeItem e) = changeCount e ∧ removed es (changeItem e) = 0) ∧
          (isInsert e = false → removed es (changeItem e) = changeCount e ∧ inserted es (changeItem e) = 0) := by
        intro es hnd
        induction es with
        | nil => simp
        | cons e0 t ih =>
          simp only [List.map_cons, List.nodup_cons] at hnd
          have hz : ∀ y, y ∉ t.map changeItem → inserted t y = 0 ∧ removed t y = 0 := by
            intro y hy
            have : ∀ (l : List (Change α)), (∀ e ∈ l, changeItem e ≠ y) → total l y = 0 := by
              intro l hl
              induction l with
              | nil => rfl
              | cons e l ihl =>
                rw [total_cons, if_neg (hl e (List.mem_cons_self)), ihl (fun e he => hl e (List.mem_cons_of_mem _ he))]
            constructor
            · exact this _ (fun e he hc => hy (by rw [← hc]; exact List.mem_map_of_mem (List.mem_filter.mp he).1))
            · exact this _ (fun e he hc => hy (by rw [← hc]; exact List.mem_map_of_mem (List.mem_filter.mp he).1))
          intro e he
          rcases List.mem_cons.mp he with rfl | he
          · obtain ⟨z1, z2⟩ := hz _ hnd.1
            constructor
            · intro hi; rw [inserted_cons, removed_cons]; simp [hi, z1, z2]
            · intro hi; rw [inserted_cons, removed_cons]; simp [hi, z1, z2]
          · have hne : changeItem e0 ≠ changeItem e := by
              intro e1; exact hnd.1 (by rw [e1]; exact List.mem_map_of_mem he)
            obtain ⟨i1, i2⟩ := ih hnd.2 e he
            constructor
            · intro hi; rw [inserted_cons, removed_cons]; simp [hne, i1 hi]
            · intro hi; rw [inserted_cons, removed_cons]; simp [hne, i2 hi]
      refine ⟨c, ?_, ?_⟩
      · intro e he
        obtain ⟨s1, s2⟩ := single _ c e he
        have hpos := d e he
        constructor
        · intro hi
          obtain ⟨t1, t2⟩ := s1 hi
          rw [a] at t1; rw [b] at t2
          omega
        · intro hi
          obtain ⟨t1, t2⟩ := s2 hi
          rw [b] at t1; rw [a] at t2
          omega
      · intro x hx
        by_cases hm : x ∈ (modifyEntries F prev cur).map changeItem
        · exact hm
        · exfalso
          have : ∀ (l : List (Change α)), (∀ e ∈ l, changeItem e ≠ x) → total l x = 0 := by
            intro l hl
            induction l with
            | nil => rfl
            | cons e l ihl =>
              rw [total_cons, if_neg (hl e (List.mem_cons_self)), ihl (fun e he => hl e (List.mem_cons_of_mem _ he))]
          have h1 : inserted (modifyEntries F prev cur) x = 0 :=
            this _ (fun e he hc => hm (by rw [← hc]; exact List.mem_map_of_mem (List.mem_filter.mp he).1))
          have h2 : removed (modifyEntries F prev cur) x = 0 :=
            this _ (fun e he hc => hm (by rw [← hc]; exact List.mem_map_of_mem (List.mem_filter.mp he).1))
          rw [a] at h1; rw [b] at h2; omega

/-- a full replacement carries exactly the new collection -/
theorem arr_replace (prev cur r : List α) (h : hashcmp F prev cur = some (.replace r)) : ∀ x, r.count x = cur.count x := by
  intro x
  simp only [hashcmp, hashcmpA_eq] at h
  split at h
  · simp only [Option.some.injEq, Diff.replace.injEq] at h
    subst h
    obtain ⟨c1, _, c3⟩ := collect_spec cur
    rw [count_expand _ _ c1, c3]
  · split at h <;> cases h

/-- `distinct l` : the number of distinct items (the collected map has exactly one entry per distinct item) -/
def distinct (l : List α) : Nat := (collect l).length

theorem distinct_spec (l : List α) : ((collect l).map (·.1)).Nodup ∧ ∀ x, x ∈ (collect l).map (·.1) ↔ x ∈ l := by
  obtain ⟨c1, c2, c3⟩ := collect_spec l
  refine ⟨(nodup_keys _).mp c1, ?_⟩
  intro x
  rw [← hasKey_iff_mem]
  constructor
  · intro h
    have := cget_pos_of_hasKey _ _ c2 h
    rw [c3] at this
    exact List.count_pos_iff.mp this
  · intro h
    exact hasKey_of_cget_pos _ _ (by rw [c3]; exact List.count_pos_iff.mpr h)

/-- if the new collection has at least as many distinct items as the old one, the diff is a change list;
in general a replacement is chosen exactly when `distinct cur < distinct prev - distinct cur` -/
theorem replace_iff (prev cur : List α) :
    (∃ r, hashcmp F prev cur = some (.replace r)) ↔ (distinct cur : Int) < (distinct prev : Int) - (distinct cur : Int) := by
  simp only [hashcmp, hashcmpA_eq, distinct]
  constructor
  · rintro ⟨r, h⟩
    split at h
    · assumption
    · split at h <;> cases h
  · intro h
    exact ⟨_, by rw [if_pos h]⟩

theorem no_replace_unless_shrinks (prev cur : List α) (h : distinct prev ≤ distinct cur) (r : List α) :
    hashcmp F prev cur ≠ some (.replace r) := by
  intro hh
  have := (replace_iff prev cur).mp ⟨r, hh⟩
  omega


/-! ### flat map-like (maps with unique keys, both modes) -/
section MapLike
open UMap
variable {κ ν : Type} [DecidableEq κ] [DecidableEq ν]

/-- what a change list may say about one key, given the key's state on both sides:
(total removed, total inserted, first inserted value) -/
def keySpec (p c : Option ν) : Nat × Nat × Option ν :=
  match p, c with
  | none, none => (0, 0, none)
  | none, some v => (0, 1, some v)
  | some _, none => (1, 0, none)
  | some pv, some v => if pv = v then (0, 0, none) else (1, 1, some v)

/-- a change list says, per key, exactly what changed: nothing for an identical pair, one insertion of the
new pair for an added key, one removal for a removed key, remove-old plus insert-new for a changed value;
and every entry has a positive count, so no key is mentioned more often than these totals -/
theorem map_modify (prev cur : List (κ × ν)) (hp : UniqueKeys prev) (hc : UniqueKeys cur) (b : Bool)
    (es : List (Change κ ν)) (h : UMap.hashcmp prev cur b = some (.modify es)) :
    (∀ k, (remTot es k, insTot es k, insVal es k) = keySpec (plookup prev k) (plookup cur k)) ∧
    (∀ e ∈ es, 0 < cnt e) := by
  obtain ⟨p1, p2, p3, p4⟩ := coll_unique b prev hp
  obtain ⟨c1, c2, c3, c4⟩ := coll_unique b cur hc
  simp only [UMap.hashcmp, UMap.hashcmpA_eq] at h
  split at h
  · cases h
  · split at h
    · cases h
    · simp only [Option.some.injEq, UMap.Diff.modify.injEq] at h
      subst h
      obtain ⟨l1, l2, l3, l4, _, l6⟩ := loop1_spec (coll b cur) (coll b prev) c1 p1 c2 p2
      obtain ⟨r1, r2, r3, r4, _⟩ := UMap.rest_spec _ l2 l3
      refine ⟨?_, ?_⟩
      · intro k
        have ll := l1 k
        have s1 := congrArg (·.1) ll
        have s2 := congrArg (·.2.1) ll
        have s3 := congrArg (·.2.2) ll
        simp only [] at s1 s2 s3
        simp only [entriesOf, remTot_append, insTot_append, insVal_append, r1, r2, r3, s1, s2, s3, l4 k, p3, c3]
        cases hpk : plookup prev k <;> cases hck : plookup cur k <;> simp [loopSpec, headSpec, keySpec]
        · rename_i pv v
          by_cases e : pv = v <;> simp [e]
      · intro e he
        rcases List.mem_append.mp he with he | he
        · exact l6 e he
        · exact r4 e he

/-- a full replacement carries exactly the new map -/
theorem map_replace (prev cur : List (κ × ν)) (hc : UniqueKeys cur) (b : Bool) (r : List (κ × ν))
    (h : UMap.hashcmp prev cur b = some (.replace r)) : UniqueKeys r ∧ ∀ k, plookup r k = plookup cur k := by
  obtain ⟨c1, c2, c3, c4⟩ := coll_unique b cur hc
  simp only [UMap.hashcmp, UMap.hashcmpA_eq] at h
  split at h
  · simp only [Option.some.injEq, UMap.Diff.replace.injEq] at h
    subst h
    exact plookup_eq_of_mget cur _ c1 c3
  · split at h <;> cases h

/-- if the new map has at least as many keys as the old one, the diff is a change list -/
theorem map_no_replace_unless_shrinks (prev cur : List (κ × ν)) (hp : UniqueKeys prev) (hc : UniqueKeys cur) (b : Bool)
    (hlen : prev.length ≤ cur.length) (r : List (κ × ν)) : UMap.hashcmp prev cur b ≠ some (.replace r) := by
  obtain ⟨_, _, _, p4⟩ := coll_unique b prev hp
  obtain ⟨_, _, _, c4⟩ := coll_unique b cur hc
  intro h
  simp only [UMap.hashcmp, UMap.hashcmpA_eq] at h
  split at h
  · rename_i hlt; rw [p4, c4] at hlt; omega
  · split at h <;> cases h

end MapLike

end C20
