import SdModel.Lemmas.DeriveIdx

/-!
# C15 — generated setters: the emitted diffs replay to the same state

`Derive.setterCall fields x i v` models calling the generated setter of field `i` (`FieldSem.setter` is the body per
template: compare, build the entry from old to new, assign).  `none` = no setter exists (skipped field, or the
key-and-value recursive map, for which the macro generates none).
-/
namespace C15
open Derive

/-- each setter call touches no other field and stores the given value in its field — except that the setters of
plain and nested fields compare first (`if self.f == value { return None }`) and leave the field as it is when the old
value is `==` to the given one under the type's own `PartialEq` (for a type whose `==` is identity that IS the given
value; for `0.0` / `-0.0` the old bit pattern stays) -/
theorem setter_stores (fields : Fields) (x : Val) (i : Nat) (v : Val) (ret : Option Entry) (x' : Val)
    (h : setterCall fields x i v = some (ret, x')) :
    ∃ vs old F, x = .strct vs ∧ valAt vs i = some old ∧ fieldAt fields i = some (false, F) ∧
      x' = .strct (setAt vs i (if F.setterKeeps old v then old else v)) ∧
      (∀ w j, j ≠ i → valAt (setAt vs i w) j = valAt vs j) := by
  unfold setterCall at h
  split at h
  · rename_i vs F hF
    cases hold : valAt vs i with
    | none => simp [hold] at h
    | some old =>
      simp only [hold] at h
      cases hs : F.setter old v with
      | none => simp [hs] at h
      | some r =>
        simp only [hs, Option.some.injEq, Prod.mk.injEq] at h
        exact ⟨vs, old, F, rfl, hold, hF, h.2.symm, fun w j hj => valAt_setAt_ne vs i j w hj⟩
  · cases h

/-- for the derive's templates: the stored value is the given one, or the old one when that is `==` to it (and then
nothing is returned) -/
theorem setter_stored_value (fts : FieldTys) (vs : Vals) (i : Nat) (v : Val) (ret : Option Entry) (x' : Val)
    (h : setterCall (semFields fts) (.strct vs) i v = some (ret, x')) :
    ∃ old w, valAt vs i = some old ∧ x' = .strct (setAt vs i w) ∧
      (w = v ∨ (w = old ∧ veq old v = true ∧ ret = none)) := by
  obtain ⟨vs', old, F, e1, e2, e3, e4, _⟩ := setter_stores _ _ i v ret x' h
  simp only [Val.strct.injEq] at e1; subst e1
  refine ⟨old, _, e2, e4, ?_⟩
  cases hk : F.setterKeeps old v with
  | false => exact .inl (by simp)
  | true =>
    right
    rw [← fieldsOf_rel, fieldAt_fieldsOf] at e3
    cases hf : (relFields fts)[i]? with
    | none => rw [hf] at e3; cases e3
    | some e =>
      rw [hf] at e3
      simp only [Option.map_some, Option.some.injEq, Prod.mk.injEq] at e3
      obtain ⟨sk, F', R⟩ := e
      simp only [] at e3
      obtain ⟨rfl, rfl⟩ := e3
      have hok := (setter_ok_fields fts _ (List.mem_of_getElem? hf)).2 old v hk
      refine ⟨by simp, hok.1, ?_⟩
      -- the returned entry
      unfold setterCall at h
      rw [← fieldsOf_rel, fieldAt_fieldsOf, hf] at h
      simp only [Option.map_some, e2] at h
      cases hs : F'.setter old v with
      | none => simp [hs] at h
      | some r =>
        simp only [hs, Option.some.injEq, Prod.mk.injEq] at h
        rw [← h.1, hok.2 r hs]; rfl

/-- the returned entry IS the entry a full diff has for that field (same position, same payload); it is absent iff
the field's strategy sees no change -/
theorem setter_returns_diff_entry (fts : FieldTys) (vs : Vals) (hw : SWT (relFields fts) vs) (i : Nat) (v : Val)
    (ret : Option Entry) (x' : Val) (h : setterCall (semFields fts) (.strct vs) i v = some (ret, x')) :
    ∃ F R old, (relFields fts)[i]? = some (false, F, R) ∧ valAt vs i = some old ∧
      ret = (F.diff old v).map (fun p => (i, p)) ∧ (R.wt v → (ret = none ↔ R.same old v)) := by
  rw [← fieldsOf_rel] at h
  unfold setterCall at h
  rw [fieldAt_fieldsOf] at h
  cases hf : (relFields fts)[i]? with
  | none => simp [hf] at h
  | some e =>
    obtain ⟨sk, F, R⟩ := e
    obtain ⟨old, ho, hwo⟩ := swt_at _ vs hw i _ hf
    cases sk with
    | true => simp [hf] at h
    | false =>
      simp only [hf, Option.map_some, ho] at h
      cases hs : F.setter old v with
      | none => simp [hs] at h
      | some r =>
        simp only [hs, Option.some.injEq, Prod.mk.injEq] at h
        have hr : r = F.diff old v := (setter_ok_fields fts _ (List.mem_of_getElem? hf)).1 old v r hs
        refine ⟨F, R, old, rfl, ho, by rw [← h.1, hr], fun hv => ?_⟩
        rw [← h.1, hr]
        have := (spec_fields fts _ (List.mem_of_getElem? hf)).none_iff old v hwo hv
        simp only [] at this
        rw [← this]
        cases F.diff old v <;> simp

/-- any sequence of setter calls (calls for which no setter exists are skipped) : final receiver, returned entries -/
def runSetters (fields : Fields) : Val → List (Nat × Val) → Val × Entries
  | x, [] => (x, [])
  | x, (i, v) :: cs =>
    match setterCall fields x i v with
    | some (ret, x') => let r := runSetters fields x' cs; (r.1, ret.toList ++ r.2)
    | none => runSetters fields x cs

/-- **C15 replay**: applying all returned entries, in order, to ANY value equivalent to the initial one (in particular
a copy of it) returns normally and yields a value equivalent to the final receiver (the sense of C01/C02) -/
theorem replay (fts : FieldTys) (calls : List (Nat × Val))
    (hv : ∀ c ∈ calls, ∀ e, (relFields fts)[c.1]? = some e → e.2.2.wt c.2) :
    ∀ (x y : Vals), SWT (relFields fts) x → SWT (relFields fts) y → SEquiv (relFields fts) x y →
      ∃ xf r, (runSetters (semFields fts) (.strct x) calls).1 = .strct xf ∧ SWT (relFields fts) xf ∧
        sapplyG (semFields fts) 0 y (runSetters (semFields fts) (.strct x) calls).2 = .ok r ∧
        SWT (relFields fts) r ∧ SEquiv (relFields fts) xf r := by
  induction calls with
  | nil => intro x y hx hy he; exact ⟨x, y, rfl, hx, rfl, hy, he⟩
  | cons c cs ih =>
    obtain ⟨i, v⟩ := c
    intro x y hx hy he
    have hvs : ∀ c ∈ cs, ∀ e, (relFields fts)[c.1]? = some e → e.2.2.wt c.2 := fun c hc => hv c (List.mem_cons_of_mem _ hc)
    simp only [runSetters]
    cases hcall : setterCall (semFields fts) (.strct x) i v with
    | none => exact ih hvs x y hx hy he
    | some rx =>
      obtain ⟨ret, x'⟩ := rx
      obtain ⟨F, R, old, hf, ho, hret, _⟩ := setter_returns_diff_entry fts x hx i v ret x' hcall
      obtain ⟨old', w, e1, e2, e3⟩ := setter_stored_value fts x i v ret x' hcall
      rw [ho] at e1; cases e1
      subst e2
      rcases e3 with hw | ⟨rfl, _, hnone⟩
      rotate_left
      · -- the setter returned before assigning: receiver unchanged, nothing emitted
        rw [setAt_self x i w ho]
        obtain ⟨xf, r, a1, a2, a3, a4, a5⟩ := ih hvs x y hx hy he
        refine ⟨xf, r, a1, a2, ?_, a4, a5⟩
        simp only [hnone, Option.toList_none, List.nil_append]
        exact a3
      have hw' := hw.symm
      subst hw'
      have hwv : R.wt v := hv (i, v) List.mem_cons_self _ hf
      obtain ⟨_, w1, hwo⟩ := swt_at _ x hx i _ hf
      rw [ho] at w1; cases w1
      obtain ⟨fy, hy1, hwy⟩ := swt_at _ y hy i _ hf
      have hF := spec_fields fts _ (List.mem_of_getElem? hf)
      have heq : R.equiv old fy := by
        rcases sequiv_at _ x y he i false F R hf old fy ho hy1 with h | h
        · cases h
        · exact h
      have hx' : SWT (relFields fts) (setAt x i v) := swt_setAt _ x hx i _ hf v hwv
      cases hd : F.diff old v with
      | none =>
        -- nothing returned: the follower stays, and is still equivalent
        have hpost := hF.stay old v fy hwo hwv hwy heq hd
        have heq' := hF.post_equiv fy v fy hwy hwv hwy hpost
        have he' : SEquiv (relFields fts) (setAt x i v) y := by
          have := sequiv_setAt _ x y he i false F R hf v fy (.inr heq')
          rwa [setAt_self y i fy hy1] at this
        obtain ⟨xf, r, a1, a2, a3, a4, a5⟩ := ih hvs (setAt x i v) y hx' hy he'
        refine ⟨xf, r, a1, a2, ?_, a4, a5⟩
        simp only [hret, hd, Option.map_none, Option.toList_none, List.nil_append]
        exact a3
      | some p =>
        obtain ⟨r0, f1, f2, f3⟩ := hF.follow old v fy p hwo hwv hwy heq hd
        have heq' := hF.post_equiv fy v r0 hwy hwv f2 f3
        have he' : SEquiv (relFields fts) (setAt x i v) (setAt y i r0) := sequiv_setAt _ x y he i false F R hf v r0 (.inr heq')
        have hy' : SWT (relFields fts) (setAt y i r0) := swt_setAt _ y hy i _ hf r0 f2
        obtain ⟨xf, r, a1, a2, a3, a4, a5⟩ := ih hvs (setAt x i v) (setAt y i r0) hx' hy' he'
        refine ⟨xf, r, a1, a2, ?_, a4, a5⟩
        have hone := sapplyOne_at (relFields fts) 0 y i F R fy r0 p hf hy1 f1
        simp only [Nat.zero_add, fieldsOf_rel] at hone
        simp only [hret, hd, Option.map_some, Option.toList_some, List.singleton_append, sapplyG, hone]
        exact a3

/-- at the level of the trait: replay on a copy of the initial value -/
theorem replay_on_copy (fts : FieldTys) (x0 : Val) (h0 : (relTy (.struct fts)).wt x0) (calls : List (Nat × Val))
    (hv : ∀ c ∈ calls, ∀ e, (relFields fts)[c.1]? = some e → e.2.2.wt c.2) :
    ∃ r, (semTy (.struct fts)).apply x0 (runSetters (semFields fts) x0 calls).2 = .ok r ∧
      (relTy (.struct fts)).equiv (runSetters (semFields fts) x0 calls).1 r := by
  simp only [relTy, structRel] at h0
  obtain ⟨x, rfl, hx⟩ := h0
  obtain ⟨xf, r, a1, a2, a3, a4, a5⟩ := replay fts calls hv x x hx hx (sequiv_refl _ (spec_fields fts) x hx)
  refine ⟨.strct r, ?_, ?_⟩
  · rw [semTy, structSem_apply, a3]; rfl
  · rw [a1]; exact ⟨xf, r, rfl, rfl, a5⟩

end C15
