import SdModel.Model.Derive
namespace C15
theorem placeholder : True := trivial
end C15
