import SdModel.Lemmas.Rope
import SdModel.Gen.Params

/-!
# C09 — the rope behaves exactly like a growable array under every operation history

`Rope.RInv P r` : every chunk holds between 1 and MAX-1 elements; `Rope.flat r` : the sequence.
The step theorems are proved for EVERY parameter record satisfying the arithmetic side conditions
`Rope.PWF`; below they are instantiated at the constants regenerated from the source on this run
(`Gen.ropeParams`, and the scaled-down twin `Gen.ropeParamsSmall`), the side conditions being
discharged by `decide` — a retuning that violates them breaks these proofs.
Chunks are bounded lists; that an `ArrayMap` chunk behaves like one is C10.
-/
namespace C09
open Rope
variable {α : Type}

/-- side conditions hold for the constants extracted from the source -/
theorem params_wf : PWF Gen.ropeParams := by
  refine ⟨?_, ?_, ?_, ?_, ?_⟩ <;> decide

theorem params_small_wf : PWF Gen.ropeParamsSmall := by
  refine ⟨?_, ?_, ?_, ?_, ?_⟩ <;> decide

/-- the two literals of `FromIterator` (`take(k)` and `!= k`) agree -/
theorem fromIter_literals_agree : Gen.ropeChunkNe = Gen.ropeParams.CHUNK := by decide

abbrev P := Gen.ropeParams

theorem new_ok : RInv P (Rope.new false : Chunks α) ∧ flat (Rope.new false : Chunks α) = [] := new_spec P

theorem fromIter_ok (l : List α) : RInv P (fromIter P l) ∧ flat (fromIter P l) = l := fromIter_spec P params_wf l

theorem len_ok (r : Chunks α) : len r = (flat r).length := len_eq r

theorem index_in_range (r : Chunks α) (i : Nat) (hi : i < (flat r).length) : index r i = .ok ((flat r)[i]) :=
  index_ok r i hi

/-- reading at or past the length panics instead of returning a wrong element -/
theorem index_past_end_panics (r : Chunks α) (i : Nat) (hi : (flat r).length ≤ i) : ∃ e, index r i = .error e :=
  index_panics r i hi

theorem iter_ok (r : Chunks α) (hI : RInv P r) : iter r = .ok (flat r) := iter_eq_flat P r hI

theorem intoIter_ok (r : Chunks α) : intoList r = flat r := rfl

theorem insert_ok (r : Chunks α) (i : Nat) (x : α) (hI : RInv P r) (hi : i ≤ (flat r).length) :
    ∃ r', Rope.insert P r i x = .ok r' ∧ RInv P r' ∧ flat r' = (flat r).insertIdx i x :=
  insert_refines P params_wf r i x hI hi

theorem remove_ok (r : Chunks α) (i : Nat) (hI : RInv P r) (hi : i < (flat r).length) :
    ∃ r', remove P r i = .ok r' ∧ RInv P r' ∧ flat r' = (flat r).eraseIdx i :=
  remove_refines P params_wf r i hI hi

theorem drain_ok (r : Chunks α) (l h : Nat) (hI : RInv P r) (hlh : l ≤ h) (hh : h < (flat r).length) :
    ∃ r', drain P r l h = .ok r' ∧ RInv P r' ∧ flat r' = (flat r).take l ++ (flat r).drop (h + 1) :=
  drain_refines P params_wf r l h hI hlh hh

theorem swap_ok (r : Chunks α) (a b : Nat) (hI : RInv P r) (ha : a < (flat r).length) (hb : b < (flat r).length) :
    ∃ r', swap r a b = .ok r' ∧ RInv P r' ∧ flat r' = listSwap (flat r) a b :=
  swap_refines P r a b hI ha hb

theorem set_ok (r : Chunks α) (i : Nat) (v : α) (hI : RInv P r) (hi : i < (flat r).length) :
    ∃ r', set r i v = .ok r' ∧ RInv P r' ∧ flat r' = (flat r).set i v :=
  set_refines P r i v hI hi

/-! ### every operation history -/

inductive Op (α : Type) where
  | insert (i : Nat) (x : α)
  | remove (i : Nat)
  | drain (l h : Nat)       -- inclusive range
  | swap (a b : Nat)
  | set (i : Nat) (v : α)

def stepRope (Q : Params) (r : Chunks α) : Op α → Except String (Chunks α)
  | .insert i x => Rope.insert Q r i x
  | .remove i => remove Q r i
  | .drain l h => drain Q r l h
  | .swap a b => swap r a b
  | .set i v => set r i v

/-- the same operation on a plain growable array; `none` = out of range -/
def stepVec (L : List α) : Op α → Option (List α)
  | .insert i x => if i ≤ L.length then some (L.insertIdx i x) else none
  | .remove i => if i < L.length then some (L.eraseIdx i) else none
  | .drain l h => if l ≤ h ∧ h < L.length then some (L.take l ++ L.drop (h + 1)) else none
  | .swap a b => if a < L.length ∧ b < L.length then some (listSwap L a b) else none
  | .set i v => if i < L.length then some (L.set i v) else none

def runRope (Q : Params) (r : Chunks α) : List (Op α) → Except String (Chunks α)
  | [] => .ok r
  | op :: ops => match stepRope Q r op with
    | .ok r' => runRope Q r' ops
    | .error e => .error e

def runVec (L : List α) : List (Op α) → Option (List α)
  | [] => some L
  | op :: ops => match stepVec L op with
    | some L' => runVec L' ops
    | none => none

theorem step_ok (Q : Params) (hw : PWF Q) (r : Chunks α) (hI : RInv Q r) (op : Op α) (L' : List α)
    (h : stepVec (flat r) op = some L') : ∃ r', stepRope Q r op = .ok r' ∧ RInv Q r' ∧ flat r' = L' := by
  cases op with
  | insert i x =>
    simp only [stepVec] at h; split at h
    · cases h; exact insert_refines Q hw r i x hI (by assumption)
    · cases h
  | remove i =>
    simp only [stepVec] at h; split at h
    · cases h; exact remove_refines Q hw r i hI (by assumption)
    · cases h
  | drain l hh =>
    simp only [stepVec] at h; split at h
    · rename_i hc; cases h; exact drain_refines Q hw r l hh hI hc.1 hc.2
    · cases h
  | swap a b =>
    simp only [stepVec] at h; split at h
    · rename_i hc; cases h; exact swap_refines Q r a b hI hc.1 hc.2
    · cases h
  | set i v =>
    simp only [stepVec] at h; split at h
    · cases h; exact set_refines Q r i v hI (by assumption)
    · cases h

/-- what can be observed of a rope: length, every indexed read, borrowed and consuming iteration -/
def observe (r : Chunks α) : Nat × (Nat → Option α) × Except String (List α) × List α :=
  (len r, (fun i => match index r i with | .ok v => some v | .error _ => none), iter r, intoList r)

def observeVec (L : List α) : Nat × (Nat → Option α) × Except String (List α) × List α :=
  (L.length, (fun i => L[i]?), .ok L, L)

theorem observe_eq (Q : Params) (r : Chunks α) (hI : RInv Q r) : observe r = observeVec (flat r) := by
  unfold observe observeVec
  rw [len_eq, iter_eq_flat Q r hI]
  refine Prod.ext rfl (Prod.ext ?_ rfl)
  funext i
  by_cases hi : i < (flat r).length
  · simp only [index_ok r i hi, List.getElem?_eq_getElem hi]
  · obtain ⟨e, he⟩ := index_panics r i (by omega)
    simp only [he, List.getElem?_eq_none (Nat.le_of_not_lt hi)]

/-- **C09**: starting from any rope satisfying the invariant, any finite history of in-range
operations runs without panic, re-establishes the invariant, and leaves a rope whose length,
indexed reads (incl. the panic at or past the length), borrowed iteration and consuming iteration
all agree with the plain growable array subjected to the same operations. Any parameters satisfying
the side conditions. -/
theorem history_gen (Q : Params) (hw : PWF Q) (ops : List (Op α)) (r : Chunks α) (hI : RInv Q r) (L' : List α)
    (h : runVec (flat r) ops = some L') :
    ∃ r', runRope Q r ops = .ok r' ∧ RInv Q r' ∧ flat r' = L' ∧ observe r' = observeVec L' := by
  induction ops generalizing r with
  | nil =>
    simp only [runVec] at h; cases h
    exact ⟨r, rfl, hI, rfl, observe_eq Q r hI⟩
  | cons op ops ih =>
    simp only [runVec] at h
    split at h
    · rename_i L1 h1
      obtain ⟨r1, e1, hI1, hf1⟩ := step_ok Q hw r hI op L1 h1
      obtain ⟨r', e2, hI2, hf2, ho⟩ := ih r1 hI1 (by rw [hf1]; exact h)
      exact ⟨r', by simp [runRope, e1, e2], hI2, hf2, ho⟩
    · cases h

/-- production constants, from `from_iter` of any sequence -/
theorem history_from_iter (init : List α) (ops : List (Op α)) (L' : List α) (h : runVec init ops = some L') :
    ∃ r', runRope P (fromIter P init) ops = .ok r' ∧ RInv P r' ∧ observe r' = observeVec L' := by
  obtain ⟨hI, hf⟩ := fromIter_ok init
  obtain ⟨r', h1, h2, _, h4⟩ := history_gen P params_wf ops (fromIter P init) hI L' (by rw [hf]; exact h)
  exact ⟨r', h1, h2, h4⟩

/-- production constants, from `new()` -/
theorem history_from_new (ops : List (Op α)) (L' : List α) (h : runVec [] ops = some L') :
    ∃ r', runRope P (Rope.new false) ops = .ok r' ∧ RInv P r' ∧ observe r' = observeVec L' := by
  obtain ⟨hI, hf⟩ := new_ok (α := α)
  obtain ⟨r', h1, h2, _, h4⟩ := history_gen P params_wf ops (Rope.new false) hI L' (by rw [hf]; exact h)
  exact ⟨r', h1, h2, h4⟩

/-- the scaled-down twin compiled into the harness is covered by the same theorem -/
theorem history_small (ops : List (Op α)) (r : Chunks α) (hI : RInv Gen.ropeParamsSmall r) (L' : List α)
    (h : runVec (flat r) ops = some L') :
    ∃ r', runRope Gen.ropeParamsSmall r ops = .ok r' ∧ RInv Gen.ropeParamsSmall r' ∧ observe r' = observeVec L' := by
  obtain ⟨r', h1, h2, _, h4⟩ := history_gen _ params_small_wf ops r hI L' h
  exact ⟨r', h1, h2, h4⟩

/-- the pre-fix constructor (`new()` = one empty chunk) violates the property: recorded witness of
finding A, kept so the defect stays reproducible in the model (`sddriver --legacy`). -/
theorem legacy_new_breaks_iteration :
    (match Rope.insert P (Rope.new true : Chunks Nat) 0 7 with
     | .ok r => flat r == [7] && (match iter r with | .ok l => l == [] | .error _ => false)
     | .error _ => false) = true := by decide

/-! ### non-vacuity -/
example : RInv P ([[1,2,3],[4],[5,6,7,8,9,10,11,12,13,14,15,16,17,18,19]] : Chunks Nat) := by
  intro c hc; simp at hc; rcases hc with rfl | rfl | rfl <;> decide
example : runVec [1,2,3,4,5] [Op.insert 2 9, .drain 0 1, .swap 0 3, .remove 1, .set 0 8] = some [8, 4, 9] := by decide

end C09
