import SdModel.Model.Rope
namespace C09
theorem placeholder : True := trivial
end C09
