import SdModel.Model.Derive
namespace C05
theorem placeholder : True := trivial
end C05
