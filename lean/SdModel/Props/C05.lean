import SdModel.Lemmas.DeriveKnot

/-!
# C05 — `diff_ref` is observationally the same diff as `diff`

In the model `TySem.diffRef a b` is `a.diff_ref(&b)` with every entry converted by the generated
`Into<Diff>`; the `diff_ref` bodies are separate definitions per template (`FieldSem.diffRef`), as in the macro,
and the correspondence check compares them with the real `diff_ref` + `Into`.  The theorem: for every type
descriptor the two entry lists are EQUAL — same number of entries, same fields, same order, same payloads — hence
they have the same effect on any base.
-/
namespace C05
open Derive

/-- **C05**: converted `diff_ref` = `diff`, for every type and every pair of values -/
theorem diffRef_eq_diff (t : Ty) (a b : Val) : (semTy t).diffRef a b = (semTy t).diff a b :=
  (spec_ty t).ref_eq a b

/-- same number of entries, for the same fields in the same order -/
theorem same_fields (t : Ty) (a b : Val) :
    ((semTy t).diffRef a b).map (·.1) = ((semTy t).diff a b).map (·.1) := by rw [diffRef_eq_diff]

/-- same effect on `a` and on any other base (in particular any value equivalent to `a`) -/
theorem same_effect (t : Ty) (a b x : Val) :
    (semTy t).apply x ((semTy t).diffRef a b) = (semTy t).apply x ((semTy t).diff a b) := by rw [diffRef_eq_diff]

/-- and the effect on a follower is the one C01/C02 describe -/
theorem follower_effect (t : Ty) (a b f : Val) (ha : (relTy t).wt a) (hb : (relTy t).wt b) (hf : (relTy t).wt f)
    (he : (relTy t).equiv a f) :
    ∃ r, (semTy t).apply f ((semTy t).diffRef a b) = .ok r ∧ (relTy t).wt r ∧ (relTy t).post f b r := by
  rw [diffRef_eq_diff]; exact (spec_ty t).follow a b f ha hb hf he

end C05
