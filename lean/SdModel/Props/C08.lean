import SdModel.Model.Lev
import SdModel.Model.Codec
namespace C08
theorem placeholder : True := trivial
end C08
