import SdModel.Lemmas.Codec
import SdModel.Lemmas.Rope
import SdModel.Props.C09

/-!
# C08 — ordered patch scripts received over the wire execute with exact list semantics

`Script.apply` is the model of `ordered_array_like::apply` (collect into a rope, apply each change through the
rope operation the code uses, iterate out); `Script.runList` is the reference semantics on a plain growable
array (assign / insert-before / remove / remove inclusive range / exchange), `none` as soon as an index is out
of range at the moment it is used.  The wire theorems are instantiated at the discriminant tables and
declaration orders regenerated from the source on this run.
-/
namespace C08
open Script Codec

variable {α : Type}

theorem listSwap_eq (L : List α) (a b : Nat) : Script.listSwap L a b = Rope.listSwap L a b := rfl

/-- one change: the rope operation has exactly the list effect and re-establishes the invariant -/
theorem change_ok (P : Rope.Params) (hw : Rope.PWF P) (c : Change α) (r : Rope.Chunks α) (hI : Rope.RInv P r)
    (L' : List α) (h : applyList c (Rope.flat r) = some L') :
    ∃ r', applyRope P c r = .ok r' ∧ Rope.RInv P r' ∧ Rope.flat r' = L' := by
  cases c with
  | replace v i =>
    simp only [applyList] at h; split at h
    · cases h; exact Rope.set_refines P r i v hI (by assumption)
    · cases h
  | insert v i =>
    simp only [applyList] at h; split at h
    · cases h; exact Rope.insert_refines P hw r i v hI (by assumption)
    · cases h
  | delete i o =>
    cases o with
    | none =>
      simp only [applyList] at h; split at h
      · cases h; exact Rope.remove_refines P hw r i hI (by assumption)
      · cases h
    | some hh =>
      simp only [applyList] at h; split at h
      · rename_i hc; cases h; exact Rope.drain_refines P hw r i hh hI hc.1 hc.2
      · cases h
  | swap a b =>
    simp only [applyList] at h; split at h
    · rename_i hc; cases h
      obtain ⟨r', h1, h2, h3⟩ := Rope.swap_refines P r a b hI hc.1 hc.2
      exact ⟨r', h1, h2, by rw [h3]; rfl⟩
    · cases h

theorem run_ok (P : Rope.Params) (hw : Rope.PWF P) (s : List (Change α)) (r : Rope.Chunks α) (hI : Rope.RInv P r)
    (L' : List α) (h : runList s (Rope.flat r) = some L') :
    ∃ r', runRope P s r = .ok r' ∧ Rope.RInv P r' ∧ Rope.flat r' = L' := by
  induction s generalizing r with
  | nil => simp only [runList] at h; cases h; exact ⟨r, rfl, hI, rfl⟩
  | cons c cs ih =>
    simp only [runList] at h
    split at h
    · rename_i L1 h1
      obtain ⟨r1, e1, hI1, hf1⟩ := change_ok P hw c r hI L1 h1
      obtain ⟨r', e2, hI2, hf2⟩ := ih r1 hI1 (by rw [hf1]; exact h)
      exact ⟨r', by simp [runRope, e1, e2], hI2, hf2⟩
    · cases h

/-- **C08 (execution)**: any well-formed script — every index in range at the moment it is used, any length,
any index order, swaps and ranged deletes included, whether or not this library would emit it — applied by
`ordered_array_like::apply` gives exactly what executing it on a plain growable array gives, and never panics. -/
theorem script_rope_eq_list (s : List (Change α)) (xs L' : List α) (h : runList s xs = some L') :
    Script.apply Gen.ropeParams s xs = .ok L' := by
  obtain ⟨hI, hf⟩ := Rope.fromIter_spec Gen.ropeParams C09.params_wf xs
  obtain ⟨r', h1, _, h3⟩ := run_ok Gen.ropeParams C09.params_wf s _ hI L' (by rw [hf]; exact h)
  simp only [Script.apply, h1, Rope.intoList, h3]

/-! ### the two wire formats -/

theorem tables_nano : TablesOK .nano := by
  intro k hk
  have : k = 0 ∨ k = 1 ∨ k = 2 ∨ k = 3 := by omega
  rcases this with rfl | rfl | rfl | rfl <;> decide

theorem tables_bincode : TablesOK .bincode := by
  intro k hk
  have : k = 0 ∨ k = 1 ∨ k = 2 ∨ k = 3 := by omega
  rcases this with rfl | rfl | rfl | rfl <;> decide

theorem tables_ok (f : Fmt) : TablesOK f := by cases f; exact tables_nano; exact tables_bincode

/-- decoding what a conforming encoder wrote gives back the script (both formats) and consumes exactly its bytes -/
theorem dec_enc (f : Fmt) (s : List (Change Nat)) (hs : ∀ c ∈ s, WFChange c) (hlen : s.length < 2 ^ 64) (rest : Bytes) :
    decScript f (encScript f s ++ rest) = some (s, rest) :=
  decScript_enc f (tables_ok f) s hs hlen rest

/-- re-encoding a decoded script reproduces the received bytes, for every byte string a conforming encoder can produce -/
theorem reencode (f : Fmt) (bytes : Bytes) (s0 : List (Change Nat)) (hs : ∀ c ∈ s0, WFChange c) (hlen : s0.length < 2 ^ 64)
    (hb : bytes = encScript f s0) (s : List (Change Nat)) (rest : Bytes) (hd : decScript f bytes = some (s, rest)) :
    encScript f s ++ rest = bytes := by
  have := dec_enc f s0 hs hlen []
  rw [List.append_nil, ← hb, hd] at this
  cases this; simp [hb]

/-- the borrowed form writes the same discriminants / variant indices as the owned form -/
theorem ref_tables_eq (f : Fmt) : (tables f).2.1 = (tables f).1 := by cases f <;> decide

theorem ref_enc_eq_owned_enc (f : Fmt) (s : List (Change Nat)) : encScriptRef f s = encScript f s := by
  have : encChangeRef f = encChange f := by funext c; simp only [encChangeRef, encChange, ref_tables_eq]
  simp only [encScriptRef, encScript, this]

/-- decode-then-apply = list semantics: the end-to-end statement of the property -/
theorem wire_then_apply (f : Fmt) (s : List (Change Nat)) (hs : ∀ c ∈ s, WFChange c) (hlen : s.length < 2 ^ 64)
    (xs L' : List Nat) (h : runList s xs = some L') :
    ∃ s', decScript f (encScript f s) = some (s', []) ∧ Script.apply Gen.ropeParams s' xs = .ok L' ∧ encScript f s' = encScript f s := by
  have := dec_enc f s hs hlen []
  rw [List.append_nil] at this
  exact ⟨s, this, script_rope_eq_list s xs L' h, rfl⟩

/-! ### non-vacuity -/
example : runList [Change.swap 0 3, .delete 1 (some 2), .insert 9 1, .replace 7 0, .delete 2 none] [1, 2, 3, 4] = some [7, 9] := by decide
example : ∀ c ∈ [Change.swap 0 3, .delete 1 (some 2), .insert 9 1], WFChange c := by
  intro c hc; simp at hc; rcases hc with rfl | rfl | rfl <;> simp [WFChange]

end C08
