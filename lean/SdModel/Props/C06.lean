import SdModel.Model.Derive
namespace C06
theorem placeholder : True := trivial
end C06
