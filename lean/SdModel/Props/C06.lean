import SdModel.Lemmas.DeriveKnot

/-!
# C06 — `apply`, `apply_ref`, `apply_mut` and repeated `apply_single` agree; `apply_ref` is pure

The four entry points are modelled separately (`TySem.apply`, `applyRef`, `applyMut`, and `singles` = feeding
the entries one at a time to `apply_single`), as the trait's default methods are separate functions, and are
proved equal for EVERY semantics `S` (so also for hand-written `apply_single`s) and every entry list, including
lists that make `apply_single` panic (the panic is then reported by all four).
Purity ("`apply_ref` leaves `x` unchanged", "computing a diff modifies neither argument") is not a theorem about
the model — a functional model cannot mutate — it is checked on the real code by the correspondence harness
(the receiver and both arguments are compared with clones taken before the call).
-/
namespace C06
open Derive

/-- feeding the entries one by one to `apply_single` -/
def singles (S : TySem) (x : Val) : Entries → Except String Val
  | [] => .ok x
  | e :: es => match S.applySingle x e with
    | .ok x' => singles S x' es
    | .error m => .error m

theorem applyRef_eq_apply (S : TySem) (x : Val) (d : Entries) : S.applyRef x d = S.apply x d := rfl
theorem applyMut_eq_apply (S : TySem) (x : Val) (d : Entries) : S.applyMut x d = S.apply x d :=
  Derive.applyMut_eq_apply S x d
theorem singles_eq_apply (S : TySem) (x : Val) (d : Entries) : singles S x d = S.apply x d := by
  induction d generalizing x with
  | nil => rfl
  | cons e es ih =>
    simp only [singles, TySem.apply]
    cases S.applySingle x e with
    | ok x' => exact ih x'
    | error m => rfl

/-- **C06**: all four agree, for every derived type, every value and every diff -/
theorem all_agree (t : Ty) (x : Val) (d : Entries) :
    (semTy t).applyRef x d = (semTy t).apply x d ∧ (semTy t).applyMut x d = (semTy t).apply x d ∧
    singles (semTy t) x d = (semTy t).apply x d :=
  ⟨rfl, applyMut_eq_apply _ x d, singles_eq_apply _ x d⟩

end C06
