import SdModel.Model.UMap
namespace C12
theorem placeholder : True := trivial
end C12
