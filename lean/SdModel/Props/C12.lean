import SdModel.Lemmas.UMap

/-!
# C12 — map-like diff round trip for maps, in both equality modes

`UMap.hashcmp prev cur keyOnly` / `UMap.apply` model `unordered_map_like::{unordered_hashcmp, apply_unordered_hashdiffs}`.
A map is a list of pairs with unique keys (`UniqueKeys`), observed through `plookup`.  Statements are per key,
hence independent of any hash-map iteration order.  `keyOnly` selects the collector only; the value comparison
of retained keys happens in both modes, exactly as in the code.
-/
namespace C12
open UMap
variable {κ ν : Type} [DecidableEq κ] [DecidableEq ν]

/-- **round trip** (either mode, either representation): the result is a map (every key once) equal to
current key for key and value for value -/
theorem roundtrip (prev cur : List (κ × ν)) (hp : UniqueKeys prev) (hc : UniqueKeys cur) (b : Bool) (d : Diff κ ν)
    (h : hashcmp prev cur b = some d) :
    UniqueKeys (apply prev d) ∧ ∀ k, plookup (apply prev d) k = plookup cur k := by
  obtain ⟨p1, p2, p3, p4⟩ := coll_unique b prev hp
  obtain ⟨c1, c2, c3, c4⟩ := coll_unique b cur hc
  obtain ⟨b1, b2, b3, _⟩ := coll_unique true prev hp
  simp only [hashcmp, hashcmpA_eq] at h
  split at h
  · simp only [Option.some.injEq] at h
    subst h
    exact plookup_eq_of_mget cur _ c1 c3
  · split at h
    · cases h
    · simp only [Option.some.injEq] at h
      subst h
      obtain ⟨m1, m2⟩ := roundtrip_mget (coll b prev) (coll b cur) (collectKeyEq prev) p1 c1 p2 c2 b1 b2
        (by intro x; rw [p3]; exact b3 x)
      exact plookup_eq_of_mget cur _ m1 (by intro x; rw [m2 x, c3])

/-- the same for a FOLLOWER: the diff computed from (prev, cur) applied to any map `base` that equals `prev`
as a map (whatever its iteration order) gives a map equal to `cur` -/
theorem roundtrip_follower (prev cur base : List (κ × ν)) (hp : UniqueKeys prev) (hc : UniqueKeys cur) (hb : UniqueKeys base)
    (hbp : ∀ k, plookup base k = plookup prev k) (b : Bool) (d : Diff κ ν)
    (h : hashcmp prev cur b = some d) :
    UniqueKeys (apply base d) ∧ ∀ k, plookup (apply base d) k = plookup cur k := by
  obtain ⟨p1, p2, p3, p4⟩ := coll_unique b prev hp
  obtain ⟨c1, c2, c3, c4⟩ := coll_unique b cur hc
  obtain ⟨b1, b2, b3, _⟩ := coll_unique true base hb
  simp only [hashcmp, hashcmpA_eq] at h
  split at h
  · simp only [Option.some.injEq] at h
    subst h
    exact plookup_eq_of_mget cur _ c1 c3
  · split at h
    · cases h
    · simp only [Option.some.injEq] at h
      subst h
      obtain ⟨m1, m2⟩ := roundtrip_mget (coll b prev) (coll b cur) (collectKeyEq base) p1 c1 p2 c2 b1 b2
        (by intro x; rw [p3, ← hbp x]; exact b3 x)
      exact plookup_eq_of_mget cur _ m1 (by intro x; rw [m2 x, c3])

/-- both representations occur -/
example : hashcmp [(1, 10), (2, 20), (3, 30), (4, 40)] [(1, 11)] false = some (.replace [(1, 11)]) := by decide
example : hashcmp [(1, 10), (2, 20), (3, 30)] [(1, 10), (2, 21), (4, 40)] true
    = some (.modify [.removeSingle 2, .insertSingle 2 21, .insertSingle 4 40, .removeSingle 3]) := by decide

/-- a key whose value changed ends up with the new value, never the old one and never both -/
theorem changed_key (prev cur : List (κ × ν)) (hp : UniqueKeys prev) (hc : UniqueKeys cur) (b : Bool) (d : Diff κ ν)
    (h : hashcmp prev cur b = some d) (k : κ) (v v' : ν) (h1 : plookup prev k = some v) (h2 : plookup cur k = some v')
    (_hne : v ≠ v') : plookup (apply prev d) k = some v' ∧ UniqueKeys (apply prev d) := by
  obtain ⟨a1, a2⟩ := roundtrip prev cur hp hc b d h
  exact ⟨by rw [a2, h2], a1⟩

/-- the diff is absent exactly when the maps are equal -/
theorem absent_iff (prev cur : List (κ × ν)) (hp : UniqueKeys prev) (hc : UniqueKeys cur) (b : Bool) :
    hashcmp prev cur b = none ↔ ∀ k, plookup prev k = plookup cur k := by
  obtain ⟨p1, p2, p3, p4⟩ := coll_unique b prev hp
  obtain ⟨c1, c2, c3, c4⟩ := coll_unique b cur hc
  obtain ⟨b1, b2, b3, _⟩ := coll_unique true prev hp
  have inj : ∀ (a b : Option ν), a.map (fun v => (v, 1)) = b.map (fun v => (v, 1)) → a = b := by
    intro a b h; cases a <;> cases b <;> simp_all
  constructor
  · intro h k
    simp only [hashcmp, hashcmpA_eq] at h
    split at h
    · cases h
    · split at h
      · rename_i hemp
        have hnil : entriesOf (coll b prev) (coll b cur) = [] := by simpa using hemp
        obtain ⟨_, m2⟩ := roundtrip_mget (coll b prev) (coll b cur) (collectKeyEq prev) p1 c1 p2 c2 b1 b2
          (by intro x; rw [p3]; exact b3 x)
        have := m2 k
        simp only [hnil, List.filter_nil, applyRemovals, applyInsertions] at this
        rw [show mget (collectKeyEq prev) k = _ from b3 k, c3] at this
        exact inj _ _ this
      · cases h
  · intro h
    have hPC : ∀ x, mget (coll b prev) x = mget (coll b cur) x := by intro x; rw [p3, c3, h x]
    obtain ⟨l1, l2, l3, l4, _, l6⟩ := loop1_spec (coll b cur) (coll b prev) c1 p1 c2 p2
    have hrest : (loop1 (coll b cur) (coll b prev)).2.1 = [] := by
      apply eq_nil_of_mget_none
      intro x
      rw [l4 x]
      cases hc' : mget (coll b cur) x with
      | none => simp [hPC x, hc']
      | some vc => simp
    have hr1 : (loop1 (coll b cur) (coll b prev)).1 = [] := by
      apply eq_nil_of_totals _ l6
      intro x
      have ll := l1 x
      have s1 := congrArg (·.1) ll
      have s2 := congrArg (·.2.1) ll
      simp only [] at s1 s2
      rw [s1, s2, hPC x]
      cases hc' : mget (coll b cur) x with
      | none => simp [loopSpec]
      | some vc => obtain ⟨v, cc⟩ := vc; simp [loopSpec, headSpec]
    have hlen : (coll b prev).length = (coll b cur).length := by
      rw [p4, c4]
      exact length_eq_of_lookup prev cur hp hc (by intro k; rw [h k])
    simp only [hashcmp, hashcmpA_eq]
    rw [if_neg (by rw [hlen]; omega)]
    simp [entriesOf, hr1, hrest, restOf]

end C12
