import SdModel.Model.Derive
namespace C13
theorem placeholder : True := trivial
end C13
