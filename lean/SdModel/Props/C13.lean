import SdModel.Lemmas.DeriveKnot

/-!
# C13 — recursive map diff: keys converge exactly, values converge through nested diffs

`RMap.hashcmp N prev cur keyOnly` / `RMap.apply N base d` model
`unordered_map_like_recursive::{unordered_hashcmp, apply_unordered_hashdiffs}`; `N : Nested` is what the code
uses of the value type (`==`, `diff_ref`, `apply_mut`).  Maps are association lists with distinct keys
(`NoDupK`), observed through `kget`, so every statement is independent of hash-map iteration order.
The first group of theorems is generic in `N` and in the BASE the diff is applied to; the second instantiates `N`
with a derived value type (`Derive.nestedOf (semTy t)`), where "equals current's value on all unskipped nested
fields" is `(relTy t).post`.
-/
namespace C13
open RMap

section Generic
variable {κ ν δ : Type} [DecidableEq κ]

/-- the diff is absent exactly when the key sets agree and — unless key-only — all retained values are equal -/
theorem absent_iff (N : Nested ν δ) (prev cur : KV κ ν) (hp : NoDupK prev) (hc : NoDupK cur) (keyOnly : Bool) :
    hashcmp N prev cur keyOnly = none ↔
      (∀ k, (kget prev k).isSome = (kget cur k).isSome) ∧
      (keyOnly = false → ∀ k pv cv, kget prev k = some pv → kget cur k = some cv → N.veq pv cv = true) := by
  rw [hashcmp_eq N prev cur hp hc]
  constructor
  · intro h
    split at h
    · cases h
    · split at h
      · rename_i hemp
        exact (entries_nil_iff N keyOnly prev cur hp).mp (by simpa using hemp)
      · cases h
  · intro h
    have hnil := (entries_nil_iff N keyOnly prev cur hp).mpr h
    have hlen : prev.length = cur.length := by
      have hperm : (keys prev).Perm (keys cur) := by
        rw [List.perm_ext_iff_of_nodup hp hc]
        intro k
        rw [← kget_isSome_iff, ← kget_isSome_iff, h.1 k]
      simpa [keys] using hperm.length_eq
    rw [if_neg (by omega)]
    simp [hnil]

/-- **keys and values after applying the diff of (prev, cur) to prev** — either representation:
exactly current's keys; a new key carries current's value; a retained key carries its old value patched in place by
the nested diff (key-and-value mode, values differing), its old value (key-only mode, or values equal), or — when the
whole-map replacement is chosen — current's value -/
theorem roundtrip (N : Nested ν δ) (prev cur : KV κ ν) (hp : NoDupK prev) (hc : NoDupK cur) (keyOnly : Bool)
    (d : Diff κ ν δ) (h : hashcmp N prev cur keyOnly = some d) :
    NoDupK (apply N prev d) ∧
    ∀ k, match kget cur k with
      | none => kget (apply N prev d) k = none
      | some cv =>
        kget (apply N prev d) k = some cv ∨
        ∃ pv, kget prev k = some pv ∧ kget (apply N prev d) k = some (patchOf N keyOnly pv cv pv) := by
  rw [hashcmp_eq N prev cur hp hc] at h
  split at h
  · cases h
    refine ⟨hc, fun k => ?_⟩
    cases hk : kget cur k with
    | none => simpa [apply] using hk
    | some cv => exact .inl (by simpa [apply] using hk)
  · split at h
    · cases h
    · cases h
      refine ⟨(apply_modify_kget N prev hp _).1, fun k => ?_⟩
      have := apply_entries_kget N keyOnly prev cur prev hp hc hp k
      cases hk : kget cur k with
      | none =>
        rw [hk] at this
        cases hpk : kget prev k with
        | none => rw [hpk] at this; simpa [hpk] using this
        | some pv => rw [hpk] at this; simpa using this
      | some cv =>
        rw [hk] at this
        cases hpk : kget prev k with
        | none => rw [hpk] at this; exact .inl (by simpa using this)
        | some pv =>
          rw [hpk] at this
          simp only [hpk, Option.map_some] at this
          exact .inr ⟨pv, rfl, this⟩

/-- in key-only mode a retained key keeps exactly its old value (or gets current's under whole-map replacement) -/
theorem keyOnly_retained (N : Nested ν δ) (pv cv v : ν) : patchOf N true pv cv v = v := by simp [patchOf]

/-- in key-and-value mode an unchanged retained value is left alone, a changed one is patched by the nested diff -/
theorem keyValue_patch (N : Nested ν δ) (pv cv v : ν) :
    patchOf N false pv cv v = if N.veq pv cv then v else N.applyMut v (N.diff pv cv) := by
  simp only [patchOf, Bool.not_false, Bool.true_and]
  cases N.veq pv cv <;> simp

/-- keys a diff value mentions as insertions / carries -/
def insertedKeys : Diff κ ν δ → List κ
  | .replace r => keys r
  | .modify es => es.filterMap fun e => match e with | .insert k _ => some k | _ => none

theorem insV_some_mem (es : List (Change κ ν δ)) (k : κ) (v : ν) (h : insV es k none = some v) :
    k ∈ insertedKeys (.modify es : Diff κ ν δ) := by
  suffices ∀ (i : Option ν), insV es k i = some v → i = some v ∨ k ∈ insertedKeys (.modify es : Diff κ ν δ) by
    rcases this none h with h | h
    · cases h
    · exact h
  clear h
  induction es with
  | nil => intro i hi; exact .inl (by simpa using hi)
  | cons e es ih =>
    intro i hi
    cases e with
    | insert k' w =>
      simp only [insV_cons_insert] at hi
      rcases ih _ hi with h | h
      · by_cases hk : k' = k
        · subst hk; exact .inr (by simp [insertedKeys])
        · simp only [hk, if_false] at h; exact .inl h
      · exact .inr (by simp only [insertedKeys, List.filterMap_cons] at h ⊢; exact List.mem_cons_of_mem _ h)
    | change k' d =>
      simp only [insV_cons_change] at hi
      rcases ih _ hi with h | h
      · exact .inl h
      · exact .inr (by simpa [insertedKeys] using h)
    | remove k' =>
      simp only [insV_cons_remove] at hi
      rcases ih _ hi with h | h
      · exact .inl h
      · exact .inr (by simpa [insertedKeys] using h)

/-- applying ANY diff value to ANY base map (distinct keys) is total in the map algebra — removing an absent key,
patching an absent key are no-ops, as in the code — and yields a map (every key once) with only keys from the base or
inserted by the diff (the nested `apply_mut` is the only thing that can panic: `Derive.rmapPanics`) -/
theorem apply_total_keys (N : Nested ν δ) (base : KV κ ν) (hb : NoDupK base) (d : Diff κ ν δ)
    (hd : match d with | .replace r => NoDupK r | .modify _ => True) :
    NoDupK (apply N base d) ∧ ∀ k, (kget (apply N base d) k).isSome → (kget base k).isSome ∨ k ∈ insertedKeys d := by
  cases d with
  | replace r =>
    refine ⟨hd, fun k hk => .inr ?_⟩
    exact (kget_isSome_iff r k).mp hk
  | modify es =>
    obtain ⟨h1, h2⟩ := apply_modify_kget N base hb es
    refine ⟨h1, fun k hk => ?_⟩
    rw [h2 k] at hk
    cases hi : (if es.any (isRem k) = true then none else kget base k) with
    | some v =>
      left
      split at hi
      · cases hi
      · rw [hi]; rfl
    | none =>
      right
      rw [hi] at hk
      simp only [Option.map_none] at hk
      cases hv : insV es k none with
      | none => rw [hv] at hk; cases hk
      | some v => exact insV_some_mem es k v hv

end Generic

/-! ### values deriving `Difference` -/
section Derived
open Derive

/-- **C13 at the level of a derived field** (`recurse` + `unordered_map_like`), for any value type `t`, applied
to any follower base: never panics, exactly current's keys, and every value is current's value or the base's value
patched to agree with current's on all unskipped nested fields (key-only: current's or the base's value) -/
theorem derived_field (ko : Bool) (t : Ty) (a b f : Val)
    (ha : (relKind (.recMap ko t)).wt a) (hb : (relKind (.recMap ko t)).wt b) (hf : (relKind (.recMap ko t)).wt f)
    (he : (relKind (.recMap ko t)).equiv a f) (p : Payload) (hd : (semKind (.recMap ko t)).diff a b = some p) :
    ∃ r, (semKind (.recMap ko t)).apply f p = .ok r ∧ (relKind (.recMap ko t)).wt r ∧
      (∀ k, (kget (asRMap r) k).isSome = (kget (asRMap b) k).isSome) ∧
      ∀ k cv rv, kget (asRMap b) k = some cv → kget (asRMap r) k = some rv →
        rv = cv ∨ ∃ fv, kget (asRMap f) k = some fv ∧ (if ko then rv = fv else (relTy t).post fv cv rv) := by
  obtain ⟨r, h1, h2, h3⟩ := (spec_kind (.recMap ko t)).follow a b f p ha hb hf he hd
  refine ⟨r, h1, h2, ?_⟩
  simpa [relKind, recMapRel] using h3

/-- the field's diff is absent exactly when the maps are equal (key-and-value) / have equal key sets (key-only) -/
theorem derived_absent_iff (ko : Bool) (t : Ty) (a b : Val)
    (ha : (relKind (.recMap ko t)).wt a) (hb : (relKind (.recMap ko t)).wt b) :
    (semKind (.recMap ko t)).diff a b = none ↔
      (∀ k, (kget (asRMap a) k).isSome = (kget (asRMap b) k).isSome) ∧
      (ko = false → ∀ k pv cv, kget (asRMap a) k = some pv → kget (asRMap b) k = some cv → veq pv cv = true) := by
  have := (spec_kind (.recMap ko t)).none_iff a b ha hb
  simpa [relKind, recMapRel] using this

end Derived

/-- both representations and all three entry kinds occur -/
example : hashcmp (⟨fun a b => a == b, fun _ b => b, fun _ d => d⟩ : Nested Nat Nat) [(1, 10), (2, 20), (3, 30)] [(1, 11), (3, 30), (4, 40)] false
    = some (.modify [.change 1 11, .remove 2, .insert 4 40]) := by decide
example : hashcmp (⟨fun a b => a == b, fun _ b => b, fun _ d => d⟩ : Nested Nat Nat) [(1, 10), (2, 20), (3, 30)] [(1, 11)] false
    = some (.replace [(1, 11)]) := by decide

end C13
