import SdModel.Model.Derive
import SdModel.Props.C01
import SdModel.Props.C03

/-!
# C17 — the derive accepts every supported declaration and the result obeys C01   (PARTIAL)

Whether rustc accepts the macro's expansion is validated on generated declarations (tools/props/c17.py):
there is no Lean model of the Rust type checker.  What IS a statement about every declaration is that
its semantics depends only on its shape: everything the declaration grammar adds on top of
`(skip?, strategy)` per field — visibility, generics, bounds, where clauses, attributes of other tools,
doc comments, attribute spelling and order — is erased by `shapeOf`, and the generated semantics is
`Derive.semTy (shapeOf decl)`, for which the round-trip and frame guarantees are proved for EVERY `Ty`
(Props/C01, Props/C03).
-/
namespace C17
open Derive

/-- strategy-relevant part of a field declaration -/
structure FieldDecl where
  vis : Nat                  -- 0 none / 1 pub / 2 pub(restricted)
  name : String
  docs : List String
  foreignAttrs : List String
  spelledSeparately : Bool   -- `#[difference(a)] #[difference(b)]` vs `#[difference(a, b)]`
  attrOrderSwapped : Bool
  trailingComma : Bool
  skip : Bool
  kind : Kind

/-- a struct declaration in the supported grammar (generic parameters and bounds are kept as text) -/
structure StructDecl where
  vis : Nat
  name : String
  generics : List String
  whereClauses : List String
  docs : List String
  foreignAttrs : List String
  expose : Option (Option String)
  fields : List FieldDecl

def fieldTys : List FieldDecl → FieldTys
  | [] => .nil
  | f :: fs => .cons f.skip f.kind (fieldTys fs)

/-- the shape the macro acts on -/
def shapeOf (d : StructDecl) : Ty := .struct (fieldTys d.fields)

/-- two declarations that agree on (skip?, strategy) per field have the same generated semantics, whatever
their visibility, names, generics, bounds, docs, foreign attributes and attribute spelling -/
theorem semantics_depends_on_shape_only (d₁ d₂ : StructDecl)
    (h : d₁.fields.map (fun f => (f.skip, f.kind)) = d₂.fields.map (fun f => (f.skip, f.kind))) :
    semTy (shapeOf d₁) = semTy (shapeOf d₂) := by
  have : ∀ (a b : List FieldDecl), a.map (fun f => (f.skip, f.kind)) = b.map (fun f => (f.skip, f.kind)) → fieldTys a = fieldTys b := by
    intro a
    induction a with
    | nil => intro b hb; cases b with
      | nil => rfl
      | cons _ _ => simp at hb
    | cons x xs ih =>
      intro b hb
      cases b with
      | nil => simp at hb
      | cons y ys =>
        simp only [List.map_cons, List.cons.injEq, Prod.mk.injEq] at hb
        simp only [fieldTys, hb.1.1, hb.1.2, ih ys hb.2]
  simp only [shapeOf, this _ _ h]

/-- an enum declaration in the supported grammar; the macro treats every enum as one opaque value -/
structure EnumDecl where
  vis : Nat
  name : String
  generics : List String
  whereClauses : List String
  docs : List String
  foreignAttrs : List String
  variants : List (String × Nat × List String)     -- (name, 0 unit / 1 tuple / 2 struct, field types as text)

def shapeOfEnum (_ : EnumDecl) : Ty := .enum

/-- whatever its variants, generics and attributes, an enum gets the whole-value semantics -/
theorem enum_semantics (d : EnumDecl) : semTy (shapeOfEnum d) = enumSem := by simp [shapeOfEnum, semTy]

/-- **the semantic half of C17**: for EVERY struct declaration of the grammar the generated implementation satisfies
the round-trip guarantee (C01) … -/
theorem decl_roundtrip (d : StructDecl) (a b : Val) (ha : (relTy (shapeOf d)).wt a) (hb : (relTy (shapeOf d)).wt b) :
    ∃ r, (semTy (shapeOf d)).apply a ((semTy (shapeOf d)).diff a b) = .ok r ∧ (relTy (shapeOf d)).wt r ∧
      (relTy (shapeOf d)).post a b r :=
  C01.roundtrip (shapeOf d) a b ha hb

/-- … and the frame guarantee (C03): any duplicate-free selection of the entries in any order touches only the
selected fields -/
theorem decl_frame (d : StructDecl) (a b : Val) (ha : (relTy (shapeOf d)).wt a) (hb : (relTy (shapeOf d)).wt b)
    (es : Entries) (hsub : ∀ e ∈ es, e ∈ (semTy (shapeOf d)).diff a b) (hnd : (es.map (·.1)).Nodup) :
    ∃ x y r, a = .strct x ∧ b = .strct y ∧ (semTy (shapeOf d)).apply a es = .ok (.strct r) ∧
      SWT (relFields (fieldTys d.fields)) r ∧
      ∀ j e, (relFields (fieldTys d.fields))[j]? = some e → ∃ va vb vr, valAt x j = some va ∧ valAt y j = some vb ∧
        valAt r j = some vr ∧ (if j ∈ es.map (·.1) then e.2.2.post va vb vr else vr = va) :=
  C03.subset_any_order (fieldTys d.fields) a b ha hb es hsub hnd

/-- the same for every enum declaration: the result is `b`, or — when `a == b` under the enum's own `PartialEq`
and nothing is sent — still `a` -/
theorem enum_decl_roundtrip (d : EnumDecl) (a b : Val) :
    ∃ r, (semTy (shapeOfEnum d)).apply a ((semTy (shapeOfEnum d)).diff a b) = .ok r ∧
      (r = b ∨ (r = a ∧ veq b a = true)) := by
  obtain ⟨r, h1, _, h3⟩ := C01.roundtrip (shapeOfEnum d) a b (by simp [shapeOfEnum, relTy, enumRel])
    (by simp [shapeOfEnum, relTy, enumRel])
  exact ⟨r, h1, by simpa [shapeOfEnum, relTy, enumRel] using h3⟩

end C17
