import SdModel.Model.Cost
import SdModel.Gen.Params

/-!
# C18 — the derive's list diff needs memory linear in the list lengths   (cost model; PARTIAL)

What is logic is the SHAPE of the recursion: `Cost.hirschCost` counts the peak number of simultaneously
live table cells under the code's allocation discipline (see `Model/Cost.lean`), on the very recursion of
`Lev.hirschImpl` (same split points).  The theorem bounds it linearly, for all lists, all contents and
whatever split the row computation picks; the byte constants and the allocator are measured by the
correspondence check (`tools/props/c18.py`), not proved.
-/
namespace C18
open Cost Lev
variable {α : Type}

/-- **linear working set**: never more than `(cutoff + 3) * (n + m + 1)` live cells -/
theorem peak_cells_linear (eq : α → α → Bool) (C : Costs) (cutoff : Nat) (t s : List α) (ts te ss se : Nat) :
    ts ≤ te → ss ≤ se →
    hirschCost eq C cutoff t s ts te ss se ≤ (cutoff + 3) * ((te - ts) + (se - ss) + 1) := by
  fun_induction hirschCost eq C cutoff t s ts te ss se with
  | case1 => intros; exact Nat.zero_le _
  | case2 => intros; exact Nat.zero_le _
  | case3 => intros; exact Nat.zero_le _
  | case4 ts te ss se h1 h2 h3 h4 =>
    intro hts hss
    generalize htl : te - ts = tl at *
    generalize hsl : se - ss = sl at *
    rcases h4 with h | h
    · by_cases hmin : tl ≤ sl
      · have h' : tl ≤ cutoff := by omega
        calc (tl + 1) * (sl + 1) ≤ (cutoff + 3) * (sl + 1) := Nat.mul_le_mul_right _ (by omega)
          _ ≤ (cutoff + 3) * (tl + sl + 1) := Nat.mul_le_mul_left _ (by omega)
      · have h' : sl ≤ cutoff := by omega
        calc (tl + 1) * (sl + 1) = (sl + 1) * (tl + 1) := Nat.mul_comm _ _
          _ ≤ (cutoff + 3) * (tl + 1) := Nat.mul_le_mul_right _ (by omega)
          _ ≤ (cutoff + 3) * (tl + sl + 1) := Nat.mul_le_mul_left _ (by omega)
    · calc (tl + 1) * (sl + 1) ≤ (cutoff + 3) * (sl + 1) := Nat.mul_le_mul_right _ (by omega)
        _ ≤ (cutoff + 3) * (tl + sl + 1) := Nat.mul_le_mul_left _ (by omega)
  | case5 ts te ss se h1 h2 h3 h4 tsplit left right ssplit ihl ihr =>
    intro hts hss
    have hsp1 : ss ≤ ssplit := by simp only [ssplit]; omega
    have hsp2 : ssplit ≤ se := by simp only [ssplit]; omega
    have htp1 : ts ≤ tsplit := by simp only [tsplit]; omega
    have htp2 : tsplit ≤ te := by simp only [tsplit]; omega
    have il := ihl htp1 hsp1
    have ir := ihr htp2 hsp2
    have b1 : (cutoff + 3) * ((tsplit - ts) + (ssplit - ss) + 1) ≤ (cutoff + 3) * ((te - ts) + (se - ss) + 1) :=
      Nat.mul_le_mul_left _ (by omega)
    have b2 : (cutoff + 3) * ((te - tsplit) + (se - ssplit) + 1) ≤ (cutoff + 3) * ((te - ts) + (se - ss) + 1) :=
      Nat.mul_le_mul_left _ (by omega)
    have b3 : 3 * (se - ss + 1) ≤ (cutoff + 3) * ((te - ts) + (se - ss) + 1) :=
      Nat.mul_le_mul (by omega) (by omega)
    omega

/-- the public entry point the derive calls, with the constants regenerated from the source -/
theorem derive_diff_linear (eq : α → α → Bool) (C : Costs) (t s : List α) :
    hirschCost eq C Gen.levCutoff t s 0 t.length 0 s.length ≤ (Gen.levCutoff + 3) * (t.length + s.length + 1) := by
  have := peak_cells_linear eq C Gen.levCutoff t s 0 t.length 0 s.length (Nat.zero_le _) (Nat.zero_le _)
  simpa using this

/-- a full table is only ever built with one side within the cutoff (or a target of length < 2): this is the
only place a table of `rows x columns` cells exists -/
theorem full_table_only_small (cutoff tl sl : Nat) (h : min tl sl ≤ cutoff ∨ tl < 2) :
    (tl + 1) * (sl + 1) ≤ (cutoff + 3) * (max tl sl + 1) := by
  rcases h with h | h
  · by_cases hmin : tl ≤ sl
    · have : max tl sl = sl := Nat.max_eq_right hmin
      rw [this]; exact Nat.mul_le_mul_right _ (by omega)
    · have : max tl sl = tl := Nat.max_eq_left (by omega)
      rw [this, Nat.mul_comm]; exact Nat.mul_le_mul_right _ (by omega)
  · calc (tl + 1) * (sl + 1) ≤ (cutoff + 3) * (sl + 1) := Nat.mul_le_mul_right _ (by omega)
      _ ≤ (cutoff + 3) * (max tl sl + 1) := Nat.mul_le_mul_left _ (by omega)

/-- the bound discriminates: the full-table entry point is quadratic, e.g. 1001 x 1001 cells for two
1000-element lists against at most 22 011 for the divide-and-conquer one -/
theorem levenshtein_quadratic_witness : levCost 1000 1000 = 1002001 ∧ (8 + 3) * (1000 + 1000 + 1) = 22011 := by decide

/-- the cutoff side condition under which the model's extra guard `te - ts < 2` is never the deciding one -/
theorem cutoff_pos : 1 ≤ Gen.levCutoff := by decide

end C18
