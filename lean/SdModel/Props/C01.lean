import SdModel.Lemmas.DeriveKnot

/-!
# C01 — round trip: applying `a.diff(&b)` to `a` reproduces `b` on every unskipped field

`Derive.semTy t` is the generated `impl StructDiff` of a type with descriptor `t` (any nesting depth, any mix of
the eight field templates, any skip pattern, structs and enums); `Derive.relTy t` packages, by structural
recursion over `t`,
* `wt`    : the value has the shape of the type (maps have distinct keys). Nothing is assumed about the `==` of
  plain / enum payloads beyond symmetry and transitivity (`Derive.veq` identifies `0.0` and `-0.0` and makes `NaN`
  unequal to itself); values with `NaN` inside are covered,
* `post f b r` : "`r` is what patching the base `f` towards the target `b` must look like": per field —
  skipped: `r = f`;  plain / enum / ordered: `r = b`;  unordered array: `r` equals `b` as a multiset;
  flat map: `r` equals `b` as a map;  nested: `post` of the nested type (so nested skipped fields keep the
  base's value);  optional nested: `None`/`Some` follow `b`, the payload is patched in place or set to `b`'s;
  recursive map: exactly `b`'s keys, every value either `b`'s or the base's value patched (`post` again) —
  in key-only mode either `b`'s or the base's value.
The theorems hold for EVERY descriptor and all well-typed values; nothing is bounded.
-/
namespace C01
open Derive

/-- **C01**: `a.apply(a.diff(&b))` returns normally and satisfies the post-condition against base `a`, target `b` -/
theorem roundtrip (t : Ty) (a b : Val) (ha : (relTy t).wt a) (hb : (relTy t).wt b) :
    ∃ r, (semTy t).apply a ((semTy t).diff a b) = .ok r ∧ (relTy t).wt r ∧ (relTy t).post a b r :=
  (spec_ty t).follow a b a ha hb ha ((spec_ty t).refl a ha)

/-- the result is equivalent to `b` (what a later diff computed by `b`'s owner can be applied to) -/
theorem roundtrip_equiv (t : Ty) (a b : Val) (ha : (relTy t).wt a) (hb : (relTy t).wt b) :
    ∃ r, (semTy t).apply a ((semTy t).diff a b) = .ok r ∧ (relTy t).equiv b r := by
  obtain ⟨r, h1, h2, h3⟩ := roundtrip t a b ha hb
  exact ⟨r, h1, (spec_ty t).post_equiv a b r ha hb h2 h3⟩

/-! Reading the post-condition of a struct field by field. -/

/-- skipped fields keep the base's value, unskipped ones satisfy their strategy's post-condition -/
theorem struct_post_fields (fs : FieldTys) (f b r : Val) (h : (relTy (.struct fs)).post f b r) :
    ∃ x y z, f = .strct x ∧ b = .strct y ∧ r = .strct z ∧ SPost (relFields fs) x y z := by
  simpa [relTy, structRel] using h

theorem spost_head_skipped (F : FieldSem) (R : FieldRel) (fs : FS) (f b r : Val) (fr bs rs : Vals)
    (h : SPost ((true, F, R) :: fs) (.cons f fr) (.cons b bs) (.cons r rs)) : r = f ∧ SPost fs fr bs rs := by
  simpa [SPost] using h

theorem spost_head_unskipped (F : FieldSem) (R : FieldRel) (fs : FS) (f b r : Val) (fr bs rs : Vals)
    (h : SPost ((false, F, R) :: fs) (.cons f fr) (.cons b bs) (.cons r rs)) : R.post f b r ∧ SPost fs fr bs rs := by
  simpa [SPost] using h

/-- plain and enum-typed fields hold `b`'s value — or, when nothing was sent because the base's value is `==` to it
under the type's own `PartialEq` (e.g. `0.0` / `-0.0`), still the base's value; ordered fields match exactly -/
theorem post_plain (f b r : Val) : (relKind .plain).post f b r ↔ (r = b ∨ (r = f ∧ veq b f = true)) := by
  simp [relKind, plainRel]
theorem post_ordered (f b r : Val) : (relKind .ordered).post f b r ↔ r = b := by simp [relKind, orderedRel]
theorem post_enum (f b r : Val) : (relTy .enum).post f b r ↔ (r = b ∨ (r = f ∧ veq b f = true)) := by
  simp [relTy, enumRel]
/-- for a type whose `==` is identity on the values at hand, that is exactly `b`'s value -/
theorem post_plain_lawful (f b r : Val) (h : veq b f = true → b = f) : (relKind .plain).post f b r → r = b := by
  rw [post_plain]; rintro (h1 | ⟨h1, h2⟩)
  · exact h1
  · rw [h1, h h2]
/-- unordered arrays match as multisets -/
theorem post_unord (f b r : Val) :
    (relKind .unordArr).post f b r ↔ ∃ l, r = .list l ∧ ∀ x, l.count x = (asList b).count x := by
  simp [relKind, unordRel]
/-- flat maps match as maps (both equality modes) -/
theorem post_map (ko : Bool) (f b r : Val) :
    (relKind (.map ko)).post f b r ↔
      ∃ l, r = .pairs l ∧ UMap.UniqueKeys l ∧ ∀ k, UMap.plookup l k = UMap.plookup (asPairs b) k := by
  simp [relKind, mapRel]

/-! Non-vacuity: a concrete type mixing a skipped field, a plain field, an unordered array and a nested struct,
with concrete well-typed values. -/

def exTy : Ty := .struct (.cons true .plain (.cons false .plain (.cons false .unordArr
  (.cons false (.recurse (.struct (.cons false .ordered (.cons true .plain .nil)))) .nil))))
def exA : Val := .strct (.cons (.atom 1) (.cons (.atom 2) (.cons (.list [1, 1, 2])
  (.cons (.strct (.cons (.list [1, 2, 3]) (.cons (.atom 9) .nil))) .nil))))
def exB : Val := .strct (.cons (.atom 7) (.cons (.atom 3) (.cons (.list [2, 2, 1])
  (.cons (.strct (.cons (.list [1, 3]) (.cons (.atom 8) .nil))) .nil))))

example : (relTy exTy).wt exA ∧ (relTy exTy).wt exB := by
  constructor <;>
  · refine ⟨_, rfl, ?_⟩
    simp only [relFields, SWT, relKind, plainRel, unordRel, recurseRel, relTy, structRel, orderedRel]
    refine ⟨by decide, by decide, ⟨_, rfl⟩, ⟨_, rfl, ?_⟩, trivial⟩
    simp only [SWT]
    exact ⟨⟨_, rfl⟩, by decide, trivial⟩

/-- values with `NaN` inside are well-typed: the theorems cover them -/
def exNaN : Val := .strct (.cons (.atom nanCode) (.cons (.atom nanCode) (.cons (.list [2, 2, 1])
  (.cons (.strct (.cons (.list [1, 3]) (.cons (.atom nanCode) .nil))) .nil))))

example : (relTy exTy).wt exNaN ∧ veq exNaN exNaN = false := by
  refine ⟨⟨_, rfl, ?_⟩, by decide⟩
  simp only [relFields, SWT, relKind, plainRel, unordRel, recurseRel, relTy, structRel, orderedRel]
  refine ⟨trivial, trivial, ⟨_, rfl⟩, ⟨_, rfl, ?_⟩, trivial⟩
  simp only [SWT]
  exact ⟨⟨_, rfl⟩, trivial, trivial⟩

end C01
