import SdModel.Model.Derive
namespace C01
theorem placeholder : True := trivial
end C01
