import SdModel.Lemmas.Slots
import SdModel.Lemmas.SlotsIter
import Batteries.Data.List.Perm

/-!
# C10 — the fixed-capacity slot array used as rope chunk behaves like a bounded sequence

Property theorems only (helper lemmas live in `Lemmas/Slots.lean`).  `Slots.Inv N s` is the
representation invariant (capacity `N ≤ 255`, every logical index `< cnt` held by exactly one cell),
`Slots.abs s` the logical sequence.  All theorems hold from EVERY layout satisfying the invariant,
reachable or not, for every capacity and every element type.
-/
namespace C10
open Slots
variable {α : Type}

/-- the decidable invariant the driver evaluates on real layouts is the invariant of the theorems -/
theorem invB_iff (N : Nat) (s : AM Nat) : invB N s = true → Inv N s := by
  intro h
  simp only [invB, Bool.and_eq_true, beq_iff_eq, decide_eq_true_eq, List.all_eq_true] at h
  obtain ⟨⟨⟨⟨h1, h2⟩, h3⟩, h4⟩, h5⟩ := h
  have hnd : (idxs s.cells).Nodup := by
    have : ∀ l : List Nat, nodupNat l = true → l.Nodup := by
      intro l; induction l with
      | nil => intro _; exact List.nodup_nil
      | cons x t ih =>
        intro h; simp only [nodupNat, Bool.and_eq_true, Bool.not_eq_true', List.contains_eq_mem, decide_eq_false_iff_not] at h
        exact List.nodup_cons.mpr ⟨h.1, ih h.2⟩
    exact this _ h3
  refine ⟨h1, h2, ?_⟩
  -- a duplicate-free list of `cnt` naturals below `cnt` is a permutation of `range cnt`
  have hsub : (idxs s.cells).Subperm (List.range s.cnt) :=
    List.subperm_of_subset hnd (fun x hx => List.mem_range.mpr (by simpa using h5 x hx))
  have hperm : (idxs s.cells).Perm (List.range s.cnt) :=
    hsub.perm_of_length_le (by simp [h4])
  intro i
  rw [hperm.count_eq, List.count_range]

/-- `new()` is the empty sequence -/
theorem new_spec (N : Nat) (hN : N ≤ 255) :
    ∃ s : AM α, new N = .ok s ∧ Inv N s ∧ abs s = [] := by
  obtain ⟨s, h1, h2, h3⟩ := new_refines (α := α) N hN
  exact ⟨s, h1, h2, abs_of_refines h3⟩

/-- `from_iter` of at most `N` items is that sequence; more items panic -/
theorem fromIter_spec (N : Nat) (l : List α) (hN : N ≤ 255) (hl : l.length ≤ N) :
    ∃ s, fromIter N l = .ok s ∧ Inv N s ∧ abs s = l := by
  obtain ⟨s, h1, h2, h3⟩ := fromIter_refines N l hN hl
  exact ⟨s, h1, h2, abs_of_refines h3⟩

/-- length is the sequence length -/
theorem len_spec {N : Nat} {s : AM α} (hI : Inv N s) : s.cnt = (abs s).length := by
  obtain ⟨l, hR⟩ := hI.exists_refines
  rw [abs_of_refines hR]; exact hR.1

/-- insert at a position `≤ len` while below capacity = `List.insertIdx` -/
theorem insert_spec {N : Nat} {s : AM α} (hI : Inv N s) (p : Nat) (v : α) (hp : p ≤ s.cnt) (hc : s.cnt < N) :
    ∃ s', Slots.insert s p v = .ok s' ∧ Inv N s' ∧ abs s' = (abs s).insertIdx p v := by
  obtain ⟨l, hR⟩ := hI.exists_refines
  obtain ⟨s', h1, h2, h3⟩ := insert_refines hI hR p v hp hc
  exact ⟨s', h1, h2, by rw [abs_of_refines h3, abs_of_refines hR]⟩

/-- insert rejects a position outside the capacity and a full chunk -/
theorem insert_rejects {N : Nat} {s : AM α} (hI : Inv N s) (p : Nat) (v : α) (h : N ≤ p ∨ s.cnt = N) :
    ∃ e, Slots.insert s p v = .error e := by
  unfold Slots.insert
  by_cases hp : p < s.cells.length
  · have hfull : s.cnt = N := by rcases h with h | h; · rw [hI.1] at hp; omega
                                 · exact h
    have : hasFree s.cells = false := by
      have := (not_congr (hasFree_iff s.cells)).mpr (by rw [hI.idxs_length, hI.1, hfull]; omega)
      simpa using this
    simp [hp, this]
  · simp [hp]

/-- remove at a position `< len` returns that element and erases it -/
theorem remove_spec {N : Nat} {s : AM α} (hI : Inv N s) (p : Nat) (hp : p < s.cnt) :
    ∃ x s', remove s p = .ok (x, s') ∧ (abs s)[p]? = some x ∧ Inv N s' ∧ abs s' = (abs s).eraseIdx p := by
  obtain ⟨l, hR⟩ := hI.exists_refines
  obtain ⟨x, s', h1, h2, h3, h4⟩ := remove_refines hI hR p hp
  exact ⟨x, s', h1, by rw [abs_of_refines hR]; exact h2, h3, by rw [abs_of_refines h4, abs_of_refines hR]⟩

/-- swap of two positions `< len` exchanges the two elements -/
theorem swap_spec {N : Nat} {s : AM α} (hI : Inv N s) (a b : Nat) (ha : a < s.cnt) (hb : b < s.cnt) :
    ∃ s' x y, swap s a b = .ok s' ∧ Inv N s' ∧ (abs s)[a]? = some x ∧ (abs s)[b]? = some y ∧
      abs s' = ((abs s).set a y).set b x := by
  obtain ⟨l, hR⟩ := hI.exists_refines
  obtain ⟨s', h1, h2, h3⟩ := swap_refines hI hR a b ha hb
  have hla : a < l.length := by rw [← hR.1]; exact ha
  have hlb : b < l.length := by rw [← hR.1]; exact hb
  refine ⟨s', l[a], l[b], h1, h2, ?_, ?_, ?_⟩
  · rw [abs_of_refines hR]; exact List.getElem?_eq_getElem hla
  · rw [abs_of_refines hR]; exact List.getElem?_eq_getElem hlb
  · rw [abs_of_refines h3, abs_of_refines hR]

/-- range drain: returns the elements of the range in order, keeps the rest in order -/
theorem drain_spec {N : Nat} {s : AM α} (hI : Inv N s) (r : Rng) (hlo : r.lo ≤ hiN r s.cnt) :
    ∃ s', drain s r = .ok (((abs s).drop r.lo).take (hiN r s.cnt - r.lo), s') ∧ Inv N s' ∧
      abs s' = (abs s).take r.lo ++ (abs s).drop (hiN r s.cnt) := by
  obtain ⟨l, hR⟩ := hI.exists_refines
  obtain ⟨s', h1, h2, h3⟩ := drain_refines hI hR r hlo
  exact ⟨s', by rw [abs_of_refines hR]; exact h1, h2, by rw [abs_of_refines h3, abs_of_refines hR]⟩

/-- append into the free slots, within capacity -/
theorem extend_spec {N : Nat} {s : AM α} (hI : Inv N s) (vs : List α) (hc : s.cnt + vs.length ≤ N) :
    Inv N (extend s vs) ∧ abs (extend s vs) = abs s ++ vs := by
  obtain ⟨l, hR⟩ := hI.exists_refines
  obtain ⟨h1, h2⟩ := extend_refines hI hR vs hc
  exact ⟨h1, by rw [abs_of_refines h2, abs_of_refines hR]⟩

/-- indexed read below the length returns that element; at or past the length it panics -/
theorem index_spec {N : Nat} {s : AM α} (hI : Inv N s) (i : Nat) :
    (∀ h : i < (abs s).length, index s i = .ok ((abs s)[i])) ∧ ((abs s).length ≤ i → ∃ e, index s i = .error e) := by
  obtain ⟨l, hR⟩ := hI.exists_refines
  rw [abs_of_refines hR]
  exact ⟨fun h => index_ok hR i h, fun h => index_panics hR i h⟩

/-- indexed assignment -/
theorem set_spec {N : Nat} {s : AM α} (hI : Inv N s) (i : Nat) (v : α) (hi : i < s.cnt) :
    ∃ s', set s i v = .ok s' ∧ Inv N s' ∧ abs s' = (abs s).set i v := by
  obtain ⟨l, hR⟩ := hI.exists_refines
  obtain ⟨s', h1, h2, h3⟩ := set_refines hI hR i v hi
  exact ⟨s', h1, h2, by rw [abs_of_refines h3, abs_of_refines hR]⟩

/-! ### every reachable layout: induction over operation histories -/

inductive Op (α : Type) where
  | insert (p : Nat) (v : α)
  | remove (p : Nat)
  | swap (a b : Nat)
  | drain (r : Rng)
  | extend (vs : List α)
  | set (i : Nat) (v : α)

/-- the implementation's step -/
def stepImpl (s : AM α) : Op α → Except String (AM α)
  | .insert p v => Slots.insert s p v
  | .remove p => (remove s p).map (·.2)
  | .swap a b => swap s a b
  | .drain r => (drain s r).map (·.2)
  | .extend vs => .ok (extend s vs)
  | .set i v => set s i v

/-- the same operation on a plain sequence of capacity `N`; `none` = the operation is not applicable
(outside the capacity / range the property speaks about) -/
def stepSpec (N : Nat) (l : List α) : Op α → Option (List α)
  | .insert p v => if p ≤ l.length ∧ l.length < N then some (l.insertIdx p v) else none
  | .remove p => if p < l.length then some (l.eraseIdx p) else none
  | .swap a b =>
    match l[a]?, l[b]? with
    | some x, some y => some ((l.set a y).set b x)
    | _, _ => none
  | .drain r => if r.lo ≤ hiN r l.length then some (l.take r.lo ++ l.drop (hiN r l.length)) else none
  | .extend vs => if l.length + vs.length ≤ N then some (l ++ vs) else none
  | .set i v => if i < l.length then some (l.set i v) else none

def runImpl (s : AM α) : List (Op α) → Except String (AM α)
  | [] => .ok s
  | op :: ops => match stepImpl s op with
    | .ok s' => runImpl s' ops
    | .error e => .error e

def runSpec (N : Nat) (l : List α) : List (Op α) → Option (List α)
  | [] => some l
  | op :: ops => match stepSpec N l op with
    | some l' => runSpec N l' ops
    | none => none

theorem step_refines {N : Nat} {s : AM α} (hI : Inv N s) (op : Op α) (l' : List α)
    (h : stepSpec N (abs s) op = some l') : ∃ s', stepImpl s op = .ok s' ∧ Inv N s' ∧ abs s' = l' := by
  have hlen := len_spec hI
  cases op with
  | insert p v =>
    simp only [stepSpec] at h
    split at h
    · rename_i hc; cases h
      exact insert_spec hI p v (by omega) (by omega)
    · cases h
  | remove p =>
    simp only [stepSpec] at h
    split at h
    · rename_i hc; cases h
      obtain ⟨x, s', h1, _, h3, h4⟩ := remove_spec hI p (by omega)
      exact ⟨s', by simp [stepImpl, h1, Except.map], h3, h4⟩
    · cases h
  | swap a b =>
    simp only [stepSpec] at h
    split at h
    · rename_i x y hx hy
      cases h
      have ha : a < s.cnt := by rw [hlen]; obtain ⟨w, _⟩ := List.getElem?_eq_some_iff.mp hx; exact w
      have hb : b < s.cnt := by rw [hlen]; obtain ⟨w, _⟩ := List.getElem?_eq_some_iff.mp hy; exact w
      obtain ⟨s', x', y', h1, h2, h3, h4, h5⟩ := swap_spec hI a b ha hb
      rw [hx] at h3; rw [hy] at h4; cases h3; cases h4
      exact ⟨s', h1, h2, h5⟩
    · cases h
  | drain r =>
    simp only [stepSpec] at h
    split at h
    · rename_i hc; cases h
      rw [← hlen] at hc
      obtain ⟨s', h1, h2, h3⟩ := drain_spec hI r hc
      exact ⟨s', by simp [stepImpl, h1, Except.map], h2, by rw [h3, hlen]⟩
    · cases h
  | extend vs =>
    simp only [stepSpec] at h
    split at h
    · rename_i hc; cases h
      obtain ⟨h1, h2⟩ := extend_spec hI vs (by omega)
      exact ⟨_, rfl, h1, h2⟩
    · cases h
  | set i v =>
    simp only [stepSpec] at h
    split at h
    · rename_i hc; cases h
      exact set_spec hI i v (by omega)
    · cases h

/-- **C10 (mutations), every history**: from any layout satisfying the invariant, any sequence of
operations that is applicable on a plain bounded sequence runs without panic on the slot array and
leaves it representing exactly the sequence the plain one holds; the invariant is re-established
after every step, so every reachable layout satisfies it. -/
theorem history {N : Nat} (ops : List (Op α)) {s : AM α} (hI : Inv N s) (l' : List α)
    (h : runSpec N (abs s) ops = some l') : ∃ s', runImpl s ops = .ok s' ∧ Inv N s' ∧ abs s' = l' := by
  induction ops generalizing s with
  | nil => simp only [runSpec] at h; cases h; exact ⟨s, rfl, hI, rfl⟩
  | cons op ops ih =>
    simp only [runSpec] at h
    split at h
    · rename_i l1 h1
      obtain ⟨s1, e1, hI1, ha1⟩ := step_refines hI op l1 h1
      obtain ⟨s', e2, hI2, ha2⟩ := ih hI1 (by rw [ha1]; exact h)
      exact ⟨s', by simp [runImpl, e1, e2], hI2, ha2⟩
    · cases h

/-- the same from the two constructors -/
theorem history_from_new {N : Nat} (hN : N ≤ 255) (ops : List (Op α)) (l' : List α)
    (h : runSpec N [] ops = some l') :
    ∃ s0 s', new N = .ok s0 ∧ runImpl s0 ops = .ok s' ∧ Inv N s' ∧ abs s' = l' := by
  obtain ⟨s0, h0, hI, ha⟩ := new_spec (α := α) N hN
  obtain ⟨s', h1, h2, h3⟩ := history ops hI l' (by rw [ha]; exact h)
  exact ⟨s0, s', h0, h1, h2, h3⟩

theorem history_from_iter {N : Nat} (hN : N ≤ 255) (l0 : List α) (hl : l0.length ≤ N) (ops : List (Op α)) (l' : List α)
    (h : runSpec N l0 ops = some l') :
    ∃ s0 s', fromIter N l0 = .ok s0 ∧ runImpl s0 ops = .ok s' ∧ Inv N s' ∧ abs s' = l' := by
  obtain ⟨s0, h0, hI, ha⟩ := fromIter_spec N l0 hN hl
  obtain ⟨s', h1, h2, h3⟩ := history ops hI l' (by rw [ha]; exact h)
  exact ⟨s0, s', h0, h1, h2, h3⟩

/-! ### iteration: forward, backward, and any interleaving of the two

`get_lookups` sorts the cells by logical index; the theorems say the table it builds lists the storage cells in
logical order for EVERY layout satisfying the invariant, and that the owning iterator — which clears the cells it
yields and moves two cursors — is a double-ended queue over the logical sequence. -/

/-- borrowed iteration `(&chunk).into_iter()` yields the logical sequence -/
theorem iter_spec {N : Nat} {s : AM α} (hI : Inv N s) : iter s = abs s := by
  obtain ⟨l, hR⟩ := hI.exists_refines
  rw [abs_of_refines hR]; exact iter_refines hI hR

/-- consuming iteration from the front yields the logical sequence -/
theorem intoIter_spec {N : Nat} {s : AM α} (hI : Inv N s) : intoList s = abs s := by
  obtain ⟨l, hR⟩ := hI.exists_refines
  rw [abs_of_refines hR]
  have := drainFwd_spec hI hR (s.cells.length + 1) (intoIter s) 0 s.cnt (intoIter_inv hI hR)
    (by have := hI.cnt_le; rw [hI.1]; omega)
  simp only [intoList, this, List.drop_zero]
  rw [hR.1, List.take_length]

/-- **iterating a chunk from the back yields all remaining elements in reverse order** -/
theorem intoIter_rev_spec {N : Nat} {s : AM α} (hI : Inv N s) : intoListRev false s = (abs s).reverse := by
  obtain ⟨l, hR⟩ := hI.exists_refines
  rw [abs_of_refines hR]
  have := drainBack_spec hI hR (s.cells.length + 1) (intoIter s) 0 s.cnt (intoIter_inv hI hR)
    (by have := hI.cnt_le; rw [hI.1]; omega)
  simp only [intoListRev, this, List.drop_zero]
  rw [hR.1, List.take_length]

/-- any interleaving of `next` (`false`) and `next_back` (`true`) calls behaves as a double-ended queue over the
logical sequence: fronts come out in order, backs in reverse order, nothing is yielded twice, and once the two
cursors meet every further call returns `None` -/
theorem intoIter_deque_spec {N : Nat} {s : AM α} (hI : Inv N s) (calls : List Bool) :
    (intoIter s).run false calls = dq (abs s) 0 (abs s).length calls := by
  obtain ⟨l, hR⟩ := hI.exists_refines
  rw [abs_of_refines hR, ← hR.1]
  exact run_spec hI hR calls (intoIter s) 0 s.cnt (intoIter_inv hI hR)

/-- the pre-fix `next_back` (`rev_pos += 1`, finding B) yielded only the last element: kept as a witness -/
theorem legacy_next_back_loses_elements :
    intoListRev true (⟨[some (0, 10), some (1, 20), some (2, 30)], 3⟩ : AM Nat) = [30] ∧
    intoListRev false (⟨[some (0, 10), some (1, 20), some (2, 30)], 3⟩ : AM Nat) = [30, 20, 10] := by decide

/-! ### non-vacuity: a concrete non-canonical layout (holes, permuted cells) meets the hypotheses -/

def exLayout : AM Nat := ⟨[some (1, 20), none, some (2, 30), some (0, 10), none], 3⟩
example : invB 5 exLayout = true := by decide
example : Inv 5 exLayout := invB_iff 5 exLayout (by decide)
example : abs exLayout = [10, 20, 30] := by decide
example : iter exLayout = [10, 20, 30] ∧ intoListRev false exLayout = [30, 20, 10] := by decide
example : (intoIter exLayout).run false [true, false, true, false, true] = [some 30, some 10, some 20, none, none] := by decide
example : runSpec 5 (abs exLayout) [.insert 1 15, .remove 0, .drain ⟨1, some 3⟩, .extend [7, 8]] = some [15, 7, 8] := by decide

end C10
