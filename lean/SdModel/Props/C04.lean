import SdModel.Lemmas.DeriveIdx

/-!
# C04 — change detection is exact: one entry per changed field, none for unchanged ones

`(relKind k).same` is the equality in the sense of each strategy: the type's own `==` (`Derive.veq`, a partial
equivalence: `-0.0 == 0.0`, `NaN != NaN`) for plain, nested and optional-nested fields, `=` for ordered fields
(the generated code compares with the type's own `!=`, and `hirschberg` returns `None` exactly for
equal lists — `C07.absent_iff_eq`); equal counts for unordered arrays; equal as maps for flat maps; equal key sets
(key-only) / equal maps (key-and-value) for recursive maps.
-/
namespace C04
open Derive

/-- **C04 (struct)**: the entry indices are strictly increasing — declaration order, so at most one entry per
field — and position `j` has an entry exactly when field `j` is unskipped and its two values differ in the sense of
its strategy -/
theorem struct_entries (fts : FieldTys) (x y : Vals) (hx : SWT (relFields fts) x) (hy : SWT (relFields fts) y) :
    let idx := ((semTy (.struct fts)).diff (.strct x) (.strct y)).map (·.1)
    idx.Pairwise (· < ·) ∧
    ∀ j, j ∈ idx ↔ ∃ F R va vb, (relFields fts)[j]? = some (false, F, R) ∧ valAt x j = some va ∧ valAt y j = some vb ∧
      ¬ R.same va vb := by
  intro idx
  have hidx : idx = (sdiffG (·.diff) (fieldsOf (relFields fts)) 0 x y).map (·.1) := by
    simp only [idx, semTy, ← fieldsOf_rel, structSem]
  refine ⟨by rw [hidx]; exact (sdiffG_sorted _ _ 0 x y).1, fun j => ?_⟩
  rw [hidx]
  constructor
  · intro hj
    obtain ⟨⟨n, p⟩, hmem, rfl⟩ := List.mem_map.mp hj
    obtain ⟨j, F, R, va, vb, e1, e2, e3, e4, e5⟩ := mem_sdiffG _ _ 0 x y n p hmem
    simp only [Nat.zero_add] at e1; subst e1
    refine ⟨F, R, va, vb, e2, e3, e4, fun hsame => ?_⟩
    obtain ⟨_, w1, w2⟩ := swt_at _ x hx n _ e2
    rw [e3] at w1; cases w1
    obtain ⟨_, w3, w4⟩ := swt_at _ y hy n _ e2
    rw [e4] at w3; cases w3
    have := ((spec_fields fts _ (List.mem_of_getElem? e2)).none_iff va vb w2 w4).mpr hsame
    simp only [] at e5 this
    rw [this] at e5; cases e5
  · rintro ⟨F, R, va, vb, e2, e3, e4, hne⟩
    obtain ⟨_, w1, w2⟩ := swt_at _ x hx j _ e2
    rw [e3] at w1; cases w1
    obtain ⟨_, w3, w4⟩ := swt_at _ y hy j _ e2
    rw [e4] at w3; cases w3
    cases hd : F.diff va vb with
    | none => exact absurd (((spec_fields fts _ (List.mem_of_getElem? e2)).none_iff va vb w2 w4).mp hd) hne
    | some p =>
      have := sdiffG_mem (·.diff) _ 0 x y j F R va vb p e2 e3 e4 hd
      simp only [Nat.zero_add] at this
      exact List.mem_map.mpr ⟨(j, p), this, rfl⟩

/-- `a.diff(&a)` is empty whenever equality on the fields is reflexive (`a == a` under the derived `PartialEq`: no
`NaN` inside) — for every type -/
theorem self_empty (t : Ty) (a : Val) (ha : (relTy t).wt a) (hr : veq a a = true) : (semTy t).diff a a = [] :=
  (spec_ty t).self a ha hr

/-- … and the hypothesis is needed: a plain field holding `NaN` is reported by `a.diff(&a)` -/
theorem self_nonempty_nan :
    (semTy (.struct (.cons false .plain .nil))).diff (.strct (.cons (.atom nanCode) .nil)) (.strct (.cons (.atom nanCode) .nil)) ≠ [] := by
  decide

/-- **C04 (enum)**: empty iff `a == b` (the enum's own `PartialEq`), otherwise a single whole-value replacement -/
theorem enum_diff (a b : Val) : (semTy .enum).diff a b = if veq a b then [] else [(0, .val b)] := by
  simp [semTy, enumSem]

/-- `diff_ref` reports exactly the same entries -/
theorem diff_ref_same (t : Ty) (a b : Val) : (semTy t).diffRef a b = (semTy t).diff a b := (spec_ty t).ref_eq a b

/-! what `same` means per strategy -/
theorem same_plain (a b : Val) : (relKind .plain).same a b ↔ veq a b = true := by simp [relKind, plainRel]
theorem same_recurse (t : Ty) (a b : Val) : (relKind (.recurse t)).same a b ↔ veq a b = true := by simp [relKind, recurseRel]
theorem same_recurseOpt (t : Ty) (a b : Val) : (relKind (.recurseOpt t)).same a b ↔ veq a b = true := by simp [relKind, roptRel]
theorem same_ordered (a b : Val) : (relKind .ordered).same a b ↔ a = b := by simp [relKind, orderedRel]
theorem same_unord (a b : Val) : (relKind .unordArr).same a b ↔ ∀ x, (asList a).count x = (asList b).count x := by
  simp [relKind, unordRel]
theorem same_map (ko : Bool) (a b : Val) :
    (relKind (.map ko)).same a b ↔ ∀ k, UMap.plookup (asPairs a) k = UMap.plookup (asPairs b) k := by
  simp [relKind, mapRel]
theorem same_recMap (ko : Bool) (t : Ty) (a b : Val) :
    (relKind (.recMap ko t)).same a b ↔
      (∀ k, (RMap.kget (asRMap a) k).isSome = (RMap.kget (asRMap b) k).isSome) ∧
      (ko = false → ∀ k pv cv, RMap.kget (asRMap a) k = some pv → RMap.kget (asRMap b) k = some cv → veq pv cv = true) := by
  simp [relKind, recMapRel]

end C04
