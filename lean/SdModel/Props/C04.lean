import SdModel.Model.Derive
namespace C04
theorem placeholder : True := trivial
end C04
