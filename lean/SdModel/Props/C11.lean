import SdModel.Lemmas.UArr
import SdModel.Gen.Params

/-!
# C11 — unordered array-like diff round trip as multisets, for any multiplicities

`UArr.hashcmp fewMax prev cur` models `unordered_hashcmp`, `UArr.apply` models `apply_unordered_hashdiffs`.
A `HashMap` is an association list with distinct keys in SOME order; every statement is about counts, so it
holds for every iteration order (every hasher) and every container the items are held in.
-/
namespace C11
open UArr
variable {α : Type} [DecidableEq α]

abbrev F := Gen.fewMax

/-- the Few/Many threshold extracted from the source fits the `u8` the Few variants store -/
theorem fewMax_fits : Gen.fewMax ≤ 255 := by decide

/-- no truncation through the count split: whatever representation `new` picks carries exactly the count
(in particular 255 ↦ Few(255), 256 ↦ Many(256)), for the item and direction asked for -/
theorem mkChange_count (x : α) (n : Nat) (d : Dir) :
    changeItem (mkChange F x n d) = x ∧ changeCount (mkChange F x n d) = n ∧ isInsert (mkChange F x n d) = decide (d = .ins) :=
  mkChange_spec F x n d

theorem few_only_when_fits (x : α) (n : Nat) (d : Dir) :
    (mkChange F x n d = .insertFew x n ∨ mkChange F x n d = .removeFew x n) → n ≤ 255 := by
  have hf : F ≤ 255 := fewMax_fits
  cases d <;> simp only [mkChange] <;> split <;> (try split) <;> simp_all <;> omega

/-- **round trip, change-list representation** -/
theorem roundtrip_modify (prev cur : List α) (es : List (Change α)) (h : hashcmp F prev cur = some (.modify es)) :
    ∀ x, (apply prev (.modify es)).count x = cur.count x := by
  intro x
  simp only [hashcmp, hashcmpA_eq] at h
  split at h
  · cases h
  · split at h
    · cases h
    · simp only [Option.some.injEq, Diff.modify.injEq] at h
      subst h
      obtain ⟨a, b, _, _, _⟩ := modifyEntries_spec F prev cur
      rw [count_apply_modify, a, b]; omega

/-- **round trip, full-replacement representation** -/
theorem roundtrip_replace (prev cur : List α) (r : List α) (h : hashcmp F prev cur = some (.replace r)) :
    ∀ x, (apply prev (.replace r)).count x = cur.count x := by
  intro x
  simp only [hashcmp, hashcmpA_eq] at h
  split at h
  · simp only [Option.some.injEq, Diff.replace.injEq] at h
    subst h
    obtain ⟨c1, _, c3⟩ := collect_spec cur
    simp only [apply, count_expand _ _ c1, c3]
  · split at h <;> cases h

/-- **C11**: whichever representation is chosen, previous patched with the diff is current as a multiset -/
theorem roundtrip (prev cur : List α) (d : Diff α) (h : hashcmp F prev cur = some d) :
    ∀ x, (apply prev d).count x = cur.count x := by
  cases d with
  | replace r => exact roundtrip_replace prev cur r h
  | modify es => exact roundtrip_modify prev cur es h

/-- the diff is absent exactly when the two collections are equal as multisets -/
theorem absent_iff (prev cur : List α) : hashcmp F prev cur = none ↔ ∀ x, prev.count x = cur.count x := by
  obtain ⟨a, b, _, d, _⟩ := modifyEntries_spec F prev cur
  constructor
  · intro h x
    simp only [hashcmp, hashcmpA_eq] at h
    split at h
    · cases h
    · split at h
      · rename_i he
        have : modifyEntries F prev cur = [] := by simpa using he
        have ha := a x; have hb := b x
        rw [this] at ha hb
        simp [inserted, removed] at ha hb; omega
      · cases h
  · intro h
    have hlen := collect_length_congr prev cur h
    have hnil : modifyEntries F prev cur = [] :=
      eq_nil_of_totals _ d (fun y => ⟨by rw [a, h y]; omega, by rw [b, h y]; omega⟩)
    simp only [hashcmp, hashcmpA_eq]
    rw [if_neg (by rw [hlen]; omega), hnil]; rfl

/-- both representations occur (neither round-trip theorem is vacuous) -/
example : hashcmp F [1, 2, 3, 4, 5, 6, 7] [1] = some (.replace [1]) := by decide
example : hashcmp F [1, 1, 2, 3] [1, 3, 3, 4] = some (.modify [.removeSingle 1, .insertSingle 3, .insertSingle 4, .removeSingle 2]) := by decide

/-- the `debug_asserts` assertions inside the comparison (`count != 0`) can never fire -/
theorem debug_asserts_unreachable (prev cur : List α) : (hashcmpA F prev cur).2 = true := by
  rw [hashcmpA_eq]
  split
  · rfl
  · exact (modifyEntries_spec F prev cur).2.2.2.2

end C11
