/-
Model of `src/collections/unordered_array_like.rs`.
A `HashMap<T, usize>` is an association list with distinct keys; its iteration order is the order of the
list (every theorem about the results is stated on counts, i.e. holds for every order).  Import-free.
-/
namespace UArr

variable {α : Type} [DecidableEq α]

/-- `UnorderedArrayLikeChange<T>` (constructor order = canonical order of the translator) -/
inductive Change (α : Type) where
  | insertMany (x : α) (n : Nat)
  | removeMany (x : α) (n : Nat)
  | insertFew (x : α) (n : Nat)      -- count is a `u8`
  | removeFew (x : α) (n : Nat)
  | insertSingle (x : α)
  | removeSingle (x : α)
deriving Repr, DecidableEq

/-- `UnorderedArrayLikeDiffInternal<T>` -/
inductive Diff (α : Type) where
  | replace (l : List α)
  | modify (es : List (Change α))
deriving Repr, DecidableEq

abbrev CMap (α : Type) := List (α × Nat)

/-- count stored for `x` (0 when absent) -/
def cget : CMap α → α → Nat
  | [], _ => 0
  | (k, c) :: t, x => if k = x then c else cget t x

def hasKey : CMap α → α → Bool
  | [], _ => false
  | (k, _) :: t, x => k = x || hasKey t x

/-- `match map.get_mut(&item) { Some(c) => *c += n, None => { map.insert(item, n); } }` -/
def cadd : CMap α → α → Nat → CMap α
  | [], x, n => [(x, n)]
  | (k, c) :: t, x, n => if k = x then (k, c + n) :: t else (k, c) :: cadd t x n

/-- `collect_into_map` -/
def collect (l : List α) : CMap α := l.foldl (fun m x => cadd m x 1) []

/-- removal arm: `Some(v) if *v > n => *v -= n; Some(v) if *v <= n => remove; _ => ()` -/
def csub : CMap α → α → Nat → CMap α
  | [], _, _ => []
  | (k, c) :: t, x, n => if k = x then (if c > n then (k, c - n) :: t else t) else (k, c) :: csub t x n

/-- `map.remove(k)` : the removed count and the remaining map -/
def cerase : CMap α → α → Option Nat × CMap α
  | [], _ => (none, [])
  | (k, c) :: t, x => if k = x then (some c, t) else
    let r := cerase t x
    (r.1, (k, c) :: r.2)

/-- `flat_map(|(k, v)| repeat_n(k, v))` -/
def expand (m : CMap α) : List α := m.flatMap (fun kc => List.replicate kc.2 kc.1)

inductive Dir | ins | rem
deriving DecidableEq, Repr

/-- `UnorderedArrayLikeChange::new(item, count, dir)` with the Few/Many threshold `fewMax` (= `u8::MAX`).
A zero count would trip the `debug_asserts` assertion (reported by `mkAssert`). -/
def mkChange (fewMax : Nat) (x : α) (n : Nat) : Dir → Change α
  | .ins => if n = 1 then .insertSingle x else if n ≤ fewMax then .insertFew x n else .insertMany x n
  | .rem => if n = 1 then .removeSingle x else if n ≤ fewMax then .removeFew x n else .removeMany x n

def mkAssert (n : Nat) : Bool := n != 0

/-- first loop of `unordered_hashcmp`: walk `current`, removing matched keys from `previous`.
Returns (changes, remaining previous, all `debug_assert_ne!(count, 0)` held) -/
def loop1 (fewMax : Nat) : CMap α → CMap α → List (Change α) × CMap α × Bool
  | [], prev => ([], prev, true)
  | (k, cc) :: cur, prev =>
    let e := cerase prev k
    let r := loop1 fewMax cur e.2
    match e.1 with
    | some pc =>
      if cc > pc then (mkChange fewMax k (cc - pc) .ins :: r.1, r.2.1, r.2.2 && mkAssert (cc - pc))
      else if cc < pc then (mkChange fewMax k (pc - cc) .rem :: r.1, r.2.1, r.2.2 && mkAssert (pc - cc))
      else r
    | none => (mkChange fewMax k cc .ins :: r.1, r.2.1, r.2.2 && mkAssert cc)

/-- `unordered_hashcmp(previous, current)`; the Bool is "no `debug_asserts` assertion fired" -/
def hashcmpA (fewMax : Nat) (prev cur : List α) : Option (Diff α) × Bool :=
  let p := collect prev
  let c := collect cur
  if (c.length : Int) < (p.length : Int) - (c.length : Int) then (some (.replace (expand c)), true)
  else
    let r := loop1 fewMax c p
    let rest := r.2.1.map fun (k, v) => mkChange fewMax k v .rem
    let asserts := r.2.2 && r.2.1.all fun (_, v) => mkAssert v
    let es := r.1 ++ rest
    (if es.isEmpty then none else some (.modify es), asserts)

def hashcmp (fewMax : Nat) (prev cur : List α) : Option (Diff α) := (hashcmpA fewMax prev cur).1

def isInsert : Change α → Bool
  | .insertMany .. | .insertFew .. | .insertSingle .. => true
  | _ => false

def changeItem : Change α → α
  | .insertMany x _ | .removeMany x _ | .insertFew x _ | .removeFew x _ | .insertSingle x | .removeSingle x => x

def changeCount : Change α → Nat
  | .insertMany _ n | .removeMany _ n | .insertFew _ n | .removeFew _ n => n
  | .insertSingle _ | .removeSingle _ => 1

/-- the removal loop (a change of the wrong direction would hit the "Sorting failure" arm: unreachable after `partition`) -/
def applyRemovals (m : CMap α) : List (Change α) → CMap α
  | [] => m
  | e :: es => applyRemovals (csub m (changeItem e) (changeCount e)) es

def applyInsertions (m : CMap α) : List (Change α) → CMap α
  | [] => m
  | e :: es => applyInsertions (cadd m (changeItem e) (changeCount e)) es

/-- `apply_unordered_hashdiffs(list, diff)` -/
def apply (base : List α) : Diff α → List α
  | .replace r => r
  | .modify es =>
    let ins := es.filter isInsert
    let rem := es.filter (fun e => !isInsert e)
    expand (applyInsertions (applyRemovals (collect base) rem) ins)

end UArr
