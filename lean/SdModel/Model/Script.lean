/-
Model of the ordered patch script (`OrderedArrayLikeChangeOwned<T>` / `OrderedArrayLikeDiffOwned<T>`)
and of `ordered_array_like::apply`.  Import-free apart from the rope model.
-/
import SdModel.Model.Rope

namespace Script

/-- `OrderedArrayLikeChangeOwned<T>` (constructor order = the canonical order used by the translator) -/
inductive Change (α : Type) where
  | replace (v : α) (i : Nat)
  | insert (v : α) (i : Nat)
  | delete (i : Nat) (r : Option Nat)     -- (start, optional inclusive end)
  | swap (a b : Nat)
deriving Repr, BEq, DecidableEq

variable {α : Type}

/-- `OrderedArrayLikeChangeOwned::apply` on the rope -/
def applyRope (P : Rope.Params) (c : Change α) (r : Rope.Chunks α) : Except String (Rope.Chunks α) :=
  match c with
  | .replace v i => Rope.set r i v
  | .insert v i => Rope.insert P r i v
  | .delete i none => Rope.remove P r i
  | .delete l (some h) => Rope.drain P r l h
  | .swap a b => Rope.swap r a b

def runRope (P : Rope.Params) : List (Change α) → Rope.Chunks α → Except String (Rope.Chunks α)
  | [], r => .ok r
  | c :: cs, r => match applyRope P c r with
    | .ok r' => runRope P cs r'
    | .error e => .error e

/-- `ordered_array_like::apply(changes, existing)` : collect into a rope, apply every change, iterate out -/
def apply (P : Rope.Params) (script : List (Change α)) (existing : List α) : Except String (List α) :=
  match runRope P script (Rope.fromIter P existing) with
  | .ok r => .ok (Rope.intoList r)
  | .error e => .error e

/-- exchange two positions (reference semantics of `Vec::swap`) -/
def listSwap (L : List α) (a b : Nat) : List α :=
  match L[a]?, L[b]? with
  | some x, some y => (L.set a y).set b x
  | _, _ => L

/-- reference semantics on a plain growable array; `none` = an index is out of range at the moment it is used -/
def applyList (c : Change α) (L : List α) : Option (List α) :=
  match c with
  | .replace v i => if i < L.length then some (L.set i v) else none
  | .insert v i => if i ≤ L.length then some (L.insertIdx i v) else none
  | .delete i none => if i < L.length then some (L.eraseIdx i) else none
  | .delete l (some h) => if l ≤ h ∧ h < L.length then some (L.take l ++ L.drop (h + 1)) else none
  | .swap a b => if a < L.length ∧ b < L.length then some (listSwap L a b) else none

def runList : List (Change α) → List α → Option (List α)
  | [], L => some L
  | c :: cs, L => match applyList c L with
    | some L' => runList cs L'
    | none => none

end Script
