/-
Model of `src/collections/unordered_map_like.rs` (flat map-like strategy, both equality modes).
`HashMap<&K, (&V, usize)>` is an association list with distinct keys (any order).  Import-free.
-/
namespace UMap

variable {κ ν : Type} [DecidableEq κ] [DecidableEq ν]

/-- `UnorderedMapLikeChange<K, V>` -/
inductive Change (κ ν : Type) where
  | insertMany (k : κ) (v : ν) (n : Nat)
  | removeMany (k : κ) (n : Nat)
  | insertSingle (k : κ) (v : ν)
  | removeSingle (k : κ)
deriving Repr, DecidableEq

inductive Diff (κ ν : Type) where
  | replace (l : List (κ × ν))
  | modify (es : List (Change κ ν))
deriving Repr, DecidableEq

/-- key ↦ (value, count) -/
abbrev MMap (κ ν : Type) := List (κ × ν × Nat)

def mget : MMap κ ν → κ → Option (ν × Nat)
  | [], _ => none
  | (k, v, c) :: t, x => if k = x then some (v, c) else mget t x

/-- overwrite or append -/
def mput : MMap κ ν → κ → ν → Nat → MMap κ ν
  | [], x, v, n => [(x, v, n)]
  | (k, w, c) :: t, x, v, n => if k = x then (k, v, n) :: t else (k, w, c) :: mput t x v n

/-- add `n` to the count of an existing key (value untouched) -/
def mbump : MMap κ ν → κ → Nat → MMap κ ν
  | [], _, _ => []
  | (k, w, c) :: t, x, n => if k = x then (k, w, c + n) :: t else (k, w, c) :: mbump t x n

def merase : MMap κ ν → κ → Option (ν × Nat) × MMap κ ν
  | [], _ => (none, [])
  | (k, w, c) :: t, x => if k = x then (some (w, c), t) else
    let r := merase t x
    (r.1, (k, w, c) :: r.2)

/-- `collect_into_key_eq_map` : duplicates of a key are counted, the FIRST value is kept -/
def stepKE (m : MMap κ ν) (kv : κ × ν) : MMap κ ν :=
  match mget m kv.1 with
  | some _ => mbump m kv.1 1
  | none => mput m kv.1 kv.2 1

def collectKeyEq (l : List (κ × ν)) : MMap κ ν := l.foldl stepKE []

/-- `collect_into_key_value_eq_map` : a duplicate key with a different value restarts at (value, 1) -/
def stepKV (m : MMap κ ν) (kv : κ × ν) : MMap κ ν :=
  match mget m kv.1 with
  | some (w, _) => if w = kv.2 then mbump m kv.1 1 else mput m kv.1 kv.2 1
  | none => mput m kv.1 kv.2 1

def collectKeyValueEq (l : List (κ × ν)) : MMap κ ν := l.foldl stepKV []

def expand (m : MMap κ ν) : List (κ × ν) := m.flatMap fun (k, v, c) => List.replicate c (k, v)

inductive Dir | ins | rem
deriving DecidableEq, Repr

/-- `UnorderedMapLikeChange::new((k, v), count, op)` -/
def mkChange (k : κ) (v : ν) (n : Nat) : Dir → Change κ ν
  | .ins => if n = 1 then .insertSingle k v else .insertMany k v n
  | .rem => if n = 1 then .removeSingle k else .removeMany k n

def mkAssert (n : Nat) : Bool := n != 0

def loop1 : MMap κ ν → MMap κ ν → List (Change κ ν) × MMap κ ν × Bool
  | [], prev => ([], prev, true)
  | (k, v, cc) :: cur, prev =>
    let e := merase prev k
    let r := loop1 cur e.2
    match e.1 with
    | some (pv, pc) =>
      if pv = v then
        if cc > pc then (mkChange k v (cc - pc) .ins :: r.1, r.2.1, r.2.2 && mkAssert (cc - pc))
        else if cc < pc then (mkChange k v (pc - cc) .rem :: r.1, r.2.1, r.2.2 && mkAssert (pc - cc))
        else r
      else (mkChange k pv pc .rem :: mkChange k v cc .ins :: r.1, r.2.1, r.2.2 && mkAssert pc && mkAssert cc)
    | none => (mkChange k v cc .ins :: r.1, r.2.1, r.2.2 && mkAssert cc)

/-- `unordered_hashcmp(previous, current, key_only)`.  `key_only` only selects the collector; the value
comparison of retained keys is performed in both modes, exactly as the code does. -/
def hashcmpA (prev cur : List (κ × ν)) (keyOnly : Bool) : Option (Diff κ ν) × Bool :=
  let p := if keyOnly then collectKeyEq prev else collectKeyValueEq prev
  let c := if keyOnly then collectKeyEq cur else collectKeyValueEq cur
  if (c.length : Int) < (p.length : Int) - (c.length : Int) then (some (.replace (expand c)), true)
  else
    let r := loop1 c p
    let rest := r.2.1.map fun (k, v, n) => mkChange k v n .rem
    let asserts := r.2.2 && r.2.1.all fun (_, _, n) => mkAssert n
    let es := r.1 ++ rest
    (if es.isEmpty then none else some (.modify es), asserts)

def hashcmp (prev cur : List (κ × ν)) (keyOnly : Bool) : Option (Diff κ ν) := (hashcmpA prev cur keyOnly).1

def isInsert : Change κ ν → Bool
  | .insertMany .. | .insertSingle .. => true
  | _ => false

/-- removal arm -/
def msub : MMap κ ν → κ → Nat → MMap κ ν
  | [], _, _ => []
  | (k, w, c) :: t, x, n => if k = x then (if c > n then (k, w, c - n) :: t else t) else (k, w, c) :: msub t x n

def applyRemovals (m : MMap κ ν) : List (Change κ ν) → MMap κ ν
  | [] => m
  | .removeMany k n :: es => applyRemovals (msub m k n) es
  | .removeSingle k :: es => applyRemovals (msub m k 1) es
  | _ :: es => applyRemovals m es      -- unreachable after `partition`

def applyInsertions (m : MMap κ ν) : List (Change κ ν) → MMap κ ν
  | [] => m
  | .insertMany k v n :: es =>
    applyInsertions (match mget m k with | some _ => mbump m k n | none => mput m k v n) es
  | .insertSingle k v :: es =>
    applyInsertions (match mget m k with | some _ => mbump m k 1 | none => mput m k v 1) es
  | _ :: es => applyInsertions m es

/-- `apply_unordered_hashdiffs(list, diff)` -/
def apply (base : List (κ × ν)) : Diff κ ν → List (κ × ν)
  | .replace r => r
  | .modify es =>
    let ins := es.filter isInsert
    let rem := es.filter (fun e => !isInsert e)
    expand (applyInsertions (applyRemovals (collectKeyEq base) rem) ins)

end UMap
