/-
S-expressions for the line protocol shared by the Lean driver and the Rust oracle.
Import-free.
-/
inductive Sx where
  | atom (s : String)
  | list (l : List Sx)
deriving Inhabited, BEq

namespace Sx

partial def toStr : Sx → String
  | atom s => s
  | list l => "(" ++ " ".intercalate (l.map toStr) ++ ")"

instance : ToString Sx := ⟨toStr⟩

def tokenize (s : String) : List String :=
  let rec go (cs : List Char) (cur : List Char) (acc : List String) : List String :=
    match cs with
    | [] => (if cur.isEmpty then acc else String.ofList cur.reverse :: acc).reverse
    | c :: rest =>
      if c = '(' || c = ')' then
        let acc := if cur.isEmpty then acc else String.ofList cur.reverse :: acc
        go rest [] (String.singleton c :: acc)
      else if c = ' ' || c = '\n' || c = '\t' || c = '\r' then
        let acc := if cur.isEmpty then acc else String.ofList cur.reverse :: acc
        go rest [] acc
      else go rest (c :: cur) acc
  go s.toList [] []

/-- parse one expression; returns the expression and the remaining tokens -/
partial def parseToks : List String → Option (Sx × List String)
  | [] => none
  | "(" :: rest =>
    let rec items (ts : List String) (acc : List Sx) : Option (Sx × List String) :=
      match ts with
      | [] => none
      | ")" :: rest => some (list acc.reverse, rest)
      | ts => match parseToks ts with
        | some (x, rest) => items rest (x :: acc)
        | none => none
    items rest []
  | ")" :: _ => none
  | t :: rest => some (atom t, rest)

def parse (s : String) : Option Sx :=
  match parseToks (tokenize s) with
  | some (x, []) => some x
  | _ => none

def nat? : Sx → Option Nat
  | atom s => s.toNat?
  | _ => none

def nats? : Sx → Option (List Nat)
  | list l => l.mapM nat?
  | _ => none

def ofNat (n : Nat) : Sx := atom (toString n)
def ofNats (l : List Nat) : Sx := list (l.map ofNat)
def ofBool (b : Bool) : Sx := atom (if b then "true" else "false")
def tag (t : String) (l : List Sx) : Sx := list (atom t :: l)

end Sx
