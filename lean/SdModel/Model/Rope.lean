/-
Model of `src/collections/rope/mod.rs` : `Rope<T>` over ABSTRACT chunks.
A chunk is the logical sequence held by an `ArrayMap<T, MAX>` (justified by the
C10 theorems in `Props/C10.lean`, which state exactly this interface); its
capacity preconditions are explicit `Except` checks so that "an in-range rope
operation never panics" is a theorem about the capacity invariant, not an
artefact of the abstraction.  Import-free.
-/
namespace Rope

structure Params where
  MAX : Nat        -- MAX_SLOT_SIZE
  BASE : Nat       -- BASE_SLOT_SIZE
  LOW : Nat        -- BASE - BASE/2
  HIGH : Nat       -- BASE + BASE/2
  UNDER : Nat      -- UNDERSIZED_SLOT
  CHUNK : Nat      -- literal used by FromIterator (`take(8)`, `!= 8`)
deriving Repr

variable {α : Type}

abbrev Chunks (α : Type) := List (List α)

def flat (r : Chunks α) : List α := r.flatten

/-! ### chunk-level operations with the slot array's preconditions -/

def cInsert (P : Params) (c : List α) (p : Nat) (v : α) : Except String (List α) :=
  if ¬ p < P.MAX then .error "chunk: position out of range"
  else if ¬ c.length < P.MAX then .error "chunk: no space"
  else if p > c.length then .error "chunk: gap (unmodelled: insert past chunk length)"
  else .ok (c.take p ++ v :: c.drop p)

def cRemove (c : List α) (p : Nat) : Except String (List α) :=
  if p < c.length then .ok (c.take p ++ c.drop (p+1)) else .error "chunk: no element at position"

def cIndex (c : List α) (p : Nat) : Except String α :=
  match c[p]? with
  | some v => .ok v
  | none => .error "chunk: no element at index"

def cSet (c : List α) (p : Nat) (v : α) : Except String (List α) :=
  if p < c.length then .ok (c.set p v) else .error "chunk: unwrap on None"

/-! ### index lookup -/

/-- the loop of `key_with_count_for_index` started at chunk number `idx` with `seen` elements before it -/
def kwc : Chunks α → Nat → Nat → Nat → Nat × Nat
  | [], _, idx, seen => (idx, seen)
  | c :: cs, index, idx, seen =>
    if seen + c.length > index then (idx, seen) else kwc cs index (idx+1) (seen + c.length)

def keyWithCount (r : Chunks α) (index : Nat) : Nat × Nat := kwc r index 0 0

def keyWithCountFromPrev (r : Chunks α) (index prev seen : Nat) : Nat × Nat :=
  if seen > index then (prev, seen) else kwc (r.drop prev) index prev seen

def len (r : Chunks α) : Nat := r.foldl (fun n c => n + c.length) 0

/-- `Index::index` -/
def index (r : Chunks α) (i : Nat) : Except String α :=
  let (key, count) := keyWithCount r i
  match r[key]? with
  | some c => cIndex c (i - count)
  | none => .error "Index is past len"

def modifyChunk (r : Chunks α) (k : Nat) (c : List α) : Chunks α := r.set k c

/-- `rope[i] = v` through `IndexMut` -/
def set (r : Chunks α) (i : Nat) (v : α) : Except String (Chunks α) :=
  let (key, count) := keyWithCount r i
  match r[key]? with
  | some c => match cSet c (i - count) v with
    | .ok c' => .ok (modifyChunk r key c')
    | .error e => .error e
  | none => .error "Index is past len"

/-! ### rebalance -/

/-- the inner `while let` of the `Less` arm: pull from the fronts of later chunks until `need` is met -/
def takeFromLater : Nat → Chunks α → List α × Chunks α
  | _, [] => ([], [])
  | need, c :: cs =>
    if need = 0 then ([], c :: cs) else
      let k := min need c.length
      let r := takeFromLater (need - k) cs
      (c.take k ++ r.1, c.drop k :: r.2)

theorem takeFromLater_len (n : Nat) (l : Chunks α) : (takeFromLater n l).2.length = l.length := by
  induction l generalizing n with
  | nil => simp [takeFromLater]
  | cons c cs ih =>
    simp only [takeFromLater]
    split <;> simp [ih]

/-- body of `for key in start_key..len` acting on the chunks from `start_key` on, with the carry -/
def rebalLoop (P : Params) : List α → Chunks α → Chunks α × List α
  | carry, [] => ([], carry)
  | carry, c :: rest =>
    if c = [] then
      let r := rebalLoop P carry rest
      ([] :: r.1, r.2)
    else if P.LOW ≤ c.length ∧ c.length ≤ P.HIGH ∧ carry = [] then (c :: rest, [])
    else if c.length < P.BASE then
      let all := carry ++ c
      let hold := if carry = [] then c else all.take P.BASE
      let carry' := if carry = [] then [] else all.drop P.BASE
      let t := takeFromLater (P.BASE - hold.length) rest
      let r := rebalLoop P carry' t.2
      ((hold ++ t.1) :: r.1, r.2)
    else if c.length = P.BASE ∧ carry = [] then
      let r := rebalLoop P carry rest
      (c :: r.1, r.2)
    else if carry ≠ [] then
      let all := carry ++ c
      let r := rebalLoop P (all.drop P.BASE) rest
      (all.take P.BASE :: r.1, r.2)
    else
      let r := rebalLoop P (c.drop P.BASE) rest
      (c.take P.BASE :: r.1, r.2)
termination_by _ rest => rest.length
decreasing_by all_goals (simp_wf; try simp [takeFromLater_len])

/-- `while carry.len() > BASE { push(from_iter(carry.drain(..BASE))) }; if !carry.is_empty() { push(from_iter(carry)) }` -/
def pushCarry (P : Params) : Nat → List α → Chunks α
  | 0, _ => []
  | fuel+1, carry =>
    if carry.length > P.BASE then carry.take P.BASE :: pushCarry P fuel (carry.drop P.BASE)
    else if carry = [] then [] else [carry]

/-- fix up the last entry with carried values -/
def fixLast (P : Params) : Chunks α → List α → Chunks α × List α
  | [], carry => ([], carry)
  | [l], carry =>
    let k := min (P.BASE - l.length) carry.length
    ([l ++ carry.take k], carry.drop k)
  | c :: cs, carry =>
    let r := fixLast P cs carry
    (c :: r.1, r.2)

def finish (P : Params) (chunks : Chunks α) (carry : List α) : Chunks α :=
  let kept := chunks.filter (fun c => !c.isEmpty)
  if carry = [] then kept
  else
    let r := fixLast P kept carry
    r.1 ++ pushCarry P (r.2.length + 1) r.2

/-- `rebalance_from_key` -/
def rebalance (P : Params) (r : Chunks α) (k : Nat) : Chunks α :=
  let lp := rebalLoop P [] (r.drop k)
  finish P (r.take k ++ lp.1) lp.2

/-! ### mutations -/

/-- `Rope::insert` -/
def insert (P : Params) (r : Chunks α) (i : Nat) (x : α) : Except String (Chunks α) :=
  let (key, count) := keyWithCount r i
  let r1 := if key = r.length then r ++ [[]] else r
  match r1[key]? with
  | none => .error "unwrap on None"
  | some c =>
    match cInsert P c (i - count) x with
    | .error e => .error e
    | .ok c' =>
      let r2 := modifyChunk r1 key c'
      .ok (if c'.length = P.MAX then rebalance P r2 key else r2)

/-- `Rope::remove` -/
def remove (P : Params) (r : Chunks α) (i : Nat) : Except String (Chunks α) :=
  let (key, count) := keyWithCount r i
  match r[key]? with
  | none => .error "Failed to remove item"
  | some c =>
    match cRemove c (i - count) with
    | .error e => .error e
    | .ok c' =>
      let r2 := modifyChunk r key c'
      .ok (if c'.length ≤ P.UNDER then rebalance P r2 (key - 1) else r2)

/-- remove the chunks numbered `lo ≤ k < hi` (`self.0.drain(lo..hi)`) -/
def dropChunks (r : Chunks α) (lo hi : Nat) : Chunks α := r.take lo ++ r.drop hi

/-- `Rope::drain(l..=h)` (the only range shape `ordered_array_like::apply` uses) -/
def drain (P : Params) (r : Chunks α) (l h : Nat) : Except String (Chunks α) :=
  let (lk, lc) := keyWithCount r l
  let (rk, rc) := keyWithCountFromPrev r h lk lc
  if lk = rk then
    match r[lk]? with
    | none => .error "we just looked this key up"
    | some c =>
      -- slot drain of (l-lc)..=(h-lc): removes whatever lies in the range
      let c' := c.take (l - lc) ++ c.drop (h - lc + 1)
      let r2 := modifyChunk r lk c'
      .ok (if c'.length ≤ P.UNDER then rebalance P r2 (lk - 1) else r2)
  else
    match r[lk]?, r[rk]? with
    | some cl, some cr =>
      let cl' := cl.take (l - lc)
      let cr' := cr.drop (h - rc + 1)
      if rk < lk + 1 then .error "slice index starts after end" else
      let r2 := dropChunks (modifyChunk (modifyChunk r lk cl') rk cr') (lk + 1) rk
      .ok (if cl'.length ≤ P.UNDER ∨ cr'.length ≤ P.UNDER then rebalance P r2 lk else r2)
    | _, _ => .error "unwrap on None"

/-- `Rope::swap` -/
def swap (r : Chunks α) (a b : Nat) : Except String (Chunks α) :=
  let a' := min a b
  let b' := max a b
  let (lk, lc) := keyWithCount r a'
  let (rk, rc) := keyWithCountFromPrev r b' lk lc
  if lk = rk then
    match r[lk]? with
    | none => .error "unwrap on None"
    | some c =>
      if a' = b' then .ok r else
      match c[a' - lc]?, c[b' - lc]? with
      | some x, some y => .ok (modifyChunk r lk ((c.set (a' - lc) y).set (b' - lc) x))
      | _, _ => .error "unable to find item"
  else
    match r[lk]?, r[rk]? with
    | some cl, some cr =>
      match cl[a' - lc]?, cr[b' - rc]? with
      | some x, some y =>
        .ok (modifyChunk (modifyChunk r lk (cl.set (a' - lc) y)) rk (cr.set (b' - rc) x))
      | _, _ => .error "chunk index"
    | _, _ => .error "split_at_mut / index out of bounds"

/-! ### construction -/

def chunksOf : Nat → Nat → List α → Chunks α
  | 0, _, _ => []
  | fuel+1, n, l =>
    if l = [] then []
    else
      let c := l.take n
      if c.length ≠ n then [c] else c :: chunksOf fuel n (l.drop n)

/-- `FromIterator` -/
def fromIter (P : Params) (l : List α) : Chunks α := chunksOf (l.length + 1) P.CHUNK l

/-- `Rope::new()`; `legacy = true` is the pre-fix constructor (one empty chunk) -/
def new (legacy : Bool) : Chunks α := if legacy then [[]] else []

/-! ### iteration -/

structure BIter where
  key : Nat
  inKey : Nat
  exhausted : Bool

def iterInit (r : Chunks α) : BIter :=
  ⟨0, 0, r.isEmpty || (match r with | c :: _ => c.isEmpty | [] => true)⟩

def iterNext (r : Chunks α) (it : BIter) : Except String (Option α × BIter) :=
  if it.exhausted then .ok (none, it) else
  match r[it.key]? with
  | none => .error "chunk vector index out of bounds"
  | some c =>
    match c[it.inKey]? with
    | none => .error "chunk: no element at index"
    | some v =>
      let inKey := it.inKey + 1
      let (key, inKey) := if inKey ≥ c.length then (it.key + 1, 0) else (it.key, inKey)
      .ok (some v, ⟨key, inKey, key ≥ r.length⟩)

def iterCollect (r : Chunks α) : Nat → BIter → Except String (List α)
  | 0, _ => .ok []
  | fuel+1, it =>
    match iterNext r it with
    | .error e => .error e
    | .ok (none, _) => .ok []
    | .ok (some v, it') =>
      match iterCollect r fuel it' with
      | .ok l => .ok (v :: l)
      | .error e => .error e

/-- `(&rope).into_iter().collect()` -/
def iter (r : Chunks α) : Except String (List α) := iterCollect r (len r + 1) (iterInit r)

/-- `rope.into_iter().collect()` : pops chunks front to back, skipping empty ones -/
def intoList (r : Chunks α) : List α := flat r

/-! ### invariant -/

def invB (P : Params) (r : Chunks α) : Bool := r.all fun c => 1 ≤ c.length && c.length + 1 ≤ P.MAX

end Rope
