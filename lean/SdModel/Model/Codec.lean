/-
Byte-level model of the two wire formats for the library's hand-written / derived diff types.
nanoserde binary: fixed-width little-endian integers, `usize` as u64, `Vec` = u64 length + items,
`Option` = tag byte 1/0, enum discriminant = one byte taken from the tables extracted from the source.
bincode 1.x (default options): the same primitives, enum variant index = u32 LE in declaration order.
Import-free apart from the script model and the generated tables.
-/
import SdModel.Model.Script
import SdModel.Gen.Params

namespace Codec

abbrev Bytes := List Nat

/-- `k` little-endian bytes of `n` -/
def le : Nat → Nat → Bytes
  | 0, _ => []
  | k+1, n => (n % 256) :: le k (n / 256)

/-- read `k` little-endian bytes -/
def readLE : Nat → Bytes → Option (Nat × Bytes)
  | 0, bs => some (0, bs)
  | _+1, [] => none
  | k+1, b :: bs => match readLE k bs with
    | some (n, rest) => some (b + 256 * n, rest)
    | none => none

/-- which wire format -/
inductive Fmt | nano | bincode
deriving DecidableEq, Repr

/-- element codec: `u32` (4 bytes LE) in both formats -/
def encElem (v : Nat) : Bytes := le 4 v
def decElem (bs : Bytes) : Option (Nat × Bytes) := readLE 4 bs

def encUsize (v : Nat) : Bytes := le 8 v
def decUsize (bs : Bytes) : Option (Nat × Bytes) := readLE 8 bs

/-- enum tag: one byte (nanoserde, from the extracted table) or u32 LE (bincode, declaration index) -/
def encTag (f : Fmt) (t : Nat) : Bytes := match f with | .nano => le 1 t | .bincode => le 4 t
def decTag (f : Fmt) (bs : Bytes) : Option (Nat × Bytes) := match f with | .nano => readLE 1 bs | .bincode => readLE 4 bs

/-- `Option<usize>` : nanoserde accepts any tag other than 1 as `None`; bincode rejects tags above 1 -/
def encOptUsize : Option Nat → Bytes
  | none => [0]
  | some v => 1 :: encUsize v
def decOptUsize (f : Fmt) : Bytes → Option (Option Nat × Bytes)
  | [] => none
  | t :: bs =>
    if t = 1 then (decUsize bs).map fun (v, r) => (some v, r)
    else if t = 0 then some (none, bs)
    else match f with | .nano => some (none, bs) | .bincode => none

/-- position of a constructor (0 Replace, 1 Insert, 2 Delete, 3 Swap) -/
def ctorIdx {α : Type} : Script.Change α → Nat
  | .replace .. => 0 | .insert .. => 1 | .delete .. => 2 | .swap .. => 3

/-- tag written for constructor number `k`: `encTable[k]` -/
def tagOf (table : List Nat) (k : Nat) : Nat := table.getD k 255

/-- constructor number read for tag `t`: first `(t, k)` in the decode table -/
def ctorOf (table : List (Nat × Nat)) (t : Nat) : Option Nat := (table.find? (·.1 = t)).map (·.2)

/-- the tables in force for a format: (encode owned, encode ref, decode owned) -/
def tables : Fmt → List Nat × List Nat × List (Nat × Nat)
  | .nano => (Gen.nanoOrderedOwnedEnc, Gen.nanoOrderedRefEnc, Gen.nanoOrderedOwnedDec)
  | .bincode => (Gen.serdeOrderedOwnedIdx, Gen.serdeOrderedRefIdx, Gen.serdeOrderedOwnedIdx.zipIdx)

def encChangeWith (f : Fmt) (table : List Nat) (c : Script.Change Nat) : Bytes :=
  encTag f (tagOf table (ctorIdx c)) ++
  match c with
  | .replace v i => encElem v ++ encUsize i
  | .insert v i => encElem v ++ encUsize i
  | .delete i r => encUsize i ++ encOptUsize r
  | .swap a b => encUsize a ++ encUsize b

def encChange (f : Fmt) (c : Script.Change Nat) : Bytes := encChangeWith f (tables f).1 c
/-- the borrowed form (`OrderedArrayLikeChangeRef`) has its own discriminant function / declaration -/
def encChangeRef (f : Fmt) (c : Script.Change Nat) : Bytes := encChangeWith f (tables f).2.1 c

def decChange (f : Fmt) (bs : Bytes) : Option (Script.Change Nat × Bytes) :=
  match decTag f bs with
  | none => none
  | some (t, bs) =>
    match ctorOf (tables f).2.2 t with
    | some 0 => match decElem bs with
      | some (v, bs) => (decUsize bs).map fun (i, r) => (.replace v i, r)
      | none => none
    | some 1 => match decElem bs with
      | some (v, bs) => (decUsize bs).map fun (i, r) => (.insert v i, r)
      | none => none
    | some 2 => match decUsize bs with
      | some (i, bs) => (decOptUsize f bs).map fun (o, r) => (.delete i o, r)
      | none => none
    | some 3 => match decUsize bs with
      | some (a, bs) => (decUsize bs).map fun (b, r) => (.swap a b, r)
      | none => none
    | _ => none

def encList {β : Type} (e : β → Bytes) (l : List β) : Bytes := encUsize l.length ++ (l.map e).flatten

def decN {β : Type} (d : Bytes → Option (β × Bytes)) : Nat → Bytes → Option (List β × Bytes)
  | 0, bs => some ([], bs)
  | n+1, bs => match d bs with
    | none => none
    | some (x, bs) => match decN d n bs with
      | none => none
      | some (xs, bs) => some (x :: xs, bs)

def decList {β : Type} (d : Bytes → Option (β × Bytes)) (bs : Bytes) : Option (List β × Bytes) :=
  match decUsize bs with
  | none => none
  | some (n, bs) => decN d n bs

/-- `OrderedArrayLikeDiffOwned<u32>` (a newtype around `Vec<Change>`) -/
def encScript (f : Fmt) (s : List (Script.Change Nat)) : Bytes := encList (encChange f) s
def encScriptRef (f : Fmt) (s : List (Script.Change Nat)) : Bytes := encList (encChangeRef f) s
def decScript (f : Fmt) (bs : Bytes) : Option (List (Script.Change Nat) × Bytes) := decList (decChange f) bs

end Codec
