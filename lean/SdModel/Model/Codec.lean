/-
Byte-level model of the two wire formats for the library's hand-written / derived diff types.
nanoserde binary: fixed-width little-endian integers, `usize` as u64, `Vec` = u64 length + items,
`Option` = tag byte 1/0, enum discriminant = one byte taken from the tables extracted from the source.
bincode 1.x (default options): the same primitives, enum variant index = u32 LE in declaration order.
Import-free apart from the script model and the generated tables.
-/
import SdModel.Model.Script
import SdModel.Model.UArr
import SdModel.Model.UMap
import SdModel.Model.RMap
import SdModel.Gen.Params

namespace Codec

abbrev Bytes := List Nat

/-- `k` little-endian bytes of `n` -/
def le : Nat → Nat → Bytes
  | 0, _ => []
  | k+1, n => (n % 256) :: le k (n / 256)

/-- read `k` little-endian bytes -/
def readLE : Nat → Bytes → Option (Nat × Bytes)
  | 0, bs => some (0, bs)
  | _+1, [] => none
  | k+1, b :: bs => match readLE k bs with
    | some (n, rest) => some (b + 256 * n, rest)
    | none => none

/-- which wire format -/
inductive Fmt | nano | bincode
deriving DecidableEq, Repr

/-- element codec: `u32` (4 bytes LE) in both formats -/
def encElem (v : Nat) : Bytes := le 4 v
def decElem (bs : Bytes) : Option (Nat × Bytes) := readLE 4 bs

def encUsize (v : Nat) : Bytes := le 8 v
def decUsize (bs : Bytes) : Option (Nat × Bytes) := readLE 8 bs

/-- enum tag: one byte (nanoserde, from the extracted table) or u32 LE (bincode, declaration index) -/
def encTag (f : Fmt) (t : Nat) : Bytes := match f with | .nano => le 1 t | .bincode => le 4 t
def decTag (f : Fmt) (bs : Bytes) : Option (Nat × Bytes) := match f with | .nano => readLE 1 bs | .bincode => readLE 4 bs

/-- `Option<usize>` : nanoserde accepts any tag other than 1 as `None`; bincode rejects tags above 1 -/
def encOptUsize : Option Nat → Bytes
  | none => [0]
  | some v => 1 :: encUsize v
def decOptUsize (f : Fmt) : Bytes → Option (Option Nat × Bytes)
  | [] => none
  | t :: bs =>
    if t = 1 then (decUsize bs).map fun (v, r) => (some v, r)
    else if t = 0 then some (none, bs)
    else match f with | .nano => some (none, bs) | .bincode => none

/-- position of a constructor (0 Replace, 1 Insert, 2 Delete, 3 Swap) -/
def ctorIdx {α : Type} : Script.Change α → Nat
  | .replace .. => 0 | .insert .. => 1 | .delete .. => 2 | .swap .. => 3

/-- tag written for constructor number `k`: `encTable[k]` -/
def tagOf (table : List Nat) (k : Nat) : Nat := table.getD k 255

/-- constructor number read for tag `t`: first `(t, k)` in the decode table -/
def ctorOf (table : List (Nat × Nat)) (t : Nat) : Option Nat := (table.find? (·.1 = t)).map (·.2)

/-- the tables in force for a format: (encode owned, encode ref, decode owned) -/
def tables : Fmt → List Nat × List Nat × List (Nat × Nat)
  | .nano => (Gen.nanoOrderedOwnedEnc, Gen.nanoOrderedRefEnc, Gen.nanoOrderedOwnedDec)
  | .bincode => (Gen.serdeOrderedOwnedIdx, Gen.serdeOrderedRefIdx, Gen.serdeOrderedOwnedIdx.zipIdx)

def encChangeWith (f : Fmt) (table : List Nat) (c : Script.Change Nat) : Bytes :=
  encTag f (tagOf table (ctorIdx c)) ++
  match c with
  | .replace v i => encElem v ++ encUsize i
  | .insert v i => encElem v ++ encUsize i
  | .delete i r => encUsize i ++ encOptUsize r
  | .swap a b => encUsize a ++ encUsize b

def encChange (f : Fmt) (c : Script.Change Nat) : Bytes := encChangeWith f (tables f).1 c
/-- the borrowed form (`OrderedArrayLikeChangeRef`) has its own discriminant function / declaration -/
def encChangeRef (f : Fmt) (c : Script.Change Nat) : Bytes := encChangeWith f (tables f).2.1 c

def decChange (f : Fmt) (bs : Bytes) : Option (Script.Change Nat × Bytes) :=
  match decTag f bs with
  | none => none
  | some (t, bs) =>
    match ctorOf (tables f).2.2 t with
    | some 0 => match decElem bs with
      | some (v, bs) => (decUsize bs).map fun (i, r) => (.replace v i, r)
      | none => none
    | some 1 => match decElem bs with
      | some (v, bs) => (decUsize bs).map fun (i, r) => (.insert v i, r)
      | none => none
    | some 2 => match decUsize bs with
      | some (i, bs) => (decOptUsize f bs).map fun (o, r) => (.delete i o, r)
      | none => none
    | some 3 => match decUsize bs with
      | some (a, bs) => (decUsize bs).map fun (b, r) => (.swap a b, r)
      | none => none
    | _ => none

def encList {β : Type} (e : β → Bytes) (l : List β) : Bytes := encUsize l.length ++ (l.map e).flatten

def decN {β : Type} (d : Bytes → Option (β × Bytes)) : Nat → Bytes → Option (List β × Bytes)
  | 0, bs => some ([], bs)
  | n+1, bs => match d bs with
    | none => none
    | some (x, bs) => match decN d n bs with
      | none => none
      | some (xs, bs) => some (x :: xs, bs)

def decList {β : Type} (d : Bytes → Option (β × Bytes)) (bs : Bytes) : Option (List β × Bytes) :=
  match decUsize bs with
  | none => none
  | some (n, bs) => decN d n bs

/-- `OrderedArrayLikeDiffOwned<u32>` (a newtype around `Vec<Change>`) -/
def encScript (f : Fmt) (s : List (Script.Change Nat)) : Bytes := encList (encChange f) s
def encScriptRef (f : Fmt) (s : List (Script.Change Nat)) : Bytes := encList (encChangeRef f) s
def decScript (f : Fmt) (bs : Bytes) : Option (List (Script.Change Nat) × Bytes) := decList (decChange f) bs

end Codec

/-! ### unordered array-like and flat map-like diffs (hand-written nanoserde codecs; serde-derived bincode) -/
namespace Codec

/-- `u8` -/
def encU8 (v : Nat) : Bytes := le 1 v
def decU8 (bs : Bytes) : Option (Nat × Bytes) := readLE 1 bs

/-- (encode owned, encode ref, decode owned) tables per type and format -/
def tablesUArrChange : Fmt → List Nat × List Nat × List (Nat × Nat)
  | .nano => (Gen.nanoUArrChangeOwnedEnc, Gen.nanoUArrChangeRefEnc, Gen.nanoUArrChangeOwnedDec)
  | .bincode => (Gen.serdeUArrChangeOwnedIdx, Gen.serdeUArrChangeRefIdx, Gen.serdeUArrChangeOwnedIdx.zipIdx)
def tablesUArrDiff : Fmt → List Nat × List Nat × List (Nat × Nat)
  | .nano => (Gen.nanoUArrDiffOwnedEnc, Gen.nanoUArrDiffRefEnc, Gen.nanoUArrDiffOwnedDec)
  | .bincode => (Gen.serdeUArrDiffOwnedIdx, Gen.serdeUArrDiffRefIdx, Gen.serdeUArrDiffOwnedIdx.zipIdx)
def tablesUMapChange : Fmt → List Nat × List Nat × List (Nat × Nat)
  | .nano => (Gen.nanoUMapChangeOwnedEnc, Gen.nanoUMapChangeRefEnc, Gen.nanoUMapChangeOwnedDec)
  | .bincode => (Gen.serdeUMapChangeOwnedIdx, Gen.serdeUMapChangeRefIdx, Gen.serdeUMapChangeOwnedIdx.zipIdx)
def tablesUMapDiff : Fmt → List Nat × List Nat × List (Nat × Nat)
  | .nano => (Gen.nanoUMapDiffOwnedEnc, Gen.nanoUMapDiffRefEnc, Gen.nanoUMapDiffOwnedDec)
  | .bincode => (Gen.serdeUMapDiffOwnedIdx, Gen.serdeUMapDiffRefIdx, Gen.serdeUMapDiffOwnedIdx.zipIdx)

/-- constructor positions of `UnorderedArrayLikeChange` in declaration order -/
def uctorIdx : UArr.Change Nat → Nat
  | .insertMany .. => 0 | .removeMany .. => 1 | .insertFew .. => 2 | .removeFew .. => 3
  | .insertSingle .. => 4 | .removeSingle .. => 5

/-- tag, then `ChangeSpec { item, count }` with `count : usize` (Many) / `u8` (Few), or the bare item (Single) -/
def encUChangeWith (f : Fmt) (table : List Nat) (c : UArr.Change Nat) : Bytes :=
  encTag f (tagOf table (uctorIdx c)) ++
  match c with
  | .insertMany x n | .removeMany x n => encElem x ++ encUsize n
  | .insertFew x n | .removeFew x n => encElem x ++ encU8 n
  | .insertSingle x | .removeSingle x => encElem x

def encUChange (f : Fmt) (c : UArr.Change Nat) : Bytes := encUChangeWith f (tablesUArrChange f).1 c
def encUChangeRef (f : Fmt) (c : UArr.Change Nat) : Bytes := encUChangeWith f (tablesUArrChange f).2.1 c

def decUChange (f : Fmt) (bs : Bytes) : Option (UArr.Change Nat × Bytes) :=
  match decTag f bs with
  | none => none
  | some (t, bs) =>
    match ctorOf (tablesUArrChange f).2.2 t with
    | some 0 => match decElem bs with
      | some (x, bs) => (decUsize bs).map fun (n, r) => (.insertMany x n, r)
      | none => none
    | some 1 => match decElem bs with
      | some (x, bs) => (decUsize bs).map fun (n, r) => (.removeMany x n, r)
      | none => none
    | some 2 => match decElem bs with
      | some (x, bs) => (decU8 bs).map fun (n, r) => (.insertFew x n, r)
      | none => none
    | some 3 => match decElem bs with
      | some (x, bs) => (decU8 bs).map fun (n, r) => (.removeFew x n, r)
      | none => none
    | some 4 => (decElem bs).map fun (x, r) => (.insertSingle x, r)
    | some 5 => (decElem bs).map fun (x, r) => (.removeSingle x, r)
    | _ => none

def udiffIdx : UArr.Diff Nat → Nat
  | .replace _ => 0 | .modify _ => 1

def encUDiffWith (f : Fmt) (tD : List Nat) (encC : UArr.Change Nat → Bytes) (d : UArr.Diff Nat) : Bytes :=
  encTag f (tagOf tD (udiffIdx d)) ++
  match d with
  | .replace l => encList encElem l
  | .modify es => encList encC es

/-- `UnorderedArrayLikeDiff<u32>` -/
def encUDiff (f : Fmt) (d : UArr.Diff Nat) : Bytes := encUDiffWith f (tablesUArrDiff f).1 (encUChange f) d
/-- `&UnorderedArrayLikeDiff<&u32>` -/
def encUDiffRef (f : Fmt) (d : UArr.Diff Nat) : Bytes := encUDiffWith f (tablesUArrDiff f).2.1 (encUChangeRef f) d

def decUDiff (f : Fmt) (bs : Bytes) : Option (UArr.Diff Nat × Bytes) :=
  match decTag f bs with
  | none => none
  | some (t, bs) =>
    match ctorOf (tablesUArrDiff f).2.2 t with
    | some 0 => (decList decElem bs).map fun (l, r) => (.replace l, r)
    | some 1 => (decList (decUChange f) bs).map fun (es, r) => (.modify es, r)
    | _ => none

/-! flat map-like : keys and values `u32` -/

def mctorIdx : UMap.Change Nat Nat → Nat
  | .insertMany .. => 0 | .removeMany .. => 1 | .insertSingle .. => 2 | .removeSingle .. => 3

def encMChangeWith (f : Fmt) (table : List Nat) (c : UMap.Change Nat Nat) : Bytes :=
  encTag f (tagOf table (mctorIdx c)) ++
  match c with
  | .insertMany k v n => encElem k ++ encElem v ++ encUsize n
  | .removeMany k n => encElem k ++ encUsize n
  | .insertSingle k v => encElem k ++ encElem v
  | .removeSingle k => encElem k

def encMChange (f : Fmt) (c : UMap.Change Nat Nat) : Bytes := encMChangeWith f (tablesUMapChange f).1 c
def encMChangeRef (f : Fmt) (c : UMap.Change Nat Nat) : Bytes := encMChangeWith f (tablesUMapChange f).2.1 c

def decMChange (f : Fmt) (bs : Bytes) : Option (UMap.Change Nat Nat × Bytes) :=
  match decTag f bs with
  | none => none
  | some (t, bs) =>
    match ctorOf (tablesUMapChange f).2.2 t with
    | some 0 => match decElem bs with
      | some (k, bs) => match decElem bs with
        | some (v, bs) => (decUsize bs).map fun (n, r) => (.insertMany k v n, r)
        | none => none
      | none => none
    | some 1 => match decElem bs with
      | some (k, bs) => (decUsize bs).map fun (n, r) => (.removeMany k n, r)
      | none => none
    | some 2 => match decElem bs with
      | some (k, bs) => (decElem bs).map fun (v, r) => (.insertSingle k v, r)
      | none => none
    | some 3 => (decElem bs).map fun (k, r) => (.removeSingle k, r)
    | _ => none

def encPair (kv : Nat × Nat) : Bytes := encElem kv.1 ++ encElem kv.2
def decPair (bs : Bytes) : Option ((Nat × Nat) × Bytes) :=
  match decElem bs with
  | some (k, bs) => (decElem bs).map fun (v, r) => ((k, v), r)
  | none => none

def mdiffIdx : UMap.Diff Nat Nat → Nat
  | .replace _ => 0 | .modify _ => 1

def encMDiffWith (f : Fmt) (tD : List Nat) (encC : UMap.Change Nat Nat → Bytes) (d : UMap.Diff Nat Nat) : Bytes :=
  encTag f (tagOf tD (mdiffIdx d)) ++
  match d with
  | .replace l => encList encPair l
  | .modify es => encList encC es

def encMDiff (f : Fmt) (d : UMap.Diff Nat Nat) : Bytes := encMDiffWith f (tablesUMapDiff f).1 (encMChange f) d
def encMDiffRef (f : Fmt) (d : UMap.Diff Nat Nat) : Bytes := encMDiffWith f (tablesUMapDiff f).2.1 (encMChangeRef f) d

def decMDiff (f : Fmt) (bs : Bytes) : Option (UMap.Diff Nat Nat × Bytes) :=
  match decTag f bs with
  | none => none
  | some (t, bs) =>
    match ctorOf (tablesUMapDiff f).2.2 t with
    | some 0 => (decList decPair bs).map fun (l, r) => (.replace l, r)
    | some 1 => (decList (decMChange f) bs).map fun (es, r) => (.modify es, r)
    | _ => none


/-! recursive map-like : generic in the codec of the values and of the nested diff lists (`Vec<V::Diff>`), which are
produced by the codec derives for the user's value type -/

/-- an encoder / decoder pair for some payload type -/
structure Cdc (β : Type) where
  enc : β → Bytes
  dec : Bytes → Option (β × Bytes)

def tablesRMapChange : Fmt → List Nat × List Nat × List (Nat × Nat)
  | .nano => (Gen.nanoRMapChangeOwnedEnc, Gen.nanoRMapChangeRefEnc, Gen.nanoRMapChangeOwnedDec)
  | .bincode => (Gen.serdeRMapChangeOwnedIdx, Gen.serdeRMapChangeRefIdx, Gen.serdeRMapChangeOwnedIdx.zipIdx)
def tablesRMapDiff : Fmt → List Nat × List Nat × List (Nat × Nat)
  | .nano => (Gen.nanoRMapDiffOwnedEnc, Gen.nanoRMapDiffRefEnc, Gen.nanoRMapDiffOwnedDec)
  | .bincode => (Gen.serdeRMapDiffOwnedIdx, Gen.serdeRMapDiffRefIdx, Gen.serdeRMapDiffOwnedIdx.zipIdx)

variable {ν δ : Type}

def rctorIdx : RMap.Change Nat ν δ → Nat
  | .insert .. => 0 | .remove .. => 1 | .change .. => 2

/-- `Insert((K, V))`, `Remove(K)`, `Change((K, Vec<V::Diff>))` -/
def encRChangeWith (f : Fmt) (table : List Nat) (V : Cdc ν) (D : Cdc δ) (c : RMap.Change Nat ν δ) : Bytes :=
  encTag f (tagOf table (rctorIdx c)) ++
  match c with
  | .insert k v => encElem k ++ V.enc v
  | .remove k => encElem k
  | .change k d => encElem k ++ D.enc d

def encRChange (f : Fmt) (V : Cdc ν) (D : Cdc δ) (c : RMap.Change Nat ν δ) : Bytes := encRChangeWith f (tablesRMapChange f).1 V D c
def encRChangeRef (f : Fmt) (V : Cdc ν) (D : Cdc δ) (c : RMap.Change Nat ν δ) : Bytes := encRChangeWith f (tablesRMapChange f).2.1 V D c

def decRChange (f : Fmt) (V : Cdc ν) (D : Cdc δ) (bs : Bytes) : Option (RMap.Change Nat ν δ × Bytes) :=
  match decTag f bs with
  | none => none
  | some (t, bs) =>
    match ctorOf (tablesRMapChange f).2.2 t with
    | some 0 => match decElem bs with
      | some (k, bs) => (V.dec bs).map fun (v, r) => (.insert k v, r)
      | none => none
    | some 1 => (decElem bs).map fun (k, r) => (.remove k, r)
    | some 2 => match decElem bs with
      | some (k, bs) => (D.dec bs).map fun (d, r) => (.change k d, r)
      | none => none
    | _ => none

def encKV (V : Cdc ν) (kv : Nat × ν) : Bytes := encElem kv.1 ++ V.enc kv.2
def decKV (V : Cdc ν) (bs : Bytes) : Option ((Nat × ν) × Bytes) :=
  match decElem bs with
  | some (k, bs) => (V.dec bs).map fun (v, r) => ((k, v), r)
  | none => none

def rdiffIdx : RMap.Diff Nat ν δ → Nat
  | .replace _ => 0 | .modify _ => 1

def encRDiffWith (f : Fmt) (tD : List Nat) (V : Cdc ν) (encC : RMap.Change Nat ν δ → Bytes) (d : RMap.Diff Nat ν δ) : Bytes :=
  encTag f (tagOf tD (rdiffIdx d)) ++
  match d with
  | .replace l => encList (encKV V) l
  | .modify es => encList encC es

def encRDiff (f : Fmt) (V : Cdc ν) (D : Cdc δ) (d : RMap.Diff Nat ν δ) : Bytes :=
  encRDiffWith f (tablesRMapDiff f).1 V (encRChange f V D) d
def encRDiffRef (f : Fmt) (V : Cdc ν) (D : Cdc δ) (d : RMap.Diff Nat ν δ) : Bytes :=
  encRDiffWith f (tablesRMapDiff f).2.1 V (encRChangeRef f V D) d

def decRDiff (f : Fmt) (V : Cdc ν) (D : Cdc δ) (bs : Bytes) : Option (RMap.Diff Nat ν δ × Bytes) :=
  match decTag f bs with
  | none => none
  | some (t, bs) =>
    match ctorOf (tablesRMapDiff f).2.2 t with
    | some 0 => (decList (decKV V) bs).map fun (l, r) => (.replace l, r)
    | some 1 => (decList (decRChange f V D) bs).map fun (es, r) => (.modify es, r)
    | _ => none

/-! derived struct diffs: `Vec<__XDiff>` where the generated enum has one variant per UNSKIPPED field, in declaration
order, so the discriminant of the entry for field `j` is the RANK of `j` among the unskipped fields (the model's
entries carry the field index itself). Exception, NOT modelled here: an `Option` + `recurse` field gets TWO variants
(`f(Option<Vec<..>>)` and `f_full(T)`), which shifts the ranks of the fields after it; the wire model covers types
without such fields. The codec derives write that discriminant as `u16` (nanoserde) / `u32`
(bincode). Generic in the per-field payload codecs (those are produced by the codec derives for the field types). -/

/-- number of unskipped fields before position `j` (`skips[i] = true` = field `i` is skipped) -/
def rank : List Bool → Nat → Nat
  | [], _ => 0
  | _ :: _, 0 => 0
  | b :: t, j + 1 => (if b then 0 else 1) + rank t j

/-- the position of the unskipped field with the given rank -/
def unrank : List Bool → Nat → Option Nat
  | [], _ => none
  | true :: t, r => (unrank t r).map (· + 1)
  | false :: _, 0 => some 0
  | false :: t, r + 1 => (unrank t r).map (· + 1)

def encDTag (f : Fmt) (t : Nat) : Bytes := match f with | .nano => le 2 t | .bincode => le 4 t
def decDTag (f : Fmt) (bs : Bytes) : Option (Nat × Bytes) := match f with | .nano => readLE 2 bs | .bincode => readLE 4 bs

variable {π : Type}

def encEntry (f : Fmt) (skips : List Bool) (P : Nat → Cdc π) (e : Nat × π) : Bytes :=
  encDTag f (rank skips e.1) ++ (P e.1).enc e.2

def decEntry (f : Fmt) (skips : List Bool) (P : Nat → Cdc π) (bs : Bytes) : Option ((Nat × π) × Bytes) :=
  match decDTag f bs with
  | none => none
  | some (t, bs) =>
    match unrank skips t with
    | none => none
    | some j => ((P j).dec bs).map fun (p, r) => ((j, p), r)

def encEntries (f : Fmt) (skips : List Bool) (P : Nat → Cdc π) (es : List (Nat × π)) : Bytes :=
  encList (encEntry f skips P) es
def decEntries (f : Fmt) (skips : List Bool) (P : Nat → Cdc π) (bs : Bytes) : Option (List (Nat × π) × Bytes) :=
  decList (decEntry f skips P) bs

/-! the general form: field `i` contributes `ws[i]` variants (0 = skipped, 1 = ordinary, 2 = `Option` + `recurse`:
`f(Option<Vec<..>>)` then `f_full(T)`); an entry addresses (field, alternative) -/

def rankW : List Nat → Nat → Nat
  | [], _ => 0
  | _ :: _, 0 => 0
  | w :: t, j + 1 => w + rankW t j

def unrankW : List Nat → Nat → Option (Nat × Nat)
  | [], _ => none
  | w :: t, r => if r < w then some (0, r) else (unrankW t (r - w)).map fun (j, a) => (j + 1, a)

def encEntryW (f : Fmt) (ws : List Nat) (P : Nat → Nat → Cdc π) (e : (Nat × Nat) × π) : Bytes :=
  encDTag f (rankW ws e.1.1 + e.1.2) ++ (P e.1.1 e.1.2).enc e.2

def decEntryW (f : Fmt) (ws : List Nat) (P : Nat → Nat → Cdc π) (bs : Bytes) : Option (((Nat × Nat) × π) × Bytes) :=
  match decDTag f bs with
  | none => none
  | some (t, bs) =>
    match unrankW ws t with
    | none => none
    | some (j, a) => ((P j a).dec bs).map fun (p, r) => (((j, a), p), r)

def encEntriesW (f : Fmt) (ws : List Nat) (P : Nat → Nat → Cdc π) (es : List ((Nat × Nat) × π)) : Bytes :=
  encList (encEntryW f ws P) es
def decEntriesW (f : Fmt) (ws : List Nat) (P : Nat → Nat → Cdc π) (bs : Bytes) : Option (List ((Nat × Nat) × π) × Bytes) :=
  decList (decEntryW f ws P) bs

/-- payloads of plain fields of the two value types the flat shapes use: `u32` and `Option<u32>` -/
inductive PV
  | u (v : Nat)
  | o (v : Option Nat)
deriving DecidableEq, Repr

/-- the tag byte of an `Option`: 1 = `Some`; bincode accepts only 0 as `None`, nanoserde's `DeBin for Option` takes
EVERY other byte as `None` -/
def optTag (f : Fmt) (t : Nat) : Option Bool :=
  if t = 1 then some true
  else match f with
    | .nano => some false
    | .bincode => if t = 0 then some false else none

/-- the payload codec of a plain field: `u32` (4 bytes LE) or `Option<u32>` (one tag byte, then the value); the two
formats write the same bytes and differ in which tag bytes they accept -/
def pvCdc (f : Fmt) (isOpt : Bool) : Cdc PV where
  enc
    | .u v => encElem v
    | .o none => [0]
    | .o (some v) => 1 :: encElem v
  dec bs :=
    if isOpt then
      match bs with
      | t :: r =>
        match optTag f t with
        | some true => (decElem r).map fun (v, r) => (.o (some v), r)
        | some false => some (.o none, r)
        | none => none
      | [] => none
    else (decElem bs).map fun (v, r) => (.u v, r)

/-! fields holding a RECURSIVE MAP whose values are flat structs: the payload is the hand-written codec of
`UnorderedMapLikeRecursiveDiff` (`encRDiff`) instantiated with the value codec (all fields of the value, skipped ones
included: `skip` only concerns `Difference`) and the nested entry-list codec of the value type -/

/-- the flat value type of a recursive map: which fields are skipped, which are `Option<u32>` -/
structure LeafTy where
  skips : List Bool
  opts : List Bool
deriving DecidableEq, Repr

def decVals (f : Fmt) : List Bool → Bytes → Option (List PV × Bytes)
  | [], bs => some ([], bs)
  | o :: t, bs =>
    match (pvCdc f o).dec bs with
    | none => none
    | some (v, r) => (decVals f t r).map fun (vs, r') => (v :: vs, r')

/-- a struct value: its fields in declaration order -/
def valsCdc (f : Fmt) (opts : List Bool) : Cdc (List PV) where
  enc vs := (vs.map (pvCdc f false).enc).flatten
  dec := decVals f opts

def leafEntriesCdc (f : Fmt) (L : LeafTy) : Cdc (List (Nat × PV)) where
  enc := encEntries f L.skips (fun j => pvCdc f (L.opts.getD j false))
  dec := decEntries f L.skips (fun j => pvCdc f (L.opts.getD j false))

abbrev LeafDiff := RMap.Diff Nat (List PV) (List (Nat × PV))

/-- payload of a field, by strategy: plain flat value; nested entry list (`recurse` into a flat struct); ordered script;
unordered array-like diff; flat map-like diff; recursive map-like diff with flat values (elements, keys and flat map
values are `u32`) -/
inductive PL
  | pv (p : PV)
  | ne (es : List (Nat × PV))
  | on (o : Option (List (Nat × PV)))
  | full (vs : List PV)
  | sc (s : List (Script.Change Nat))
  | ua (d : UArr.Diff Nat)
  | um (d : UMap.Diff Nat Nat)
  | rm (d : LeafDiff)

inductive FKind
  | flat (isOpt : Bool)
  | nested (L : LeafTy)
  | optNested (L : LeafTy)
  | ord
  | uarr
  | umap
  | rmap (L : LeafTy)
deriving DecidableEq, Repr

/-- `Option<T>` of a payload: one tag byte, then the payload -/
def optCdc {β : Type} (f : Fmt) (c : Cdc β) : Cdc (Option β) where
  enc
    | none => [0]
    | some x => 1 :: c.enc x
  dec
    | t :: r =>
      match optTag f t with
      | some true => (c.dec r).map fun (x, r) => (some x, r)
      | some false => some (none, r)
      | none => none
    | [] => none

/-- number of enum variants a field of this kind contributes -/
def FKind.width : FKind → Nat
  | .optNested _ => 2
  | _ => 1

/-- the payload codec of alternative `alt` of a field of the given kind (alternative 1 exists only for `Option` +
`recurse`: the whole new value) -/
def plCdc (f : Fmt) : FKind → Nat → Cdc PL
  | .flat o, _ =>
    { enc := fun p => match p with | .pv p => (pvCdc f o).enc p | _ => []
      dec := fun bs => ((pvCdc f o).dec bs).map fun (p, r) => (.pv p, r) }
  | .nested L, _ =>
    { enc := fun p => match p with | .ne es => (leafEntriesCdc f L).enc es | _ => []
      dec := fun bs => ((leafEntriesCdc f L).dec bs).map fun (es, r) => (.ne es, r) }
  | .optNested L, 0 =>
    { enc := fun p => match p with | .on o => (optCdc f (leafEntriesCdc f L)).enc o | _ => []
      dec := fun bs => ((optCdc f (leafEntriesCdc f L)).dec bs).map fun (o, r) => (.on o, r) }
  | .optNested L, _ =>
    { enc := fun p => match p with | .full vs => (valsCdc f L.opts).enc vs | _ => []
      dec := fun bs => ((valsCdc f L.opts).dec bs).map fun (vs, r) => (.full vs, r) }
  | .ord, _ =>
    { enc := fun p => match p with | .sc s => encScript f s | _ => []
      dec := fun bs => (decScript f bs).map fun (s, r) => (.sc s, r) }
  | .uarr, _ =>
    { enc := fun p => match p with | .ua d => encUDiff f d | _ => []
      dec := fun bs => (decUDiff f bs).map fun (d, r) => (.ua d, r) }
  | .umap, _ =>
    { enc := fun p => match p with | .um d => encMDiff f d | _ => []
      dec := fun bs => (decMDiff f bs).map fun (d, r) => (.um d, r) }
  | .rmap L, _ =>
    { enc := fun p => match p with | .rm d => encRDiff f (valsCdc f L.opts) (leafEntriesCdc f L) d | _ => []
      dec := fun bs => (decRDiff f (valsCdc f L.opts) (leafEntriesCdc f L) bs).map fun (d, r) => (.rm d, r) }

/-- the borrowed form (`DiffRef`): flat payloads and nested entry lists are written identically, the collection diffs
through the borrowed encoders / tables -/
def plEncRef (f : Fmt) : FKind → Nat → PL → Bytes
  | .flat o, _, .pv p => (pvCdc f o).enc p
  | .nested L, _, .ne es => (leafEntriesCdc f L).enc es
  | .optNested L, 0, .on o => (optCdc f (leafEntriesCdc f L)).enc o
  | .optNested L, _ + 1, .full vs => (valsCdc f L.opts).enc vs
  | .ord, _, .sc s => encScriptRef f s
  | .uarr, _, .ua d => encUDiffRef f d
  | .umap, _, .um d => encMDiffRef f d
  | .rmap L, _, .rm d => encRDiffRef f (valsCdc f L.opts) (leafEntriesCdc f L) d
  | _, _, _ => []

end Codec
