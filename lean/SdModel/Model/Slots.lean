/-
Model of `src/collections/rope/slots.rs` : `ArrayMap<T, N>`, the fixed-capacity
slot array used as rope chunk.  Import-free (links into the driver).

`cells` is the backing array in PHYSICAL order, each cell `none` or
`some (logical index, value)`; `cnt` is the `usize` length field.
Every panicking path of the Rust code (`assert!`, `unwrap`, `expect`,
array index out of bounds) is `Except.error`.
-/
namespace Slots

abbrev Cell (α : Type) := Option (Nat × α)

structure AM (α : Type) where
  cells : List (Cell α)
  cnt : Nat
deriving Repr

variable {α : Type}

/-- `u8` cast of a `usize` position -/
def u8 (p : Nat) : Nat := p % 256

def new (N : Nat) : Except String (AM α) :=
  if N > 255 then .error "N > u8::MAX is unsupported" else .ok ⟨List.replicate N none, 0⟩

def pick (i : Nat) : Cell α → Option α
  | some (j, v) => if j = i then some v else none
  | none => none

/-- value stored under logical index `i` (first physical match), as `Index::index` searches -/
def getL (cs : List (Cell α)) (i : Nat) : Option α := cs.findSome? (pick i)

def bump (p : Nat) : Cell α → Cell α
  | some (j, v) => if j ≥ p then some (j+1, v) else some (j, v)
  | none => none

def putFirstEmpty (x : Nat × α) : List (Cell α) → List (Cell α)
  | [] => []
  | none :: t => some x :: t
  | some y :: t => some y :: putFirstEmpty x t

def hasFree : List (Cell α) → Bool
  | [] => false
  | none :: _ => true
  | some _ :: t => hasFree t

/-- `ArrayMap::insert` -/
def insert (s : AM α) (p : Nat) (v : α) : Except String (AM α) :=
  if ¬ p < s.cells.length then .error "position out of range"
  else if ¬ hasFree s.cells then .error "no space"
  else .ok ⟨putFirstEmpty (u8 p, v) (s.cells.map (bump p)), s.cnt + 1⟩

/-- take the first cell whose logical index is `i` -/
def takeFirst (i : Nat) : List (Cell α) → Option (α × List (Cell α))
  | [] => none
  | none :: t => (takeFirst i t).map fun (v, t') => (v, none :: t')
  | some (j, w) :: t =>
    if j = i then some (w, none :: t)
    else (takeFirst i t).map fun (v, t') => (v, some (j, w) :: t')

def lower (p : Nat) : Cell α → Cell α
  | some (j, v) => if j > p then some (j-1, v) else some (j, v)
  | none => none

/-- `ArrayMap::remove` -/
def remove (s : AM α) (p : Nat) : Except String (α × AM α) :=
  match takeFirst (u8 p) s.cells with
  | none => .error "no element at position"
  | some (v, cs) => .ok (v, ⟨cs.map (lower (u8 p)), s.cnt - 1⟩)

def posOf (i : Nat) : List (Cell α) → Option Nat
  | [] => none
  | none :: t => (posOf i t).map (· + 1)
  | some (j, _) :: t => if j = i then some 0 else (posOf i t).map (· + 1)

def setIdxAt : List (Cell α) → Nat → Nat → List (Cell α)
  | [], _, _ => []
  | none :: t, 0, _ => none :: t
  | some (_, v) :: t, 0, j => some (j, v) :: t
  | c :: t, k+1, j => c :: setIdxAt t k j

/-- `ArrayMap::swap` : exchange the logical indices of the two cells -/
def swap (s : AM α) (a b : Nat) : Except String (AM α) :=
  if a = b then .ok s else
  match posOf (u8 a) s.cells, posOf (u8 b) s.cells with
  | some pa, some pb =>
    if pa = pb then .error "split_at_mut index out of bounds"
    else .ok ⟨setIdxAt (setIdxAt s.cells pa (u8 b)) pb (u8 a), s.cnt⟩
  | _, _ => .error "unable to find item"

/-- a `RangeBounds<usize>` : inclusive lower bound, optional exclusive upper bound -/
structure Rng where
  lo : Nat
  hi : Option Nat
deriving Repr

def Rng.contains (r : Rng) (i : Nat) : Bool :=
  r.lo ≤ i && (match r.hi with | none => true | some h => i < h)

def inRange (r : Rng) : Cell α → Bool
  | some (j, _) => r.contains j
  | none => false

/-- insertion into a list sorted by logical index (stable) -/
def insSorted (x : Nat × α) : List (Nat × α) → List (Nat × α)
  | [] => [x]
  | y :: t => if x.1 ≤ y.1 then x :: y :: t else y :: insSorted x t

def sortByIdx : List (Nat × α) → List (Nat × α)
  | [] => []
  | x :: t => insSorted x (sortByIdx t)

def maxIdx : List (Nat × α) → Option Nat
  | [] => none
  | x :: t => match maxIdx t with
    | none => some x.1
    | some m => some (max x.1 m)

def lowerBy (mx n : Nat) : Cell α → Cell α
  | some (j, v) => if j > mx then some (j - n, v) else some (j, v)
  | none => none

/-- `FromIterator` : panics (array index) when more than `N` items arrive -/
def fromIter (N : Nat) (l : List α) : Except String (AM α) :=
  if N > 255 then .error "N > u8::MAX is unsupported"
  else if l.length > N then .error "index out of bounds"
  else .ok ⟨(l.zipIdx.map fun (v, i) => some (u8 i, v)) ++ List.replicate (N - l.length) none, l.length⟩

/-- `ArrayMap::drain(range)` : returns the drained values in logical order (the `Drain`
iterator is an owning iterator over a fresh `ArrayMap` built from them) and the remaining map -/
def drain (s : AM α) (r : Rng) : Except String (List α × AM α) :=
  let removed := s.cells.filterMap fun c => if inRange r c then c else none
  let kept := s.cells.map fun c => if inRange r c then none else c
  let n := removed.length
  let vals := (sortByIdx removed).map (·.2)
  let kept' := match maxIdx removed with
    | none => kept
    | some mx => kept.map (lowerBy mx (u8 n))
  if s.cells.length > 255 then .error "N > u8::MAX is unsupported"
  else .ok (vals, ⟨kept', s.cnt - n⟩)

/-- zip values into the free cells in physical order, numbering from `k` -/
def fillFree : List (Cell α) → List α → Nat → List (Cell α) × Nat
  | [], _, k => ([], k)
  | cs, [], k => (cs, k)
  | none :: t, v :: vs, k =>
    let r := fillFree t vs (k+1)
    (some (u8 k, v) :: r.1, r.2)
  | some c :: t, vs, k =>
    let r := fillFree t vs k
    (some c :: r.1, r.2)

/-- `ArrayMap::extend` : values beyond the free capacity are silently dropped -/
def extend (s : AM α) (vs : List α) : AM α :=
  let r := fillFree s.cells vs s.cnt
  ⟨r.1, r.2⟩

/-- `Index::index` -/
def index (s : AM α) (i : Nat) : Except String α :=
  match getL s.cells i with
  | some v => .ok v
  | none => .error "No element found at index"

/-- `IndexMut` assignment `s[i] = v` -/
def setL : List (Cell α) → Nat → α → Option (List (Cell α))
  | [], _, _ => none
  | none :: t, i, v => (setL t i v).map (none :: ·)
  | some (j, w) :: t, i, v =>
    if j = i then some (some (j, v) :: t) else (setL t i v).map (some (j, w) :: ·)

def set (s : AM α) (i : Nat) (v : α) : Except String (AM α) :=
  match setL s.cells i v with
  | some cs => .ok ⟨cs, s.cnt⟩
  | none => .error "unwrap on None"

/-! ### iteration -/

/-- insertion sort of `(storage, Option logical)` pairs by the logical key, `none` first -/
def keyLt : Option Nat → Option Nat → Bool
  | none, none => false
  | none, some _ => true
  | some _, none => false
  | some a, some b => a < b

def insLookup (x : Nat × Option Nat) : List (Nat × Option Nat) → List (Nat × Option Nat)
  | [] => [x]
  | y :: t => if keyLt x.2 y.2 then x :: y :: t else y :: insLookup x t

def sortLookup : List (Nat × Option Nat) → List (Nat × Option Nat)
  | [] => []
  | x :: t => insLookup x (sortLookup t)

/-- `get_lookups` : storage indices in logical order, padded with `none` -/
def getLookups (cs : List (Cell α)) : List (Option Nat) :=
  let tmp := sortLookup (cs.zipIdx.map fun (c, i) => (i, c.map (·.1)))
  let start := (tmp.findIdx? fun x => x.2.isSome).getD 0
  (List.range cs.length).map fun i => (tmp[start + i]?).map (·.1)

def cellVal (cs : List (Cell α)) (st : Nat) : Option α :=
  match cs[st]? with
  | some (some (_, v)) => some v
  | _ => none

/-- one `next` of the borrowed iterator at position `pos` -/
def iterAt (cs : List (Cell α)) (lk : List (Option Nat)) (pos : Nat) : Option α :=
  match lk[pos]? with
  | some (some st) => cellVal cs st
  | _ => none

def iterFrom (cs : List (Cell α)) (lk : List (Option Nat)) : Nat → Nat → List α
  | 0, _ => []
  | fuel+1, pos => match iterAt cs lk pos with
    | some v => v :: iterFrom cs lk fuel (pos+1)
    | none => []

/-- `(&map).into_iter().collect()` -/
def iter (s : AM α) : List α :=
  iterFrom s.cells (getLookups s.cells) (s.cells.length + 1) 0

/-- owning iterator state -/
structure OIter (α : Type) where
  cells : List (Cell α)
  lookups : List (Option Nat)
  pos : Nat
  revPos : Nat

def intoIter (s : AM α) : OIter α :=
  ⟨s.cells, getLookups s.cells, 0, s.cnt - 1⟩

def clearAt : List (Cell α) → Nat → List (Cell α)
  | [], _ => []
  | _ :: t, 0 => none :: t
  | c :: t, k+1 => c :: clearAt t k

def OIter.next (it : OIter α) : Option α × OIter α :=
  match it.lookups[it.pos]? with
  | some (some st) =>
    match cellVal it.cells st with
    | some v => (some v, { it with cells := clearAt it.cells st, pos := it.pos + 1 })
    | none => (none, it)
  | _ => (none, it)

/-- `next_back` after the `fix:` commit (`rev_pos` walks downwards, saturating at 0).
The parameter `legacy` selects the pre-fix behaviour (`rev_pos += 1`), kept so the
old defect stays reproducible (`Legacy`). -/
def OIter.nextBackG (legacy : Bool) (it : OIter α) : Option α × OIter α :=
  match it.lookups[it.revPos]? with
  | some (some st) =>
    match cellVal it.cells st with
    | some v => (some v, { it with cells := clearAt it.cells st,
                                   revPos := if legacy then it.revPos + 1 else it.revPos - 1 })
    | none => (none, it)
  | _ => (none, it)

def OIter.nextBack (it : OIter α) : Option α × OIter α := it.nextBackG false

/-- run a sequence of `next` (`false`) / `next_back` (`true`) calls -/
def OIter.run (legacy : Bool) : OIter α → List Bool → List (Option α)
  | _, [] => []
  | it, b :: bs =>
    let r := if b then it.nextBackG legacy else it.next
    r.1 :: OIter.run legacy r.2 bs

def OIter.drainFwd : Nat → OIter α → List α
  | 0, _ => []
  | fuel+1, it => match it.next with
    | (some v, it') => v :: OIter.drainFwd fuel it'
    | (none, _) => []

def OIter.drainBack (legacy : Bool) : Nat → OIter α → List α
  | 0, _ => []
  | fuel+1, it => match it.nextBackG legacy with
    | (some v, it') => v :: OIter.drainBack legacy fuel it'
    | (none, _) => []

/-- `map.into_iter().collect()` -/
def intoList (s : AM α) : List α := OIter.drainFwd (s.cells.length + 1) (intoIter s)
/-- `map.into_iter().rev().collect()` -/
def intoListRev (legacy : Bool) (s : AM α) : List α := OIter.drainBack legacy (s.cells.length + 1) (intoIter s)

/-! ### invariant and abstraction -/

def idxs (cs : List (Cell α)) : List Nat := cs.filterMap fun c => c.map (·.1)

/-- abstraction: the logical sequence -/
def abs (s : AM α) : List α := (List.range s.cnt).filterMap (getL s.cells)

def nodupNat : List Nat → Bool
  | [] => true
  | x :: t => !t.contains x && nodupNat t

/-- decidable invariant used by the driver to judge real layouts -/
def invB (N : Nat) (s : AM α) : Bool :=
  s.cells.length == N && N ≤ 255 && nodupNat (idxs s.cells) &&
  (idxs s.cells).length == s.cnt && (idxs s.cells).all (· < s.cnt)

end Slots
