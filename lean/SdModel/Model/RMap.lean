/-
Model of `src/collections/unordered_map_like_recursive.rs`, generic in the nested value type:
`Nested` packages what the code uses of `V : StructDiff + PartialEq + Clone`.  Import-free.
-/
namespace RMap

/-- the nested type's interface: `==`, `diff_ref` (already converted to the owned diff), `apply_mut` -/
structure Nested (ν δ : Type) where
  veq : ν → ν → Bool
  diff : ν → ν → δ
  applyMut : ν → δ → ν

variable {κ ν δ : Type} [DecidableEq κ]

/-- `UnorderedMapLikeRecursiveChangeOwned<K, V>` -/
inductive Change (κ ν δ : Type) where
  | insert (k : κ) (v : ν)
  | remove (k : κ)
  | change (k : κ) (d : δ)
deriving Repr, DecidableEq

inductive Diff (κ ν δ : Type) where
  | replace (l : List (κ × ν))
  | modify (es : List (Change κ ν δ))
deriving Repr, DecidableEq

abbrev KV (κ ν : Type) := List (κ × ν)

def kget : KV κ ν → κ → Option ν
  | [], _ => none
  | (k, v) :: t, x => if k = x then some v else kget t x

/-- `map.insert(k, v)` : overwrite or append -/
def kput : KV κ ν → κ → ν → KV κ ν
  | [], x, v => [(x, v)]
  | (k, w) :: t, x, v => if k = x then (k, v) :: t else (k, w) :: kput t x v

def kerase : KV κ ν → κ → Option ν × KV κ ν
  | [], _ => (none, [])
  | (k, w) :: t, x => if k = x then (some w, t) else
    let r := kerase t x
    (r.1, (k, w) :: r.2)

/-- `collect_into_key_eq_map` / `HashMap::from_iter` : last value wins -/
def collect (l : KV κ ν) : KV κ ν := l.foldl (fun m kv => kput m kv.1 kv.2) []

/-- walk `previous`, removing matched keys from `current` -/
def loopP (N : Nested ν δ) (keyOnly : Bool) : KV κ ν → KV κ ν → List (Change κ ν δ) × KV κ ν
  | [], cur => ([], cur)
  | (k, pv) :: prev, cur =>
    let e := kerase cur k
    let r := loopP N keyOnly prev e.2
    match e.1 with
    | none => (.remove k :: r.1, r.2)
    | some cv =>
      if !keyOnly && !(N.veq pv cv) then (.change k (N.diff pv cv) :: r.1, r.2)
      else r

/-- `unordered_hashcmp(previous, current, key_only)` -/
def hashcmp (N : Nested ν δ) (prev cur : KV κ ν) (keyOnly : Bool) : Option (Diff κ ν δ) :=
  let p := collect prev
  let c := collect cur
  if (c.length : Int) < (p.length : Int) - (c.length : Int) then some (.replace c)
  else
    let r := loopP N keyOnly p c
    let es := r.1 ++ r.2.map fun (k, v) => Change.insert k v
    if es.isEmpty then none else some (.modify es)

def kremove (m : KV κ ν) (k : κ) : KV κ ν := (kerase m k).2

def kmodify (m : KV κ ν) (k : κ) (f : ν → ν) : KV κ ν :=
  m.map fun (k', v) => if k' = k then (k', f v) else (k', v)

def remStep (m : KV κ ν) (e : Change κ ν δ) : KV κ ν := match e with | .remove k => kremove m k | _ => m
def chgStep (N : Nested ν δ) (m : KV κ ν) (e : Change κ ν δ) : KV κ ν :=
  match e with | .change k d => kmodify m k (fun v => N.applyMut v d) | _ => m
def insStep (m : KV κ ν) (e : Change κ ν δ) : KV κ ν := match e with | .insert k v => kput m k v | _ => m

/-- `apply_unordered_hashdiffs(list, diff)` : removals, then changes (on present keys), then inserts -/
def apply (N : Nested ν δ) (base : KV κ ν) : Diff κ ν δ → KV κ ν
  | .replace r => r
  | .modify es =>
    let m0 := collect base
    let m1 := es.foldl remStep m0
    let m2 := es.foldl (chgStep N) m1
    es.foldl insStep m2

end RMap
