/-
Model of what `#[derive(Difference)]` generates (derive/src/difference.rs) and of the `StructDiff` trait's
default methods (src/lib.rs).  The macro is a code generator: per unskipped field it selects one of eight
templates by (recurse?, collection_strategy?, is Option?) and splices the field into `diff`, `diff_ref`,
`apply_single`, `Into<Diff>` and (optionally) setter bodies.  Here each template is a combinator over a
universal value type; a type descriptor `Ty` is interpreted by structural recursion (`semTy`).
Import-free apart from the back-end models.
-/
import SdModel.Model.Script
import SdModel.Model.Lev
import SdModel.Model.UArr
import SdModel.Model.UMap
import SdModel.Model.RMap
import SdModel.Gen.Params

namespace Derive

/-! ### type descriptors, values, diff payloads -/

mutual
/-- a type deriving `Difference` -/
inductive Ty where
  | struct (fs : FieldTys)
  | enum                                   -- any enum: whole-value `Replace`
/-- fields in declaration order: (skip?, strategy) -/
inductive FieldTys where
  | nil
  | cons (skip : Bool) (k : Kind) (rest : FieldTys)
/-- the eight templates -/
inductive Kind where
  | plain                                  -- (false, None, _): any `PartialEq + Clone` type, incl. `Option<T>`
  | recurse (t : Ty)                       -- (true, None, false)
  | recurseOpt (t : Ty)                    -- (true, None, true)
  | ordered                                -- collection_strategy = "ordered_array_like"
  | unordArr                               -- "unordered_array_like"
  | map (keyOnly : Bool)                   -- "unordered_map_like" (+ map_equality)
  | recMap (keyOnly : Bool) (t : Ty)       -- recurse + "unordered_map_like"
end

mutual
/-- universal values (collection elements, keys and atoms are `Nat`: the code touches them only through
`==`, `Hash` and `Clone`) -/
inductive Val where
  | atom (n : Nat)
  | list (l : List Nat)
  | pairs (l : List (Nat × Nat))
  | strct (fs : Vals)
  | onone
  | osome (v : Val)
  | rmap (m : RMapV)
inductive Vals where
  | nil
  | cons (v : Val) (rest : Vals)
inductive RMapV where
  | nil
  | cons (k : Nat) (v : Val) (rest : RMapV)
end
deriving instance DecidableEq for Val, Vals, RMapV
deriving instance Repr for Ty, FieldTys, Kind
deriving instance Repr for Val, Vals, RMapV

def RMapV.toList : RMapV → List (Nat × Val)
  | .nil => []
  | .cons k v r => (k, v) :: r.toList

def RMapV.ofList : List (Nat × Val) → RMapV
  | [] => .nil
  | (k, v) :: r => .cons k v (RMapV.ofList r)

def Vals.toList : Vals → List Val
  | .nil => []
  | .cons v r => v :: r.toList

def Vals.ofList : List Val → Vals
  | [] => .nil
  | v :: r => .cons v (Vals.ofList r)

/-! ### the types' own `==`

Plain fields, enum payloads and nested values are compared with the user type's `PartialEq`, which need not be
identity: the model's atoms include two float-like codes, `negZero` (`-0.0`, `==` to `0`) and `nanCode` (`NaN`, `!=`
to everything including itself).  `veq` is the derived structural `==` over universal values.  Collection elements
and map keys (which need `Hash + Eq`) are ordinary atoms. -/

def negZero : Nat := 1000001
def nanCode : Nat := 999999
def canonAtom (n : Nat) : Nat := if n = negZero then 0 else n
/-- `==` on atoms: a partial equivalence relation (symmetric, transitive), reflexive except on `nanCode` -/
def eqAtom (a b : Nat) : Bool := a != nanCode && b != nanCode && canonAtom a == canonAtom b

mutual
/-- derived `PartialEq` -/
def veq : Val → Val → Bool
  | .atom a, .atom b => eqAtom a b
  | .list a, .list b => a == b
  | .pairs a, .pairs b => a == b
  | .strct a, .strct b => veqs a b
  | .onone, .onone => true
  | .osome a, .osome b => veq a b
  | .rmap a, .rmap b => veqm a b
  | _, _ => false
def veqs : Vals → Vals → Bool
  | .nil, .nil => true
  | .cons a as, .cons b bs => veq a b && veqs as bs
  | _, _ => false
def veqm : RMapV → RMapV → Bool
  | .nil, .nil => true
  | .cons k a as, .cons k' b bs => k == k' && veq a b && veqm as bs
  | _, _ => false
end

/-- one entry of a generated `Diff` enum: the variant's payload.  `nested` lists are `Vec<Inner::Diff>`. -/
inductive Payload where
  | val (v : Val)                                            -- plain field: the new value;  enum: `Replace(v)`
  | nested (es : List (Nat × Payload))                       -- `recurse`: `f(Vec<Inner::Diff>)`
  | optSome (es : List (Nat × Payload))                      -- `recurse` on `Option`: `f(Some(diffs))`
  | optNone                                                  --                         `f(None)`
  | full (v : Val)                                           --                         `f_full(v)`
  | script (s : List (Script.Change Nat))                    -- ordered_array_like
  | uarr (d : UArr.Diff Nat)                                 -- unordered_array_like
  | umap (d : UMap.Diff Nat Nat)                             -- unordered_map_like
  | rmap (d : RMap.Diff Nat Val (List (Nat × Payload)))      -- recursive map-like

abbrev Entry := Nat × Payload          -- (field position in the declaration, payload)
abbrev Entries := List Entry

/-! ### semantics of one type: the generated trait methods -/

/-- what the generated `impl StructDiff for T` does, as functions on universal values -/
structure TySem where
  diff : Val → Val → Entries                       -- `a.diff(&b)`
  diffRef : Val → Val → Entries                    -- `a.diff_ref(&b)` mapped through the generated `Into`
  applySingle : Val → Entry → Except String Val    -- `apply_single` (a panic of a back end propagates)

/-- `StructDiff::apply` : `for diff in diffs { self.apply_single(diff) }; self` -/
def TySem.apply (S : TySem) (x : Val) : Entries → Except String Val
  | [] => .ok x
  | e :: es => match S.applySingle x e with
    | .ok x' => S.apply x' es
    | .error m => .error m

/-- `apply_ref` : `self.clone().apply(diffs)` -/
def TySem.applyRef (S : TySem) (x : Val) (es : Entries) : Except String Val := S.apply x es

/-- `apply_mut` : `for diff in diffs { self.apply_single(diff) }` on `&mut self` -/
def TySem.applyMut (S : TySem) (x : Val) : Entries → Except String Val
  | [] => .ok x
  | e :: es => match S.applySingle x e with
    | .ok x' => S.applyMut x' es
    | .error m => .error m

/-- semantics of one field template -/
structure FieldSem where
  diff : Val → Val → Option Payload                -- the `diff` body fragment
  diffRef : Val → Val → Option Payload             -- the `diff_ref` body fragment, then the `Into` arm
  apply : Val → Payload → Except String Val        -- the `apply_single` arm(s) for this field
  setter : Val → Val → Option (Option Payload)     -- setter body: `none` = no setter is generated for this template
  setterKeeps : Val → Val → Bool                   -- the setter returns BEFORE assigning (`if self.f == value {return None}`)

abbrev Fields := List (Bool × FieldSem)            -- (skip?, template) in declaration order

def eqNat (a b : Nat) : Bool := a == b
def costs : Lev.Costs := ⟨Gen.deleteCost, Gen.replaceCost, Gen.insertCost⟩

/-! ### the templates -/

/-- (false, None, _) : `if self.f != updated.f { push(f(updated.f.clone())) }` / `self.f = v` -/
def plainField : FieldSem where
  diff a b := if veq a b then none else some (.val b)
  diffRef a b := if veq a b then none else some (.val b)
  apply _ p := match p with
    | .val v => .ok v
    | _ => .error "payload does not belong to this field"
  setter old v := some (if veq old v then none else some (.val v))
  setterKeeps old v := veq old v

/-- (true, None, false) : `if &self.f != &updated.f { push(f(self.f.diff(&updated.f))) }` / `self.f = self.f.apply_ref(d)` -/
def recurseField (S : TySem) : FieldSem where
  diff a b := if veq a b then none else some (.nested (S.diff a b))
  diffRef a b := if veq a b then none else some (.nested (S.diffRef a b))
  apply x p := match p with
    | .nested es => S.applyRef x es
    | _ => .error "payload does not belong to this field"
  setter old v := some (if veq old v then none else some (.nested (S.diff old v)))
  setterKeeps old v := veq old v

/-- (true, None, true) : `Option<Inner>` with `recurse` -/
def recurseOptField (S : TySem) : FieldSem where
  diff a b := match a, b with
    | .osome x, .osome y => if veq x y then none else some (.optSome (S.diff x y))
    | .osome _, .onone => some .optNone
    | .onone, .osome y => some (.full y)
    | _, _ => none
  diffRef a b := match a, b with
    | .osome x, .osome y => if veq x y then none else some (.optSome (S.diffRef x y))
    | .osome _, .onone => some .optNone
    | .onone, .osome y => some (.full y)
    | _, _ => none
  apply x p := match p with
    | .optSome es => match x with
      | .osome inner => match S.applyMut inner es with
        | .ok r => .ok (.osome r)
        | .error m => .error m
      | other => .ok other                        -- `if let Some(ref mut inner) = self.f { .. }`
    | .optNone => .ok .onone
    | .full v => .ok (.osome v)
    | _ => .error "payload does not belong to this field"
  setter old v := some (
    if veq old v then none else
    match old, v with
    | .osome x, .osome y => if veq x y then none else some (.optSome (S.diff x y))
    | .osome _, .onone => some .optNone
    | .onone, .osome y => some (.full y)
    | _, _ => none)
  setterKeeps old v := veq old v

def asList : Val → List Nat
  | .list l => l
  | _ => []

def asPairs : Val → List (Nat × Nat)
  | .pairs l => l
  | _ => []

def asRMap : Val → List (Nat × Val)
  | .rmap m => m.toList
  | _ => []

/-- ordered_array_like : `hirschberg(&updated.f, &self.f)` / `apply(d, take(&mut self.f)).collect()` -/
def orderedField : FieldSem where
  diff a b := (Lev.hirschberg eqNat costs Gen.levCutoff (asList b) (asList a)).map .script
  diffRef a b := (Lev.hirschberg eqNat costs Gen.levCutoff (asList b) (asList a)).map .script
  apply x p := match p with
    | .script s => match Script.apply Gen.ropeParams s (asList x) with
      | .ok l => .ok (.list l)
      | .error m => .error m
    | _ => .error "payload does not belong to this field"
  setter old v := some ((Lev.hirschberg eqNat costs Gen.levCutoff (asList v) (asList old)).map .script)
  setterKeeps _ _ := false

/-- unordered_array_like -/
def unordField : FieldSem where
  diff a b := (UArr.hashcmp Gen.fewMax (asList a) (asList b)).map .uarr
  diffRef a b := (UArr.hashcmp Gen.fewMax (asList a) (asList b)).map .uarr
  apply x p := match p with
    | .uarr d => .ok (.list (UArr.apply (asList x) d))
    | _ => .error "payload does not belong to this field"
  setter old v := some ((UArr.hashcmp Gen.fewMax (asList old) (asList v)).map .uarr)
  setterKeeps _ _ := false

/-- collecting `(k, v)` pairs back into a map container: one entry per key.  (`apply_unordered_hashdiffs` yields every
pair `count` times; on a base that is not the one the diff was computed from a count can exceed 1; the copies are
identical, so keeping the first is what `FromIterator` for `HashMap` / `BTreeMap` gives) -/
def dedupKeysAux (seen : List Nat) : List (Nat × Nat) → List (Nat × Nat)
  | [] => []
  | (k, v) :: t => if seen.contains k then dedupKeysAux seen t else (k, v) :: dedupKeysAux (k :: seen) t

def dedupKeys (l : List (Nat × Nat)) : List (Nat × Nat) := dedupKeysAux [] l

/-- unordered_map_like (flat), `keyOnly` = `map_equality = "key_only"` -/
def mapField (keyOnly : Bool) : FieldSem where
  diff a b := (UMap.hashcmp (asPairs a) (asPairs b) keyOnly).map .umap
  diffRef a b := (UMap.hashcmp (asPairs a) (asPairs b) keyOnly).map .umap
  apply x p := match p with
    | .umap d => .ok (.pairs (dedupKeys (UMap.apply (asPairs x) d)))
    | _ => .error "payload does not belong to this field"
  setter old v := some ((UMap.hashcmp (asPairs old) (asPairs v) keyOnly).map .umap)
  setterKeeps _ _ := false

/-- total version of the nested `apply_mut` used inside the recursive map (a nested panic is recorded) -/
def nestedOf (S : TySem) : RMap.Nested Val (List (Nat × Payload)) where
  veq a b := veq a b
  diff a b := S.diffRef a b
  applyMut v d := match S.applyMut v d with
    | .ok r => r
    | .error _ => v

/-- would the nested `apply_mut` calls performed by `RMap.apply` panic? -/
def rmapPanics (S : TySem) (m : List (Nat × Val)) : RMap.Diff Nat Val (List (Nat × Payload)) → Bool
  | .replace _ => false
  | .modify es =>
    let m0 := RMap.collect m
    let m1 := es.foldl RMap.remStep m0
    es.any fun e => match e with
      | .change k d => match RMap.kget m1 k with
        | some v => match S.applyMut v d with | .ok _ => false | .error _ => true
        | none => false
      | _ => false

/-- recurse + unordered_map_like; a setter exists only in key-only mode -/
def recMapField (keyOnly : Bool) (S : TySem) : FieldSem where
  diff a b := (RMap.hashcmp (nestedOf S) (asRMap a) (asRMap b) keyOnly).map .rmap
  diffRef a b := (RMap.hashcmp (nestedOf S) (asRMap a) (asRMap b) keyOnly).map .rmap
  apply x p := match p with
    | .rmap d =>
      if rmapPanics S (asRMap x) d then .error "nested apply_mut panicked"
      else .ok (.rmap (RMapV.ofList (RMap.apply (nestedOf S) (asRMap x) d)))
    | _ => .error "payload does not belong to this field"
  setter old v := if keyOnly then some ((RMap.hashcmp (nestedOf S) (asRMap old) (asRMap v) true).map .rmap) else none
  setterKeeps _ _ := false

/-! ### a struct: the generated `diff`, `diff_ref`, `apply_single` -/

/-- generated `diff` / `diff_ref`: one entry per unskipped changed field, declaration order; `i` = field position -/
def sdiffG (sel : FieldSem → Val → Val → Option Payload) : Fields → Nat → Vals → Vals → Entries
  | (skip, F) :: fs, i, .cons a as, .cons b bs =>
    let tl := sdiffG sel fs (i + 1) as bs
    if skip then tl else
    match sel F a b with
    | some p => (i, p) :: tl
    | none => tl
  | _, _, _, _ => []

/-- generated `apply_single`: exactly one arm per unskipped field (arms for skipped fields do not exist) -/
def sapplyOne : Fields → Nat → Entry → Vals → Except String Vals
  | (skip, F) :: fs, i, (j, p), .cons v vs =>
    if i = j then
      (if skip then .error "no such variant" else
        match F.apply v p with
        | .ok v' => .ok (.cons v' vs)
        | .error m => .error m)
    else match sapplyOne fs (i + 1) (j, p) vs with
      | .ok vs' => .ok (.cons v vs')
      | .error m => .error m
  | _, _, _, _ => .error "no such variant"

def structSem (fs : Fields) : TySem where
  diff a b := match a, b with
    | .strct x, .strct y => sdiffG (·.diff) fs 0 x y
    | _, _ => []
  diffRef a b := match a, b with
    | .strct x, .strct y => sdiffG (·.diffRef) fs 0 x y
    | _, _ => []
  applySingle x e := match x with
    | .strct vs => match sapplyOne fs 0 e vs with
      | .ok vs' => .ok (.strct vs')
      | .error m => .error m
    | _ => .error "not a struct value"

/-- an enum: `if self == updated { vec![] } else { vec![Replace(updated.clone())] }` / `*self = variant` -/
def enumSem : TySem where
  diff a b := if veq a b then [] else [(0, .val b)]
  diffRef a b := if veq a b then [] else [(0, .val b)]
  applySingle _ e := match e with
    | (0, .val v) => .ok v
    | _ => .error "no such variant"

mutual
/-- interpretation of a type descriptor -/
def semTy : Ty → TySem
  | .struct fs => structSem (semFields fs)
  | .enum => enumSem
def semFields : FieldTys → Fields
  | .nil => []
  | .cons skip k rest => (skip, semKind k) :: semFields rest
def semKind : Kind → FieldSem
  | .plain => plainField
  | .recurse t => recurseField (semTy t)
  | .recurseOpt t => recurseOptField (semTy t)
  | .ordered => orderedField
  | .unordArr => unordField
  | .map ko => mapField ko
  | .recMap ko t => recMapField ko (semTy t)
end

/-! ### setters -/

def fieldAt : Fields → Nat → Option (Bool × FieldSem)
  | [], _ => none
  | f :: _, 0 => some f
  | _ :: fs, i+1 => fieldAt fs i

def valAt : Vals → Nat → Option Val
  | .nil, _ => none
  | .cons v _, 0 => some v
  | .cons _ vs, i+1 => valAt vs i

def setAt : Vals → Nat → Val → Vals
  | .nil, _, _ => .nil
  | .cons _ vs, 0, w => .cons w vs
  | .cons v vs, i+1, w => .cons v (setAt vs i w)

/-- calling the generated setter of field `i` with `value` : (returned `Option<Diff>`, new receiver).
Plain and nested setters compare first and return before assigning when the old value is `==` to the given one.
`none` when no setter exists for that field's template / the field is skipped. -/
def setterCall (fs : Fields) (x : Val) (i : Nat) (value : Val) : Option (Option Entry × Val) :=
  match x, fieldAt fs i with
  | .strct vs, some (false, F) =>
    match valAt vs i with
    | some old =>
      match F.setter old value with
      | some ret => some (ret.map (fun p => (i, p)), .strct (setAt vs i (if F.setterKeeps old value then old else value)))
      | none => none
    | none => none
  | _, _ => none

end Derive
