/-
Cost model for C18: the peak number of simultaneously live table cells (`ChangeInternal` values) during
`hirschberg_impl`, following the code's allocation discipline:
* `create_last_change_row` allocates two rows of `source_len + 1` cells and returns one; the `left` row is
  alive while `right` is computed (three rows), and both are consumed before the recursive calls;
* a full table exists only inside `levenshtein_impl`, i.e. in the base case taken when
  `min(target_len, source_len) <= LEVENSHTEIN_CUTOFF`, and is dropped before that call returns;
* scripts (the result) are accounted for separately.
The recursion is the one of `Lev.hirschImpl` (same split points).  Import-free apart from the Lev model.
-/
import SdModel.Model.Lev

namespace Cost
open Lev
variable {α : Type}

def hirschCost (eq : α → α → Bool) (C : Costs) (cutoff : Nat) (t s : List α) (ts te ss se : Nat) : Nat :=
  if ts = te ∧ ss = se then 0
  else if ts = te then 0
  else if ss = se then 0
  else if min (te - ts) (se - ss) ≤ cutoff ∨ te - ts < 2 then (te - ts + 1) * (se - ss + 1)
  else
    let tsplit := ts + (te - ts) / 2
    let left := lastRowFwd eq C (seg t ts tsplit) (seg s ss se)
    let right := lastRowRev eq C (seg t tsplit te) (seg s ss se)
    let ssplit := ss + min (splitOffset left right) (se - ss)
    max (3 * (se - ss + 1))
      (max (hirschCost eq C cutoff t s ts tsplit ss ssplit) (hirschCost eq C cutoff t s tsplit te ssplit se))
termination_by te - ts
decreasing_by all_goals (simp_wf; omega)

/-- the full-table entry point `levenshtein` allocates the whole table -/
def levCost (n m : Nat) : Nat := (n + 1) * (m + 1)

end Cost
