/-
Model of `src/collections/ordered_array_like.rs` : the full-table Levenshtein algorithm, the
two-row "last row" variants, and the divide-and-conquer (Hirschberg) driver.  Only the forward-index
paths are modelled (the reversed-index branches of `changelist_from_change_table` and three of the
four `create_full_change_table` call shapes are unreachable from both public entry points).
Element equality is an arbitrary Boolean relation `eq` (no laws).  Import-free apart from Script.
-/
import SdModel.Model.Script

namespace Lev
open Script

variable {α : Type}

inductive Tag | noop | rep | ins | del
deriving DecidableEq, Repr

/-- `ChangeInternal` : tag + accumulated cost -/
structure Cell where
  tag : Tag
  cost : Nat
deriving Repr

/-- DELETE_COST, REPLACE_COST, INSERT_COST -/
structure Costs where
  D : Nat
  R : Nat
  I : Nat
deriving Repr

/-- one table cell from its three neighbours, with the code's tie-breaking (replace, then delete, then insert) -/
def mkCell (eq : α → α → Bool) (C : Costs) (x y : α) (diag up left : Cell) : Cell :=
  if eq x y then ⟨.noop, diag.cost⟩
  else
    let ins := up.cost        -- table[t-1][s]
    let del := left.cost      -- table[t][s-1]
    let rep := diag.cost      -- table[t-1][s-1]
    let m := min (min ins del) rep
    if m = rep then ⟨.rep, m + C.R⟩ else if m = del then ⟨.del, m + C.D⟩ else ⟨.ins, m + C.I⟩

/-- the type of a cell rule: element equality, costs, the two elements, then the diagonal / upper / left neighbours -/
abbrev CellRule (α : Type) := (α → α → Bool) → Costs → α → α → Cell → Cell → Cell → Cell

/-- the scan computing the cells `1..` of a row from the previous row, for a given cell rule -/
def scanRowG (mk : CellRule α) (eq : α → α → Bool) (C : Costs) (x : α) : Cell → Cell → List Cell → List α → List Cell
  | diag, left, up :: ups, y :: ys =>
    let c := mk eq C x y diag up left
    c :: scanRowG mk eq C x up c ups ys
  | _, _, _, _ => []

/-- row 0 : `Delete(j * DELETE_COST)` -/
def row0 (C : Costs) (s : List α) : List Cell := (List.range (s.length + 1)).map fun j => ⟨.del, j * C.D⟩

/-- the next row for target element `x` (cell 0 is `Insert(prev[0] + INSERT_COST)`) -/
def nextRowG (mk : CellRule α) (eq : α → α → Bool) (C : Costs) (x : α) (prev : List Cell) (s : List α) : List Cell :=
  match prev with
  | [] => []
  | p0 :: ps =>
    let c0 : Cell := ⟨.ins, p0.cost + C.I⟩
    c0 :: scanRowG mk eq C x p0 c0 ps s

/-- the row reached after processing the target elements `tr.reverse` (`tr` = reversed processed prefix) -/
def rowOfG (mk : CellRule α) (eq : α → α → Bool) (C : Costs) (s : List α) : List α → List Cell
  | [] => row0 C s
  | x :: tr => nextRowG mk eq C x (rowOfG mk eq C s tr) s

/-- the full-table rule -/
def scanRow (eq : α → α → Bool) (C : Costs) (x : α) := scanRowG mkCell eq C x
def nextRow (eq : α → α → Bool) (C : Costs) (x : α) (prev : List Cell) (s : List α) : List Cell := nextRowG mkCell eq C x prev s
def rowOf (eq : α → α → Bool) (C : Costs) (s : List α) (tr : List α) : List Cell := rowOfG mkCell eq C s tr

/-- `create_full_change_table` : all rows, row `i` for the target prefix of length `i` -/
def tableRows (eq : α → α → Bool) (C : Costs) (s : List α) : List α → List Cell → List (List Cell)
  | [], row => [row]
  | x :: t, row => row :: tableRows eq C s t (nextRow eq C x row s)

def fullTable (eq : α → α → Bool) (C : Costs) (t s : List α) : List (List Cell) :=
  tableRows eq C s t (row0 C s)

def lookup (table : List (List Cell)) (i j : Nat) : Cell :=
  match table[i]? with
  | some row => (row[j]?).getD ⟨.noop, 0⟩
  | none => ⟨.noop, 0⟩

/-- the two tail loops of `changelist_from_change_table` -/
def tail (ss : Nat) : List α → List α → List (Change α)
  | x :: tr, [] => .insert x ss :: tail ss tr []
  | [], _ :: sr => [.delete ss (some (ss + sr.length))]
  | _, _ => []

/-- the backtracking loop; `tr`, `sr` are the reversed prefixes still to be explained
(`target_pos = tr.length`, `source_pos = sr.length`), `n` = `changelist.len()` -/
def bt (table : List (List Cell)) (total ss : Nat) : List α → List α → Nat → List (Change α)
  | x :: tr, y :: sr, n =>
    match (lookup table (tr.length + 1) (sr.length + 1)).tag with
    | .noop => if n = total then [] else bt table total ss tr sr n
    | .rep => .replace x (ss + sr.length) :: (if n + 1 = total then [] else bt table total ss tr sr (n + 1))
    | .ins => .insert x (ss + sr.length + 1) :: (if n + 1 = total then [] else bt table total ss tr (y :: sr) (n + 1))
    | .del => .delete (ss + sr.length) none :: (if n + 1 = total then [] else bt table total ss (x :: tr) sr (n + 1))
  | [], sr, _ => tail ss [] sr
  | tr, [], _ => tail ss tr []
termination_by tr sr _ => tr.length + sr.length

def seg (l : List α) (a b : Nat) : List α := (l.drop a).take (b - a)

/-- `levenshtein_impl` on the segment `t[ts..te]`, `s[ss..se]` (forward indices) : in application order -/
def levImpl (eq : α → α → Bool) (C : Costs) (t s : List α) (ts te ss se : Nat) : List (Change α) :=
  let tseg := seg t ts te
  let sseg := seg s ss se
  let table := fullTable eq C tseg sseg
  let total := (lookup table tseg.length sseg.length).cost
  bt table total ss tseg.reverse sseg.reverse 0

/-- the cell rule of `create_last_change_row`: there the code reads `insert` from the cell to the LEFT
(`table[1][prev]`) and `delete` from the cell ABOVE (`table[0][curr]`) — the roles are exchanged with respect
to `create_full_change_table`. Only the choice of the split point depends on it. -/
def mkCellLR (eq : α → α → Bool) (C : Costs) (x y : α) (diag up left : Cell) : Cell :=
  if eq x y then ⟨.noop, diag.cost⟩
  else
    let ins := left.cost      -- table[1][prev]
    let del := up.cost        -- table[0][curr]
    let rep := diag.cost      -- table[0][prev]
    let m := min (min ins del) rep
    if m = rep then ⟨.rep, m + C.R⟩ else if m = del then ⟨.del, m + C.D⟩ else ⟨.ins, m + C.I⟩

def rowOfLR (eq : α → α → Bool) (C : Costs) (s : List α) (tr : List α) : List Cell := rowOfG mkCellLR eq C s tr

/-- `create_last_change_row`, forward variant : last row for the segments -/
def lastRowFwd (eq : α → α → Bool) (C : Costs) (tseg sseg : List α) : List Cell := rowOfLR eq C sseg tseg.reverse
/-- reversed variant : both segments are traversed from the back -/
def lastRowRev (eq : α → α → Bool) (C : Costs) (tseg sseg : List α) : List Cell := rowOfLR eq C sseg.reverse tseg

/-- index of the first minimum (`min_by_key` returns the first of equal minima) -/
def argminAux : List Nat → Nat → Nat → Nat → Nat
  | [], _, _, besti => besti
  | v :: vs, i, best, besti => if v < best then argminAux vs (i+1) v i else argminAux vs (i+1) best besti

def argmin : List Nat → Nat
  | [] => 0
  | v :: vs => argminAux vs 1 v 0

def splitOffset (left right : List Cell) : Nat :=
  argmin ((left.zip right.reverse).map fun (l, r) => l.cost + r.cost)

/-- `hirschberg_impl` : returns the changes in the REVERSE of application order, as the code does -/
def hirschImpl (eq : α → α → Bool) (C : Costs) (cutoff : Nat) (t s : List α) (ts te ss se : Nat) : List (Change α) :=
  if ts = te ∧ ss = se then []
  else if ts = te then [.delete ss (some (se - 1))]
  else if ss = se then (((seg t ts te).zipIdx).map fun (v, i) => Change.insert v (se + i)).reverse
  else if min (te - ts) (se - ss) ≤ cutoff ∨ te - ts < 2 then (levImpl eq C t s ts te ss se).reverse
  else
    let tsplit := ts + (te - ts) / 2
    let left := lastRowFwd eq C (seg t ts tsplit) (seg s ss se)
    let right := lastRowRev eq C (seg t tsplit te) (seg s ss se)
    let ssplit := ss + min (splitOffset left right) (se - ss)
    hirschImpl eq C cutoff t s ts tsplit ss ssplit ++ hirschImpl eq C cutoff t s tsplit te ssplit se
termination_by te - ts
decreasing_by all_goals (simp_wf; omega)

/-- public `hirschberg(target, source)` -/
def hirschberg (eq : α → α → Bool) (C : Costs) (cutoff : Nat) (t s : List α) : Option (List (Change α)) :=
  match hirschImpl eq C cutoff t s 0 t.length 0 s.length with
  | [] => none
  | l => some l.reverse

/-- public `levenshtein(target, source)` -/
def levenshtein (eq : α → α → Bool) (C : Costs) (t s : List α) : Option (List (Change α)) :=
  match levImpl eq C t s 0 t.length 0 s.length with
  | [] => none
  | l => some l

end Lev
